(* C02 — proofs about the character-level base64url model (C02/Text.v): every single-character replacement,
   insertion or deletion in a canonical base64url segment changes the decoded bytes, is undecodable, or is one of the
   two characterised lenient preimages (unused low bits of the last symbol of a 2-/3-symbol tail; CR/LF anywhere). *)
From Coq Require Import List NArith ZArith Bool Lia ZifyN ZifyNat ZifyBool Arith.
Import ListNotations.
From VF Require Import common.Base64 C02.Text.
Local Open Scope N_scope.
Ltac Zify.zify_post_hook ::= Z.div_mod_to_equations.

Ltac inv_forall := repeat match goal with H : Forall _ (_ :: _) |- _ => inversion H; clear H; subst end.

(* ---------- sextet level ---------- *)
Lemma dec4 a b c d r : decode false (a :: b :: c :: d :: r) =
  match decode false r with
  | Some t => Some ((a * 4 + b / 16) :: ((b mod 16) * 16 + c / 4) :: ((c mod 4) * 64 + d) :: t)
  | None => None
  end.
Proof. destruct r as [|e r]; [reflexivity|]. cbn [decode]. reflexivity. Qed.

Fixpoint blen (n : nat) : nat :=
  match n with S (S (S (S m))) => 3 + blen m | 3%nat => 2%nat | 2%nat => 1%nat | _ => 0%nat end.

Lemma decode_len : forall ss bs, decode false ss = Some bs ->
  length bs = blen (length ss) /\ tailpos (length ss) <> 1%nat.
Proof.
  fix IH 1. intros [|a [|b [|c [|d r]]]] bs H.
  - clear IH. inversion H. cbn. split; [reflexivity|lia].
  - discriminate.
  - clear IH. cbn in H. inversion H. cbn. split; [reflexivity|lia].
  - clear IH. cbn in H. inversion H. cbn. split; [reflexivity|lia].
  - rewrite dec4 in H. destruct (decode false r) as [t|] eqn:E; [|discriminate]. inversion H; subst.
    destruct (IH r t E) as [L T]. cbn [length blen tailpos]. split; [rewrite L; reflexivity|exact T].
Qed.

Lemma blen_succ : forall n, tailpos n <> 1%nat -> tailpos (S n) <> 1%nat -> blen (S n) <> blen n.
Proof.
  fix IH 1. intros [|[|[|[|n]]]] H1 H2; cbn in *; try (clear IH; lia).
  specialize (IH n H1 H2). clear - IH. lia.
Qed.

(* a list one symbol longer never decodes to the same bytes *)
Lemma decode_longer ss ss' bs bs' :
  decode false ss = Some bs -> decode false ss' = Some bs' -> length ss' = S (length ss) -> bs' <> bs.
Proof.
  intros H H' L E. subst bs'. destruct (decode_len _ _ H) as [A B]. destruct (decode_len _ _ H') as [A' B'].
  rewrite L in A', B'. apply (blen_succ _ B B'). congruence.
Qed.

(* replacing one symbol: the bytes stay the same only in the tail positions, when the used bits agree *)
Lemma replace_inj : forall pre x x' post bs,
  Forall sext_ok (pre ++ x :: post) -> sext_ok x' -> x <> x' ->
  decode false (pre ++ x :: post) = Some bs -> decode false (pre ++ x' :: post) = Some bs ->
  post = [] /\ ((tailpos (length pre) = 1%nat /\ x / 16 = x' / 16) \/ (tailpos (length pre) = 2%nat /\ x / 4 = x' / 4)).
Proof.
  fix IH 1. intros [|a [|b [|c [|d pre]]]] x x' post bs HF Hx' Hne H1 H2; cbn [app] in *.
  - clear IH. destruct post as [|p1 [|p2 [|p3 r]]]; inv_forall; unfold sext_ok in *.
    + discriminate.
    + cbn in H1, H2. exfalso. inversion H1; subst. inversion H2. lia.
    + cbn in H1, H2. exfalso. inversion H1; subst. inversion H2. lia.
    + rewrite dec4 in H1, H2. exfalso. destruct (decode false r); [|discriminate]. inversion H1; subst. inversion H2. lia.
  - clear IH. destruct post as [|p1 [|p2 r]]; inv_forall; unfold sext_ok in *.
    + cbn in H1, H2. split; [reflexivity|]. left. split; [reflexivity|]. inversion H1; subst. inversion H2. lia.
    + cbn in H1, H2. exfalso. inversion H1; subst. inversion H2. lia.
    + rewrite dec4 in H1, H2. exfalso. destruct (decode false r); [|discriminate]. inversion H1; subst. inversion H2. lia.
  - clear IH. destruct post as [|p1 r]; inv_forall; unfold sext_ok in *.
    + cbn in H1, H2. split; [reflexivity|]. right. split; [reflexivity|]. inversion H1; subst. inversion H2. lia.
    + rewrite dec4 in H1, H2. exfalso. destruct (decode false r); [|discriminate]. inversion H1; subst. inversion H2. lia.
  - clear IH. inv_forall; unfold sext_ok in *. rewrite dec4 in H1, H2. exfalso.
    destruct (decode false post); [|discriminate]. inversion H1; subst. inversion H2. lia.
  - rewrite dec4 in H1, H2.
    destruct (decode false (pre ++ x :: post)) as [t|] eqn:E1; [|discriminate].
    destruct (decode false (pre ++ x' :: post)) as [t'|] eqn:E2; [|discriminate].
    inversion H1; subst. inversion H2; subst. inv_forall.
    cbn [length tailpos]. eapply IH; eassumption.
Qed.

Lemma lenient_same : forall pre x x',
  (tailpos (length pre) = 1%nat /\ x / 16 = x' / 16) \/ (tailpos (length pre) = 2%nat /\ x / 4 = x' / 4) ->
  decode false (pre ++ [x]) = decode false (pre ++ [x']).
Proof.
  fix IH 1. intros [|a [|b [|c [|d pre]]]] x x' H; cbn [app length tailpos] in *.
  - clear IH. exfalso. destruct H as [[H _]|[H _]]; discriminate.
  - clear IH. destruct H as [[_ H]|[H _]]; [|discriminate]. cbn. rewrite H. reflexivity.
  - clear IH. destruct H as [[H _]|[_ H]]; [discriminate|]. cbn. rewrite H. reflexivity.
  - clear IH. exfalso. destruct H as [[H _]|[H _]]; discriminate.
  - rewrite !dec4. rewrite (IH pre x x' H). reflexivity.
Qed.

(* ---------- character level ---------- *)
Definition all64 : list N := map N.of_nat (seq 0 64).
Lemma in_all64 s : s < 64 -> In s all64.
Proof. intros H. apply in_map_iff. exists (N.to_nat s). split; [lia|]. apply in_seq. lia. Qed.

Lemma sext_char s : s < 64 -> sext_of_char (char_of_sext s) = Some s.
Proof.
  intros H.
  assert (A : forallb (fun s => match sext_of_char (char_of_sext s) with Some t => t =? s | None => false end) all64 = true)
    by (vm_compute; reflexivity).
  rewrite forallb_forall in A. specialize (A s (in_all64 s H)).
  destruct (sext_of_char (char_of_sext s)); [|discriminate]. apply N.eqb_eq in A. subst. reflexivity.
Qed.
Lemma char_not_nl s : s < 64 -> is_nl (char_of_sext s) = false.
Proof.
  intros H.
  assert (A : forallb (fun s => negb (is_nl (char_of_sext s))) all64 = true) by (vm_compute; reflexivity).
  rewrite forallb_forall in A. specialize (A s (in_all64 s H)). destruct (is_nl (char_of_sext s)); [discriminate|reflexivity].
Qed.

Lemma sext_of_char_inv c x : sext_of_char c = Some x -> x < 64 /\ c = char_of_sext x.
Proof.
  unfold sext_of_char.
  destruct (N.leb_spec 65 c), (N.leb_spec c 90); cbn [andb];
    try (intros E; inversion E; subst; unfold char_of_sext;
         repeat match goal with
                | |- context [?a <? ?b] => destruct (N.ltb_spec a b)
                | |- context [?a =? ?b] => destruct (N.eqb_spec a b)
                end; lia).
  all: destruct (N.leb_spec 97 c), (N.leb_spec c 122); cbn [andb];
    try (intros E; inversion E; subst; unfold char_of_sext;
         repeat match goal with
                | |- context [?a <? ?b] => destruct (N.ltb_spec a b)
                | |- context [?a =? ?b] => destruct (N.eqb_spec a b)
                end; lia).
  all: destruct (N.leb_spec 48 c), (N.leb_spec c 57); cbn [andb];
    try (intros E; inversion E; subst; unfold char_of_sext;
         repeat match goal with
                | |- context [?a <? ?b] => destruct (N.ltb_spec a b)
                | |- context [?a =? ?b] => destruct (N.eqb_spec a b)
                end; lia).
  all: destruct (N.eqb_spec c 45); [intros E; inversion E; subst; vm_compute; split; reflexivity|];
       destruct (N.eqb_spec c 95); [intros E; inversion E; subst; vm_compute; split; reflexivity|discriminate].
Qed.

Lemma nl_not_sext c : is_nl c = true -> sext_of_char c = None.
Proof.
  unfold is_nl. intros H. apply orb_true_iff in H as [H|H]; apply N.eqb_eq in H; subst; reflexivity.
Qed.

Lemma sextets_app a : forall b,
  sextets (a ++ b) = match sextets a, sextets b with Some x, Some y => Some (x ++ y) | _, _ => None end.
Proof.
  induction a as [|c a IH]; intros b; cbn [app sextets].
  - destruct (sextets b); reflexivity.
  - rewrite IH. destruct (sext_of_char c), (sextets a), (sextets b); reflexivity.
Qed.

Lemma sextets_enc ss : Forall sext_ok ss -> sextets (map char_of_sext ss) = Some ss.
Proof.
  induction 1 as [|s ss Hs _ IH]; [reflexivity|]. cbn [map sextets]. rewrite (sext_char s Hs), IH. reflexivity.
Qed.
Lemma strip_nl_enc ss : Forall sext_ok ss -> strip_nl (map char_of_sext ss) = map char_of_sext ss.
Proof.
  induction 1 as [|s ss Hs _ IH]; [reflexivity|]. unfold strip_nl in *. cbn [map filter].
  rewrite (char_not_nl s Hs). cbn [negb]. rewrite IH. reflexivity.
Qed.
Lemma strip_nl_app a b : strip_nl (a ++ b) = strip_nl a ++ strip_nl b.
Proof. apply filter_app. Qed.

Lemma decode_raw_encode bs : Forall byte_ok bs -> decode_raw (encode_raw bs) = Some bs.
Proof.
  intros H. unfold decode_raw, encode_raw. pose proof (encode_sext bs H) as S.
  rewrite (strip_nl_enc _ S), (sextets_enc _ S). apply decode_encode. exact H.
Qed.

(* splitting the canonical encoding at a character *)
Lemma enc_split bs pre post : Forall byte_ok bs -> encode_raw bs = pre ++ post ->
  exists spre spost, encode bs = spre ++ spost /\ pre = map char_of_sext spre /\ post = map char_of_sext spost /\
                     Forall sext_ok spre /\ Forall sext_ok spost.
Proof.
  intros H E. unfold encode_raw in E. apply map_eq_app in E as [spre [spost [E [A B]]]].
  exists spre, spost. pose proof (encode_sext bs H) as S. rewrite E in S. apply Forall_app in S as [S1 S2].
  repeat split; auto.
Qed.

(* the lenient preimages of a replacement: last symbol of a 2- or 3-symbol tail, used bits equal *)
Definition lenient_tail (pre : list N) (c : N) (post : list N) (c' : N) : Prop :=
  post = [] /\ exists x x', sext_of_char c = Some x /\ sext_of_char c' = Some x' /\
    ((tailpos (length pre) = 1%nat /\ x / 16 = x' / 16) \/ (tailpos (length pre) = 2%nat /\ x / 4 = x' / 4)).

Theorem replace_classification_lemma : forall bs pre c post c',
  Forall byte_ok bs -> encode_raw bs = pre ++ c :: post -> c' <> c ->
  (decode_raw (pre ++ c' :: post) = Some bs <-> lenient_tail pre c post c').
Proof.
  intros bs pre c post c' H E Hne.
  destruct (enc_split bs pre (c :: post) H E) as [spre [sp2 [Es [Epre [Ep2 [Fpre Fp2]]]]]].
  symmetry in Ep2. apply map_eq_cons in Ep2 as [x [spost [-> [Ec Epost]]]]. inversion Fp2 as [|? ? Hx Fpost]; subst.
  assert (Dec : decode false (spre ++ x :: spost) = Some bs) by (rewrite <- Es; apply decode_encode; exact H).
  unfold decode_raw, lenient_tail. rewrite map_length. rewrite strip_nl_app. rewrite (strip_nl_enc _ Fpre).
  change (strip_nl (c' :: map char_of_sext spost)) with
    (if negb (is_nl c') then c' :: strip_nl (map char_of_sext spost) else strip_nl (map char_of_sext spost)).
  rewrite (strip_nl_enc _ Fpost).
  destruct (is_nl c') eqn:NL; cbn [negb].
  - (* a skipped character: one symbol less *)
    rewrite sextets_app, (sextets_enc _ Fpre), (sextets_enc _ Fpost).
    split.
    + intros D'. exfalso. apply (decode_longer _ _ _ _ D' Dec); [|reflexivity]. rewrite !app_length. cbn. lia.
    + intros [_ [y [y' [_ [Hy' _]]]]]. rewrite (nl_not_sext _ NL) in Hy'. discriminate.
  - rewrite sextets_app, (sextets_enc _ Fpre). cbn [sextets]. rewrite (sextets_enc _ Fpost).
    destruct (sext_of_char c') as [x'|] eqn:Sc'.
    2:{ split; [discriminate|]. intros [_ [y [y' [_ [Hy' _]]]]]. discriminate. }
    destruct (sext_of_char_inv _ _ Sc') as [Hx' Ec'].
    assert (Hxx : x <> x') by (intros ->; apply Hne; exact Ec').
    split.
    + intros D'.
      destruct (replace_inj spre x x' spost bs) as [P T]; auto.
      { apply Forall_app. split; [exact Fpre|constructor; assumption]. }
      subst spost. split; [reflexivity|]. exists x, x'. rewrite (sext_char x Hx). auto.
    + intros [Ep [y [y' [Hy [Hy' T]]]]]. rewrite (sext_char x Hx) in Hy. inversion Hy; subst y. inversion Hy'; subst y'.
      destruct spost; [|discriminate]. rewrite <- (lenient_same spre x x' T). exact Dec.
Qed.

Theorem delete_classification_lemma : forall bs pre c post,
  Forall byte_ok bs -> encode_raw bs = pre ++ c :: post -> decode_raw (pre ++ post) <> Some bs.
Proof.
  intros bs pre c post H E.
  destruct (enc_split bs pre (c :: post) H E) as [spre [sp2 [Es [Epre [Ep2 [Fpre Fp2]]]]]].
  symmetry in Ep2. apply map_eq_cons in Ep2 as [x [spost [-> [Ec Epost]]]]. inversion Fp2 as [|? ? Hx Fpost]; subst.
  assert (Dec : decode false (spre ++ x :: spost) = Some bs) by (rewrite <- Es; apply decode_encode; exact H).
  unfold decode_raw. rewrite strip_nl_app, (strip_nl_enc _ Fpre), (strip_nl_enc _ Fpost).
  rewrite sextets_app, (sextets_enc _ Fpre), (sextets_enc _ Fpost).
  intros D'. apply (decode_longer _ _ _ _ D' Dec); [|reflexivity]. rewrite !app_length. cbn. lia.
Qed.

Theorem insert_classification_lemma : forall bs pre post c',
  Forall byte_ok bs -> encode_raw bs = pre ++ post ->
  (decode_raw (pre ++ c' :: post) = Some bs <-> is_nl c' = true).
Proof.
  intros bs pre post c' H E.
  destruct (enc_split bs pre post H E) as [spre [spost [Es [-> [-> [Fpre Fpost]]]]]].
  assert (Dec : decode false (spre ++ spost) = Some bs) by (rewrite <- Es; apply decode_encode; exact H).
  unfold decode_raw. rewrite strip_nl_app. rewrite (strip_nl_enc _ Fpre).
  change (strip_nl (c' :: map char_of_sext spost)) with
    (if negb (is_nl c') then c' :: strip_nl (map char_of_sext spost) else strip_nl (map char_of_sext spost)).
  rewrite (strip_nl_enc _ Fpost).
  destruct (is_nl c') eqn:NL; cbn [negb].
  - rewrite sextets_app, (sextets_enc _ Fpre), (sextets_enc _ Fpost), Dec. split; reflexivity.
  - rewrite sextets_app, (sextets_enc _ Fpre). cbn [sextets]. rewrite (sextets_enc _ Fpost).
    split; [|discriminate]. destruct (sext_of_char c') as [x'|]; [|discriminate].
    intros D'. exfalso.
    apply (decode_longer _ _ _ _ Dec D'); [|reflexivity]. rewrite !app_length. cbn. lia.
Qed.

(* ---------- in terms of the functions the correspondence runs: apply_edit and classify ---------- *)
Lemma bytes_eqb_eq a : forall b, bytes_eqb a b = true <-> a = b.
Proof.
  induction a as [|x a IH]; intros [|y b]; cbn; split; intro H; try reflexivity; try discriminate.
  - apply andb_true_iff in H as [H1 H2]. apply N.eqb_eq in H1. apply IH in H2. subst. reflexivity.
  - inversion H; subst. rewrite N.eqb_refl. cbn. apply IH. reflexivity.
Qed.

Lemma canonical_encode bs : Forall byte_ok bs -> canonical false (encode_raw bs) = true.
Proof.
  intros H. unfold canonical, decode_go, encode_go. rewrite (decode_raw_encode bs H). apply bytes_eqb_eq. reflexivity.
Qed.

Lemma classify_same bs new : Forall byte_ok bs ->
  classify false (encode_raw bs) new = CSame <-> decode_raw new = Some bs.
Proof.
  intros H. unfold classify, decode_go. rewrite (decode_raw_encode bs H).
  destruct (decode_raw new) as [b|]; [|split; discriminate].
  destruct (bytes_eqb bs b) eqn:E.
  - apply bytes_eqb_eq in E. subst. split; reflexivity.
  - split; [discriminate|]. intros X. inversion X as [X']. rewrite X' in E. rewrite (proj2 (bytes_eqb_eq bs bs) eq_refl) in E. discriminate.
Qed.

Lemma skipn_nth (cs : list N) : forall pos, (pos < length cs)%nat -> skipn pos cs = nth pos cs 0 :: skipn (S pos) cs.
Proof.
  induction cs as [|c cs IH]; intros [|pos] H; cbn in *; try lia; [reflexivity|]. apply IH. lia.
Qed.

(* which alterations leave the member's bytes unchanged *)
Definition lenient (e : edit) (pos : nat) (cs : list N) : Prop :=
  match e with
  | EReplace c' => lenient_tail (firstn pos cs) (nth pos cs 0) (skipn (S pos) cs) c'
  | EInsert c' => is_nl c' = true
  | EDelete => False
  end.
Definition real_edit (e : edit) (pos : nat) (cs : list N) : Prop :=
  match e with
  | EReplace c' => (pos < length cs)%nat /\ c' <> nth pos cs 0
  | EInsert _ => True
  | EDelete => (pos < length cs)%nat
  end.

Theorem alteration_classified_lemma : forall bs e pos,
  Forall byte_ok bs -> real_edit e pos (encode_raw bs) ->
  (classify false (encode_raw bs) (apply_edit e pos (encode_raw bs)) = CSame <-> lenient e pos (encode_raw bs)).
Proof.
  intros bs e pos H R. rewrite (classify_same bs _ H). set (cs := encode_raw bs) in *.
  assert (Ecs : cs = firstn pos cs ++ skipn pos cs) by (symmetry; apply firstn_skipn).
  destruct e as [c'|c'|]; cbn [real_edit lenient] in *.
  - destruct R as [L Hne]. unfold apply_edit. rewrite (skipn_nth cs pos L).
    rewrite (skipn_nth cs pos L) in Ecs.
    exact (replace_classification_lemma bs _ _ _ c' H Ecs Hne).
  - unfold apply_edit.
    replace (match skipn pos cs with [] => firstn pos cs ++ c' :: skipn pos cs | _ :: _ => firstn pos cs ++ c' :: skipn pos cs end)
      with (firstn pos cs ++ c' :: skipn pos cs) by (destruct (skipn pos cs); reflexivity).
    exact (insert_classification_lemma bs _ _ c' H Ecs).
  - unfold apply_edit. rewrite (skipn_nth cs pos R). rewrite (skipn_nth cs pos R) in Ecs.
    split; [|intros []]. intros D. exact (delete_classification_lemma bs _ _ _ H Ecs D).
Qed.

(* ---------- the altered envelope stays inside the hypothesis of the integrity theorems ---------- *)
From VF Require Import C02.Proofs.
Section AlteredCovered.
  Variable adv : N -> bool.
  Variable hs : list henv.

  Lemma honest_recs_mut h j : In h hs -> hpack h = Ok (WJwe j) -> Forall (mut_rcp hs) (j_recs j).
  Proof.
    intros Hin Hp. rewrite Forall_forall. intros rc Hrc. left.
    destruct (In_nth _ _ (mkrcp None (Junk 0)) Hrc) as [i [_ Hi]].
    exists h, (WJwe j), i. split; [assumption|]. split; [assumption|]. unfold R. cbn [J]. rewrite Hi. reflexivity.
  Qed.

  Lemma altered_covered_lemma h j m old e pos jn :
    In h hs -> hpack h = Ok (WJwe j) ->
    match altered_jwe m old e pos jn (WJwe j) with WJwe E => wf_jwe adv hs E | _ => True end.
  Proof.
    intros Hin Hp.
    assert (M0 : mut_jwe hs j) by (apply MJ_honest with (h := h); assumption).
    pose proof (mutations_covered_lemma adv hs j M0) as Hwf0.
    unfold altered_jwe. cbn [J].
    destruct m; destruct (classify false old (apply_edit e pos old)); try exact I; try exact Hwf0;
      try (apply mutations_covered_lemma; constructor; exact M0).
    (* the encrypted key of entry i replaced by garbage *)
    apply mutations_covered_lemma. unfold set_ek. apply MJ_recs; [exact M0|].
    pose proof (honest_recs_mut h j Hin Hp) as F. rewrite <- (firstn_skipn i (j_recs j)) in F.
    apply Forall_app in F as [F1 F2]. apply Forall_app. split; [exact F1|].
    destruct (skipn i (j_recs j)) as [|rc r]; [constructor|]. inversion F2; subst. constructor; [|assumption].
    right. reflexivity.
  Qed.
End AlteredCovered.
