(* C02 — character-level model of the base64url segments of a serialized envelope (no proofs in this file).

   Anchors: component/kmscrypto/doc/jose/jwe.go (Deserialize / deserializeCompact: every member of the compact and the
   JSON serialization is decoded with base64.RawURLEncoding), pkg/didcomm/packer/legacy/{authcrypt,anoncrypt}/unpack.go
   (base64.URLEncoding, padded), Go's encoding/base64 decoder (not strict: the unused low bits of the last symbol are
   ignored; '\r' and '\n' are skipped wherever they stand; NoPadding: '=' is an illegal symbol; padded: '=' only as the
   last one or two symbols completing the quantum, an incomplete final quantum is an error).

   Characters are their byte values (N).  The model decodes the ORIGINAL and the ALTERED segment itself and decides
   what the alteration means for the symbolic envelope of C01/Model.v: decoded bytes unchanged -> the same envelope;
   changed -> that member becomes attacker garbage (Junk); undecodable -> not an envelope (WBad / protected = None).
   The harness hands over the concrete characters, the position and the replacement only. *)
From Coq Require Import List NArith Bool.
Import ListNotations.
From VF Require Export common.Base64 C02.Model.
Local Open Scope N_scope.

(* ---------- the base64url alphabet ---------- *)
Definition sext_of_char (c : N) : option N :=
  if (65 <=? c) && (c <=? 90) then Some (c - 65)          (* A-Z *)
  else if (97 <=? c) && (c <=? 122) then Some (c - 71)    (* a-z *)
  else if (48 <=? c) && (c <=? 57) then Some (c + 4)      (* 0-9 *)
  else if c =? 45 then Some 62                            (* - *)
  else if c =? 95 then Some 63                            (* _ *)
  else None.
Definition char_of_sext (s : N) : N :=
  if s <? 26 then s + 65 else if s <? 52 then s + 71 else if s <? 62 then s - 4 else if s =? 62 then 45 else 95.

(* '\n' and '\r' are skipped by the decoder *)
Definition is_nl (c : N) : bool := (c =? 10) || (c =? 13).
Definition strip_nl (cs : list N) : list N := filter (fun c => negb (is_nl c)) cs.

Fixpoint sextets (cs : list N) : option (list N) :=
  match cs with
  | [] => Some []
  | c :: r => match sext_of_char c, sextets r with Some s, Some t => Some (s :: t) | _, _ => None end
  end.

(* base64.RawURLEncoding.DecodeString / EncodeToString *)
Definition decode_raw (cs : list N) : option (list N) :=
  match sextets (strip_nl cs) with Some ss => decode false ss | None => None end.
Definition encode_raw (bs : list N) : list N := map char_of_sext (encode bs).

(* base64.URLEncoding (padded) *)
Definition PAD : N := 61.
Definition strip_pad (cs : list N) : list N * nat :=
  match rev cs with
  | 61 :: 61 :: r => (rev r, 2%nat)
  | 61 :: r => (rev r, 1%nat)
  | _ => (cs, 0%nat)
  end.
(* n mod 4, structurally *)
Fixpoint tailpos (n : nat) : nat := match n with S (S (S (S m))) => tailpos m | k => k end.
Definition pad_ok (n p : nat) : bool :=
  match p, tailpos n with
  | 0%nat, 0%nat | 1%nat, 3%nat | 2%nat, 2%nat => true
  | _, _ => false
  end.
Definition decode_pad (cs : list N) : option (list N) :=
  let (body, p) := strip_pad (strip_nl cs) in
  if pad_ok (length body) p then match sextets body with Some ss => decode false ss | None => None end else None.
Definition encode_pad (bs : list N) : list N :=
  let e := encode_raw bs in
  e ++ match tailpos (length e) with 2%nat => [PAD; PAD] | 3%nat => [PAD] | _ => [] end.

Definition decode_go (padded : bool) := if padded then decode_pad else decode_raw.
Definition encode_go (padded : bool) := if padded then encode_pad else encode_raw.

(* ---------- single-character alterations ---------- *)
Inductive edit := EReplace (c : N) | EInsert (c : N) | EDelete.
Definition apply_edit (e : edit) (pos : nat) (cs : list N) : list N :=
  let pre := firstn pos cs in
  let post := skipn pos cs in
  match e, post with
  | EReplace c, _ :: r => pre ++ c :: r
  | EInsert c, _ => pre ++ c :: post
  | EDelete, _ :: r => pre ++ r
  | _, [] => cs
  end.

Fixpoint bytes_eqb (a b : list N) : bool :=
  match a, b with
  | [], [] => true
  | x :: a', y :: b' => (x =? y) && bytes_eqb a' b'
  | _, _ => false
  end.

Inductive cls := CSame | CChanged | CBad.
(* what the alteration means for the member: the altered segment is decoded by the model *)
Definition classify (padded : bool) (old new : list N) : cls :=
  match decode_go padded new with
  | None => CBad
  | Some b => match decode_go padded old with
              | Some a => if bytes_eqb a b then CSame else CChanged
              | None => CChanged
              end
  end.

(* the honest packers emit the canonical encoding of the member's bytes *)
Definition canonical (padded : bool) (cs : list N) : bool :=
  match decode_go padded cs with
  | Some bs => bytes_eqb (encode_go padded bs) cs
  | None => false
  end.

(* ---------- the altered envelope, symbolically ---------- *)
Inductive member := MProt | MIv | MCt | MTag | MEk (i : nat) | MAad.

Definition set_ek (i : nat) (t : term) (j : jwe) : jwe :=
  set_recs (firstn i (j_recs j) ++
            match skipn i (j_recs j) with rc :: r => mkrcp (r_hdr rc) t :: r | [] => [] end) j.

Definition altered_jwe (m : member) (old : list N) (e : edit) (pos : nat) (jn : N) (w : wire) : wire :=
  let new := apply_edit e pos old in
  match m, classify false old new with
  | MProt, CBad => WJwe (set_prot None (J w))
  (* the authenticated STRING differs whatever it decodes to: another serialization variant of the header *)
  | MProt, _ => WJwe (set_prot (Some (p_set_var 7 (P w))) (J w))
  | _, CBad => WBad
  | _, CSame => w
  | MIv, CChanged => WJwe (set_iv (Junk jn) (J w))
  | MCt, CChanged => WJwe (set_ct (Junk jn) (J w))
  | MTag, CChanged => WJwe (set_tag (Junk jn) (J w))
  | MAad, CChanged => WJwe (set_aad (Junk jn) (J w))
  | MEk i, CChanged => WJwe (set_ek i (Junk jn) (J w))
  end.

Definition altered_leg (m : member) (old : list N) (e : edit) (pos : nat) (jn : N) (w : wire) : wire :=
  let new := apply_edit e pos old in
  match m, classify true old new with
  | MProt, CBad => WLeg (l_set_prot None (L w))
  | MProt, _ => WLeg (l_set_prot (Some (lp_set_var 7 (LP w))) (L w))
  | _, CBad => WBad
  | _, CSame => w
  | MIv, CChanged => WLeg (l_set_iv (Junk jn) (L w))
  | MCt, CChanged => WLeg (l_set_ct (Junk jn) (L w))
  | MTag, CChanged => WLeg (l_set_tag (Junk jn) (L w))
  | _, CChanged => WBad
  end.

(* one alteration of a base64 member of the first honest envelope, as the harness performed it on the wire *)
Record alteration := mkalt { al_leg : bool; al_member : member; al_old : list N; al_edit : edit; al_pos : nat; al_junk : N }.
Definition altered (a : alteration) (w : wire) : wire :=
  (if al_leg a then altered_leg else altered_jwe) (al_member a) (al_old a) (al_edit a) (al_pos a) (al_junk a) w.
