(* C02 — adversarial envelopes over the shared envelope model of C01/Model.v (no proofs here).

   An honest envelope is [hpack h]; the adversary's envelope is ANY [wire].  This file gives the vocabulary
   the harness uses to describe, symbolically, the concrete envelope it built by mutating / splicing /
   re-serializing honest envelopes or by using the public crypto API with the keys the adversary holds. *)
From Coq Require Import List NArith Bool.
Import ListNotations.
From VF Require Export C01.Model.
Local Open Scope N_scope.

Record henv := mkhenv { h_cfg : cfg; h_spar : list N; h_payload : N; h_sender : N; h_rcpts : list N; h_rnd : rnd }.
Definition hpack (h : henv) : res wire := pack (h_cfg h) (h_spar h) (h_payload h) (h_sender h) (h_rcpts h) (h_rnd h).

(* ---------- accessors (total) ---------- *)
Definition jwe0 : jwe := mkjwe None [] (Tup []) (Junk 0) (Junk 0) (Junk 0).
Definition J (w : wire) : jwe := match w with WJwe j => j | _ => jwe0 end.
Definition lenv0 : lenv := mklenv None (Junk 0) (Junk 0) (Junk 0).
Definition L (w : wire) : lenv := match w with WLeg l => l | _ => lenv0 end.
Definition phdr0 : phdr := mkphdr None None None None None None None 0.
Definition P (w : wire) : phdr := match j_prot (J w) with Some p => p | None => phdr0 end.
Definition R (w : wire) (i : nat) : rcp := nth i (j_recs (J w)) (mkrcp None (Junk 0)).
Definition rhdr0 : rhdr := mkrhdr None None None None None.
Definition RH (w : wire) (i : nat) : rhdr := match r_hdr (R w i) with Some h => h | None => rhdr0 end.
Definition LP (w : wire) : lphdr := match le_prot (L w) with Some p => p | None => mklphdr false LOtherAlg [] 0 end.
Definition LR (w : wire) (i : nat) : lrcp := nth i (lp_recs (LP w)) (mklrcp 0 (Junk 0) (Junk 0) (Junk 0)).

(* ---------- record updates ---------- *)
Definition set_prot (p : option phdr) (j : jwe) := mkjwe p (j_recs j) (j_aad j) (j_iv j) (j_ct j) (j_tag j).
Definition set_recs (r : list rcp) (j : jwe) := mkjwe (j_prot j) r (j_aad j) (j_iv j) (j_ct j) (j_tag j).
Definition set_aad (t : term) (j : jwe) := mkjwe (j_prot j) (j_recs j) t (j_iv j) (j_ct j) (j_tag j).
Definition set_iv (t : term) (j : jwe) := mkjwe (j_prot j) (j_recs j) (j_aad j) t (j_ct j) (j_tag j).
Definition set_ct (t : term) (j : jwe) := mkjwe (j_prot j) (j_recs j) (j_aad j) (j_iv j) t (j_tag j).
Definition set_tag (t : term) (j : jwe) := mkjwe (j_prot j) (j_recs j) (j_aad j) (j_iv j) (j_ct j) t.

Definition p_set_var (n : N) (p : phdr) := mkphdr (p_enc p) (p_skid p) (p_alg p) (p_kid p) (p_epk p) (p_apu p) (p_apv p) n.
Definition p_set_enc (x : option encalg) (p : phdr) := mkphdr x (p_skid p) (p_alg p) (p_kid p) (p_epk p) (p_apu p) (p_apv p) (p_var p).
Definition p_set_skid (x : option kref) (p : phdr) := mkphdr (p_enc p) x (p_alg p) (p_kid p) (p_epk p) (p_apu p) (p_apv p) (p_var p).
Definition p_set_alg (x : option kwalg) (p : phdr) := mkphdr (p_enc p) (p_skid p) x (p_kid p) (p_epk p) (p_apu p) (p_apv p) (p_var p).
Definition p_set_kid (x : option kref) (p : phdr) := mkphdr (p_enc p) (p_skid p) (p_alg p) x (p_epk p) (p_apu p) (p_apv p) (p_var p).
Definition p_set_epk (x : option term) (p : phdr) := mkphdr (p_enc p) (p_skid p) (p_alg p) (p_kid p) x (p_apu p) (p_apv p) (p_var p).
Definition p_set_apu (x : option term) (p : phdr) := mkphdr (p_enc p) (p_skid p) (p_alg p) (p_kid p) (p_epk p) x (p_apv p) (p_var p).
Definition p_set_apv (x : option term) (p : phdr) := mkphdr (p_enc p) (p_skid p) (p_alg p) (p_kid p) (p_epk p) (p_apu p) x (p_var p).

Definition rh_set_kid (x : option kref) (h : rhdr) := mkrhdr x (rh_alg h) (rh_epk h) (rh_apu h) (rh_apv h).
Definition rh_set_alg (x : option kwalg) (h : rhdr) := mkrhdr (rh_kid h) x (rh_epk h) (rh_apu h) (rh_apv h).
Definition rh_set_epk (x : option term) (h : rhdr) := mkrhdr (rh_kid h) (rh_alg h) x (rh_apu h) (rh_apv h).
Definition rh_set_apu (x : option term) (h : rhdr) := mkrhdr (rh_kid h) (rh_alg h) (rh_epk h) x (rh_apv h).
Definition rh_set_apv (x : option term) (h : rhdr) := mkrhdr (rh_kid h) (rh_alg h) (rh_epk h) (rh_apu h) x.

Definition l_set_prot (p : option lphdr) (l : lenv) := mklenv p (le_iv l) (le_ct l) (le_tag l).
Definition l_set_iv (t : term) (l : lenv) := mklenv (le_prot l) t (le_ct l) (le_tag l).
Definition l_set_ct (t : term) (l : lenv) := mklenv (le_prot l) (le_iv l) t (le_tag l).
Definition l_set_tag (t : term) (l : lenv) := mklenv (le_prot l) (le_iv l) (le_ct l) t.
Definition lp_set_var (n : N) (p : lphdr) := mklphdr (lp_typ_ok p) (lp_alg p) (lp_recs p) n.
Definition lp_set_recs (r : list lrcp) (p : lphdr) := mklphdr (lp_typ_ok p) (lp_alg p) r (lp_var p).
Definition lp_set_alg (a : lalg) (p : lphdr) := mklphdr (lp_typ_ok p) a (lp_recs p) (lp_var p).
Definition lp_set_typ (b : bool) (p : lphdr) := mklphdr b (lp_alg p) (lp_recs p) (lp_var p).

(* ---------- what an adversary holding the key e and knowing the content key can compute ---------- *)
(* re-encrypt another payload under a known content key with the envelope's own protected header *)
Definition reenc_jwe (cek : term) (m : N) (j : jwe) : jwe :=
  let ct := c_enc cek (c_aad (t_phdr (match j_prot j with Some p => p | None => phdr0 end)) (j_aad j)) (j_iv j) (Bytes m) in
  set_tag (c_tag ct) (set_ct ct j).
Definition reenc_leg (cek : term) (m : N) (l : lenv) : lenv :=
  let ct := c_enc cek (t_lphdr (LP (WLeg l))) (le_iv l) (Bytes m) in
  l_set_tag (c_tag ct) (l_set_ct ct l).
(* a complete ECDH-ES JWE made with the public API by someone holding only the ephemeral key e *)
Definition adv_es_jwe (c : cfg) (skid : option kref) (m : N) (rcpts : list N) (rn : rnd) : jwe :=
  let j := pack_jwe_anon c m rcpts rn in
  let p := p_set_skid skid (match j_prot j with Some p => p | None => phdr0 end) in
  reenc_jwe (cek_of rn) m (set_prot (Some p) j).

(* a complete ECDH-1PU JWE made with the public API by someone who holds the static key [actual] but names
   [claimed] as the sender (skid, apu) *)
Definition adv_1pu_jwe (c : cfg) (a : kwalg) (m claimed actual : N) (rcpts : list N) (rn : rnd) : jwe :=
  let j := pack_jwe_auth c a m claimed rcpts rn in
  let wk r := Wrap (kek_1pu a (dh (rn_eph rn) r) (dh actual r) (t_kref (kref_for (style_of c) claimed))
                            (apv_1pu (map (kref_for (style_of c)) rcpts)) (j_tag j)) (cek_of rn) in
  set_recs (map (fun rr => mkrcp (r_hdr (fst rr)) (wk (snd rr))) (combine (j_recs j) rcpts)) j.

(* a complete ECDH-1PU JWE hand-built by someone who holds the static key [actual]: skid names key [skidk], the
   apu header (an input of the KDF) names key [apuk] *)
Definition adv_1pu_jwe2 (c : cfg) (a : kwalg) (m skidk apuk actual : N) (rcpts : list N) (rn : rnd) : jwe :=
  let st := style_of c in
  let j0 := pack_jwe_auth c a m skidk rcpts rn in
  let apu := t_kref (kref_for st apuk) in
  let j1 := reenc_jwe (cek_of rn) m (set_prot (Some (p_set_apu (Some apu) (P (WJwe j0)))) j0) in
  let wk r := Wrap (kek_1pu a (dh (rn_eph rn) r) (dh actual r) apu (apv_1pu (map (kref_for st) rcpts)) (j_tag j1)) (cek_of rn) in
  set_recs (map (fun rr => mkrcp (r_hdr (fst rr)) (wk (snd rr))) (combine (j_recs j0) rcpts)) j1.

(* ---------- member names in another letter case ----------
   jose.Deserialize decodes the protected header into a MAP (lookups are case-sensitive: a member spelled "SKID" or
   "Skid" is no skid for JWEDecrypt and the packers), while the packager's getEncodingType decodes the same bytes into
   a struct with encoding/json, which matches member names case-INSENSITIVELY: such a member still routes the envelope
   to the authcrypt packer.  [cv_skid] = the protected header has a member that is 'skid' up to letter case (and no
   exactly spelled one). *)
Definition dispatch_cv (cv_skid : bool) (w : wire) : option packer :=
  match dispatch w with
  | Some JweAnon => Some (if cv_skid then JweAuth else JweAnon)
  | d => d
  end.
Definition unpack_pkgr_cv (cv_skid : bool) (v : variant) (party : list N) (w : wire) : res (term * option N * N) :=
  match dispatch_cv cv_skid w with Some p => unpack v p party w | None => Err EInvalid end.
