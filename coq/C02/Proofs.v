(* C02 — lemmas for the integrity / sender-authentication theorems against an arbitrary adversarial envelope. *)
From Coq Require Import List NArith Bool Lia.
Import ListNotations.
From VF Require Import C01.Model C01.Proofs C02.Model.
Local Open Scope N_scope.

(* ---------- term algebra facts ---------- *)
Lemma unwrap_inv k t c : unwrap k t = Some c -> t = Wrap k c.
Proof.
  destruct t; try discriminate. cbn [unwrap]. destruct (term_eqb t1 k) eqn:E; [|discriminate].
  intros H; inversion H; subst. apply term_eqb_eq in E. subst. reflexivity.
Qed.
Lemma adec_inv k a t m : adec k a t = Some m -> t = AEnc k a m.
Proof.
  destruct t; try discriminate. cbn [adec]. destruct (term_eqb t1 k && term_eqb t2 a) eqn:E; [|discriminate].
  intros H; inversion H; subst. apply andb_true_iff in E as [E1 E2].
  apply term_eqb_eq in E1, E2. subst. reflexivity.
Qed.
Lemma c_dec_inv cek aad iv ct tag m :
  c_dec cek aad iv ct tag = Some m -> tag = c_tag ct /\ ct = AEnc cek (Tup [aad; iv]) m.
Proof.
  unfold c_dec. destruct (term_eqb tag (c_tag ct)) eqn:E; [|discriminate]. intros Hd.
  apply term_eqb_eq in E. split; [assumption|]. apply adec_inv; assumption.
Qed.

Lemma dh_inj a b c d : dh a b = dh c d -> (a = c /\ b = d) \/ (a = d /\ b = c).
Proof.
  unfold dh. destruct (N.leb_spec a b), (N.leb_spec c d); intros Hd; inversion Hd; subst; auto.
Qed.

(* ---------- the adversary ---------- *)
Section Adversary.
  (* private keys the adversary holds (its own static keys, ephemeral keys it generates, keys of colluding
     parties such as co-recipients) *)
  Variable adv : N -> bool.
  (* the honest envelopes in circulation *)
  Variable hs : list henv.

  Definition adv_dh (t : term) : bool := match t with DH a b => adv a || adv b | _ => true end.
  (* a key-encryption key the adversary can compute: every Diffie-Hellman secret in the KDF input involves
     one of its private keys *)
  Definition adv_kek (k : term) : bool := match k with Kdf l => forallb adv_dh l | _ => true end.

  Lemma adv_dh_dh a b : adv_dh (dh a b) = adv a || adv b.
  Proof. unfold dh. destruct (a <=? b); cbn [adv_dh]; [reflexivity|apply orb_comm]. Qed.

  Definition is_wrap (t : term) : bool := match t with Wrap _ _ => true | _ => false end.

  Definition honest_ek (t : term) : Prop :=
    exists h j, In h hs /\ hpack h = Ok (WJwe j) /\ In t (map r_ek (j_recs j)).
  Definition honest_lek (t : term) : Prop :=
    exists h l p, In h hs /\ hpack h = Ok (WLeg l) /\ le_prot l = Some p /\ In t (map l_ek (lp_recs p)).
  Definition adv_wrap (t : term) : Prop := exists k c, t = Wrap k c /\ adv_kek k = true.
  (* an encrypted-key term of the adversarial envelope: taken from an honest envelope (any entry of any honest
     envelope), or not a key wrap at all, or a wrap under a key the adversary can compute *)
  Definition ek_ok (t : term) : Prop := honest_ek t \/ honest_lek t \/ is_wrap t = false \/ adv_wrap t.

  Definition wf_jwe (E : jwe) : Prop := Forall (fun rc => ek_ok (r_ek rc)) (j_recs E).
  Definition wf_leg (E : lenv) : Prop :=
    match le_prot E with Some p => Forall (fun r => ek_ok (l_ek r)) (lp_recs p) | None => True end.

  Definition ct_of (w : wire) : term := match w with WJwe j => j_ct j | WLeg l => le_ct l | WBad => Junk 0 end.
  (* outsider hypothesis: a ciphertext under an honest content key is an honest envelope's ciphertext (the
     adversary does not know honest content keys) *)
  Definition ct_ok (ct : term) : Prop :=
    forall h aad m, In h hs -> ct = AEnc (cek_of (h_rnd h)) aad m ->
    exists h' w', In h' hs /\ hpack h' = Ok w' /\ ct = ct_of w'.

  (* ---------- shapes of honest envelopes ---------- *)
  Lemma hpack_jwe_inv h j :
    hpack h = Ok (WJwe j) ->
    (packer_of (h_cfg h) = JweAuth /\ exists a, is_1pu a = true /\
       j = pack_jwe_auth (h_cfg h) a (h_payload h) (h_sender h) (h_rcpts h) (h_rnd h)) \/
    (packer_of (h_cfg h) = JweAnon /\ j = pack_jwe_anon (h_cfg h) (h_payload h) (h_rcpts h) (h_rnd h)).
  Proof.
    unfold hpack, pack. destruct (rejects _ _ _ _ _); [discriminate|].
    destruct (packer_of (h_cfg h)) eqn:P; try discriminate.
    - destruct (pu_alg _ _) as [a|] eqn:A; [|discriminate]. intros H; inversion H; subst.
      left. split; [reflexivity|]. exists a. split; [eapply pu_alg_1pu; eassumption|reflexivity].
    - intros H; inversion H; subst. right. split; reflexivity.
  Qed.
  Lemma hpack_leg_inv h l :
    hpack h = Ok (WLeg l) ->
    exists auth : bool, packer_of (h_cfg h) = (if auth then LegAuth else LegAnon) /\
      l = pack_leg auth (h_payload h) (h_sender h) (h_rcpts h) (h_rnd h).
  Proof.
    unfold hpack, pack. destruct (rejects _ _ _ _ _); [discriminate|].
    destruct (packer_of (h_cfg h)) eqn:P; try discriminate.
    - destruct (pu_alg _ _); discriminate.
    - intros H; inversion H; subst. exists true. split; reflexivity.
    - intros H; inversion H; subst. exists false. split; reflexivity.
  Qed.

  Lemma es_recs_ek a st rn : forall rcpts i rc,
    In rc (es_recs_from i a st rn rcpts) ->
    exists e r, r_ek rc = Wrap (kek_es a (dh e r) (apu_es (Pub e)) (Tup [])) (cek_of rn).
  Proof.
    induction rcpts as [|r rs IH]; intros i rc; cbn [es_recs_from]; [intros []|].
    intros [<-|H]; [|eapply IH; eassumption]. cbn [r_ek]. eexists _, _. reflexivity.
  Qed.

  (* every honest JWE key wrap wraps that envelope's content key, under a 1PU KEK (authcrypt) or an ES KEK *)
  Lemma honest_ek_shape t :
    honest_ek t ->
    exists h, In h hs /\
    ((packer_of (h_cfg h) = JweAuth /\ exists a r j, is_1pu a = true /\ In r (h_rcpts h) /\ hpack h = Ok (WJwe j) /\
        t = Wrap (kek_1pu a (dh (rn_eph (h_rnd h)) r) (dh (h_sender h) r)
                          (t_kref (kref_for (style_of (h_cfg h)) (h_sender h)))
                          (apv_1pu (map (kref_for (style_of (h_cfg h))) (h_rcpts h))) (j_tag j))
                 (cek_of (h_rnd h)) /\
        j = pack_jwe_auth (h_cfg h) a (h_payload h) (h_sender h) (h_rcpts h) (h_rnd h)) \/
     (exists a ze apu apv, t = Wrap (kek_es a ze apu apv) (cek_of (h_rnd h)))).
  Proof.
    intros [h [j [Hin [Hp Ht]]]]. exists h. split; [assumption|].
    destruct (hpack_jwe_inv _ _ Hp) as [[P [a [Ha Hj]]]|[P Hj]].
    - left. split; [assumption|].
      assert (Ht' : In t (map r_ek (j_recs j))) by exact Ht.
      rewrite Hj in Ht'. unfold pack_jwe_auth in Ht'. cbn [j_recs] in Ht'.
      rewrite map_map in Ht'. cbn [r_ek] in Ht'. apply in_map_iff in Ht' as [r [Hr Hir]].
      exists a, r, j. split; [assumption|]. split; [assumption|]. split; [assumption|]. split; [|assumption].
      rewrite <- Hr. rewrite Hj. reflexivity.
    - right. subst j. unfold pack_jwe_anon in Ht.
      destruct (h_rcpts h) as [|r0 [|r1 rs]] eqn:R.
      + cbn [j_recs es_recs_from map] in Ht. destruct Ht.
      + cbn [j_recs map r_ek] in Ht. destruct Ht as [<-|[]]. eexists _, _, _, _. reflexivity.
      + cbn [j_recs] in Ht. apply in_map_iff in Ht as [rc [<- Hrc]].
        destruct (es_recs_ek _ _ _ _ _ _ Hrc) as [e [r ->]]. eexists _, _, _, _. reflexivity.
  Qed.

  Lemma leg_auth_recs_in sender rn : forall rcpts i r,
    In r (leg_auth_recs i sender rn rcpts) ->
    exists e nonce, In (l_kid r) rcpts /\
      r = mklrcp (l_kid r) (seal e (l_kid r) (Pub sender)) nonce (Wrap (box_key sender (l_kid r) nonce) (cek_of rn)).
  Proof.
    induction rcpts as [|k ks IH]; intros i r; cbn [leg_auth_recs]; [intros []|].
    intros [<-|H].
    - cbn [l_kid]. eexists _, _. split; [left; reflexivity|reflexivity].
    - destruct (IH _ _ H) as [e [nonce [H1 H2]]]. exists e, nonce. split; [right; assumption|assumption].
  Qed.
  Lemma leg_anon_recs_in rn : forall rcpts i r,
    In r (leg_anon_recs i rn rcpts) ->
    exists e, In (l_kid r) rcpts /\ r = mklrcp (l_kid r) (Tup []) (Tup []) (seal e (l_kid r) (cek_of rn)).
  Proof.
    induction rcpts as [|k ks IH]; intros i r; cbn [leg_anon_recs]; [intros []|].
    intros [<-|H].
    - cbn [l_kid]. eexists. split; [left; reflexivity|reflexivity].
    - destruct (IH _ _ H) as [e [H1 H2]]. exists e. split; [right; assumption|assumption].
  Qed.

  (* an honest legacy encrypted key is a box from the sender to that recipient (authcrypt) or a sealed box *)
  Lemma honest_lek_shape t :
    honest_lek t ->
    exists h, In h hs /\
      ((packer_of (h_cfg h) = LegAuth /\ exists r nonce, In r (h_rcpts h) /\
          t = Wrap (box_key (h_sender h) r nonce) (cek_of (h_rnd h))) \/
       (packer_of (h_cfg h) = LegAnon /\ exists e r, In r (h_rcpts h) /\ t = seal e r (cek_of (h_rnd h)))).
  Proof.
    intros [h [l [p [Hin [Hp [Hlp Ht]]]]]]. exists h. split; [assumption|].
    destruct (hpack_leg_inv _ _ Hp) as [auth [P Hl]]. subst l. unfold pack_leg in Hlp. cbn [le_prot] in Hlp.
    inversion Hlp; subst p. cbn [lp_recs] in Ht. clear Hlp. apply in_map_iff in Ht as [r [<- Hr]].
    destruct auth.
    - left. split; [assumption|]. destruct (leg_auth_recs_in _ _ _ _ _ Hr) as [e [nonce [H1 H2]]].
      exists (l_kid r), nonce. split; [assumption|]. rewrite H2. reflexivity.
    - right. split; [assumption|]. destruct (leg_anon_recs_in _ _ _ _ Hr) as [e [H1 H2]]. rewrite H2. cbn [l_ek].
      exists e, (l_kid r). split; [assumption|reflexivity].
  Qed.

  (* ---------- inversion of the unpack loops ---------- *)
  Lemma unwrap_cek_inv party sender tag : forall ws c,
    unwrap_cek Fixed party sender tag ws = Ok c ->
    exists w k, In w ws /\ mem k party = true /\ unwrap_one k sender tag w = Some c.
  Proof.
    induction ws as [|w ws IH]; intros c; cbn [unwrap_cek]; [discriminate|].
    destruct (wk_kid w) as [kr|]; [|intros H; destruct (IH _ H) as [w' [k [? ?]]]; exists w', k; split; [right|]; tauto].
    destruct (resolve Fixed kr) as [k| | |] eqn:R; try discriminate;
      try (intros H; destruct (IH _ H) as [w' [k' [? ?]]]; exists w', k'; split; [right|]; tauto).
    destruct (mem k party) eqn:M; [|intros H; destruct (IH _ H) as [w' [k' [? ?]]]; exists w', k'; split; [right|]; tauto].
    destruct (unwrap_one k sender tag w) as [c'|] eqn:U;
      [|intros H; destruct (IH _ H) as [w' [k' [? ?]]]; exists w', k'; split; [right|]; tauto].
    intros H; inversion H; subst. exists w, k. split; [left; reflexivity|]. split; assumption.
  Qed.

  Lemma build_recwk_ek single prot rc w : build_recwk single prot rc = Ok w -> wk_ek w = r_ek rc.
  Proof.
    unfold build_recwk. destruct (single || _).
    - destruct (p_epk prot); [|discriminate]. destruct (negb _ || _ || _); [discriminate|].
      destruct (_ && negb single).
      + destruct (r_hdr rc); [|discriminate]. intros H; inversion H; reflexivity.
      + intros H; inversion H; reflexivity.
    - destruct (r_hdr rc) as [h|]; [|discriminate]. destruct (rh_epk h); [|discriminate].
      destruct (negb _ || _ || _); [discriminate|]. intros H; inversion H; reflexivity.
  Qed.

  Lemma build_all_ek single prot : forall recs ws,
    build_all single prot recs = Ok ws -> forall w, In w ws -> exists rc, In rc recs /\ wk_ek w = r_ek rc.
  Proof.
    induction recs as [|rc recs IH]; intros ws; cbn [build_all].
    - intros H; inversion H; subst. intros w [].
    - destruct (build_recwk single prot rc) as [w0| | |] eqn:B; try discriminate. cbn [bind].
      destruct (build_all single prot recs) as [ws0| | |] eqn:BA; try discriminate. cbn [bind].
      intros H; inversion H; subst. intros w [<-|Hw].
      + exists rc. split; [left; reflexivity|eapply build_recwk_ek; eassumption].
      + destruct (IH _ eq_refl _ Hw) as [rc' [? ?]]. exists rc'. split; [right|]; assumption.
  Qed.

  Lemma unwrap_one_inv k sender tag w c :
    unwrap_one k sender tag w = Some c -> exists K, wk_ek w = Wrap K c.
  Proof.
    unfold unwrap_one. destruct (wk_alg w) as [a|]; [|discriminate]. destruct (wk_epk w); try discriminate.
    destruct (is_1pu a).
    - destruct sender; [|discriminate]. intros H. eexists. eapply unwrap_inv; eassumption.
    - destruct (is_es a); [|discriminate]. intros H. eexists. eapply unwrap_inv; eassumption.
  Qed.

  Lemma unwrap_one_1pu_inv k s tag w c :
    alg_1pu w = true -> unwrap_one k (Some s) tag w = Some c ->
    exists a e, is_1pu a = true /\
      wk_ek w = Wrap (kek_1pu a (dh k e) (dh k s) (odflt (wk_apu w)) (odflt (wk_apv w)) tag) c.
  Proof.
    unfold alg_1pu, unwrap_one. destruct (wk_alg w) as [a|]; [|discriminate]. intros Ha.
    destruct (wk_epk w); try discriminate. rewrite Ha. intros H. exists a, k0. split; [assumption|].
    eapply unwrap_inv; eassumption.
  Qed.
End Adversary.

Section SenderAuth.
  Variable adv : N -> bool.
  Variable hs : list henv.

  Lemma adv_kek_1pu a ze zs apu apv tag :
    adv_kek adv (kek_1pu a ze zs apu apv tag) = true -> adv_dh adv ze = true /\ adv_dh adv zs = true.
  Proof.
    unfold kek_1pu. cbn [adv_kek forallb]. rewrite !andb_true_iff. tauto.
  Qed.

  (* T1: sender authentication of the JWE authcrypt packer, against ANY adversarial envelope *)
  Lemma sender_auth_jwe_lemma party E m s to :
    wf_jwe adv hs E ->
    (forall k, In k party -> adv k = false) ->
    (forall h k, In h hs -> In k party -> rn_eph (h_rnd h) <> k) ->
    unpack_jwe Fixed true party E = Ok (m, Some s, to) ->
    adv s = true \/
    exists h, In h hs /\ packer_of (h_cfg h) = JweAuth /\ m = Bytes (h_payload h) /\ s = h_sender h /\
              exists k, In k party /\ In k (h_rcpts h).
  Proof.
    intros Hwf Hparty Heph. unfold unpack_jwe.
    destruct (j_prot E) as [prot|]; [|discriminate].
    destruct (find_owned Fixed party (single_rec (j_recs E)) prot (j_recs E)) as [[k0 kr0]| | |]; try discriminate.
    cbn [bind]. destruct (decrypt_jwe Fixed party prot E) as [m'| | |] eqn:D; try discriminate. cbn [bind].
    intros H. assert (Hm : m' = m) by (inversion H; reflexivity).
    assert (Hfrom : from_of Fixed true prot = Some s) by (inversion H; reflexivity). subst m'. clear H.
    (* the sender comes from the skid header *)
    unfold from_of in Hfrom. destruct (p_skid prot) as [skr|] eqn:Hsk; [|discriminate].
    destruct (resolve Fixed skr) as [s'| | |] eqn:Hrs; try discriminate. inversion Hfrom; subst s'. clear Hfrom.
    unfold decrypt_jwe in D. destruct (p_enc prot); [|discriminate].
    unfold jwe_skid in D. rewrite Hsk, Hrs in D. cbn [bind] in D.
    destruct (build_all (single_rec (j_recs E)) prot (j_recs E)) as [ws| | |] eqn:B; try discriminate. cbn [bind] in D.
    destruct (sender_needs_1pu Fixed (Some s) ws) eqn:N1; [discriminate|].
    destruct (unwrap_cek Fixed party (Some s) (j_tag E) ws) as [cek| | |] eqn:U; try discriminate. cbn [bind] in D.
    destruct (c_dec cek (c_aad (t_phdr prot) (j_aad E)) (j_iv E) (j_ct E) (j_tag E)) as [m0|] eqn:CD; [|discriminate].
    inversion D; subst m0. clear D.
    destruct (unwrap_cek_inv adv _ _ _ _ _ U) as [w [k [Hw [Hk Hu]]]].
    assert (H1pu : alg_1pu w = true).
    { cbn [sender_needs_1pu] in N1. apply negb_false_iff in N1. rewrite forallb_forall in N1. apply N1; assumption. }
    destruct (unwrap_one_1pu_inv _ _ _ _ _ H1pu Hu) as [a [ee [Ha Hek]]].
    destruct (build_all_ek _ _ _ _ B _ Hw) as [rc [Hrc Hwr]].
    unfold wf_jwe in Hwf. rewrite Forall_forall in Hwf. pose proof (Hwf _ Hrc) as Hok.
    rewrite <- Hwr, Hek in Hok. apply mem_In in Hk.
    destruct Hok as [Hh|[Hl|[Hnw|[K [c [Heq Hadv]]]]]].
    - (* an honest JWE key wrap *)
      destruct (honest_ek_shape _ _ Hh) as [h [Hin [[P [a' [r [j [Ha' [Hr [Hp [Heq Hj]]]]]]]]|[a' [ze [apu [apv Heq]]]]]]].
      + right. inversion Heq as [[Hal Hze Hzs Hapu Hapv Htag]]. clear Heq.
        assert (Hs : s = h_sender h /\ In k (h_rcpts h)).
        { apply dh_inj in Hzs. apply dh_inj in Hze.
          destruct Hzs as [[Hk1 Hs1]|[Hk1 Hs1]].
          - (* k is the honest sender's key and the claimed sender is the recipient r: only if k = r *)
            destruct Hze as [[He1 _]|[He1 _]].
            + exfalso. eapply Heph; [exact Hin|exact Hk|]. symmetry; exact He1.
            + split; [congruence|]. rewrite He1. assumption.
          - split; [assumption|]. rewrite Hk1. assumption. }
        destruct Hs as [Hse Hkr]. exists h. split; [assumption|]. split; [assumption|].
        split; [|split; [assumption|exists k; split; assumption]].
        apply c_dec_inv in CD as [Ht Hct]. rewrite Htag, Hj in Ht. unfold pack_jwe_auth in Ht. cbn [j_tag] in Ht.
        unfold c_tag in Ht. inversion Ht as [Hcte]. rewrite <- Hcte in Hct. unfold c_enc in Hct.
        inversion Hct. reflexivity.
      + exfalso. inversion Heq.
    - (* an honest legacy box: not under a 1PU key *)
      exfalso. destruct (honest_lek_shape _ _ Hl) as [h [_ [[_ [r [nonce [_ Heq]]]]|[_ [e0 [r [_ Heq]]]]]]]; inversion Heq.
    - discriminate.
    - left. inversion Heq; subst K c. apply adv_kek_1pu in Hadv as [_ Hzs]. rewrite adv_dh_dh in Hzs.
      rewrite (Hparty _ Hk) in Hzs. exact Hzs.
  Qed.
End SenderAuth.

Section Integrity.
  Variable adv : N -> bool.
  Variable hs : list henv.

  (* the authenticated data of an envelope *)
  Definition aad_of (w : wire) : term :=
    match w with
    | WJwe j => c_aad (t_phdr (P w)) (j_aad j)
    | WLeg l => t_lphdr (LP w)
    | WBad => Junk 0
    end.

  Lemma hpack_ct h w :
    hpack h = Ok w ->
    exists iv, ct_of w = AEnc (cek_of (h_rnd h)) (Tup [aad_of w; iv]) (Bytes (h_payload h)).
  Proof.
    intros Hp. destruct w as [j|l|].
    - destruct (hpack_jwe_inv _ _ Hp) as [[_ [a [_ ->]]]|[_ ->]].
      + eexists. reflexivity.
      + unfold pack_jwe_anon. destruct (h_rcpts h) as [|r0 [|r1 rs]]; eexists; reflexivity.
    - destruct (hpack_leg_inv _ _ Hp) as [auth [_ ->]]. eexists. reflexivity.
    - exfalso. unfold hpack, pack in Hp. destruct (rejects _ _ _ _ _); [discriminate|].
      destruct (packer_of (h_cfg h)); try discriminate. destruct (pu_alg _ _); discriminate.
  Qed.

  (* T2 core, for every packer: decrypting with an honest content key yields an honest payload together with
     that envelope's authenticated data, provided the adversary cannot make ciphertexts under honest content keys *)
  Lemma content_integrity_lemma h cek aad iv ct tag m :
    In h hs -> cek = cek_of (h_rnd h) -> ct_ok hs ct -> c_dec cek aad iv ct tag = Some m ->
    exists h' w', In h' hs /\ hpack h' = Ok w' /\ m = Bytes (h_payload h') /\ aad = aad_of w'.
  Proof.
    intros Hin -> Hct Hd. apply c_dec_inv in Hd as [_ Hd].
    destruct (Hct _ _ _ Hin Hd) as [h' [w' [Hin' [Hp' Hc']]]].
    destruct (hpack_ct _ _ Hp') as [iv' Hc'']. rewrite <- Hc', Hd in Hc''. inversion Hc''.
    exists h', w'. repeat split; assumption.
  Qed.

  Definition adv_made (E : jwe) : Prop := exists rc, In rc (j_recs E) /\ adv_wrap adv (r_ek rc).

  Lemma integrity_outsider_jwe_lemma auth party E m fr to :
    wf_jwe adv hs E -> ct_ok hs (j_ct E) ->
    unpack_jwe Fixed auth party E = Ok (m, fr, to) ->
    (exists h' w', In h' hs /\ hpack h' = Ok w' /\ m = Bytes (h_payload h') /\ aad_of (WJwe E) = aad_of w')
    \/ adv_made E.
  Proof.
    intros Hwf Hct. unfold unpack_jwe.
    destruct (j_prot E) as [prot|] eqn:Hprot; [|discriminate].
    destruct (find_owned Fixed party (single_rec (j_recs E)) prot (j_recs E)) as [[k0 kr0]| | |]; try discriminate.
    cbn [bind]. destruct (decrypt_jwe Fixed party prot E) as [m'| | |] eqn:D; try discriminate. cbn [bind].
    intros H. assert (Hm : m' = m) by (inversion H; reflexivity). subst m'. clear H.
    unfold decrypt_jwe in D. destruct (p_enc prot); [|discriminate].
    destruct (match jwe_skid prot (j_recs E) with
              | Some s => match resolve Fixed s with RKey k => Ok (Some k) | RNil => Panic 3 | _ => Err EInvalid end
              | None => Ok None end) as [sender| | |]; try discriminate. cbn [bind] in D.
    destruct (build_all (single_rec (j_recs E)) prot (j_recs E)) as [ws| | |] eqn:B; try discriminate. cbn [bind] in D.
    destruct (sender_needs_1pu Fixed sender ws); [discriminate|].
    destruct (unwrap_cek Fixed party sender (j_tag E) ws) as [cek| | |] eqn:U; try discriminate. cbn [bind] in D.
    destruct (c_dec cek (c_aad (t_phdr prot) (j_aad E)) (j_iv E) (j_ct E) (j_tag E)) as [m0|] eqn:CD; [|discriminate].
    inversion D; subst m0. clear D.
    destruct (unwrap_cek_inv adv _ _ _ _ _ U) as [w [k [Hw [Hk Hu]]]].
    destruct (unwrap_one_inv _ _ _ _ _ Hu) as [K Hek].
    destruct (build_all_ek _ _ _ _ B _ Hw) as [rc [Hrc Hwr]].
    unfold wf_jwe in Hwf. rewrite Forall_forall in Hwf. pose proof (Hwf _ Hrc) as Hok.
    rewrite <- Hwr, Hek in Hok.
    assert (Haad : aad_of (WJwe E) = c_aad (t_phdr prot) (j_aad E)).
    { unfold aad_of, P, J. rewrite Hprot. reflexivity. }
    destruct Hok as [Hh|[Hl|[Hnw|Hadv]]].
    - left. destruct (honest_ek_shape _ _ Hh) as [h [Hin [[_ [a' [r [j [_ [_ [_ [Heq _]]]]]]]]|[a' [ze [apu [apv Heq]]]]]]];
        assert (Hc : cek = cek_of (h_rnd h)) by (inversion Heq; reflexivity);
        destruct (content_integrity_lemma h _ _ _ _ _ _ Hin Hc Hct CD) as [h' [w' [? [? [? ?]]]]];
        exists h', w'; rewrite Haad; repeat split; assumption.
    - destruct (honest_lek_shape _ _ Hl) as [h [Hin [[_ [r [nonce [_ Heq]]]]|[_ [e0 [r [_ Heq]]]]]]]; [|inversion Heq].
      left. assert (Hc : cek = cek_of (h_rnd h)) by (inversion Heq; reflexivity).
      destruct (content_integrity_lemma h _ _ _ _ _ _ Hin Hc Hct CD) as [h' [w' [? [? [? ?]]]]].
      exists h', w'. rewrite Haad. repeat split; assumption.
    - discriminate.
    - right. exists rc. split; [assumption|]. rewrite <- Hwr, Hek. exact Hadv.
  Qed.
End Integrity.

Section Legacy.
  Variable adv : N -> bool.
  Variable hs : list henv.

  Lemma t_lrcp_inj r r' : t_lrcp r = t_lrcp r' -> r = r'.
  Proof. destruct r, r'. unfold t_lrcp. cbn. intros H; inversion H; subst. reflexivity. Qed.

  Lemma find_ver_in party : forall recs r, find_ver party recs = Some r -> In r recs /\ mem (l_kid r) party = true.
  Proof.
    induction recs as [|x xs IH]; intros r; cbn [find_ver]; [discriminate|].
    destruct (mem (l_kid x) party) eqn:M.
    - intros H; inversion H; subst. split; [left; reflexivity|assumption].
    - intros H. destruct (IH _ H). split; [right|]; assumption.
  Qed.

  (* T3: the legacy authcrypt packer against an OUTSIDER (ciphertext hypothesis): sender and payload authentic *)
  Lemma legacy_auth_lemma party E m s k :
    wf_leg adv hs E -> ct_ok hs (le_ct E) -> (forall k, In k party -> adv k = false) ->
    unpack_leg true party E = Ok (m, Some s, k) ->
    adv s = true \/
    exists h, In h hs /\ packer_of (h_cfg h) = LegAuth /\ m = Bytes (h_payload h) /\ s = h_sender h /\
              In k (h_rcpts h) /\ In k party.
  Proof.
    intros Hwf Hct Hparty. unfold unpack_leg, wf_leg in *.
    destruct (le_prot E) as [prot|]; [|discriminate].
    destruct (negb (lp_typ_ok prot)); [discriminate|].
    destruct (lp_alg prot) eqn:Halg; try discriminate.
    destruct (find_ver party (lp_recs prot)) as [r|] eqn:F; [|discriminate].
    destruct (find_ver_in _ _ _ F) as [Hr Hk]. apply mem_In in Hk.
    destruct (seal_open (l_kid r) (l_sender r)) as [sp|] eqn:SO; [|discriminate].
    destruct sp as [| |s'| | | | |]; try discriminate.
    destruct (unwrap (box_key (l_kid r) s' (l_iv r)) (l_ek r)) as [cek|] eqn:U; [|discriminate].
    destruct (c_dec cek (t_lphdr prot) (le_iv E) (le_ct E) (le_tag E)) as [m0|] eqn:CD; [|discriminate].
    intros H. assert (m0 = m /\ s' = s /\ l_kid r = k) as [-> [-> Hkk]] by (inversion H; auto). clear H.
    apply unwrap_inv in U.
    rewrite Forall_forall in Hwf. pose proof (Hwf _ Hr) as Hok. rewrite U in Hok.
    destruct Hok as [Hh|[Hl|[Hnw|[K [c [Heq Hadv]]]]]].
    - exfalso. destruct (honest_ek_shape _ _ Hh) as [h [_ [[_ [a' [r' [j [_ [_ [_ [Heq _]]]]]]]]|[a' [ze [apu [apv Heq]]]]]]];
        inversion Heq.
    - destruct (honest_lek_shape _ _ Hl) as [h [Hin [[_ [r' [nonce [_ Heq]]]]|[_ [e0 [r' [_ Heq]]]]]]]; [|inversion Heq].
      right. assert (Hc : cek = cek_of (h_rnd h)) by (inversion Heq; reflexivity).
      destruct (content_integrity_lemma hs h _ _ _ _ _ _ Hin Hc Hct CD) as [h' [w' [Hin' [Hp' [Hm Haad]]]]].
      destruct w' as [j'|l'|].
      + exfalso. cbn [aad_of] in Haad. unfold t_lphdr, c_aad in Haad. inversion Haad.
      + destruct (hpack_leg_inv _ _ Hp') as [auth' [P' Hl']].
        cbn [aad_of] in Haad. unfold LP, L in Haad. rewrite Hl' in Haad. unfold pack_leg in Haad. cbn [le_prot] in Haad.
        unfold t_lphdr in Haad. cbn [lp_var lp_typ_ok lp_alg lp_recs] in Haad. rewrite Halg in Haad.
        destruct auth'; [|inversion Haad]. inversion Haad.
        match goal with Hx : map t_lrcp _ = map t_lrcp _ |- _ => rename Hx into Hrecs end.
        assert (Hin_r : In (t_lrcp r) (map t_lrcp (lp_recs prot))) by (apply in_map; assumption).
        rewrite Hrecs in Hin_r. apply in_map_iff in Hin_r as [r0 [Hr0 Hir0]]. apply t_lrcp_inj in Hr0. subst r0.
        destruct (leg_auth_recs_in _ _ _ _ _ Hir0) as [e [nonce' [Hkr Hreq]]].
        rewrite Hreq in SO. cbn [l_kid l_sender] in SO. rewrite seal_open_seal in SO. inversion SO; subst s.
        exists h'. rewrite <- Hkk. repeat split; assumption.
      + exfalso. unfold hpack, pack in Hp'. destruct (rejects _ _ _ _ _); [discriminate|].
        destruct (packer_of (h_cfg h')); try discriminate; destruct (pu_alg _ _); discriminate.
    - discriminate.
    - left. inversion Heq; subst K c. unfold box_key in Hadv. cbn [adv_kek forallb] in Hadv.
      rewrite !andb_true_iff in Hadv. destruct Hadv as [_ [Hd _]]. rewrite adv_dh_dh in Hd.
      rewrite Hkk in Hk. rewrite <- Hkk in Hk. rewrite (Hparty _ Hk) in Hd. exact Hd.
  Qed.
End Legacy.

(* ---------- corollaries used by Props ---------- *)
Lemma find_owned_mem v party single prot : forall recs k kr,
  find_owned v party single prot recs = Ok (k, kr) -> mem k party = true.
Proof.
  induction recs as [|rc recs IH]; intros k kr; cbn [find_owned]; [discriminate|].
  destruct (sel_kid single prot rc) as [kr0| | |]; try discriminate.
  destruct (resolve v kr0) as [k0| | |]; try discriminate.
  destruct (mem k0 party) eqn:M; [|apply IH]. intros H; inversion H; subst. assumption.
Qed.

Lemma unpack_jwe_to v auth party E m fr to : unpack_jwe v auth party E = Ok (m, fr, to) -> In to party.
Proof.
  unfold unpack_jwe. destruct (j_prot E) as [prot|]; [|discriminate].
  destruct (find_owned v party (single_rec (j_recs E)) prot (j_recs E)) as [[k kr]| | |] eqn:F; try discriminate.
  cbn [bind]. destruct (decrypt_jwe v party prot E); try discriminate. cbn [bind].
  intros H; inversion H; subst. apply mem_In. eapply find_owned_mem; eassumption.
Qed.

Lemma unpack_jwe_anon_from v party E m fr to : unpack_jwe v false party E = Ok (m, fr, to) -> fr = None.
Proof.
  unfold unpack_jwe. destruct (j_prot E) as [prot|]; [|discriminate].
  destruct (find_owned v party (single_rec (j_recs E)) prot (j_recs E)) as [[k kr]| | |]; try discriminate.
  cbn [bind]. destruct (decrypt_jwe v party prot E); try discriminate. cbn [bind].
  intros H; inversion H; reflexivity.
Qed.

(* ---------- the harness's mutation vocabulary stays inside the theorems' hypothesis ---------- *)
Section Covered.
  Variable adv : N -> bool.
  Variable hs : list henv.

  (* a recipient entry whose encrypted key is that of some entry of an honest wire (header arbitrary), or is no wrap *)
  Definition mut_rcp (rc : rcp) : Prop :=
    (exists h w i, In h hs /\ hpack h = Ok w /\ r_ek rc = r_ek (R w i)) \/ is_wrap (r_ek rc) = false.

  (* envelopes reachable from honest ones by the mutation grammar: any protected header / aad / iv / ciphertext /
     tag, any recipients array of such entries (reorder, drop, duplicate, splice from another envelope, insert
     junk entries, edit any header), re-encryption under any key *)
  Inductive mut_jwe : jwe -> Prop :=
  | MJ_honest h j : In h hs -> hpack h = Ok (WJwe j) -> mut_jwe j
  | MJ_prot p E : mut_jwe E -> mut_jwe (set_prot p E)
  | MJ_aad t E : mut_jwe E -> mut_jwe (set_aad t E)
  | MJ_iv t E : mut_jwe E -> mut_jwe (set_iv t E)
  | MJ_ct t E : mut_jwe E -> mut_jwe (set_ct t E)
  | MJ_tag t E : mut_jwe E -> mut_jwe (set_tag t E)
  | MJ_recs rs E : mut_jwe E -> Forall mut_rcp rs -> mut_jwe (set_recs rs E)
  | MJ_reenc cek m E : mut_jwe E -> mut_jwe (reenc_jwe cek m E).

  Lemma R_ek_ok h w i : In h hs -> hpack h = Ok w -> ek_ok adv hs (r_ek (R w i)).
  Proof.
    intros Hin Hp. unfold R. destruct (nth_in_or_default i (j_recs (J w)) (mkrcp None (Junk 0))) as [Hn|Hn].
    - destruct w as [j|l|]; cbn [J] in *; [|destruct Hn|destruct Hn].
      left. exists h, j. split; [assumption|]. split; [assumption|]. apply in_map. assumption.
    - rewrite Hn. right. right. left. reflexivity.
  Qed.

  Lemma mutations_covered_lemma E : mut_jwe E -> wf_jwe adv hs E.
  Proof.
    induction 1 as [h j Hin Hp| | | | | |rs E _ _ HF|]; try assumption.
    - unfold wf_jwe. rewrite Forall_forall. intros rc Hrc. left. exists h, j.
      split; [assumption|]. split; [assumption|]. apply in_map. assumption.
    - unfold wf_jwe. cbn [set_recs j_recs]. eapply Forall_impl; [|exact HF].
      intros rc [[h [w [i [Hin [Hp He]]]]]|Hn].
      + rewrite He. eapply R_ek_ok; eassumption.
      + right. right. left. assumption.
  Qed.
End Covered.

(* ---------- legacy anoncrypt ---------- *)
Section LegacyAnon.
  Variable hs : list henv.

  Lemma seal_open_inv k t c : seal_open k t = Some c -> exists e, t = seal e k c.
  Proof.
    unfold seal_open.
    repeat match goal with |- context [match ?x with _ => _ end] => is_var x; destruct x; try discriminate end.
    intros H. apply adec_inv in H. subst. eexists. unfold seal, seal_key. rewrite (dh_comm _ k). reflexivity.
  Qed.

  Lemma cek_honest_dec (c : term) :
    (exists h, In h hs /\ c = cek_of (h_rnd h)) \/ (forall h, In h hs -> c <> cek_of (h_rnd h)).
  Proof.
    induction hs as [|h l IH].
    - right. intros h [].
    - destruct (term_eqb c (cek_of (h_rnd h))) eqn:E.
      + left. exists h. split; [left; reflexivity|apply term_eqb_eq; assumption].
      + destruct IH as [[h' [Hin Hc]]|Hno].
        * left. exists h'. split; [right; assumption|assumption].
        * right. intros h' [<-|Hin].
          -- intro Hc. rewrite Hc, term_eqb_refl in E. discriminate.
          -- apply Hno; assumption.
  Qed.

  (* the legacy anoncrypt packer against an outsider: the payload is an honest legacy anoncrypt envelope's, addressed
     to the key that opened it — or the content key is nobody's but the adversary's (its own envelope) *)
  Lemma legacy_anon_lemma party E m fr k :
    ct_ok hs (le_ct E) ->
    unpack_leg false party E = Ok (m, fr, k) ->
    fr = None /\ In k party /\
    ((exists h, In h hs /\ packer_of (h_cfg h) = LegAnon /\ m = Bytes (h_payload h) /\ In k (h_rcpts h)) \/
     (exists t cek, seal_open k t = Some cek /\ forall h, In h hs -> cek <> cek_of (h_rnd h))).
  Proof.
    intros Hct. unfold unpack_leg.
    destruct (le_prot E) as [prot|]; [|discriminate].
    destruct (negb (lp_typ_ok prot)); [discriminate|].
    destruct (lp_alg prot) eqn:Halg; try discriminate.
    destruct (find_ver party (lp_recs prot)) as [r|] eqn:F; [|discriminate].
    destruct (find_ver_in _ _ _ F) as [Hr Hk]. apply mem_In in Hk.
    destruct (seal_open (l_kid r) (l_ek r)) as [cek|] eqn:SO; [|discriminate].
    destruct (c_dec cek (t_lphdr prot) (le_iv E) (le_ct E) (le_tag E)) as [m0|] eqn:CD; [|discriminate].
    intros H. assert (m0 = m /\ fr = None /\ l_kid r = k) as [-> [-> Hkk]] by (inversion H; auto). clear H.
    split; [reflexivity|]. split; [rewrite <- Hkk; assumption|].
    destruct (cek_honest_dec cek) as [[h [Hin Hc]]|Hno].
    - left.
      destruct (content_integrity_lemma hs h _ _ _ _ _ _ Hin Hc Hct CD) as [h' [w' [Hin' [Hp' [Hm Haad]]]]].
      destruct w' as [j'|l'|].
      + exfalso. cbn [aad_of] in Haad. unfold t_lphdr, c_aad in Haad. inversion Haad.
      + destruct (hpack_leg_inv _ _ Hp') as [auth' [P' Hl']].
        cbn [aad_of] in Haad. unfold LP, L in Haad. rewrite Hl' in Haad. unfold pack_leg in Haad. cbn [le_prot] in Haad.
        unfold t_lphdr in Haad. cbn [lp_var lp_typ_ok lp_alg lp_recs] in Haad. rewrite Halg in Haad.
        destruct auth'; [inversion Haad|]. inversion Haad.
        match goal with Hx : map t_lrcp _ = map t_lrcp _ |- _ => rename Hx into Hrecs end.
        assert (Hin_r : In (t_lrcp r) (map t_lrcp (lp_recs prot))) by (apply in_map; assumption).
        rewrite Hrecs in Hin_r. apply in_map_iff in Hin_r as [r0 [Hr0 Hir0]]. apply t_lrcp_inj in Hr0. subst r0.
        destruct (leg_anon_recs_in _ _ _ _ Hir0) as [e' [Hkr _]].
        exists h'. rewrite <- Hkk. repeat split; assumption.
      + exfalso. unfold hpack, pack in Hp'. destruct (rejects _ _ _ _ _); [discriminate|].
        destruct (packer_of (h_cfg h')); try discriminate; destruct (pu_alg _ _); discriminate.
    - right. exists (l_ek r), cek. rewrite <- Hkk. split; assumption.
  Qed.
End LegacyAnon.
