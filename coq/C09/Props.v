(* C09 — property theorems only. *)
From Coq Require Import List NArith String Bool.
Import ListNotations.
From VF Require Import gen.Gen_C09 C09.Model C09.Spec.
Local Open Scope N_scope.

(* GRAPH OBLIGATIONS on the tables regenerated from /repo on every run (finite: decided by computation).
   Every pair the implementation's CanTransitionTo allows is an edge of the published graph of the protocol. *)
Theorem graph_refines :
  graph_refines_b ic_names ic_spec ic_edges = true /\
  graph_refines_b pp_names pp_spec pp_edges = true /\
  graph_refines_b intro_names intro_spec intro_edges = true /\
  graph_refines_b didex_names didex_spec didex_edges = true /\
  graph_refines_b legacy_names legacy_spec legacy_edges = true.
Proof. vm_compute. repeat split. Qed.
Print Assumptions graph_refines.
