(* C09 — property theorems only.

   Vocabulary: `step p s o` is the service machine of Model.v over the protocol tables p (generated from /repo);
   `sedge p` = the implementation's CanTransitionTo relation plus "a non-terminal state may be abandoned";
   `spec_edge names spec` = the PUBLISHED graph of Spec.v (hand-written) plus the same abandon rule.
   `step_ok p s o` (Model.v): the states announced by the step continue the thread's persisted state along
   edges, the new persisted state is one of them (or unchanged), and a terminal state announces nothing.
   `disciplined` (the guard of the partial theorems): no message is accepted on a thread while one of its action
   events is still open, and no injected fault makes the listener abandon a thread after a terminal state was
   announced.  Operations carry faults (failing state read / write, failing network action at any position):
   the theorems quantify over them. *)
From Coq Require Import List NArith String Bool.
Import ListNotations.
From VF Require Import gen.Gen_C09 C09.Model C09.Spec C09.Proofs C09.Proofs2 C09.Subs.
Local Open Scope N_scope.

(* ---------- obligations on the tables regenerated from /repo on every run (finite, by computation) ---------- *)

(* every pair allowed by the implementation's CanTransitionTo is an edge of the published graph *)
Theorem graph_refines :
  graph_refines_b ic_names ic_spec ic_edges = true /\
  graph_refines_b pp_names pp_spec pp_edges = true /\
  graph_refines_b intro_names intro_spec intro_edges = true /\
  graph_refines_b didex_names didex_spec didex_edges = true /\
  graph_refines_b legacy_names legacy_spec legacy_edges = true.
Proof. vm_compute. repeat split. Qed.
Print Assumptions graph_refines.

(* terminal states (done / abandoned / completed) have no outgoing pair; executing them inbound has no follow-up *)
Theorem terminal_states_stuck :
  wf_proto ic_proto = true /\ wf_proto pp_proto = true /\ wf_proto intro_proto = true /\
  wf_proto didex_proto = true /\ wf_proto legacy_proto = true.
Proof. vm_compute. repeat split. Qed.
Print Assumptions terminal_states_stuck.

(* the implementation's message-type -> state map (nextState / stateFromMsgType) is the published one *)
Theorem targets_refine :
  targets_refine_b ic_names ic_msgs ic_spec ic_targets = true /\
  targets_refine_b pp_names pp_msgs pp_spec pp_targets = true /\
  targets_refine_b intro_names intro_msgs intro_spec intro_targets = true /\
  ns_targets_refine_b didex_names didex_msgs didex_spec didex_targets = true /\
  ns_targets_refine_b legacy_names legacy_msgs legacy_spec legacy_targets = true /\
  names_ok_b ic_names ic_spec = true /\ names_ok_b pp_names pp_spec = true /\
  names_ok_b intro_names intro_spec = true /\ names_ok_b didex_names didex_spec = true /\
  names_ok_b legacy_names legacy_spec = true.
Proof. vm_compute. repeat split. Qed.
Print Assumptions targets_refine.

(* which identifier of a wire message (id / thid / pthid, each present or absent) the services take as protocol
   instance id is the published DIDComm threading rule, for every message type, version and direction; and the
   persisted state they read is the state of that very identifier *)
Theorem resolve_refines :
  resolve_refines_b ic_resolve_spec ic_resolve = true /\
  resolve_refines_b pp_resolve_spec pp_resolve = true /\
  resolve_refines_b intro_resolve_spec intro_resolve = true.
Proof. vm_compute. repeat split. Qed.
Print Assumptions resolve_refines.

(* hence the machine's relation lies inside the published graph, for ALL pairs of states *)
Theorem sedge_in_published_graph : forall a b,
  (sedge ic_proto a b = true -> spec_edge ic_names ic_spec a b = true) /\
  (sedge pp_proto a b = true -> spec_edge pp_names pp_spec a b = true) /\
  (sedge intro_proto a b = true -> spec_edge intro_names intro_spec a b = true) /\
  (sedge didex_proto a b = true -> spec_edge didex_names didex_spec a b = true) /\
  (sedge legacy_proto a b = true -> spec_edge legacy_names legacy_spec a b = true).
Proof.
  intros a b. destruct graph_refines as [H1 [H2 [H3 [H4 H5]]]].
  repeat split; apply sedge_spec; try reflexivity; assumption.
Qed.
Print Assumptions sedge_in_published_graph.

(* ---------- FULL-STRENGTH statements that hold for every history (no discipline needed) ---------- *)

(* a rejected message changes nothing: neither the persisted states nor the open events, and announces nothing *)
Theorem reject_preserves : forall p s o,
  fst (snd (step p s o)) = RReject -> fst (step p s o) = s /\ snd (snd (step p s o)) = [].
Proof. exact reject_preserves_gen. Qed.
Print Assumptions reject_preserves.

(* a message whose target state is not allowed from the thread's current persisted state IS rejected *)
Theorem disallowed_rejected : forall p s outbound m v3 flag t f tape,
  match target p m v3 outbound with
  | Some x => can p (cur p s t) x = false
  | None => True
  end -> step p s (Msg outbound m v3 flag t f tape) = (s, (RReject, [])).
Proof. exact disallowed_rejected_gen. Qed.
Print Assumptions disallowed_rejected.

(* and conversely: whatever is not rejected was allowed at the time it arrived *)
Theorem accepted_allowed : forall p s outbound m v3 flag t f tape,
  fst (snd (step p s (Msg outbound m v3 flag t f tape))) <> RReject ->
  exists x, target p m v3 outbound = Some x /\ can p (cur p s t) x = true.
Proof. exact accepted_allowed_gen. Qed.
Print Assumptions accepted_allowed.

(* a step only touches the thread it works on *)
Theorem threads_independent : forall p s o t',
  (forall t, op_thread p s o = Some t -> t' <> t) -> cur p (fst (step p s o)) t' = cur p s t'.
Proof. exact step_other. Qed.
Print Assumptions threads_independent.

(* WIRE LEVEL (full): whatever identifiers a message carries (absent, equal, naming any other thread or instance),
   if it is not rejected then the thread it resolves to admitted it in its current persisted state, and no other
   thread's persisted state changes *)
Theorem wire_threads_independent : forall p s outbound m v3 flag wi wth wpth fresh f tape,
  fst (snd (step p s (Wire outbound m v3 flag wi wth wpth fresh f tape))) <> RReject ->
  exists t x, wire_thread_s p s m v3 outbound wi wth wpth fresh = Some t /\ target p m v3 outbound = Some x /\
              can p (cur p s t) x = true /\
              forall t', t' <> t -> cur p (fst (step p s (Wire outbound m v3 flag wi wth wpth fresh f tape))) t' = cur p s t'.
Proof. exact wire_accepted_gen. Qed.
Print Assumptions wire_threads_independent.

(* SUBSCRIBERS (full): state messages go to a snapshot of the registered channels; whatever the subscribers do from
   inside their handling of a message (unregister other channels, register new ones), a channel that is registered
   once when a sequence of state messages starts and is never unregistered receives exactly that sequence: same order,
   no gaps, no duplicates -- hence the path of the thread that the machine announces *)
Theorem subscriber_sees_all : forall sc j, never_unreg sc j -> forall evs s, In j (reg s) -> NoDup (reg s) ->
  stream_of j (bcast_all sc s evs) = stream_of j s ++ evs.
Proof. exact Subs_sees_all_gen. Qed.
Print Assumptions subscriber_sees_all.

(* ---------- THE PROPERTY: full statement, refuted as the code is; partial under the busy discipline ---------- *)

(* FULL STATEMENT (false for the code as it is): every step of every history respects the graph.
   Refuted on the faithful model by the history found on the real services (DESIGN section 11 #16, corpus/C09):
   the same request twice -> two action events; Continue #0 -> request-received, credential-issued; ack -> done;
   Continue #1 -> request-received, credential-issued announced AFTER done and persisted over it. *)
Theorem paths_refuted :
  exists ops, all_steps_ok ic_proto s0 ops = false /\
              terminal ic_proto (cur ic_proto (final ic_proto s0 (firstn 4 ops)) 1) = true /\
              cur ic_proto (final ic_proto s0 ops) 1 <> cur ic_proto (final ic_proto s0 (firstn 4 ops)) 1.
Proof.
  exists [Msg false 2 false false 1 nofault []; Msg false 2 false false 1 nofault []; Continue 0 4 nofault [];
          Msg false 4 false false 1 nofault []; Continue 1 4 nofault []].
  vm_compute. repeat split; discriminate.
Qed.
Print Assumptions paths_refuted.

(* present-proof: prover waits for the ack, a problem-report raises an event, the ack completes the thread,
   the stale event then overwrites done with abandoned *)
Theorem paths_refuted_presentproof :
  exists ops, all_steps_ok pp_proto s0 ops = false /\ disciplined pp_proto s0 ops = false.
Proof.
  exists [Msg false 1 false true 1 nofault []; Continue 0 3 nofault []; Msg false 4 false false 1 nofault [];
          Msg false 3 false false 1 nofault []; Continue 1 0 nofault []].
  vm_compute. split; reflexivity.
Qed.
Print Assumptions paths_refuted_presentproof.

(* PARTIAL: for ANY protocol tables whose terminal states are stuck, every disciplined history of any length,
   over any threads, message types, options, Stop/Continue decisions and follow-up tapes, respects the graph at
   every step. *)
Theorem paths_partial : forall p, terminal_stuck_b p = true ->
  forall ops, disciplined p s0 ops = true -> all_steps_ok p s0 ops = true.
Proof. intros p H ops Hd. apply (run_steps_ok p H ops s0 (inv_s0 p) Hd). Qed.
Print Assumptions paths_partial.

(* PARTIAL: once a thread's persisted state is terminal it never changes again (disciplined histories) *)
Theorem terminal_stable_partial : forall p, terminal_stuck_b p = true ->
  forall ops1 ops2 t, disciplined p s0 (ops1 ++ ops2) = true ->
  terminal p (cur p (final p s0 ops1) t) = true ->
  cur p (final p s0 (ops1 ++ ops2)) t = cur p (final p s0 ops1) t.
Proof.
  intros p H ops1 ops2 t Hd Ht. destruct (disciplined_app p ops1 s0 ops2 Hd) as [H1 H2].
  rewrite final_app. apply (run_terminal p H); [apply run_inv; [exact H|apply inv_s0|exact H1]|exact H2|exact Ht].
Qed.
Print Assumptions terminal_stable_partial.

(* the instances: the five services whose loops the machine models, with the tables of the current /repo *)
Theorem paths_partial_instances :
  (forall ops, disciplined ic_proto s0 ops = true -> all_steps_ok ic_proto s0 ops = true) /\
  (forall ops, disciplined pp_proto s0 ops = true -> all_steps_ok pp_proto s0 ops = true) /\
  (forall ops, disciplined intro_proto s0 ops = true -> all_steps_ok intro_proto s0 ops = true) /\
  (forall ops, disciplined didex_proto s0 ops = true -> all_steps_ok didex_proto s0 ops = true) /\
  (forall ops, disciplined legacy_proto s0 ops = true -> all_steps_ok legacy_proto s0 ops = true).
Proof. repeat split; apply paths_partial; vm_compute; reflexivity. Qed.
Print Assumptions paths_partial_instances.


(* a late or duplicated API decision (AcceptInvitation / AcceptExchangeRequest) is refused without any change unless
   the thread is still in the state the action event was raised in (DID Exchange, legacy Connection) *)
Theorem late_accept_refused : forall p s i tape v,
  nth_error (pending s) i = Some v -> cur p s (e_t v) <> e_src v -> step p s (Accept i tape) = (s, (RReject, [])).
Proof. exact accept_guard_gen. Qed.
Print Assumptions late_accept_refused.

(* FAULTS.  The full statement is also refuted by a failing network action AFTER a chain that ends in `done`:
   issue-credential (holder) persists done, then sends the ack; when the send fails the listener abandons:
   credential-received, done, abandoning, done are announced (confirmed on the real service; present-proof runs
   each action before it executes the follow-up and is not affected by send failures) *)
Theorem paths_refuted_send_failure :
  exists ops, all_steps_ok ic_proto s0 ops = false /\ disciplined ic_proto s0 ops = false /\
              step_fat ic_proto (final ic_proto s0 (firstn 2 ops)) (nth 2 ops (Accept 0 [])) = true.
Proof.
  exists [Msg true 2 false false 1 nofault []; Msg false 3 false false 1 nofault [];
          Continue 0 0 {| f_get := false; f_tp := false; f_put := None; f_act := Some 1%nat |} []].
  vm_compute. repeat split.
Qed.
Print Assumptions paths_refuted_send_failure.

(* HEADLINE (partial, in the PUBLISHED graph's own terms): for each of the five protocols, with the tables of the
   current /repo, every step of every guarded history -- any length, threads, wire identifiers, options, decisions,
   faults -- announces states that form a path of the PUBLISHED graph (Spec.v) from the thread's persisted state,
   persists a state of that path, and announces nothing once the persisted state is terminal *)
Theorem paths_in_published_graph :
  (forall ops, disciplined ic_proto s0 ops = true ->
     all_steps_ok_rel (spec_edge ic_names ic_spec) ic_proto s0 ops = true) /\
  (forall ops, disciplined pp_proto s0 ops = true ->
     all_steps_ok_rel (spec_edge pp_names pp_spec) pp_proto s0 ops = true) /\
  (forall ops, disciplined intro_proto s0 ops = true ->
     all_steps_ok_rel (spec_edge intro_names intro_spec) intro_proto s0 ops = true) /\
  (forall ops, disciplined didex_proto s0 ops = true ->
     all_steps_ok_rel (spec_edge didex_names didex_spec) didex_proto s0 ops = true) /\
  (forall ops, disciplined legacy_proto s0 ops = true ->
     all_steps_ok_rel (spec_edge legacy_names legacy_spec) legacy_proto s0 ops = true).
Proof.
  destruct paths_partial_instances as [H1 [H2 [H3 [H4 H5]]]].
  repeat split; intros ops Hd; (apply all_steps_ok_mono; [intros a b; apply (sedge_in_published_graph a b)|]);
    [apply H1|apply H2|apply H3|apply H4|apply H5]; exact Hd.
Qed.
Print Assumptions paths_in_published_graph.

(* restart: the decision of an action event taken through the API by protocol instance id (from the stored
   transitional payload) after the service was restarted; the callback handed out before the restart is gone *)
Example restart_nonvacuous :
  let ops := [Wire false 2 false false (Some 9) (Some 1) None 900 nofault []; Restart; Continue 0 4 nofault [];
              ContinueP 1 4 nofault []; ContinueP 1 4 nofault []] in
  disciplined ic_proto s0 ops = true /\ all_steps_ok ic_proto s0 ops = true /\
  map fst (snd (run ic_proto s0 ops)) = [RAction; ROk; RNoEvent; ROk; RNoEvent] /\
  cur ic_proto (final ic_proto s0 ops) 1 = 7.
Proof. vm_compute. repeat split. Qed.

(* ---------- non-vacuity ---------- *)

(* a disciplined issuer history with a negotiation loop, a failing Continue (abandoning -> done), a second thread,
   a rejected duplicate and a message after done *)
Example paths_nonvacuous :
  let ops := [Msg false 0 false false 1 nofault []; Continue 0 2 nofault []; Msg false 0 false false 1 nofault []; Continue 1 2 nofault [];
              Msg false 2 false false 1 nofault []; Msg false 2 false false 2 nofault []; Continue 2 4 nofault []; Continue 3 0 nofault [];
              Msg false 4 false false 1 nofault []; Msg false 2 false false 1 nofault []; Msg false 4 false false 1 nofault []] in
  disciplined ic_proto s0 ops = true /\ all_steps_ok ic_proto s0 ops = true /\
  cur ic_proto (final ic_proto s0 ops) 1 = 3 /\ cur ic_proto (final ic_proto s0 ops) 2 = 3 /\
  map fst (snd (run ic_proto s0 ops)) =
    [RAction; ROk; RAction; ROk; RAction; RAction; ROk; ROk; ROk; RReject; RReject].
Proof. vm_compute. repeat split. Qed.

Example terminal_stable_nonvacuous :
  let ops1 := [Msg true 1 false true 1 nofault []; Msg false 2 false false 1 nofault []; Continue 0 0 nofault []] in
  terminal pp_proto (cur pp_proto (final pp_proto s0 ops1) 1) = true /\
  disciplined pp_proto s0 (ops1 ++ [Msg false 4 false false 1 nofault []; Msg true 1 false false 1 nofault []]) = true.
Proof. vm_compute. split; reflexivity. Qed.

(* wire messages: a v3 presentation naming a fresh thread 2 with pthid = thread 1 (request sent) is checked against
   thread 2 (start) and rejected, thread 1 is untouched; a request without id but with a thid is refused; an
   issue-credential message with a pthid is handled for the instance the pthid names *)
Example wire_nonvacuous :
  let ops := [Wire true 1 true false (Some 1) None None 900 nofault [];
              Wire false 2 true false (Some 7) (Some 2) (Some 1) 901 nofault []] in
  map fst (snd (run pp_proto s0 ops)) = [ROk; RReject] /\ cur pp_proto (final pp_proto s0 ops) 1 = 4 /\
  wire_thread pp_proto 2 true false (Some 7) (Some 2) (Some 1) 901 = Some 2 /\
  wire_thread ic_proto 2 true false None (Some 1) None 902 = None /\
  wire_thread ic_proto 2 true false (Some 7) (Some 2) (Some 1) 903 = Some 1.
Proof. vm_compute. repeat split. Qed.

(* four channels; channel 1 unregisters channel 2 and registers channel 4 while handling its first PreState message:
   channels 0, 1 and 3 see every message, channel 2 still gets the message being delivered, channel 4 the later ones *)
Example subscribers_nonvacuous :
  let sc := [(1%nat, 1%nat, RUnreg 2); (1%nat, 1%nat, RReg 4)] in
  let evs := [(true, 6); (false, 6); (true, 7); (false, 7)] in
  let s := bcast_all sc {| reg := seq 0 4; cnt := []; slog := [] |} evs in
  stream_of 0 s = evs /\ stream_of 3 s = evs /\ stream_of 2 s = [(true, 6)] /\ stream_of 4 s = [(false, 6); (true, 7); (false, 7)].
Proof. vm_compute. repeat split. Qed.

(* introduce: the instance id stored with a thread's metadata comes first, then the pthid, then the thid: after the
   request on thread 1 was continued with recipients, a response with thid 1 and pthid 2 belongs to instance 1 *)
Example metadata_precedence_nonvacuous :
  let ops := [Wire false 1 false false (Some 8) (Some 1) None 900 nofault []; Continue 0 1 nofault [Some 0]] in
  let s := final intro_proto s0 ops in
  wire_thread_s intro_proto s0 2 false false (Some 9) (Some 1) (Some 2) 901 = Some 2 /\
  wire_thread_s intro_proto s 2 false false (Some 9) (Some 1) (Some 2) 901 = Some 1 /\
  wire_thread_s intro_proto s 2 false true (Some 9) (Some 1) (Some 2) 901 = Some 2.
Proof. vm_compute. repeat split. Qed.

(* guarded histories WITH faults: present-proof prover whose presentation fails to send (abandoned, done never
   announced); a failing state write; DID Exchange inviter: request, API accept, ack, late second accept refused *)
Example faults_nonvacuous :
  let sendfail := {| f_get := false; f_tp := false; f_put := None; f_act := Some 1%nat |} in
  let putfail := {| f_get := false; f_tp := false; f_put := Some 0%nat; f_act := None |} in
  let ops := [Msg false 1 false false 1 nofault []; Continue 0 3 sendfail [];
              Msg false 1 false false 2 nofault []; Continue 1 3 putfail []] in
  disciplined pp_proto s0 ops = true /\ all_steps_ok pp_proto s0 ops = true /\
  map snd (snd (run pp_proto s0 ops)) = [[]; [7; 8; 2]; []; [7; 2]] /\
  let dx := [Msg false 2 false false 1 nofault [Some 4]; Accept 0 [Some 0]; Msg false 4 false false 1 nofault [];
             Accept 0 [Some 0]] in
  disciplined didex_proto s0 dx = true /\ all_steps_ok didex_proto s0 dx = true /\
  map fst (snd (run didex_proto s0 dx)) = [RAction; ROk; ROk; RReject] /\
  cur didex_proto (final didex_proto s0 dx) 1 = 5.
Proof. vm_compute. repeat split. Qed.


(* ====================== wave 5 ====================== *)

(* SOURCE LEVEL (go/ast, finite, by computation): the state list the export hooks enumerate -- over which every table
   above is executed -- is exactly the set of state types each package declares (types with a CanTransitionTo method,
   by the constant their Name() returns): a state added to states.go cannot stay outside the tables *)
Theorem declared_states_listed :
  declared_listed_b ic_names ic_declared = true /\ declared_listed_b pp_names pp_declared = true /\
  declared_listed_b intro_names intro_declared = true /\ declared_listed_b didex_names didex_declared = true /\
  declared_listed_b legacy_names legacy_declared = true.
Proof. vm_compute. repeat split. Qed.
Print Assumptions declared_states_listed.

(* DID Exchange, legacy Connection: the follow-up of every ExecuteInbound, per message type (read off the method bodies
   on every run), covers every (state, message type); each follow-up other than noop is the PUBLISHED one (RFC 0023 /
   0160 under the name map), is a CanTransitionTo pair and an edge of the published graph; every published follow-up is
   there; terminal states have none.  The machine of these two protocols PREDICTS its follow-ups from this table. *)
Theorem follow_refines :
  follow_refines_b didex_names didex_msgs didex_spec didex_follow_spec didex_edges didex_follow = true /\
  follow_refines_b legacy_names legacy_msgs legacy_spec legacy_follow_spec legacy_edges legacy_follow = true /\
  p_follow didex_proto = Some didex_follow /\ p_follow legacy_proto = Some legacy_follow.
Proof. vm_compute. repeat split. Qed.
Print Assumptions follow_refines.

(* FULL (no busy discipline, no guard on faults): for ANY protocol tables whose terminal states are stuck, every
   history -- any length, threads, messages in any order and any number of times, any wire identifiers, any faults, any
   restarts -- in which the decisions on action events are taken through the GUARDED API (Accept: refused unless the
   thread is still in the state the event was raised in; the decision may be repeated, late, after completion) respects
   the graph at every step.  With `paths_refuted` this locates the defect exactly: the unguarded callbacks. *)
Theorem paths_full_guarded_decisions : forall p, terminal_stuck_b p = true ->
  forall ops, forallb api_op ops = true -> all_steps_ok p s0 ops = true.
Proof. intros p H ops Ha. exact (run_steps_ok0 p H ops s0 (inv0_s0 p) Ha). Qed.
Print Assumptions paths_full_guarded_decisions.

(* FULL: in such histories a terminal state is never left *)
Theorem terminal_stable_guarded_decisions : forall p, terminal_stuck_b p = true ->
  forall ops1 ops2 t, forallb api_op (ops1 ++ ops2) = true ->
  terminal p (cur p (final p s0 ops1) t) = true ->
  cur p (final p s0 (ops1 ++ ops2)) t = cur p (final p s0 ops1) t.
Proof.
  intros p H ops1 ops2 t Ha Ht. destruct (forallb_api_app ops1 ops2 Ha) as [H1 H2].
  rewrite (final_app p). exact (run_terminal0 p H ops2 _ t (run_inv0 p H ops1 s0 (inv0_s0 p) H1) H2 Ht).
Qed.
Print Assumptions terminal_stable_guarded_decisions.

(* HEADLINE for the two connection protocols (FULL, in the published graph's terms, follow-ups predicted from the
   generated table): DID Exchange and legacy Connection threads driven by messages and API decisions only move along
   the PUBLISHED graph and never leave completed / abandoned *)
Theorem connection_paths_in_published_graph :
  (forall ops, forallb api_op ops = true ->
     all_steps_ok_rel (spec_edge didex_names didex_spec) didex_proto s0 ops = true) /\
  (forall ops, forallb api_op ops = true ->
     all_steps_ok_rel (spec_edge legacy_names legacy_spec) legacy_proto s0 ops = true).
Proof.
  split; intros ops Ha; (apply all_steps_ok_mono; [intros a b; apply (sedge_in_published_graph a b)|]);
    apply paths_full_guarded_decisions; try exact Ha; vm_compute; reflexivity.
Qed.
Print Assumptions connection_paths_in_published_graph.

(* non-vacuity: DID Exchange inviter (thread 1): the request with a failing state write, with a failing state read, then
   accepted, then duplicated (refused); API accept; restart; late accept (refused); ack with a failing write of
   `completed` (announced, not persisted), ack again; accept after completion (refused); request after completion
   (refused).  No tape entry is read: the follow-ups come from the generated table. *)
Example guarded_decisions_nonvacuous :
  let putf := {| f_get := false; f_tp := false; f_put := Some 0%nat; f_act := None |} in
  let getf := {| f_get := true; f_tp := false; f_put := None; f_act := None |} in
  let dx := [Msg false 2 false false 1 putf [Some 0]; Msg false 2 false false 1 getf [Some 0];
             Msg false 2 false false 1 nofault [Some 0]; Msg false 2 false false 1 nofault [Some 0];
             Accept 0 [Some 0]; Restart; Accept 0 [Some 0]; Msg false 4 false false 1 putf [];
             Msg false 4 false false 1 nofault []; Accept 0 [Some 0]; Msg false 2 false false 1 nofault [Some 0]] in
  forallb api_op dx = true /\ all_steps_ok didex_proto s0 dx = true /\
  snd (run didex_proto s0 dx) =
    [(ROk, [3]); (RReject, []); (RAction, [3]); (RReject, []); (ROk, [4]); (ROk, []); (RReject, []); (ROk, [5]);
     (ROk, [5]); (RReject, []); (RReject, [])] /\
  cur didex_proto (final didex_proto s0 dx) 1 = 5.
Proof. vm_compute. repeat split. Qed.

(* DID Exchange invitee (thread 2): Stop whose write of `abandoned` fails announces nothing (abandon() writes first);
   after a restart the callback is gone; the API decision still works from the stored event, also after a first
   attempt failed on the content of the message *)
Example abandon_direct_nonvacuous :
  let putf := {| f_get := false; f_tp := false; f_put := Some 0%nat; f_act := None |} in
  let ops := [Msg false 0 true false 2 nofault [Some 0]; Stop 0 putf []; Restart; Stop 0 nofault []; Accept 0 [None];
              Accept 0 [Some 0]] in
  snd (run didex_proto s0 ops) = [(RAction, [2]); (ROk, []); (ROk, []); (RNoEvent, []); (RErr, [3]); (ROk, [3])] /\
  cur didex_proto (final didex_proto s0 ops) 2 = 3.
Proof. vm_compute. repeat split. Qed.
