(* C09 — lemmas: for ANY protocol tables whose terminal states have no outgoing pair, the service machine of
   Model.v keeps every thread on the graph, for every placement of faults, as long as the guards hold
   (busy discipline; no abandon after a terminal state was announced). *)
From Coq Require Import List NArith Arith PeanoNat Bool Lia.
Import ListNotations.
From VF Require Import gen.Gen_C09 C09.Model C09.Spec.
Local Open Scope N_scope.

Lemma memN_In x l : memN x l = true <-> In x l.
Proof.
  unfold memN. rewrite existsb_exists. split.
  - intros [y [Hy He]]. apply N.eqb_eq in He. subst. exact Hy.
  - intros H. exists x. split; [exact H|apply N.eqb_refl].
Qed.

Lemma last_default (l : list st) a d d' : last (a :: l) d = last (a :: l) d'.
Proof.
  revert a. induction l as [|b l IH]; intros a; [reflexivity|].
  change (last (a :: b :: l) d) with (last (b :: l) d). change (last (a :: b :: l) d') with (last (b :: l) d'). apply IH.
Qed.

Lemma last_cons_ne (l : list st) a d : l <> [] -> last (a :: l) d = last l d.
Proof. destruct l; [congruence|reflexivity]. Qed.

Lemma last_in (l : list st) d : l <> [] -> In (last l d) l.
Proof.
  induction l as [|a l IH]; [congruence|]. intros _. destruct l as [|b l].
  - left. reflexivity.
  - right. apply IH. discriminate.
Qed.

Section Generic.
  Variable p : proto.
  Hypothesis Hstuck : terminal_stuck_b p = true.

  Lemma terminal_stuck a b : terminal p a = true -> can p a b = false.
  Proof.
    intros Ht. destruct (can p a b) eqn:Hc; [|reflexivity]. exfalso.
    unfold can in Hc. apply existsb_exists in Hc. destruct Hc as [e [He Heq]].
    unfold terminal_stuck_b in Hstuck. rewrite forallb_forall in Hstuck. specialize (Hstuck e He).
    unfold pair_eqb in Heq. cbn [fst snd] in Heq. apply andb_true_iff in Heq. destruct Heq as [H1 _].
    apply N.eqb_eq in H1. rewrite <- H1 in Hstuck. rewrite Ht in Hstuck. discriminate.
  Qed.

  Lemma can_nonterminal a b : can p a b = true -> terminal p a = false.
  Proof.
    intros Hc. destruct (terminal p a) eqn:Ht; [|reflexivity].
    rewrite (terminal_stuck a b Ht) in Hc. discriminate.
  Qed.

  Lemma can_sedge a b : can p a b = true -> sedge p a b = true.
  Proof. intros H. unfold sedge. rewrite H. reflexivity. Qed.

  Lemma abandon_sedge a : terminal p a = false -> sedge p a (p_abandon p) = true.
  Proof. intros H. unfold sedge. rewrite N.eqb_refl, H. cbn. apply orb_true_r. Qed.

  (* ---- cur / set / commit ---- *)
  Lemma cur_set_same s t x : cur p (set s t x) t = x.
  Proof. unfold cur, set; cbn. rewrite N.eqb_refl. reflexivity. Qed.
  Lemma cur_set_other s t t' x : t' <> t -> cur p (set s t x) t' = cur p s t'.
  Proof. intros H. unfold cur, set; cbn. destruct (N.eqb_spec t t'); [congruence|reflexivity]. Qed.

  Lemma commit_pending s t pers : pending (commit s t pers) = pending s.
  Proof. destruct pers; reflexivity. Qed.
  Lemma commit_other s t pers t' : t' <> t -> cur p (commit s t pers) t' = cur p s t'.
  Proof. intros H. destruct pers; [apply cur_set_other; exact H|reflexivity]. Qed.
  Lemma commit_in s t pers ann : (forall y, pers = Some y -> In y ann) ->
    In (cur p (commit s t pers) t) (cur p s t :: ann).
  Proof.
    intros H. destruct pers as [y|]; cbn [commit].
    - rewrite cur_set_same. right. apply H. reflexivity.
    - left. reflexivity.
  Qed.
  Lemma commit_some s t y : cur p (commit s t (Some y)) t = y.
  Proof. apply cur_set_same. Qed.

  Lemma cur_add_ev s e t : cur p (add_ev s e) t = cur p s t.
  Proof. reflexivity. Qed.
  Lemma cur_store_ev s t' i t : cur p (store_ev s t' i) t = cur p s t.
  Proof. reflexivity. Qed.

  (* ---- paths ---- *)
  Lemma is_path_cons a b l : is_path p (a :: b :: l) = sedge p a b && is_path p (b :: l).
  Proof. reflexivity. Qed.

  Lemma is_path_app x l1 l2 :
    is_path p (x :: l1) = true -> is_path p (last (x :: l1) x :: l2) = true -> is_path p (x :: l1 ++ l2) = true.
  Proof.
    revert x. induction l1 as [|a l1 IH]; intros x H1 H2.
    - exact H2.
    - rewrite is_path_cons in H1. apply andb_true_iff in H1. destruct H1 as [Ha Hr].
      change ((a :: l1) ++ l2) with (a :: l1 ++ l2). rewrite is_path_cons, Ha. cbn [andb].
      apply IH; [exact Hr|].
      change (last (x :: a :: l1) x) with (last (a :: l1) x) in H2.
      rewrite (last_default l1 a a x). exact H2.
  Qed.

  (* ---- handle's loop ---- *)
  Definition chain_facts (c : st) (r : cres) : Prop :=
    (forall x, sedge p x c = true -> is_path p (x :: r_ann r) = true) /\
    (forall y, r_pers r = Some y -> In y (r_ann r)) /\
    (forall n, r_halt r = Some n -> r_ok r = true /\ can p (last (r_ann r) c) n = true) /\
    (p_persist_each p = true -> r_ok r = true -> r_pers r = Some (last (r_ann r) c)) /\
    (r_ok r = true -> r_ann r <> []).

  Lemma cfail_facts_one c pers tape np ix : (forall y, pers = Some y -> y = c) ->
    chain_facts c (cfail [c] pers tape np ix).
  Proof.
    intros Hp. unfold chain_facts, cfail; cbn [r_ann r_pers r_ok r_halt]. repeat split.
    - intros x Hx. rewrite is_path_cons, Hx. reflexivity.
    - intros y Hy. left. symmetry. apply Hp. exact Hy.
    - discriminate.
    - discriminate.
    - discriminate.
    - discriminate.
  Qed.

  Lemma chain_spec k : forall fuel c tape np ix, chain_facts c (chain p k fuel c tape np ix).
  Proof.
    induction fuel as [|f IH]; intros c tape np ix.
    - cbn [chain]. unfold chain_facts, cfail; cbn [r_ann r_pers r_ok r_halt]. repeat split; try discriminate.
    - cbn [chain]. destruct (exec1 p k c tape) as [[n|] tape'].
      2:{ apply cfail_facts_one. discriminate. }
      destruct (negb (N.eqb n 0) && negb (can p c n)) eqn:Hchk.
      { apply cfail_facts_one. discriminate. }
      (* the three ways to go on *)
      assert (GO : forall np1 pc, (forall y, pc = Some y -> y = c) ->
                (p_persist_each p = true -> pc = Some c) ->
        chain_facts c
          (if N.eqb n 0 then
             {| r_ann := [c]; r_pers := pc; r_ok := true; r_halt := None; r_tape := tape'; r_np := np1; r_ix := S ix |}
           else if post_action p c (c_v3 k) then
             {| r_ann := [c]; r_pers := pc; r_ok := true; r_halt := Some n; r_tape := tape'; r_np := np1; r_ix := S ix |}
           else
             let r := chain p k f n tape' np1 (S ix) in
             {| r_ann := c :: r_ann r; r_pers := match r_pers r with Some x => Some x | None => pc end;
                r_ok := r_ok r; r_halt := r_halt r; r_tape := r_tape r; r_np := r_np r; r_ix := r_ix r |})).
      { intros np1 pc Hpc Heach. destruct (N.eqb n 0) eqn:Hn0.
        - unfold chain_facts; cbn [r_ann r_pers r_ok r_halt]. repeat split; try discriminate.
          + intros x Hx. rewrite is_path_cons, Hx. reflexivity.
          + intros y Hy. left. symmetry. apply Hpc. exact Hy.
          + intros He _. cbn. apply Heach. exact He.
        - cbn [negb andb] in Hchk. apply negb_false_iff in Hchk.
          destruct (post_action p c (c_v3 k)).
          + unfold chain_facts; cbn [r_ann r_pers r_ok r_halt]. repeat split; try discriminate.
            * intros x Hx. rewrite is_path_cons, Hx. reflexivity.
            * intros y Hy. left. symmetry. apply Hpc. exact Hy.
            * injection H as <-. cbn. exact Hchk.
            * intros He _. cbn. apply Heach. exact He.
          + cbv zeta. destruct (IH n tape' np1 (S ix)) as [F1 [F2 [F3 [F4 F5]]]].
            set (r := chain p k f n tape' np1 (S ix)) in *.
            unfold chain_facts; cbn [r_ann r_pers r_ok r_halt]. repeat split.
            * intros x Hx. rewrite is_path_cons, Hx. cbn [andb]. apply F1. apply can_sedge. exact Hchk.
            * intros y Hy. destruct (r_pers r) as [z|] eqn:Ez.
              -- injection Hy as <-. right. apply F2. reflexivity.
              -- left. symmetry. apply Hpc. exact Hy.
            * apply (F3 n0 H).
            * destruct (F3 n0 H) as [Hok Hc]. pose proof (F5 Hok) as Hne.
              rewrite last_cons_ne by exact Hne.
              destruct (r_ann r) as [|a l]; [congruence|]. rewrite (last_default l a c n). exact Hc.
            * intros He Hok. rewrite (F4 He Hok). pose proof (F5 Hok) as Hne.
              rewrite last_cons_ne by exact Hne.
              destruct (r_ann r) as [|a l]; [congruence|]. rewrite (last_default l a c n). reflexivity.
            * discriminate. }
      destruct (p_persist_each p) eqn:Heach.
      + destruct (hit (f_put (c_f k)) np); [apply cfail_facts_one; discriminate|].
        destruct (hit (f_act (c_f k)) ix); [apply cfail_facts_one; intros y Hy; injection Hy as <-; reflexivity|].
        apply GO; [intros y Hy; injection Hy as <-; reflexivity|reflexivity].
      + apply GO; [discriminate|discriminate].
  Qed.

  (* handle *)
  Definition run_facts (c : st) (r : cres) : Prop :=
    (forall x, sedge p x c = true -> is_path p (x :: r_ann r) = true) /\
    (forall y, r_pers r = Some y -> In y (r_ann r)) /\
    (forall n, r_halt r = Some n ->
       r_ok r = true /\ can p (last (r_ann r) c) n = true /\ r_pers r = Some (last (r_ann r) c)).

  Lemma run_spec k c tape np ix : run_facts c (run_chain p k c tape np ix).
  Proof.
    unfold run_chain. destruct (chain_spec k chain_fuel c tape np ix) as [F1 [F2 [F3 [F4 F5]]]].
    set (r := chain p k chain_fuel c tape np ix) in *.
    destruct (p_persist_each p) eqn:Heach.
    - repeat split; [exact F1|exact F2|apply (F3 n H)|apply (F3 n H)|].
      apply F4; [reflexivity|apply (F3 n H)].
    - destruct (r_ok r) eqn:Hok.
      + assert (Hl : In (last (r_ann r) c) (r_ann r)) by (apply last_in; apply F5; reflexivity).
        destruct (hit (f_put (c_f k)) (r_np r)).
        * unfold run_facts, cfail; cbn [r_ann r_pers r_ok r_halt]. repeat split; try discriminate. exact F1.
        * destruct (hit_range (f_act (c_f k)) ix (r_ix r - ix)).
          -- unfold run_facts, cfail; cbn [r_ann r_pers r_ok r_halt]. repeat split; try discriminate; [exact F1|].
             intros y Hy. injection Hy as <-. exact Hl.
          -- unfold run_facts; cbn [r_ann r_pers r_ok r_halt]. repeat split; [exact F1| |apply (F3 n H)].
             intros y Hy. injection Hy as <-. exact Hl.
      + unfold run_facts, cfail; cbn [r_ann r_pers r_ok r_halt]. repeat split; try discriminate. exact F1.
  Qed.

  (* ---- process: handle + commit + event + abandon ---- *)
  Definition new_event_ok (s s2 : sstate) (t : thid) : Prop :=
    pending s2 = pending s \/
    exists e, pending s2 = pending s ++ [e] /\ e_t e = t /\ cur p s2 t = e_src e /\ can p (e_src e) (e_st e) = true.

  Lemma process_ok s t k m c skip ab tape s2 ann ok fat :
    process p s t k m c skip ab tape = (s2, ann, ok, fat) ->
    (skip = false -> sedge p (cur p s t) c = true) ->
    terminal p (cur p s t) = false ->
    fat = false ->
    is_path p (cur p s t :: ann) = true /\ In (cur p s2 t) (cur p s t :: ann) /\
    (forall t', t' <> t -> cur p s2 t' = cur p s t') /\ new_event_ok s s2 t.
  Proof.
    intros H Hedge Hnt Hfat. unfold process in H.
    set (r1 := if skip then cfail [] None tape 0%nat 0%nat else run_chain p k c tape 0%nat 0%nat) in *.
    assert (R1 : (is_path p (cur p s t :: r_ann r1) = true) /\ (forall y, r_pers r1 = Some y -> In y (r_ann r1)) /\
                 (forall n, r_halt r1 = Some n -> r_ok r1 = true /\ can p (last (r_ann r1) c) n = true /\
                                                  r_pers r1 = Some (last (r_ann r1) c))).
    { subst r1. destruct skip.
      - unfold cfail; cbn [r_ann r_pers r_ok r_halt]. repeat split; discriminate.
      - destruct (run_spec k c tape 0%nat 0%nat) as [G1 [G2 G3]]. split; [apply G1; apply Hedge; reflexivity|].
        split; [exact G2|exact G3]. }
    destruct R1 as [P1 [M1 H1]].
    set (s1 := commit s t (r_pers r1)) in *.
    assert (Hin1 : In (cur p s1 t) (cur p s t :: r_ann r1)) by (apply commit_in; exact M1).
    assert (Hoth1 : forall t', t' <> t -> cur p s1 t' = cur p s t') by (intros t' Ht; apply commit_other; exact Ht).
    destruct (r_ok r1) eqn:Hok.
    - injection H as <- <- _ _. split; [exact P1|].
      destruct (r_halt r1) as [n|] eqn:Hh.
      + destruct (H1 n eq_refl) as [_ [Hc Hp]]. rewrite cur_add_ev. split; [exact Hin1|].
        split; [intros t' Ht; rewrite cur_add_ev; apply Hoth1; exact Ht|].
        right. eexists. split; [unfold add_ev; cbn [pending]; unfold s1; rewrite commit_pending; reflexivity|].
        cbn [e_t e_src e_st]. split; [reflexivity|]. split; [|exact Hc].
        rewrite cur_add_ev. unfold s1. rewrite Hp. apply commit_some.
      + split; [exact Hin1|]. split; [exact Hoth1|]. left. unfold s1. apply commit_pending.
    - destruct (ab && p_abandons p && p_abandon_direct p).
      { destruct (hit (f_put (c_f k)) (r_np r1)).
        - injection H as <- <- _ _. split; [exact P1|]. split; [exact Hin1|]. split; [exact Hoth1|].
          left. unfold s1. apply commit_pending.
        - injection H as <- <- _ Hf. rewrite Hfat in Hf.
          assert (Hl : terminal p (last (cur p s t :: r_ann r1) (cur p s t)) = false).
          { destruct (r_ann r1) as [|a l] eqn:Ea.
            - exact Hnt.
            - change (last (cur p s t :: a :: l) (cur p s t)) with (last (a :: l) (cur p s t)).
              destruct skip.
              + subst r1. unfold cfail in Ea. cbn in Ea. discriminate.
              + cbn [negb andb] in Hf. exact Hf. }
          split; [apply is_path_app; [exact P1|]; rewrite is_path_cons; rewrite (abandon_sedge _ Hl); reflexivity|].
          split; [cbn [commit]; rewrite cur_set_same; right; apply in_or_app; right; left; reflexivity|].
          split; [intros t' Ht; cbn [commit]; rewrite cur_set_other by exact Ht; apply Hoth1; exact Ht|].
          left. cbn [commit set pending]. unfold s1. apply commit_pending. }
      destruct (ab && p_abandons p).
      + injection H as <- <- _ Hf. rewrite Hfat in Hf.
        destruct (run_spec k (p_abandon p) (r_tape r1) (r_np r1) (r_ix r1)) as [G1 [G2 _]].
        set (r2 := run_chain p k (p_abandon p) (r_tape r1) (r_np r1) (r_ix r1)) in *.
        assert (Hl : terminal p (last (cur p s t :: r_ann r1) (cur p s t)) = false).
        { destruct (r_ann r1) as [|a l] eqn:Ea.
          - exact Hnt.
          - change (last (cur p s t :: a :: l) (cur p s t)) with (last (a :: l) (cur p s t)).
            destruct skip.
            + subst r1. unfold cfail in Ea. cbn in Ea. discriminate.
            + cbn [negb andb] in Hf. exact Hf. }
        split; [apply is_path_app; [exact P1|apply G1; apply abandon_sedge; exact Hl]|].
        split.
        * pose proof (commit_in s1 t (r_pers r2) (r_ann r2) G2) as Hin2. destruct Hin2 as [Hin2|Hin2].
          -- rewrite <- Hin2. destruct Hin1 as [Hin1|Hin1]; [left; exact Hin1|right; apply in_or_app; left; exact Hin1].
          -- right. apply in_or_app. right. exact Hin2.
        * split; [intros t' Ht; rewrite commit_other by exact Ht; apply Hoth1; exact Ht|].
          left. rewrite commit_pending. unfold s1. apply commit_pending.
      + injection H as <- <- _ _. split; [exact P1|]. split; [exact Hin1|]. split; [exact Hoth1|].
        left. unfold s1. apply commit_pending.
  Qed.

  Lemma process_noab_fat s t k m c skip tape : snd (process p s t k m c skip false tape) = false.
  Proof.
    unfold process. destruct (r_ok _); [reflexivity|]. cbn [andb]. reflexivity.
  Qed.

  (* ---- pending list helpers ---- *)
  Lemma nth_kill_same l i e : nth_error l i = Some e ->
    nth_error (kill l i) i = Some {| e_t := e_t e; e_src := e_src e; e_st := e_st e; e_msg := e_msg e; e_v3 := e_v3 e;
                                     e_flag := e_flag e; e_live := false; e_badtid := e_badtid e; e_clos := e_clos e; e_tid := e_tid e |}.
  Proof.
    revert i. induction l as [|a l IH]; intros [|i] H; cbn in *; try discriminate.
    - injection H as ->. reflexivity.
    - apply IH. exact H.
  Qed.
  Lemma nth_kill_other l i j : i <> j -> nth_error (kill l i) j = nth_error l j.
  Proof.
    revert i j. induction l as [|a l IH]; intros [|i] [|j] H; cbn; try reflexivity; try congruence.
    apply IH. congruence.
  Qed.

  Lemma has_live_false s t : has_live s t = false ->
    forall i e, nth_error (pending s) i = Some e -> e_live e = true -> e_t e <> t.
  Proof.
    unfold has_live. intros H i e Hn Hl Heq.
    assert (X : existsb (fun e0 => e_live e0 && N.eqb (e_t e0) t) (pending s) = true).
    { apply existsb_exists. exists e. split; [eapply nth_error_In; exact Hn|]. rewrite Hl, Heq, N.eqb_refl. reflexivity. }
    congruence.
  Qed.

  Lemma live_others_false : forall l i t, live_others l i t = false ->
    forall j e, j <> i -> nth_error l j = Some e -> e_live e = true -> e_t e <> t.
  Proof.
    induction l as [|a l IH]; intros i t H j e Hj Hn Hl Heq; [destruct j; discriminate|].
    destruct i as [|i]; cbn [live_others] in H.
    - destruct j as [|j]; [congruence|]. cbn in Hn.
      assert (X : existsb (fun e' => e_live e' && N.eqb (e_t e') t) l = true).
      { apply existsb_exists. exists e. split; [eapply nth_error_In; exact Hn|]. rewrite Hl, Heq, N.eqb_refl. reflexivity. }
      congruence.
    - apply orb_false_iff in H. destruct H as [Ha Hr]. destruct j as [|j]; cbn in Hn.
      + injection Hn as ->. rewrite Hl, Heq, N.eqb_refl in Ha. discriminate.
      + apply (IH i t Hr j e); [congruence|exact Hn|exact Hl|exact Heq].
  Qed.

  (* ---- the invariant ---- *)
  Definition inv (s : sstate) : Prop :=
    (forall i e, nth_error (pending s) i = Some e -> can p (e_src e) (e_st e) = true) /\
    (forall i e, nth_error (pending s) i = Some e -> e_live e = true -> cur p s (e_t e) = e_src e) /\
    (forall i j e1 e2, nth_error (pending s) i = Some e1 -> nth_error (pending s) j = Some e2 ->
       e_live e1 = true -> e_live e2 = true -> e_t e1 = e_t e2 -> i = j).

  Lemma inv_s0 : inv s0.
  Proof. repeat split; intros; destruct i; discriminate. Qed.

  Lemma inv_kill s i v t : inv s -> nth_error (pending s) i = Some v -> inv (killed s i t).
  Proof.
    intros [I0 [I1 I2]] Hn. unfold killed. repeat split; cbn [pending].
    - intros j e Hj. destruct (Nat.eq_dec i j) as [<-|Hij].
      + rewrite (nth_kill_same _ _ _ Hn) in Hj. injection Hj as <-. cbn. eapply I0; exact Hn.
      + rewrite nth_kill_other in Hj by exact Hij. eapply I0; exact Hj.
    - intros j e Hj Hl. change (cur p (killed s i t)) with (cur p s).
      destruct (Nat.eq_dec i j) as [<-|Hij].
      + rewrite (nth_kill_same _ _ _ Hn) in Hj. injection Hj as <-. cbn in Hl. discriminate.
      + rewrite nth_kill_other in Hj by exact Hij. eapply I1; eassumption.
    - intros a b e1 e2 H1 H2 L1 L2 Ht.
      destruct (Nat.eq_dec i a) as [<-|Hia].
      { rewrite (nth_kill_same _ _ _ Hn) in H1. injection H1 as <-. cbn in L1. discriminate. }
      destruct (Nat.eq_dec i b) as [<-|Hib].
      { rewrite (nth_kill_same _ _ _ Hn) in H2. injection H2 as <-. cbn in L2. discriminate. }
      rewrite nth_kill_other in H1 by exact Hia. rewrite nth_kill_other in H2 by exact Hib. eapply I2; eassumption.
  Qed.

  (* no live event of thread t is left, the step changed only t, and added at most one well-formed event on t *)
  Lemma inv_extend s s2 t : inv s ->
    (forall i e, nth_error (pending s) i = Some e -> e_live e = true -> e_t e <> t) ->
    (forall t', t' <> t -> cur p s2 t' = cur p s t') -> new_event_ok s s2 t -> inv s2.
  Proof.
    intros [I0 [I1 I2]] NL Hoth [Hp|[e [Hp [Het [Hsrc Hcan]]]]].
    - repeat split; rewrite Hp.
      + exact I0.
      + intros i e Hn Hl. rewrite Hoth by (eapply NL; eassumption). eapply I1; eassumption.
      + exact I2.
    - repeat split; rewrite Hp.
      + intros i e0 Hn. destruct (Nat.lt_ge_cases i (length (pending s))) as [Hlt|Hge].
        * rewrite nth_error_app1 in Hn by exact Hlt. eapply I0; exact Hn.
        * rewrite nth_error_app2 in Hn by exact Hge. destruct (i - length (pending s))%nat as [|q]; cbn in Hn.
          -- injection Hn as <-. exact Hcan.
          -- destruct q; discriminate.
      + intros i e0 Hn Hl. destruct (Nat.lt_ge_cases i (length (pending s))) as [Hlt|Hge].
        * rewrite nth_error_app1 in Hn by exact Hlt. rewrite Hoth by (eapply NL; eassumption). eapply I1; eassumption.
        * rewrite nth_error_app2 in Hn by exact Hge. destruct (i - length (pending s))%nat as [|q]; cbn in Hn.
          -- injection Hn as <-. rewrite Het. exact Hsrc.
          -- destruct q; discriminate.
      + intros i j e1 e2 H1 H2 L1 L2 Ht.
        destruct (Nat.lt_ge_cases i (length (pending s))) as [Hi|Hi];
        destruct (Nat.lt_ge_cases j (length (pending s))) as [Hj|Hj].
        * rewrite nth_error_app1 in H1 by exact Hi. rewrite nth_error_app1 in H2 by exact Hj. eapply I2; eassumption.
        * rewrite nth_error_app1 in H1 by exact Hi. rewrite nth_error_app2 in H2 by exact Hj.
          destruct (j - length (pending s))%nat as [|q]; cbn in H2; [|destruct q; discriminate].
          injection H2 as <-. exfalso. eapply NL; [exact H1|exact L1|]. rewrite Ht. exact Het.
        * rewrite nth_error_app2 in H1 by exact Hi. rewrite nth_error_app1 in H2 by exact Hj.
          destruct (i - length (pending s))%nat as [|q]; cbn in H1; [|destruct q; discriminate].
          injection H1 as <-. exfalso. eapply NL; [exact H2|exact L2|]. rewrite <- Ht. exact Het.
        * rewrite nth_error_app2 in H1 by exact Hi. rewrite nth_error_app2 in H2 by exact Hj.
          destruct (i - length (pending s))%nat as [|q] eqn:Ei; cbn in H1; [|destruct q; discriminate].
          destruct (j - length (pending s))%nat as [|q] eqn:Ej; cbn in H2; [|destruct q; discriminate].
          lia.
  Qed.

  Lemma step_ok_of s o t s' r ann :
    op_thread p s o = Some t -> step p s o = (s', (r, ann)) ->
    is_path p (cur p s t :: ann) = true -> In (cur p s' t) (cur p s t :: ann) ->
    (terminal p (cur p s t) = false \/ ann = []) -> step_ok p s o = true.
  Proof.
    intros Ho Hs P M T. unfold step_ok. rewrite Ho, Hs, P. apply memN_In in M. rewrite M. cbn [andb].
    destruct T as [T| ->]; [rewrite T; reflexivity|apply orb_true_r].
  Qed.

  (* after killing the i-th (live, unique on its thread) event no live event of that thread is left *)
  Lemma no_live_after_kill s i v : inv s -> nth_error (pending s) i = Some v -> e_live v = true ->
    forall j e, nth_error (pending (killed s i (e_t v))) j = Some e -> e_live e = true -> e_t e <> e_t v.
  Proof.
    intros [_ [_ I2]] Hn Hl j e Hj Lj Heq. unfold killed in Hj. cbn [pending] in Hj.
    destruct (Nat.eq_dec i j) as [<-|Hij].
    - rewrite (nth_kill_same _ _ _ Hn) in Hj. injection Hj as <-. cbn in Lj. discriminate.
    - rewrite nth_kill_other in Hj by exact Hij. apply Hij. symmetry. eapply I2; eassumption.
  Qed.

  (* the application's decision on an open event *)
  Lemma decide_ok s i v opt stop f tape s' r ann :
    inv s -> nth_error (pending s) i = Some v -> e_live v = true ->
    decide p s i v opt stop f tape = (s', (r, ann), false) ->
    inv s' /\ is_path p (cur p s (e_t v) :: ann) = true /\ In (cur p s' (e_t v)) (cur p s (e_t v) :: ann) /\
    terminal p (cur p s (e_t v)) = false.
  Proof.
    intros Hinv Hn Hl ED. pose proof Hinv as [I0 [I1 I2]]. unfold decide in ED.
    match type of ED with context [process p _ _ ?k _ _ ?sk true tape] => set (k0 := k) in *; set (skip := sk) in * end.
    destruct (process p (killed s i (e_t v)) (e_t v) k0 (e_msg v) (e_st v) skip true tape) as [[[s2 ann2] ok] fat] eqn:EP.
    injection ED as Hs _ <- ->.
    assert (Hcur : forall x, cur p s' x = cur p s2 x).
    { intros x. rewrite <- Hs. destruct (match p_meta p with Some _ => _ | None => false end); [|reflexivity].
      destruct (e_tid v); reflexivity. }
    assert (Hinv' : inv s2 -> inv s').
    { intros Hx. rewrite <- Hs. destruct (match p_meta p with Some _ => _ | None => false end); [|exact Hx].
      destruct (e_tid v); exact Hx. }
    pose proof (I1 _ _ Hn Hl) as Hsrc. pose proof (I0 _ _ Hn) as Hcan. rewrite <- Hsrc in Hcan.
    assert (Hnt : terminal p (cur p s (e_t v)) = false) by (eapply can_nonterminal; exact Hcan).
    change (cur p s) with (cur p (killed s i (e_t v))) in Hcan, Hnt.
    destruct (process_ok _ _ _ _ _ _ _ _ _ _ _ _ EP (fun _ => can_sedge _ _ Hcan) Hnt eq_refl) as [P [M [O NE]]].
    split; [apply Hinv'; eapply (inv_extend (killed s i (e_t v)) s2 (e_t v) (inv_kill s i v (e_t v) Hinv Hn) (no_live_after_kill s i v Hinv Hn Hl) O NE)|].
    change (cur p (killed s i (e_t v))) with (cur p s) in *. split; [exact P|]. split; [rewrite Hcur; exact M|exact Hnt].
  Qed.

  Lemma inv_no_closures s : inv s -> inv (no_closures s).
  Proof.
    intros [I0 [I1 I2]]. unfold no_closures. repeat split; cbn [pending].
    - intros i e Hn. rewrite nth_error_map in Hn. destruct (nth_error (pending s) i) as [e0|] eqn:E; [|discriminate].
      injection Hn as <-. cbn. eapply I0; exact E.
    - intros i e Hn Hl. rewrite nth_error_map in Hn. destruct (nth_error (pending s) i) as [e0|] eqn:E; [|discriminate].
      injection Hn as <-. cbn in *. change (cur p (no_closures s)) with (cur p s).
      eapply I1; eassumption.
    - intros i j e1 e2 H1 H2 L1 L2 Ht. rewrite nth_error_map in H1, H2.
      destruct (nth_error (pending s) i) as [a|] eqn:Ea; [|discriminate].
      destruct (nth_error (pending s) j) as [b|] eqn:Eb; [|discriminate].
      injection H1 as <-. injection H2 as <-. cbn in *. eapply I2; eassumption.
  Qed.

  (* a message handled for thread t *)
  Lemma msg_inv s outbound m v3 flag t bt tid f tape s' r ann fat :
    inv s -> msg_step p s outbound m v3 flag t bt tid f tape = (s', (r, ann), fat) ->
    negb (has_live s t) || is_reject r = true ->
    inv s' /\ is_path p (cur p s t :: ann) = true /\ In (cur p s' t) (cur p s t :: ann) /\
    (terminal p (cur p s t) = false \/ ann = []).
  Proof.
    intros Hinv ES' Hd. unfold msg_step in ES'.
    assert (Hquiet : (s', (r, ann), fat) = (s, (RReject, []), false) ->
              inv s' /\ is_path p (cur p s t :: ann) = true /\ In (cur p s' t) (cur p s t :: ann) /\
              (terminal p (cur p s t) = false \/ ann = [])).
    { intros Hq. injection Hq as -> -> -> ->. split; [exact Hinv|]. split; [reflexivity|].
      split; [left; reflexivity|right; reflexivity]. }
    destruct (f_get f); [apply Hquiet; symmetry; exact ES'|].
    destruct (target p m v3 outbound) as [x|]; [|apply Hquiet; symmetry; exact ES'].
    destruct (can p (cur p s t) x) eqn:Hc; cbn [negb] in ES'; [|apply Hquiet; symmetry; exact ES'].
    assert (Hnt : terminal p (cur p s t) = false) by (eapply can_nonterminal; exact Hc).
    destruct (negb outbound && is_action p m v3).
    + destruct (f_tp f); [apply Hquiet; symmetry; exact ES'|].
      injection ES' as <- <- <- <-.
      cbn [is_reject] in Hd. rewrite orb_false_r in Hd. apply negb_true_iff in Hd.
      split.
      * eapply (inv_extend s _ t Hinv (has_live_false s t Hd)); [intros t' _; reflexivity|].
        right. eexists. split; [reflexivity|]. cbn [e_t e_src e_st]. repeat split. exact Hc.
      * split; [reflexivity|]. split; [left; reflexivity|left; exact Hnt].
    + match type of ES' with context [process p s t ?kk m x false false tape] => set (k := kk) in * end.
      destruct (process p s t k m x false false tape) as [[[s1 ann1] ok] fat1] eqn:EP.
      assert (Hfat : fat1 = false) by (pose proof (process_noab_fat s t k m x false tape) as X; rewrite EP in X; exact X).
      destruct (process_ok s t k m x false false tape s1 ann1 ok fat1 EP (fun _ => can_sedge _ _ Hc) Hnt Hfat)
        as [P [M [O NE]]].
      injection ES' as <- Hr <- _.
      assert (Hnl : has_live s t = false).
      { destruct (has_live s t); [|reflexivity]. cbn [negb orb] in Hd. rewrite <- Hr in Hd.
        destruct (ok || p_async p); [destruct (Nat.ltb _ _)|]; cbn in Hd; discriminate. }
      split; [eapply (inv_extend s s1 t Hinv (has_live_false s t Hnl) O NE)|].
      split; [exact P|]. split; [exact M|left; exact Hnt].
  Qed.

  Lemma step_inv s o : inv s -> disciplined_step p s o = true ->
    inv (fst (step p s o)) /\ step_ok p s o = true.
  Proof.
    intros Hinv Hd. pose proof Hinv as [I0 [I1 I2]].
    destruct o as [outbound m v3 flag t f tape|outbound m v3 flag wi wth wpth fresh f tape|i opt f tape|i f tape|i tape|t opt f tape|t f tape|].
    - (* a message *)
      unfold disciplined_step in Hd.
      destruct (step p s (Msg outbound m v3 flag t f tape)) as [s' [r ann]] eqn:ES. cbn [fst snd] in *.
      pose proof ES as ES'. unfold step, step_full in ES'.
      destruct (msg_step p s outbound m v3 flag t false None f tape) as [[s1 [r1 ann1]] fat] eqn:EM.
      cbn [fst] in ES'. injection ES' as <- <- <-.
      destruct (msg_inv _ _ _ _ _ _ _ _ _ _ _ _ _ _ Hinv EM Hd) as [Hi [P [M T]]].
      split; [exact Hi|]. eapply step_ok_of; [reflexivity|exact ES|exact P|exact M|exact T].
    - (* a wire message *)
      unfold disciplined_step in Hd.
      destruct (step p s (Wire outbound m v3 flag wi wth wpth fresh f tape)) as [s' [r ann]] eqn:ES. cbn [fst snd] in *.
      pose proof ES as ES'. unfold step, step_full in ES'.
      destruct (wire_thread_s p s m v3 outbound wi wth wpth fresh) as [t|] eqn:EW.
      2:{ cbn [fst] in ES'. injection ES' as <- <- <-. split; [exact Hinv|].
          unfold step_ok. cbn [op_thread]. rewrite EW. reflexivity. }
      destruct (_ && N.eqb (p_tid_check p) 2).
      { cbn [fst] in ES'. injection ES' as <- <- <-. split; [exact Hinv|].
        eapply step_ok_of; [cbn [op_thread]; exact EW|exact ES|reflexivity|left; reflexivity|right; reflexivity]. }
      destruct (msg_step p s outbound m v3 flag t _ _ _ tape) as [[s1 [r1 ann1]] fat] eqn:EM.
      cbn [fst] in ES'. injection ES' as <- Hr <-.
      assert (Hd' : negb (has_live s t) || is_reject r1 = true).
      { rewrite <- Hr in Hd. unfold relabel in Hd. destruct (_ && _) in Hd; [destruct r1|]; exact Hd. }
      destruct (msg_inv _ _ _ _ _ _ _ _ _ _ _ _ _ _ Hinv EM Hd') as [Hi [P [M T]]].
      split; [exact Hi|]. eapply step_ok_of; [cbn [op_thread]; exact EW|exact ES|exact P|exact M|exact T].
    - (* Continue *)
      unfold disciplined_step in Hd. apply negb_true_iff in Hd.
      destruct (step p s (Continue i opt f tape)) as [s' [r ann]] eqn:ES. cbn [fst].
      pose proof ES as ES'. unfold step, step_full in ES'. unfold step_fat, step_full in Hd.
      destruct (nth_error (pending s) i) as [v|] eqn:Hn.
      2:{ cbn [fst] in ES'. injection ES' as <- <- <-. split; [exact Hinv|].
          unfold step_ok. cbn [op_thread]. rewrite Hn. reflexivity. }
      destruct (e_live v && e_clos v) eqn:Hl.
      2:{ cbn [fst] in ES'. injection ES' as <- <- <-. split; [exact Hinv|].
          unfold step_ok. cbn [op_thread]. rewrite Hn, Hl. reflexivity. }
      apply andb_true_iff in Hl. destruct Hl as [Hl Hcl].
      destruct (decide_ok s i v opt false f tape s' r ann Hinv Hn Hl) as [Hi [P [M T]]].
      { destruct (decide p s i v opt false f tape) as [[a1 [a2 a4]] a3]. cbn [fst snd] in ES', Hd. injection ES' as -> -> ->. subst a3. reflexivity. }
      split; [exact Hi|].
      eapply step_ok_of; [cbn [op_thread]; rewrite Hn, Hl, Hcl; reflexivity|exact ES|exact P|exact M|left; exact T].
    - (* Stop *)
      unfold disciplined_step in Hd. apply negb_true_iff in Hd.
      destruct (step p s (Stop i f tape)) as [s' [r ann]] eqn:ES. cbn [fst].
      pose proof ES as ES'. unfold step, step_full in ES'. unfold step_fat, step_full in Hd.
      destruct (nth_error (pending s) i) as [v|] eqn:Hn.
      2:{ cbn [fst] in ES'. injection ES' as <- <- <-. split; [exact Hinv|].
          unfold step_ok. cbn [op_thread]. rewrite Hn. reflexivity. }
      destruct (e_live v && e_clos v) eqn:Hl.
      2:{ cbn [fst] in ES'. injection ES' as <- <- <-. split; [exact Hinv|].
          unfold step_ok. cbn [op_thread]. rewrite Hn, Hl. reflexivity. }
      apply andb_true_iff in Hl. destruct Hl as [Hl Hcl].
      destruct (decide p s i v 0 true f tape) as [[s2 [r2 ann2]] fat2] eqn:ED.
      cbn [fst snd] in ES', Hd. injection ES' as Hs <- <-. subst fat2.
      destruct (decide_ok s i v 0 true f tape s2 r2 ann2 Hinv Hn Hl ED) as [Hi [P [M T]]].
      assert (Hcur : forall t0, cur p s' t0 = cur p s2 t0) by (intros t0; rewrite <- Hs; destruct (p_stop_keeps_payload p); reflexivity).
      split.
      + rewrite <- Hs. destruct (p_stop_keeps_payload p); [|exact Hi].
        destruct Hi as [J0 [J1 J2]]. repeat split; [exact J0|exact J1|exact J2].
      + eapply step_ok_of; [cbn [op_thread]; rewrite Hn, Hl, Hcl; reflexivity|exact ES|exact P|rewrite Hcur; exact M|left; exact T].
    - (* Accept *)
      unfold disciplined_step in Hd.
      destruct (step p s (Accept i tape)) as [s' [r ann]] eqn:ES. cbn [fst snd] in *.
      pose proof ES as ES'. unfold step, step_full in ES'.
      destruct (nth_error (pending s) i) as [v|] eqn:Hn.
      2:{ cbn [fst] in ES'. injection ES' as <- <- <-. split; [exact Hinv|].
          unfold step_ok. cbn [op_thread]. rewrite Hn. reflexivity. }
      destruct (N.eqb (cur p s (e_t v)) (e_src v)) eqn:Hg.
      2:{ cbn [fst] in ES'. injection ES' as <- <- <-. split; [exact Hinv|].
          eapply step_ok_of; [cbn [op_thread]; rewrite Hn; reflexivity|exact ES|reflexivity|left; reflexivity|right; reflexivity]. }
      apply N.eqb_eq in Hg.
      match type of ES' with context [process p _ _ ?k _ _ false false tape] => set (k0 := k) in * end.
      destruct (process p (killed s i (e_t v)) (e_t v) k0 (e_msg v) (e_st v) false false tape) as [[[s2 ann2] ok] fat] eqn:EP.
      cbn [fst snd] in ES'. injection ES' as <- Hr <-.
      assert (Hfat : fat = false)
        by (pose proof (process_noab_fat (killed s i (e_t v)) (e_t v) k0 (e_msg v) (e_st v) false tape) as X; rewrite EP in X; exact X).
      assert (Hlo : live_others (pending s) i (e_t v) = false).
      { rewrite <- Hr in Hd. destruct ok; cbn [is_reject orb] in Hd; apply negb_true_iff in Hd; exact Hd. }
      pose proof (I0 _ _ Hn) as Hcan. rewrite <- Hg in Hcan.
      assert (Hnt : terminal p (cur p s (e_t v)) = false) by (eapply can_nonterminal; exact Hcan).
      change (cur p s) with (cur p (killed s i (e_t v))) in Hcan, Hnt.
      destruct (process_ok _ _ _ _ _ _ _ _ _ _ _ _ EP (fun _ => can_sedge _ _ Hcan) Hnt Hfat) as [P [M [O NE]]].
      split.
      + eapply (inv_extend (killed s i (e_t v)) s2 (e_t v) (inv_kill s i v (e_t v) Hinv Hn)); [|exact O|exact NE].
        intros j e Hj Lj. unfold killed in Hj. cbn [pending] in Hj.
        destruct (Nat.eq_dec i j) as [<-|Hij].
        * rewrite (nth_kill_same _ _ _ Hn) in Hj. injection Hj as <-. cbn in Lj. discriminate.
        * rewrite nth_kill_other in Hj by exact Hij.
          eapply (live_others_false _ _ _ Hlo j e); [congruence|exact Hj|exact Lj].
      + change (cur p (killed s i (e_t v))) with (cur p s) in *.
        eapply step_ok_of; [cbn [op_thread]; rewrite Hn; reflexivity|exact ES|exact P|exact M|left; exact Hnt].
    - (* ActionContinue by instance id *)
      unfold disciplined_step in Hd.
      destruct (step p s (ContinueP t opt f tape)) as [s' [r ann]] eqn:ES. cbn [fst snd] in *.
      pose proof ES as ES'. unfold step, step_full in ES'. unfold step_fat, step_full in Hd.
      destruct (payload s t) as [i|] eqn:Hp.
      2:{ cbn [fst] in ES'. injection ES' as <- <- <-. split; [exact Hinv|].
          unfold step_ok. cbn [op_thread]. rewrite Hp. reflexivity. }
      destruct (nth_error (pending s) i) as [v|] eqn:Hn.
      2:{ cbn [fst] in ES'. injection ES' as <- <- <-. split; [exact Hinv|].
          unfold step_ok. cbn [op_thread]. rewrite Hp, Hn. reflexivity. }
      destruct (existsb _ (p_cont_stops p)).
      { cbn [fst] in ES'. injection ES' as <- <- <-. split; [exact Hinv|].
        eapply step_ok_of; [cbn [op_thread]; rewrite Hp, Hn; reflexivity|exact ES|reflexivity|left; reflexivity|right; reflexivity]. }
      assert (Hr : r = ROk).
      { unfold decide in ES'. destruct (process p _ (e_t v) _ (e_msg v) (e_st v) _ true tape) as [[[a1 a2] a3] a4].
        cbn [fst] in ES'. injection ES' as _ <- _. reflexivity. }
      subst r. cbn [is_err orb] in Hd. apply andb_true_iff in Hd. destruct Hd as [Hl Hd]. apply negb_true_iff in Hd.
      destruct (decide_ok s i v opt false f tape s' ROk ann Hinv Hn Hl) as [Hi [P [M T]]].
      { destruct (decide p s i v opt false f tape) as [[a1 [a2 a4]] a3]. cbn [fst snd] in ES', Hd. injection ES' as -> -> ->. subst a3. reflexivity. }
      split; [exact Hi|].
      eapply step_ok_of; [cbn [op_thread]; rewrite Hp, Hn; reflexivity|exact ES|exact P|exact M|left; exact T].
    - (* ActionStop by instance id *)
      unfold disciplined_step in Hd.
      destruct (step p s (StopP t f tape)) as [s' [r ann]] eqn:ES. cbn [fst snd] in *.
      pose proof ES as ES'. unfold step, step_full in ES'. unfold step_fat, step_full in Hd.
      destruct (payload s t) as [i|] eqn:Hp.
      2:{ cbn [fst] in ES'. injection ES' as <- <- <-. split; [exact Hinv|].
          unfold step_ok. cbn [op_thread]. rewrite Hp. reflexivity. }
      destruct (nth_error (pending s) i) as [v|] eqn:Hn.
      2:{ cbn [fst] in ES'. injection ES' as <- <- <-. split; [exact Hinv|].
          unfold step_ok. cbn [op_thread]. rewrite Hp, Hn. reflexivity. }
      assert (Hr : r = ROk).
      { unfold decide in ES'. destruct (process p _ (e_t v) _ (e_msg v) (e_st v) _ true tape) as [[[a1 a2] a3] a4].
        cbn [fst] in ES'. injection ES' as _ <- _. reflexivity. }
      subst r. cbn [is_err orb] in Hd. apply andb_true_iff in Hd. destruct Hd as [Hl Hd]. apply negb_true_iff in Hd.
      destruct (decide_ok s i v 0 true f tape s' ROk ann Hinv Hn Hl) as [Hi [P [M T]]].
      { destruct (decide p s i v 0 true f tape) as [[a1 [a2 a4]] a3]. cbn [fst snd] in ES', Hd. injection ES' as -> -> ->. subst a3. reflexivity. }
      split; [exact Hi|].
      eapply step_ok_of; [cbn [op_thread]; rewrite Hp, Hn; reflexivity|exact ES|exact P|exact M|left; exact T].
    - (* Restart *)
      unfold step, step_full. cbn [fst]. split; [apply inv_no_closures; exact Hinv|reflexivity].
  Qed.

  Lemma run_steps_ok : forall ops s, inv s -> disciplined p s ops = true -> all_steps_ok p s ops = true.
  Proof.
    induction ops as [|o r IH]; intros s Hi Hd; [reflexivity|].
    cbn [disciplined all_steps_ok] in *. apply andb_true_iff in Hd. destruct Hd as [Hd Hr].
    destruct (step_inv s o Hi Hd) as [Hi' Hok]. rewrite Hok. cbn. apply IH; assumption.
  Qed.

  Lemma run_inv : forall ops s, inv s -> disciplined p s ops = true -> inv (final p s ops).
  Proof.
    induction ops as [|o r IH]; intros s Hi Hd; [exact Hi|].
    cbn [disciplined] in Hd. apply andb_true_iff in Hd. destruct Hd as [Hd Hr].
    destruct (step_inv s o Hi Hd) as [Hi' _].
    unfold final. cbn [run]. destruct (step p s o) as [s1 y] eqn:E. cbn [fst] in *.
    specialize (IH s1 Hi' Hr). unfold final in IH. destruct (run p s1 r) as [s2 ys]. exact IH.
  Qed.

  (* ---- a step touches one thread only ---- *)
  Lemma process_other s t k m c skip ab tape t' :
    t' <> t -> cur p (fst (fst (fst (process p s t k m c skip ab tape)))) t' = cur p s t'.
  Proof.
    intros Ht. unfold process.
    set (r1 := if skip then _ else _).
    destruct (r_ok r1).
    - cbn [fst]. destruct (r_halt r1); [rewrite cur_add_ev|]; apply commit_other; exact Ht.
    - destruct (ab && p_abandons p && p_abandon_direct p).
      { destruct (hit _ _); cbn [fst].
        - apply commit_other. exact Ht.
        - cbn [commit]. rewrite cur_set_other by exact Ht. apply commit_other. exact Ht. }
      destruct (ab && p_abandons p); cbn [fst].
      + rewrite commit_other by exact Ht. apply commit_other. exact Ht.
      + apply commit_other. exact Ht.
  Qed.

  Lemma msg_step_other s outbound m v3 flag t bt tid f tape t' :
    t' <> t -> cur p (fst (fst (msg_step p s outbound m v3 flag t bt tid f tape))) t' = cur p s t'.
  Proof.
    intros H. unfold msg_step. destruct (f_get f); [reflexivity|].
    destruct (target p m v3 outbound) as [x|]; [|reflexivity].
    destruct (negb (can p (cur p s t) x)); [reflexivity|].
    destruct (negb outbound && is_action p m v3); [destruct (f_tp f); reflexivity|].
    match goal with |- context [process p s t ?k m x false false tape] =>
      pose proof (process_other s t k m x false false tape t' H) as L;
      destruct (process p s t k m x false false tape) as [[[s1 ann] ok] fat] end.
    cbn [fst] in *. exact L.
  Qed.

  Lemma decide_other s i v opt stop f tape t' :
    t' <> e_t v -> cur p (fst (fst (decide p s i v opt stop f tape))) t' = cur p s t'.
  Proof.
    intros H. unfold decide.
    match goal with |- context [process p ?s' (e_t v) ?k (e_msg v) (e_st v) ?sk true tape] =>
      pose proof (process_other s' (e_t v) k (e_msg v) (e_st v) sk true tape t' H) as L;
      destruct (process p s' (e_t v) k (e_msg v) (e_st v) sk true tape) as [[[s2 ann] ok] fat] end.
    cbn [fst] in *. destruct (match p_meta p with Some _ => _ | None => false end); [|exact L].
    destruct (e_tid v); exact L.
  Qed.

  Lemma step_other s o t' :
    (forall t, op_thread p s o = Some t -> t' <> t) -> cur p (fst (step p s o)) t' = cur p s t'.
  Proof.
    intros H. unfold step, step_full.
    destruct o as [outbound m v3 flag t f tape|outbound m v3 flag wi wth wpth fresh f tape|i opt f tape|i f tape|i tape|t opt f tape|t f tape|];
      cbn [op_thread] in *.
    - apply msg_step_other. apply H. reflexivity.
    - destruct (wire_thread_s p s m v3 outbound wi wth wpth fresh) as [t|]; [|reflexivity].
      destruct (_ && N.eqb (p_tid_check p) 2); [reflexivity|].
      match goal with |- context [msg_step p s outbound m v3 flag t ?b ?td ?ff tape] =>
        pose proof (msg_step_other s outbound m v3 flag t b td ff tape t' (H t eq_refl)) as L;
        destruct (msg_step p s outbound m v3 flag t b td ff tape) as [[s1 [r1 ann1]] fat] end.
      cbn [fst] in *. exact L.
    - destruct (nth_error (pending s) i) as [v|]; [|reflexivity]. destruct (e_live v && e_clos v); [|reflexivity].
      apply decide_other. apply H. reflexivity.
    - destruct (nth_error (pending s) i) as [v|]; [|reflexivity]. destruct (e_live v && e_clos v); [|reflexivity].
      pose proof (decide_other s i v 0 true f tape t' (H _ eq_refl)) as L.
      destruct (decide p s i v 0 true f tape) as [[s2 y] fat]. cbn [fst] in *.
      destruct (p_stop_keeps_payload p); exact L.
    - destruct (nth_error (pending s) i) as [v|]; [|reflexivity]. specialize (H (e_t v) eq_refl).
      destruct (N.eqb (cur p s (e_t v)) (e_src v)); [|reflexivity].
      match goal with |- context [process p ?s' (e_t v) ?k (e_msg v) (e_st v) false false tape] =>
        pose proof (process_other s' (e_t v) k (e_msg v) (e_st v) false false tape t' H) as L;
        destruct (process p s' (e_t v) k (e_msg v) (e_st v) false false tape) as [[[s2 ann] ok] fat] end.
      cbn [fst] in *. exact L.
    - destruct (payload s t) as [i|]; [|reflexivity]. destruct (nth_error (pending s) i) as [v|]; [|reflexivity].
      destruct (existsb _ (p_cont_stops p)); [reflexivity|]. apply decide_other. apply H. reflexivity.
    - destruct (payload s t) as [i|]; [|reflexivity]. destruct (nth_error (pending s) i) as [v|]; [|reflexivity].
      apply decide_other. apply H. reflexivity.
    - reflexivity.
  Qed.

  (* ---- terminal states are never left (guarded histories) ---- *)
  Lemma step_terminal s o t : inv s -> disciplined_step p s o = true ->
    terminal p (cur p s t) = true -> cur p (fst (step p s o)) t = cur p s t.
  Proof.
    intros Hi Hd Ht. destruct (step_inv s o Hi Hd) as [_ Hok].
    destruct (op_thread p s o) as [t0|] eqn:Eo.
    - destruct (N.eq_dec t t0) as [->|Hne].
      + unfold step_ok in Hok. rewrite Eo in Hok. destruct (step p s o) as [s' [r ann]]. cbn [fst].
        apply andb_true_iff in Hok. destruct Hok as [Hok H3]. apply andb_true_iff in Hok. destruct Hok as [_ H2].
        rewrite Ht in H3. cbn in H3. destruct ann; [|discriminate].
        apply memN_In in H2. destruct H2 as [H2|[]]. symmetry. exact H2.
      + apply step_other. intros t1 H1. congruence.
    - apply step_other. intros t1 H1. congruence.
  Qed.

  Lemma run_terminal : forall ops s t, inv s -> disciplined p s ops = true ->
    terminal p (cur p s t) = true -> cur p (final p s ops) t = cur p s t.
  Proof.
    induction ops as [|o r IH]; intros s t Hi Hd Ht; [reflexivity|].
    cbn [disciplined] in Hd. apply andb_true_iff in Hd. destruct Hd as [Hd Hr].
    destruct (step_inv s o Hi Hd) as [Hi' _].
    pose proof (step_terminal s o t Hi Hd Ht) as Hs.
    unfold final. cbn [run]. destruct (step p s o) as [s1 y] eqn:E. cbn [fst] in *.
    assert (Ht1 : terminal p (cur p s1 t) = true) by (rewrite Hs; exact Ht).
    specialize (IH s1 t Hi' Hr Ht1). unfold final in IH. destruct (run p s1 r) as [s2 ys]. cbn [fst] in *.
    rewrite IH. exact Hs.
  Qed.

  Lemma disciplined_app : forall a s b, disciplined p s (a ++ b) = true ->
    disciplined p s a = true /\ disciplined p (final p s a) b = true.
  Proof.
    induction a as [|o r IH]; intros s b H; [split; [reflexivity|exact H]|].
    change ((o :: r) ++ b) with (o :: r ++ b) in H. cbn [disciplined] in *.
    apply andb_true_iff in H. destruct H as [Hd Hr]. destruct (IH _ _ Hr) as [H1 H2].
    rewrite Hd, H1. split; [reflexivity|].
    unfold final in *. cbn [run]. destruct (step p s o) as [s1 y]. cbn [fst] in *.
    destruct (run p s1 r) as [s2 ys]. exact H2.
  Qed.

  Lemma final_app : forall a s b, final p s (a ++ b) = final p (final p s a) b.
  Proof.
    induction a as [|o r IH]; intros s b; [reflexivity|].
    change ((o :: r) ++ b) with (o :: r ++ b). unfold final in *. cbn [run].
    destruct (step p s o) as [s1 y]. specialize (IH s1 b).
    destruct (run p s1 (r ++ b)) as [s2 ys]. destruct (run p s1 r) as [s3 zs]. cbn [fst] in *. exact IH.
  Qed.
End Generic.

(* ---- statements that need no guard and no hypothesis on the tables ---- *)
Lemma cur_set_other_gen p s t t' x : t' <> t -> cur p (set s t x) t' = cur p s t'.
Proof. intros H. unfold cur, set; cbn. destruct (N.eqb_spec t t'); [congruence|reflexivity]. Qed.
Lemma commit_other_gen p s t pers t' : t' <> t -> cur p (commit s t pers) t' = cur p s t'.
Proof. intros H. destruct pers; [apply cur_set_other_gen; exact H|reflexivity]. Qed.
Lemma process_other_gen p s t k m c skip ab tape t' :
  t' <> t -> cur p (fst (fst (fst (process p s t k m c skip ab tape)))) t' = cur p s t'.
Proof.
  intros Ht. unfold process.
  set (r1 := if skip then _ else _).
  destruct (r_ok r1).
  - cbn [fst]. destruct (r_halt r1); [unfold add_ev, cur; cbn [persisted]; fold (cur p (commit s t (r_pers r1)) t')|];
      apply commit_other_gen; exact Ht.
  - destruct (ab && p_abandons p && p_abandon_direct p).
    { destruct (hit _ _); cbn [fst].
      - apply commit_other_gen. exact Ht.
      - cbn [commit]. rewrite cur_set_other_gen by exact Ht. apply commit_other_gen. exact Ht. }
    destruct (ab && p_abandons p); cbn [fst].
    + rewrite commit_other_gen by exact Ht. apply commit_other_gen. exact Ht.
    + apply commit_other_gen. exact Ht.
Qed.

Lemma msg_reject_preserves p s outbound m v3 flag t bt tid f tape :
  fst (snd (fst (msg_step p s outbound m v3 flag t bt tid f tape))) = RReject ->
  fst (fst (msg_step p s outbound m v3 flag t bt tid f tape)) = s /\ snd (snd (fst (msg_step p s outbound m v3 flag t bt tid f tape))) = [].
Proof.
  unfold msg_step. destruct (f_get f); [intros _; split; reflexivity|].
  destruct (target p m v3 outbound) as [x|]; [|intros _; split; reflexivity].
  destruct (negb (can p (cur p s t) x)); [intros _; split; reflexivity|].
  destruct (negb outbound && is_action p m v3).
  + destruct (f_tp f); [intros _; split; reflexivity|cbn; discriminate].
  + destruct (process p s t _ m x false false tape) as [[[s1 ann] ok] fat]. cbn [fst snd].
    destruct (ok || p_async p); [destruct (Nat.ltb _ _)|]; discriminate.
Qed.

Lemma decide_not_reject p s i v opt stop f tape : fst (snd (fst (decide p s i v opt stop f tape))) <> RReject.
Proof.
  unfold decide. destruct (process p _ (e_t v) _ (e_msg v) (e_st v) _ true tape) as [[[s2 ann] ok] fat]. cbn [fst snd]. discriminate.
Qed.

Lemma reject_preserves_gen p s o :
  fst (snd (step p s o)) = RReject -> fst (step p s o) = s /\ snd (snd (step p s o)) = [].
Proof.
  unfold step, step_full.
  destruct o as [outbound m v3 flag t f tape|outbound m v3 flag wi wth wpth fresh f tape|i opt f tape|i f tape|i tape|t opt f tape|t f tape|].
  - apply msg_reject_preserves.
  - destruct (wire_thread_s p s m v3 outbound wi wth wpth fresh) as [t|]; [|intros _; split; reflexivity].
    destruct (_ && N.eqb (p_tid_check p) 2); [intros _; split; reflexivity|].
    match goal with |- context [msg_step p s outbound m v3 flag t ?b ?td ?ff tape] =>
      pose proof (msg_reject_preserves p s outbound m v3 flag t b td ff tape) as L;
      destruct (msg_step p s outbound m v3 flag t b td ff tape) as [[s1 [r1 ann1]] fat] end.
    cbn [fst snd] in *.
    intros H. apply L. unfold relabel in H. destruct (_ && _) in H; [destruct r1; try discriminate|]; exact H.
  - destruct (nth_error (pending s) i) as [v|]; [|cbn; discriminate]. destruct (e_live v && e_clos v); [|cbn; discriminate].
    intros H. exfalso. exact (decide_not_reject _ _ _ _ _ _ _ _ H).
  - destruct (nth_error (pending s) i) as [v|]; [|cbn; discriminate]. destruct (e_live v && e_clos v); [|cbn; discriminate].
    pose proof (decide_not_reject p s i v 0 true f tape) as N.
    destruct (decide p s i v 0 true f tape) as [[s2 y] fat]. cbn [fst snd] in *. intros H. exfalso. exact (N H).
  - destruct (nth_error (pending s) i) as [v|]; [|cbn; discriminate].
    destruct (N.eqb (cur p s (e_t v)) (e_src v)); [|intros _; split; reflexivity].
    destruct (process p _ (e_t v) _ (e_msg v) (e_st v) false false tape) as [[[s2 ann] ok] fat]. cbn [fst snd].
    destruct ok; discriminate.
  - destruct (payload s t) as [i|]; [|cbn; discriminate]. destruct (nth_error (pending s) i) as [v|]; [|cbn; discriminate].
    destruct (existsb _ (p_cont_stops p)); [cbn; discriminate|].
    intros H. exfalso. exact (decide_not_reject _ _ _ _ _ _ _ _ H).
  - destruct (payload s t) as [i|]; [|cbn; discriminate]. destruct (nth_error (pending s) i) as [v|]; [|cbn; discriminate].
    intros H. exfalso. exact (decide_not_reject _ _ _ _ _ _ _ _ H).
  - cbn. discriminate.
Qed.

Lemma disallowed_rejected_gen p s outbound m v3 flag t f tape :
  match target p m v3 outbound with
  | Some x => can p (cur p s t) x = false
  | None => True
  end -> step p s (Msg outbound m v3 flag t f tape) = (s, (RReject, [])).
Proof.
  unfold step, step_full, msg_step. destruct (f_get f); [reflexivity|].
  destruct (target p m v3 outbound) as [x|]; [|reflexivity]. intros ->. reflexivity.
Qed.

Lemma accepted_allowed_gen p s outbound m v3 flag t f tape :
  fst (snd (step p s (Msg outbound m v3 flag t f tape))) <> RReject ->
  exists x, target p m v3 outbound = Some x /\ can p (cur p s t) x = true.
Proof.
  unfold step, step_full, msg_step. destruct (f_get f); [cbn; congruence|].
  destruct (target p m v3 outbound) as [x|]; [|cbn; congruence].
  destruct (can p (cur p s t) x) eqn:Hc; [intros _; exists x; split; [reflexivity|exact Hc]|cbn; congruence].
Qed.

(* WIRE level: an accepted message was admitted by the state of the very thread it resolves to, and that is the only
   thread whose persisted state can differ afterwards *)
Lemma msg_accepted p s outbound m v3 flag t bt tid f tape :
  fst (snd (fst (msg_step p s outbound m v3 flag t bt tid f tape))) <> RReject ->
  exists x, target p m v3 outbound = Some x /\ can p (cur p s t) x = true.
Proof.
  unfold msg_step. destruct (f_get f); [cbn; congruence|].
  destruct (target p m v3 outbound) as [x|]; [|cbn; congruence].
  destruct (can p (cur p s t) x) eqn:Hc; [intros _; exists x; split; [reflexivity|exact Hc]|cbn; congruence].
Qed.

Lemma msg_step_other_gen p s outbound m v3 flag t bt tid f tape t' :
  t' <> t -> cur p (fst (fst (msg_step p s outbound m v3 flag t bt tid f tape))) t' = cur p s t'.
Proof.
  intros H. unfold msg_step. destruct (f_get f); [reflexivity|].
  destruct (target p m v3 outbound) as [x|]; [|reflexivity].
  destruct (negb (can p (cur p s t) x)); [reflexivity|].
  destruct (negb outbound && is_action p m v3); [destruct (f_tp f); reflexivity|].
  match goal with |- context [process p s t ?k m x false false tape] =>
    pose proof (process_other_gen p s t k m x false false tape t' H) as L;
    destruct (process p s t k m x false false tape) as [[[s1 ann] ok] fat] end.
  cbn [fst] in *. exact L.
Qed.

Lemma wire_accepted_gen p s outbound m v3 flag wi wth wpth fresh f tape :
  fst (snd (step p s (Wire outbound m v3 flag wi wth wpth fresh f tape))) <> RReject ->
  exists t x, wire_thread_s p s m v3 outbound wi wth wpth fresh = Some t /\ target p m v3 outbound = Some x /\
              can p (cur p s t) x = true /\
              forall t', t' <> t -> cur p (fst (step p s (Wire outbound m v3 flag wi wth wpth fresh f tape))) t' = cur p s t'.
Proof.
  intros H. unfold step, step_full in *.
  destruct (wire_thread_s p s m v3 outbound wi wth wpth fresh) as [t|] eqn:EW; [|cbn in H; congruence].
  destruct (_ && N.eqb (p_tid_check p) 2); [cbn in H; congruence|].
  match type of H with context [msg_step p s outbound m v3 flag t ?b ?td ?ff tape] =>
    pose proof (msg_accepted p s outbound m v3 flag t b td ff tape) as A;
    pose proof (msg_step_other_gen p s outbound m v3 flag t b td ff tape) as O;
    destruct (msg_step p s outbound m v3 flag t b td ff tape) as [[s1 [r1 ann1]] fat] end.
  cbn [fst snd] in *.
  destruct A as [x [Hx Hc]].
  { intro E. apply H. rewrite E. unfold relabel. destruct (_ && _); reflexivity. }
  exists t, x. repeat split; assumption.
Qed.

(* a late / duplicated API decision is refused unless the thread is still in the state the event was raised in *)
Lemma accept_guard_gen p s i tape v :
  nth_error (pending s) i = Some v -> cur p s (e_t v) <> e_src v -> step p s (Accept i tape) = (s, (RReject, [])).
Proof.
  intros Hn Hne. unfold step, step_full. rewrite Hn.
  destruct (N.eqb_spec (cur p s (e_t v)) (e_src v)); [congruence|reflexivity].
Qed.

(* monotonicity in the edge relation *)
Lemma is_path_mono p R : (forall a b, sedge p a b = true -> R a b = true) ->
  forall l, is_path p l = true -> is_path_rel R l = true.
Proof.
  intros H. induction l as [|a l IH]; [reflexivity|]. destruct l as [|b l]; [reflexivity|].
  intros Hp. change (is_path p (a :: b :: l)) with (sedge p a b && is_path p (b :: l)) in Hp.
  apply andb_true_iff in Hp. destruct Hp as [Hab Hr].
  change (is_path_rel R (a :: b :: l)) with (R a b && is_path_rel R (b :: l)).
  rewrite (H _ _ Hab). cbn [andb]. apply IH. exact Hr.
Qed.

Lemma all_steps_ok_mono p R : (forall a b, sedge p a b = true -> R a b = true) ->
  forall ops s, all_steps_ok p s ops = true -> all_steps_ok_rel R p s ops = true.
Proof.
  intros H. induction ops as [|o r IH]; intros s Hs; [reflexivity|].
  cbn [all_steps_ok all_steps_ok_rel] in *. apply andb_true_iff in Hs. destruct Hs as [H1 H2].
  rewrite (IH _ H2), andb_true_r. unfold step_ok, step_ok_rel in *.
  destruct (op_thread p s o) as [t|]; [|reflexivity].
  destruct (step p s o) as [s' [r0 ann]].
  apply andb_true_iff in H1. destruct H1 as [H1 H3]. apply andb_true_iff in H1. destruct H1 as [H0 H1].
  rewrite (is_path_mono p R H _ H0), H1, H3. reflexivity.
Qed.

(* the machine's relation is inside the published one whenever the generated pairs are *)
Lemma sedge_spec names sp p :
  graph_refines_b names sp (p_edges p) = true ->
  p_abandon p = idx names (sp_abandon sp) -> p_terminal p = spec_terminal_n names sp ->
  forall a b, sedge p a b = true -> spec_edge names sp a b = true.
Proof.
  intros Hg Ha Ht a b H. unfold sedge in H. apply orb_true_iff in H. destruct H as [H|H].
  - unfold can in H. apply existsb_exists in H. destruct H as [e [He Heq]].
    unfold graph_refines_b in Hg. rewrite forallb_forall in Hg. specialize (Hg e He).
    unfold pair_eqb in Heq. cbn [fst snd] in Heq. apply andb_true_iff in Heq. destruct Heq as [H1 H2].
    apply N.eqb_eq in H1. apply N.eqb_eq in H2. subst a b.
    repeat (apply andb_true_iff in Hg; destruct Hg as [Hg _]). exact Hg.
  - unfold spec_edge. rewrite <- Ha. unfold terminal in H. rewrite Ht in H. rewrite H. apply orb_true_r.
Qed.
