(* C09 — lemmas: for ANY protocol tables whose terminal states have no outgoing pair, the service loop of
   Model.v keeps every thread on the graph as long as the "busy" discipline holds. *)
From Coq Require Import List NArith Arith PeanoNat Bool Lia.
Import ListNotations.
From VF Require Import gen.Gen_C09 C09.Model C09.Spec.
Local Open Scope N_scope.

Lemma memN_In x l : memN x l = true <-> In x l.
Proof.
  unfold memN. rewrite existsb_exists. split.
  - intros [y [Hy He]]. apply N.eqb_eq in He. subst. exact Hy.
  - intros H. exists x. split; [exact H|apply N.eqb_refl].
Qed.

Section Generic.
  Variable p : proto.
  Hypothesis Hstuck : terminal_stuck_b p = true.

  Lemma terminal_stuck a b : terminal p a = true -> can p a b = false.
  Proof.
    intros Ht. destruct (can p a b) eqn:Hc; [|reflexivity]. exfalso.
    unfold can in Hc. apply existsb_exists in Hc. destruct Hc as [e [He Heq]].
    unfold terminal_stuck_b in Hstuck. rewrite forallb_forall in Hstuck. specialize (Hstuck e He).
    unfold pair_eqb in Heq. cbn [fst snd] in Heq. apply andb_true_iff in Heq. destruct Heq as [H1 _].
    apply N.eqb_eq in H1. rewrite <- H1 in Hstuck. rewrite Ht in Hstuck. discriminate.
  Qed.

  Lemma can_nonterminal a b : can p a b = true -> terminal p a = false.
  Proof.
    intros Hc. destruct (terminal p a) eqn:Ht; [|reflexivity].
    rewrite (terminal_stuck a b Ht) in Hc. discriminate.
  Qed.

  Lemma can_sedge a b : can p a b = true -> sedge p a b = true.
  Proof. intros H. unfold sedge. rewrite H. reflexivity. Qed.

  Lemma abandon_sedge a : terminal p a = false -> sedge p a (p_abandon p) = true.
  Proof. intros H. unfold sedge. rewrite N.eqb_refl, H. cbn. apply orb_true_r. Qed.

  (* ---- cur / set / commit ---- *)
  Lemma cur_set_same s t x : cur p (set s t x) t = x.
  Proof. unfold cur, set; cbn. rewrite N.eqb_refl. reflexivity. Qed.
  Lemma cur_set_other s t t' x : t' <> t -> cur p (set s t x) t' = cur p s t'.
  Proof. intros H. unfold cur, set; cbn. destruct (N.eqb_spec t t'); [congruence|reflexivity]. Qed.
  Lemma pending_set s t x : pending (set s t x) = pending s.
  Proof. reflexivity. Qed.

  Lemma last_in (l : list st) d : l <> [] -> In (last l d) l.
  Proof.
    induction l as [|a l IH]; [congruence|]. intros _. destruct l as [|b l].
    - left. reflexivity.
    - right. apply IH. discriminate.
  Qed.

  Lemma penult_in l x : penult l = Some x -> In x l.
  Proof.
    unfold penult. intros H. destruct (rev l) as [|a [|b r]] eqn:E; try discriminate.
    injection H as <-. apply in_rev. rewrite E. right. left. reflexivity.
  Qed.

  Lemma commit_pending s t ann ok : pending (commit p s t ann ok) = pending s.
  Proof.
    unfold commit. destruct ok; [reflexivity|]. destruct (p_persist_each p); [|reflexivity].
    destruct (penult ann); reflexivity.
  Qed.

  Lemma commit_other s t ann ok t' : t' <> t -> cur p (commit p s t ann ok) t' = cur p s t'.
  Proof.
    intros H. unfold commit. destruct ok; [apply cur_set_other; exact H|].
    destruct (p_persist_each p); [|reflexivity]. destruct (penult ann); [apply cur_set_other; exact H|reflexivity].
  Qed.

  Lemma commit_in s t ann ok : In (cur p (commit p s t ann ok) t) (cur p s t :: ann).
  Proof.
    unfold commit. destruct ok.
    - rewrite cur_set_same. unfold last_st. destruct ann as [|a r]; [left; reflexivity|].
      right. apply last_in. discriminate.
    - destruct (p_persist_each p); [|left; reflexivity].
      destruct (penult ann) eqn:E; [|left; reflexivity].
      rewrite cur_set_same. right. apply penult_in. exact E.
  Qed.

  (* ---- paths ---- *)
  Lemma is_path_cons a b l : is_path p (a :: b :: l) = sedge p a b && is_path p (b :: l).
  Proof. reflexivity. Qed.

  Lemma last_default (l : list st) a d d' : last (a :: l) d = last (a :: l) d'.
  Proof.
    revert a. induction l as [|b l IH]; intros a; [reflexivity|].
    change (last (a :: b :: l) d) with (last (b :: l) d). change (last (a :: b :: l) d') with (last (b :: l) d'). apply IH.
  Qed.

  Lemma is_path_app x l1 l2 :
    is_path p (x :: l1) = true -> is_path p (last (x :: l1) x :: l2) = true -> is_path p (x :: l1 ++ l2) = true.
  Proof.
    revert x. induction l1 as [|a l1 IH]; intros x H1 H2.
    - exact H2.
    - rewrite is_path_cons in H1. apply andb_true_iff in H1. destruct H1 as [Ha Hr].
      change ((a :: l1) ++ l2) with (a :: l1 ++ l2). rewrite is_path_cons, Ha. cbn [andb].
      apply IH; [exact Hr|].
      change (last (x :: a :: l1) x) with (last (a :: l1) x) in H2.
      rewrite (last_default l1 a a x). exact H2.
  Qed.

  (* the chain announces a path of the implementation's relation, starting with the state it was entered at *)
  Lemma chain_path k fuel : forall c tape ann ok tp x,
    chain p k fuel c tape = (ann, ok, tp) -> sedge p x c = true -> is_path p (x :: ann) = true.
  Proof.
    induction fuel as [|f IH]; intros c tape ann ok tp x H Hx; cbn [chain] in H.
    - injection H as <- _ _. reflexivity.
    - destruct (exec1 p k c tape) as [[n|] tape'].
      + destruct (N.eqb n 0).
        * injection H as <- _ _. rewrite is_path_cons, Hx. reflexivity.
        * destruct (can p c n) eqn:Hc.
          -- destruct (chain p k f n tape') as [[ann' ok'] tp'] eqn:E. injection H as <- _ _.
             rewrite is_path_cons, Hx. cbn [andb]. eapply IH; [exact E|apply can_sedge; exact Hc].
          -- injection H as <- _ _. rewrite is_path_cons, Hx. reflexivity.
      + injection H as <- _ _. rewrite is_path_cons, Hx. reflexivity.
  Qed.

  (* a chain run by the listener (inbound) that fails stops at a non-terminal state *)
  Lemma O_S_neq (n : nat) : S n <> O.
  Proof. discriminate. Qed.

  Lemma chain_fail_last k : c_inbound k = true -> forall fuel c tape ann tp, fuel <> O ->
    chain p k fuel c tape = (ann, false, tp) -> ann <> [] /\ terminal p (last ann c) = false.
  Proof.
    intros Hin. induction fuel as [|f IH]; intros c tape ann tp Hf H; [congruence|].
    cbn [chain] in H. unfold exec1 in H. rewrite Hin, andb_true_r in H.
    destruct (terminal p c) eqn:Ht; [cbn in H; discriminate|].
    match type of H with (let (_, _) := ?X in _) = _ => destruct X as [[n|] tape'] end.
    - destruct (N.eqb n 0); [discriminate|]. destruct (can p c n).
      + destruct (chain p k f n tape') as [[ann' ok'] tp'] eqn:E. injection H as <- -> _.
        split; [discriminate|]. destruct f as [|f'].
        * cbn in E. injection E as <- _. exact Ht.
        * destruct (IH n tape' ann' tp' (@O_S_neq f') E) as [Hne Hl].
          destruct ann' as [|a r]; [congruence|].
          change (last (c :: a :: r) c) with (last (a :: r) c).
          rewrite (last_default r a c n). exact Hl.
      + injection H as <- _. split; [discriminate|exact Ht].
    - injection H as <- _. split; [discriminate|exact Ht].
  Qed.

  (* ---- the listener ---- *)
  Lemma listener_ok s e opt skip tape s2 ann :
    listener p s e opt skip tape = (s2, ann) ->
    terminal p (cur p s (e_t e)) = false ->
    (skip = false -> can p (cur p s (e_t e)) (e_st e) = true) ->
    is_path p (cur p s (e_t e) :: ann) = true /\ In (cur p s2 (e_t e)) (cur p s (e_t e) :: ann) /\
    (forall t', t' <> e_t e -> cur p s2 t' = cur p s t') /\ pending s2 = pending s.
  Proof.
    intros H Hnt Hcan. unfold listener in H.
    set (k := {| c_v3 := e_v3 e; c_inbound := true; c_opt := opt; c_flag := e_flag e |}) in *.
    set (t := e_t e) in *.
    destruct skip.
    - (* straight to abandon *)
      destruct (chain p k chain_fuel (p_abandon p) tape) as [[ann2 ok2] tp2] eqn:E2.
      cbn [app] in H. injection H as <- <-.
      split; [eapply chain_path; [exact E2|apply abandon_sedge; exact Hnt]|].
      split; [apply commit_in|]. split; [intros t' Ht; apply commit_other; exact Ht|apply commit_pending].
    - specialize (Hcan eq_refl).
      destruct (chain p k chain_fuel (e_st e) tape) as [[ann1 ok1] tp1] eqn:E1.
      assert (P1 : is_path p (cur p s t :: ann1) = true) by (eapply chain_path; [exact E1|apply can_sedge; exact Hcan]).
      destruct ok1.
      + injection H as <- <-. split; [exact P1|]. split; [exact (commit_in s t ann1 true)|].
        split; [intros t' Ht; exact (commit_other s t ann1 true t' Ht)|exact (commit_pending s t ann1 true)].
      + destruct (chain p k chain_fuel (p_abandon p) tp1) as [[ann2 ok2] tp2] eqn:E2.
        injection H as <- <-.
        destruct (chain_fail_last k eq_refl chain_fuel _ _ _ _ (@O_S_neq _) E1) as [Hne Hl].
        change (if p_persist_each p then match penult ann1 with Some x => set s t x | None => s end else s)
          with (commit p s t ann1 false).
        assert (Hlast : last (cur p s t :: ann1) (cur p s t) = last ann1 (e_st e)).
        { destruct ann1 as [|a r]; [congruence|]. change (last (cur p s t :: a :: r) (cur p s t)) with (last (a :: r) (cur p s t)).
          apply last_default. }
        split.
        * apply is_path_app; [exact P1|]. rewrite Hlast.
          eapply chain_path; [exact E2|apply abandon_sedge; exact Hl].
        * split.
          -- pose proof (commit_in (commit p s t ann1 false) t ann2 ok2) as Hin.
             destruct Hin as [Hin|Hin].
             ++ rewrite <- Hin. pose proof (commit_in s t ann1 false) as H1. destruct H1 as [H1|H1].
                ** left. exact H1.
                ** right. apply in_or_app. left. exact H1.
             ++ right. apply in_or_app. right. exact Hin.
          -- split.
             ++ intros t' Ht. rewrite commit_other by exact Ht. apply commit_other. exact Ht.
             ++ rewrite !commit_pending. reflexivity.
  Qed.

  (* ---- pending list helpers ---- *)
  Lemma nth_kill_same l i e : nth_error l i = Some e ->
    nth_error (kill l i) i = Some {| e_t := e_t e; e_st := e_st e; e_msg := e_msg e; e_v3 := e_v3 e;
                                     e_flag := e_flag e; e_live := false |}.
  Proof.
    revert i. induction l as [|a l IH]; intros [|i] H; cbn in *; try discriminate.
    - injection H as ->. reflexivity.
    - apply IH. exact H.
  Qed.
  Lemma nth_kill_other l i j : i <> j -> nth_error (kill l i) j = nth_error l j.
  Proof.
    revert i j. induction l as [|a l IH]; intros [|i] [|j] H; cbn; try reflexivity; try congruence.
    apply IH. congruence.
  Qed.

  Lemma has_live_false s t : has_live s t = false ->
    forall i e, nth_error (pending s) i = Some e -> e_live e = true -> e_t e <> t.
  Proof.
    unfold has_live. intros H i e Hn Hl Heq.
    assert (X : existsb (fun e0 => e_live e0 && N.eqb (e_t e0) t) (pending s) = true).
    { apply existsb_exists. exists e. split; [eapply nth_error_In; exact Hn|]. rewrite Hl, Heq, N.eqb_refl. reflexivity. }
    congruence.
  Qed.

  (* ---- the invariant of disciplined histories ---- *)
  Definition inv (s : sstate) : Prop :=
    (forall i e, nth_error (pending s) i = Some e -> e_live e = true -> can p (cur p s (e_t e)) (e_st e) = true) /\
    (forall i j e1 e2, nth_error (pending s) i = Some e1 -> nth_error (pending s) j = Some e2 ->
       e_live e1 = true -> e_live e2 = true -> e_t e1 = e_t e2 -> i = j).

  Lemma inv_s0 : inv s0.
  Proof. split; intros; destruct i; discriminate. Qed.

  Lemma step_inv s o : inv s -> disciplined_step p s o = true ->
    inv (fst (step p s o)) /\ step_ok p s o = true.
  Proof.
    intros [I1 I2] Hd. destruct o as [outbound m v3 flag t tape|i opt tape|i tape].
    - (* a message *)
      unfold step_ok. cbn [op_thread]. unfold disciplined_step in Hd. cbn [step] in *.
      destruct (target p m v3 outbound) as [x|].
      2:{ cbn. split; [split; assumption|]. rewrite N.eqb_refl. cbn.
          destruct (terminal p (cur p s t)); reflexivity. }
      destruct (can p (cur p s t) x) eqn:Hc; cbn [negb].
      2:{ cbn. split; [split; assumption|]. rewrite N.eqb_refl. cbn.
          destruct (terminal p (cur p s t)); reflexivity. }
      assert (Hnt : terminal p (cur p s t) = false) by (eapply can_nonterminal; exact Hc).
      assert (Hnl : has_live s t = false).
      { destruct (has_live s t); [|reflexivity]. exfalso.
        destruct (negb outbound && is_action p m v3).
        - cbn [negb orb fst snd is_reject] in Hd. discriminate.
        - destruct (chain p _ chain_fuel x tape) as [[a o'] tp'].
          destruct o'; cbn [negb orb fst snd is_reject] in Hd; discriminate. }
      destruct (negb outbound && is_action p m v3).
      + (* action event raised: nothing moves *)
        cbn [fst snd]. split.
        * split.
          -- intros i e Hn Hl. change (cur p {| persisted := persisted s; pending := pending s ++ [_] |}) with (cur p s).
             cbn [pending] in Hn. destruct (Nat.lt_ge_cases i (length (pending s))) as [Hlt|Hge].
             ++ rewrite nth_error_app1 in Hn by exact Hlt. eapply I1; eassumption.
             ++ rewrite nth_error_app2 in Hn by exact Hge. destruct (i - length (pending s))%nat as [|q]; cbn in Hn.
                ** injection Hn as <-. cbn. exact Hc.
                ** destruct q; discriminate.
          -- intros i j e1 e2 H1 H2 L1 L2 Ht. cbn [pending] in H1, H2.
             destruct (Nat.lt_ge_cases i (length (pending s))) as [Hi|Hi];
             destruct (Nat.lt_ge_cases j (length (pending s))) as [Hj|Hj].
             ++ rewrite nth_error_app1 in H1 by exact Hi. rewrite nth_error_app1 in H2 by exact Hj. eapply I2; eassumption.
             ++ rewrite nth_error_app1 in H1 by exact Hi. rewrite nth_error_app2 in H2 by exact Hj.
                destruct (j - length (pending s))%nat as [|q]; cbn in H2; [|destruct q; discriminate].
                injection H2 as <-. cbn in Ht. exfalso. eapply has_live_false; eassumption.
             ++ rewrite nth_error_app2 in H1 by exact Hi. rewrite nth_error_app1 in H2 by exact Hj.
                destruct (i - length (pending s))%nat as [|q]; cbn in H1; [|destruct q; discriminate].
                injection H1 as <-. cbn in Ht. exfalso. symmetry in Ht. eapply has_live_false; eassumption.
             ++ rewrite nth_error_app2 in H1 by exact Hi. rewrite nth_error_app2 in H2 by exact Hj.
                destruct (i - length (pending s))%nat as [|q] eqn:Ei; cbn in H1; [|destruct q; discriminate].
                destruct (j - length (pending s))%nat as [|q] eqn:Ej; cbn in H2; [|destruct q; discriminate].
                lia.
        * change (cur p {| persisted := persisted s; pending := pending s ++ [_] |} t) with (cur p s t).
          cbn. rewrite N.eqb_refl, Hnt. reflexivity.
      + (* handled at once *)
        destruct (chain p {| c_v3 := v3; c_inbound := negb outbound; c_opt := 0; c_flag := flag |} chain_fuel x tape)
          as [[ann ok] tp] eqn:E.
        cbn [fst snd]. split.
        * split.
          -- intros i e Hn Hl. rewrite commit_pending in Hn.
             assert (e_t e <> t) by (eapply has_live_false; eassumption).
             rewrite commit_other by assumption. eapply I1; eassumption.
          -- intros i j e1 e2 H1 H2. rewrite commit_pending in H1, H2. eapply I2; eassumption.
        * rewrite (chain_path _ _ _ _ _ _ _ _ E (can_sedge _ _ Hc)). rewrite Hnt. cbn [negb orb andb].
          rewrite andb_true_r. apply memN_In. apply commit_in.
    - (* Continue *)
      unfold step_ok. cbn [op_thread step].
      destruct (nth_error (pending s) i) as [v|] eqn:Hn; [|cbn; split; [split; assumption|reflexivity]].
      destruct (e_live v) eqn:Hl; [|cbn; split; [split; assumption|reflexivity]].
      set (s' := {| persisted := persisted s; pending := kill (pending s) i |}).
      set (skip := existsb _ _).
      destruct (listener p s' v opt skip tape) as [s2 ann] eqn:EL. cbn [fst snd].
      pose proof (I1 _ _ Hn Hl) as Hcan.
      assert (Hnt : terminal p (cur p s (e_t v)) = false) by (eapply can_nonterminal; exact Hcan).
      destruct (listener_ok s' v opt skip tape s2 ann EL Hnt (fun _ => Hcan)) as [P [M [O Pe]]].
      change (cur p s' (e_t v)) with (cur p s (e_t v)) in *.
      split.
      + split.
        * intros j e Hj Lj. rewrite Pe in Hj. cbn [pending s'] in Hj.
          destruct (Nat.eq_dec i j) as [<-|Hij].
          -- rewrite (nth_kill_same _ _ _ Hn) in Hj. injection Hj as <-. cbn in Lj. discriminate.
          -- rewrite nth_kill_other in Hj by exact Hij.
             assert (e_t e <> e_t v) by (intro Heq; apply Hij; eapply I2; try eassumption; symmetry; exact Heq).
             rewrite O by assumption. change (cur p s' (e_t e)) with (cur p s (e_t e)). eapply I1; eassumption.
        * intros a b e1 e2 H1 H2 L1 L2 Ht. rewrite Pe in H1, H2. cbn [pending s'] in H1, H2.
          destruct (Nat.eq_dec i a) as [<-|Hia].
          { rewrite (nth_kill_same _ _ _ Hn) in H1. injection H1 as <-. cbn in L1. discriminate. }
          destruct (Nat.eq_dec i b) as [<-|Hib].
          { rewrite (nth_kill_same _ _ _ Hn) in H2. injection H2 as <-. cbn in L2. discriminate. }
          rewrite nth_kill_other in H1 by exact Hia. rewrite nth_kill_other in H2 by exact Hib. eapply I2; eassumption.
      + rewrite P, Hnt. cbn [negb orb andb]. rewrite andb_true_r. apply memN_In. exact M.
    - (* Stop *)
      unfold step_ok. cbn [op_thread step].
      destruct (nth_error (pending s) i) as [v|] eqn:Hn; [|cbn; split; [split; assumption|reflexivity]].
      destruct (e_live v) eqn:Hl; [|cbn; split; [split; assumption|reflexivity]].
      set (s' := {| persisted := persisted s; pending := kill (pending s) i |}).
      set (skip := negb _).
      destruct (listener p s' v 0 skip tape) as [s2 ann] eqn:EL. cbn [fst snd].
      pose proof (I1 _ _ Hn Hl) as Hcan.
      assert (Hnt : terminal p (cur p s (e_t v)) = false) by (eapply can_nonterminal; exact Hcan).
      destruct (listener_ok s' v 0 skip tape s2 ann EL Hnt (fun _ => Hcan)) as [P [M [O Pe]]].
      change (cur p s' (e_t v)) with (cur p s (e_t v)) in *.
      split.
      + split.
        * intros j e Hj Lj. rewrite Pe in Hj. cbn [pending s'] in Hj.
          destruct (Nat.eq_dec i j) as [<-|Hij].
          -- rewrite (nth_kill_same _ _ _ Hn) in Hj. injection Hj as <-. cbn in Lj. discriminate.
          -- rewrite nth_kill_other in Hj by exact Hij.
             assert (e_t e <> e_t v) by (intro Heq; apply Hij; eapply I2; try eassumption; symmetry; exact Heq).
             rewrite O by assumption. change (cur p s' (e_t e)) with (cur p s (e_t e)). eapply I1; eassumption.
        * intros a b e1 e2 H1 H2 L1 L2 Ht. rewrite Pe in H1, H2. cbn [pending s'] in H1, H2.
          destruct (Nat.eq_dec i a) as [<-|Hia].
          { rewrite (nth_kill_same _ _ _ Hn) in H1. injection H1 as <-. cbn in L1. discriminate. }
          destruct (Nat.eq_dec i b) as [<-|Hib].
          { rewrite (nth_kill_same _ _ _ Hn) in H2. injection H2 as <-. cbn in L2. discriminate. }
          rewrite nth_kill_other in H1 by exact Hia. rewrite nth_kill_other in H2 by exact Hib. eapply I2; eassumption.
      + rewrite P, Hnt. cbn [negb orb andb]. rewrite andb_true_r. apply memN_In. exact M.
  Qed.

  Lemma run_steps_ok : forall ops s, inv s -> disciplined p s ops = true -> all_steps_ok p s ops = true.
  Proof.
    induction ops as [|o r IH]; intros s Hi Hd; [reflexivity|].
    cbn [disciplined all_steps_ok] in *. apply andb_true_iff in Hd. destruct Hd as [Hd Hr].
    destruct (step_inv s o Hi Hd) as [Hi' Hok]. rewrite Hok. cbn. apply IH; assumption.
  Qed.

  Lemma run_inv : forall ops s, inv s -> disciplined p s ops = true -> inv (final p s ops).
  Proof.
    induction ops as [|o r IH]; intros s Hi Hd; [exact Hi|].
    cbn [disciplined] in Hd. apply andb_true_iff in Hd. destruct Hd as [Hd Hr].
    destruct (step_inv s o Hi Hd) as [Hi' _].
    unfold final. cbn [run]. destruct (step p s o) as [s1 y] eqn:E. cbn [fst] in *.
    specialize (IH s1 Hi' Hr). unfold final in IH. destruct (run p s1 r) as [s2 ys]. exact IH.
  Qed.

  (* ---- a step touches one thread only ---- *)
  Lemma listener_other s e opt skip tape t' :
    t' <> e_t e -> cur p (fst (listener p s e opt skip tape)) t' = cur p s t'.
  Proof.
    intros Ht. unfold listener.
    set (k := {| c_v3 := e_v3 e; c_inbound := true; c_opt := opt; c_flag := e_flag e |}).
    destruct skip.
    - destruct (chain p k chain_fuel (p_abandon p) tape) as [[a o] tp]. cbn [fst]. apply commit_other. exact Ht.
    - destruct (chain p k chain_fuel (e_st e) tape) as [[a1 o1] tp1]. destruct o1.
      + cbn [fst]. apply commit_other. exact Ht.
      + destruct (chain p k chain_fuel (p_abandon p) tp1) as [[a2 o2] tp2]. cbn [fst].
        rewrite commit_other by exact Ht. apply commit_other. exact Ht.
  Qed.

  Lemma step_other s o t' :
    (forall t, op_thread s o = Some t -> t' <> t) -> cur p (fst (step p s o)) t' = cur p s t'.
  Proof.
    intros H. destruct o as [outbound m v3 flag t tape|i opt tape|i tape]; cbn [step op_thread] in *.
    - specialize (H t eq_refl). destruct (target p m v3 outbound) as [x|]; [|reflexivity].
      destruct (negb (can p (cur p s t) x)); [reflexivity|].
      destruct (negb outbound && is_action p m v3); [reflexivity|].
      destruct (chain p _ chain_fuel x tape) as [[a o] tp]. cbn [fst]. apply commit_other. exact H.
    - destruct (nth_error (pending s) i) as [v|]; [|reflexivity]. destruct (e_live v); [|reflexivity].
      specialize (H (e_t v) eq_refl).
      match goal with |- context [listener p ?s' v opt ?sk tape] =>
        pose proof (listener_other s' v opt sk tape t' H) as L; destruct (listener p s' v opt sk tape) as [s2 ann] end.
      cbn in *. exact L.
    - destruct (nth_error (pending s) i) as [v|]; [|reflexivity]. destruct (e_live v); [|reflexivity].
      specialize (H (e_t v) eq_refl).
      match goal with |- context [listener p ?s' v 0 ?sk tape] =>
        pose proof (listener_other s' v 0 sk tape t' H) as L; destruct (listener p s' v 0 sk tape) as [s2 ann] end.
      cbn in *. exact L.
  Qed.

  (* ---- terminal states are never left (disciplined histories) ---- *)
  Lemma step_terminal s o t : inv s -> disciplined_step p s o = true ->
    terminal p (cur p s t) = true -> cur p (fst (step p s o)) t = cur p s t.
  Proof.
    intros Hi Hd Ht. destruct (step_inv s o Hi Hd) as [_ Hok].
    destruct (op_thread s o) as [t0|] eqn:Eo.
    - destruct (N.eq_dec t t0) as [->|Hne].
      + unfold step_ok in Hok. rewrite Eo in Hok. destruct (step p s o) as [s' [r ann]]. cbn [fst].
        apply andb_true_iff in Hok. destruct Hok as [Hok H3]. apply andb_true_iff in Hok. destruct Hok as [_ H2].
        rewrite Ht in H3. cbn in H3. destruct ann; [|discriminate].
        apply memN_In in H2. destruct H2 as [H2|[]]. symmetry. exact H2.
      + apply step_other. intros t1 H1. congruence.
    - apply step_other. intros t1 H1. congruence.
  Qed.

  Lemma run_terminal : forall ops s t, inv s -> disciplined p s ops = true ->
    terminal p (cur p s t) = true -> cur p (final p s ops) t = cur p s t.
  Proof.
    induction ops as [|o r IH]; intros s t Hi Hd Ht; [reflexivity|].
    cbn [disciplined] in Hd. apply andb_true_iff in Hd. destruct Hd as [Hd Hr].
    destruct (step_inv s o Hi Hd) as [Hi' _].
    pose proof (step_terminal s o t Hi Hd Ht) as Hs.
    unfold final. cbn [run]. destruct (step p s o) as [s1 y] eqn:E. cbn [fst] in *.
    assert (Ht1 : terminal p (cur p s1 t) = true) by (rewrite Hs; exact Ht).
    specialize (IH s1 t Hi' Hr Ht1). unfold final in IH. destruct (run p s1 r) as [s2 ys]. cbn [fst] in *.
    rewrite IH. exact Hs.
  Qed.

  Lemma disciplined_app : forall a s b, disciplined p s (a ++ b) = true ->
    disciplined p s a = true /\ disciplined p (final p s a) b = true.
  Proof.
    induction a as [|o r IH]; intros s b H; [split; [reflexivity|exact H]|].
    change ((o :: r) ++ b) with (o :: r ++ b) in H. cbn [disciplined] in *.
    apply andb_true_iff in H. destruct H as [Hd Hr]. destruct (IH _ _ Hr) as [H1 H2].
    rewrite Hd, H1. split; [reflexivity|].
    unfold final in *. cbn [run]. destruct (step p s o) as [s1 y]. cbn [fst] in *.
    destruct (run p s1 r) as [s2 ys]. exact H2.
  Qed.

  Lemma final_app : forall a s b, final p s (a ++ b) = final p (final p s a) b.
  Proof.
    induction a as [|o r IH]; intros s b; [reflexivity|].
    change ((o :: r) ++ b) with (o :: r ++ b). unfold final in *. cbn [run].
    destruct (step p s o) as [s1 y]. specialize (IH s1 b).
    destruct (run p s1 (r ++ b)) as [s2 ys]. destruct (run p s1 r) as [s3 zs]. cbn [fst] in *. exact IH.
  Qed.
End Generic.

(* ---- statements that need no discipline and no hypothesis on the tables ---- *)
Lemma reject_preserves_gen p s o :
  fst (snd (step p s o)) = RReject -> fst (step p s o) = s /\ snd (snd (step p s o)) = [].
Proof.
  destruct o as [outbound m v3 flag t tape|i opt tape|i tape]; cbn [step].
  - destruct (target p m v3 outbound) as [x|]; [|intros _; split; reflexivity].
    destruct (negb (can p (cur p s t) x)); [intros _; split; reflexivity|].
    destruct (negb outbound && is_action p m v3); [cbn; discriminate|].
    destruct (chain p _ chain_fuel x tape) as [[a o] tp]. cbn. destruct o; discriminate.
  - destruct (nth_error (pending s) i) as [v|]; [|cbn; discriminate]. destruct (e_live v); [|cbn; discriminate].
    destruct (listener p _ v opt _ tape) as [s2 ann]. cbn. discriminate.
  - destruct (nth_error (pending s) i) as [v|]; [|cbn; discriminate]. destruct (e_live v); [|cbn; discriminate].
    destruct (listener p _ v 0 _ tape) as [s2 ann]. cbn. discriminate.
Qed.

Lemma disallowed_rejected_gen p s outbound m v3 flag t tape :
  match target p m v3 outbound with
  | Some x => can p (cur p s t) x = false
  | None => True
  end -> step p s (Msg outbound m v3 flag t tape) = (s, (RReject, [])).
Proof.
  cbn [step]. destruct (target p m v3 outbound) as [x|]; [|reflexivity]. intros ->. reflexivity.
Qed.

Lemma accepted_allowed_gen p s outbound m v3 flag t tape :
  fst (snd (step p s (Msg outbound m v3 flag t tape))) <> RReject ->
  exists x, target p m v3 outbound = Some x /\ can p (cur p s t) x = true.
Proof.
  cbn [step]. destruct (target p m v3 outbound) as [x|]; [|cbn; congruence].
  destruct (can p (cur p s t) x) eqn:Hc; [intros _; exists x; split; [reflexivity|exact Hc]|cbn; congruence].
Qed.

(* the machine's relation is inside the published one whenever the generated pairs are *)
Lemma sedge_spec names sp p :
  graph_refines_b names sp (p_edges p) = true ->
  p_abandon p = idx names (sp_abandon sp) -> p_terminal p = spec_terminal_n names sp ->
  forall a b, sedge p a b = true -> spec_edge names sp a b = true.
Proof.
  intros Hg Ha Ht a b H. unfold sedge in H. apply orb_true_iff in H. destruct H as [H|H].
  - unfold can in H. apply existsb_exists in H. destruct H as [e [He Heq]].
    unfold graph_refines_b in Hg. rewrite forallb_forall in Hg. specialize (Hg e He).
    unfold pair_eqb in Heq. cbn [fst snd] in Heq. apply andb_true_iff in Heq. destruct Heq as [H1 H2].
    apply N.eqb_eq in H1. apply N.eqb_eq in H2. subst a b.
    repeat (apply andb_true_iff in Hg; destruct Hg as [Hg _]). exact Hg.
  - unfold spec_edge. rewrite <- Ha. unfold terminal in H. rewrite Ht in H. rewrite H. apply orb_true_r.
Qed.
