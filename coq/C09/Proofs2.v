(* C09 — wave 5: histories in which every decision on an action event is taken through the GUARDED API
   (AcceptInvitation / AcceptExchangeRequest / AcceptConnectionRequest: refused unless the thread is still in the
   state the event was raised in).  For those the property holds at FULL strength: no busy discipline, any faults,
   any interleaving of messages, duplicated and late decisions, restarts. *)
From Coq Require Import List NArith Bool Arith Lia.
Import ListNotations.
From VF Require Import C09.Model C09.Spec C09.Proofs.
Local Open Scope N_scope.

Definition api_op (o : op) : bool :=
  match o with
  | Msg _ _ _ _ _ _ _ | Wire _ _ _ _ _ _ _ _ _ _ | Accept _ _ | Restart => true
  | _ => false
  end.

Section Guarded.
  Variable p : proto.
  Hypothesis Hstuck : terminal_stuck_b p = true.

  (* every event ever raised leads along a CanTransitionTo pair from the state it was raised in *)
  Definition inv0 (s : sstate) : Prop :=
    forall i e, nth_error (pending s) i = Some e -> can p (e_src e) (e_st e) = true.

  Lemma inv0_s0 : inv0 s0.
  Proof. intros i e H. destruct i; discriminate. Qed.

  Lemma inv0_kill s i v t : inv0 s -> nth_error (pending s) i = Some v -> inv0 (killed s i t).
  Proof.
    intros I0 Hn j e Hj. unfold killed in Hj. cbn [pending] in Hj.
    destruct (Nat.eq_dec i j) as [<-|Hij].
    - rewrite (nth_kill_same _ _ _ Hn) in Hj. injection Hj as <-. cbn. eapply I0; exact Hn.
    - rewrite nth_kill_other in Hj by exact Hij. eapply I0; exact Hj.
  Qed.

  Lemma inv0_extend s s2 t : inv0 s -> new_event_ok p s s2 t -> inv0 s2.
  Proof.
    intros I0 [Hp|[e [Hp [_ [_ Hcan]]]]] i e0 Hn; rewrite Hp in Hn.
    - eapply I0; exact Hn.
    - destruct (Nat.lt_ge_cases i (length (pending s))) as [Hlt|Hge].
      + rewrite nth_error_app1 in Hn by exact Hlt. eapply I0; exact Hn.
      + rewrite nth_error_app2 in Hn by exact Hge. destruct (i - length (pending s))%nat as [|q]; cbn in Hn.
        * injection Hn as <-. exact Hcan.
        * destruct q; discriminate.
  Qed.

  Lemma inv0_no_closures s : inv0 s -> inv0 (no_closures s).
  Proof.
    intros I0 i e Hn. unfold no_closures in Hn. cbn [pending] in Hn. rewrite nth_error_map in Hn.
    destruct (nth_error (pending s) i) as [e0|] eqn:E; [|discriminate].
    injection Hn as <-. cbn. eapply I0; exact E.
  Qed.

  (* a message handled for thread t: no discipline needed *)
  Lemma msg_inv0 s outbound m v3 flag t bt tid f tape s' r ann fat :
    inv0 s -> msg_step p s outbound m v3 flag t bt tid f tape = (s', (r, ann), fat) ->
    inv0 s' /\ is_path p (cur p s t :: ann) = true /\ In (cur p s' t) (cur p s t :: ann) /\
    (terminal p (cur p s t) = false \/ ann = []).
  Proof.
    intros Hinv ES'. unfold msg_step in ES'.
    assert (Hquiet : (s', (r, ann), fat) = (s, (RReject, []), false) ->
              inv0 s' /\ is_path p (cur p s t :: ann) = true /\ In (cur p s' t) (cur p s t :: ann) /\
              (terminal p (cur p s t) = false \/ ann = [])).
    { intros Hq. injection Hq as -> -> -> ->. split; [exact Hinv|]. split; [reflexivity|].
      split; [left; reflexivity|right; reflexivity]. }
    destruct (f_get f); [apply Hquiet; symmetry; exact ES'|].
    destruct (target p m v3 outbound) as [x|]; [|apply Hquiet; symmetry; exact ES'].
    destruct (can p (cur p s t) x) eqn:Hc; cbn [negb] in ES'; [|apply Hquiet; symmetry; exact ES'].
    assert (Hnt : terminal p (cur p s t) = false) by (eapply can_nonterminal; [exact Hstuck|exact Hc]).
    destruct (negb outbound && is_action p m v3).
    + destruct (f_tp f); [apply Hquiet; symmetry; exact ES'|].
      injection ES' as <- <- <- <-.
      split.
      * eapply (inv0_extend s _ t Hinv). right. eexists. split; [reflexivity|].
        cbn [e_t e_src e_st]. repeat split. exact Hc.
      * split; [reflexivity|]. split; [left; reflexivity|left; exact Hnt].
    + match type of ES' with context [process p s t ?kk m x false false tape] => set (k := kk) in * end.
      destruct (process p s t k m x false false tape) as [[[s1 ann1] ok] fat1] eqn:EP.
      assert (Hfat : fat1 = false) by (pose proof (process_noab_fat p s t k m x false tape) as X; rewrite EP in X; exact X).
      destruct (process_ok p s t k m x false false tape s1 ann1 ok fat1 EP (fun _ => can_sedge p _ _ Hc) Hnt Hfat)
        as [P [M [O NE]]].
      injection ES' as <- Hr <- _.
      split; [eapply (inv0_extend s s1 t Hinv NE)|].
      split; [exact P|]. split; [exact M|left; exact Hnt].
  Qed.

  Lemma step_inv0 s o : inv0 s -> api_op o = true ->
    inv0 (fst (step p s o)) /\ step_ok p s o = true.
  Proof.
    intros Hinv Ha.
    destruct o as [outbound m v3 flag t f tape|outbound m v3 flag wi wth wpth fresh f tape|i opt f tape|i f tape|i tape|t opt f tape|t f tape|];
      try discriminate Ha.
    - (* a message *)
      destruct (step p s (Msg outbound m v3 flag t f tape)) as [s' [r ann]] eqn:ES. cbn [fst snd] in *.
      pose proof ES as ES'. unfold step, step_full in ES'.
      destruct (msg_step p s outbound m v3 flag t false None f tape) as [[s1 [r1 ann1]] fat] eqn:EM.
      cbn [fst] in ES'. injection ES' as <- <- <-.
      destruct (msg_inv0 _ _ _ _ _ _ _ _ _ _ _ _ _ _ Hinv EM) as [Hi [P [M T]]].
      split; [exact Hi|]. eapply (step_ok_of p); [reflexivity|exact ES|exact P|exact M|exact T].
    - (* a wire message *)
      destruct (step p s (Wire outbound m v3 flag wi wth wpth fresh f tape)) as [s' [r ann]] eqn:ES. cbn [fst snd] in *.
      pose proof ES as ES'. unfold step, step_full in ES'.
      destruct (wire_thread_s p s m v3 outbound wi wth wpth fresh) as [t|] eqn:EW.
      2:{ cbn [fst] in ES'. injection ES' as <- <- <-. split; [exact Hinv|].
          unfold step_ok. cbn [op_thread]. rewrite EW. reflexivity. }
      destruct (_ && N.eqb (p_tid_check p) 2).
      { cbn [fst] in ES'. injection ES' as <- <- <-. split; [exact Hinv|].
        eapply (step_ok_of p); [cbn [op_thread]; exact EW|exact ES|reflexivity|left; reflexivity|right; reflexivity]. }
      destruct (msg_step p s outbound m v3 flag t _ _ _ tape) as [[s1 [r1 ann1]] fat] eqn:EM.
      cbn [fst] in ES'. injection ES' as <- Hr <-.
      destruct (msg_inv0 _ _ _ _ _ _ _ _ _ _ _ _ _ _ Hinv EM) as [Hi [P [M T]]].
      split; [exact Hi|]. eapply (step_ok_of p); [cbn [op_thread]; exact EW|exact ES|exact P|exact M|exact T].
    - (* the guarded API decision *)
      destruct (step p s (Accept i tape)) as [s' [r ann]] eqn:ES. cbn [fst snd] in *.
      pose proof ES as ES'. unfold step, step_full in ES'.
      destruct (nth_error (pending s) i) as [v|] eqn:Hn.
      2:{ cbn [fst] in ES'. injection ES' as <- <- <-. split; [exact Hinv|].
          unfold step_ok. cbn [op_thread]. rewrite Hn. reflexivity. }
      destruct (N.eqb (cur p s (e_t v)) (e_src v)) eqn:Hg.
      2:{ cbn [fst] in ES'. injection ES' as <- <- <-. split; [exact Hinv|].
          eapply (step_ok_of p); [cbn [op_thread]; rewrite Hn; reflexivity|exact ES|reflexivity|left; reflexivity|right; reflexivity]. }
      apply N.eqb_eq in Hg.
      match type of ES' with context [process p _ _ ?k _ _ false false tape] => set (k0 := k) in * end.
      destruct (process p (killed s i (e_t v)) (e_t v) k0 (e_msg v) (e_st v) false false tape) as [[[s2 ann2] ok] fat] eqn:EP.
      cbn [fst snd] in ES'. injection ES' as <- Hr <-.
      assert (Hfat : fat = false)
        by (pose proof (process_noab_fat p (killed s i (e_t v)) (e_t v) k0 (e_msg v) (e_st v) false tape) as X; rewrite EP in X; exact X).
      pose proof (Hinv _ _ Hn) as Hcan. rewrite <- Hg in Hcan.
      assert (Hnt : terminal p (cur p s (e_t v)) = false) by (eapply can_nonterminal; [exact Hstuck|exact Hcan]).
      change (cur p s) with (cur p (killed s i (e_t v))) in Hcan, Hnt.
      destruct (process_ok p _ _ _ _ _ _ _ _ _ _ _ _ EP (fun _ => can_sedge p _ _ Hcan) Hnt Hfat) as [P [M [O NE]]].
      split.
      + eapply (inv0_extend (killed s i (e_t v)) s2 (e_t v) (inv0_kill s i v (e_t v) Hinv Hn) NE).
      + change (cur p (killed s i (e_t v))) with (cur p s) in *.
        eapply (step_ok_of p); [cbn [op_thread]; rewrite Hn; reflexivity|exact ES|exact P|exact M|left; exact Hnt].
    - (* Restart *)
      unfold step, step_full. cbn [fst]. split; [apply inv0_no_closures; exact Hinv|reflexivity].
  Qed.

  Lemma run_steps_ok0 : forall ops s, inv0 s -> forallb api_op ops = true -> all_steps_ok p s ops = true.
  Proof.
    induction ops as [|o r IH]; intros s Hi Hd; [reflexivity|].
    cbn [forallb all_steps_ok] in *. apply andb_true_iff in Hd. destruct Hd as [Hd Hr].
    destruct (step_inv0 s o Hi Hd) as [Hi' Hok]. rewrite Hok. cbn. apply IH; assumption.
  Qed.

  Lemma run_inv0 : forall ops s, inv0 s -> forallb api_op ops = true -> inv0 (final p s ops).
  Proof.
    induction ops as [|o r IH]; intros s Hi Hd; [exact Hi|].
    cbn [forallb] in Hd. apply andb_true_iff in Hd. destruct Hd as [Hd Hr].
    destruct (step_inv0 s o Hi Hd) as [Hi' _].
    unfold final. cbn [run]. destruct (step p s o) as [s1 y] eqn:E. cbn [fst] in *.
    specialize (IH s1 Hi' Hr). unfold final in IH. destruct (run p s1 r) as [s2 ys]. exact IH.
  Qed.

  (* terminal states are never left *)
  Lemma step_terminal0 s o t : inv0 s -> api_op o = true ->
    terminal p (cur p s t) = true -> cur p (fst (step p s o)) t = cur p s t.
  Proof.
    intros Hi Hd Ht. destruct (step_inv0 s o Hi Hd) as [_ Hok].
    destruct (op_thread p s o) as [t0|] eqn:Eo.
    - destruct (N.eq_dec t t0) as [->|Hne].
      + unfold step_ok in Hok. rewrite Eo in Hok. destruct (step p s o) as [s' [r ann]]. cbn [fst].
        apply andb_true_iff in Hok. destruct Hok as [Hok H3]. apply andb_true_iff in Hok. destruct Hok as [_ H2].
        rewrite Ht in H3. cbn in H3. destruct ann; [|discriminate].
        apply memN_In in H2. destruct H2 as [H2|[]]. symmetry. exact H2.
      + apply (step_other p). intros t1 H1. congruence.
    - apply (step_other p). intros t1 H1. congruence.
  Qed.

  Lemma run_terminal0 : forall ops s t, inv0 s -> forallb api_op ops = true ->
    terminal p (cur p s t) = true -> cur p (final p s ops) t = cur p s t.
  Proof.
    induction ops as [|o r IH]; intros s t Hi Hd Ht; [reflexivity|].
    cbn [forallb] in Hd. apply andb_true_iff in Hd. destruct Hd as [Hd Hr].
    destruct (step_inv0 s o Hi Hd) as [Hi' _].
    pose proof (step_terminal0 s o t Hi Hd Ht) as Hs.
    unfold final. cbn [run]. destruct (step p s o) as [s1 y] eqn:E. cbn [fst] in *.
    assert (Ht1 : terminal p (cur p s1 t) = true) by (rewrite Hs; exact Ht).
    specialize (IH s1 t Hi' Hr Ht1). unfold final in IH. destruct (run p s1 r) as [s2 ys]. cbn [fst] in *.
    rewrite IH. exact Hs.
  Qed.
End Guarded.

Lemma forallb_api_app a b : forallb api_op (a ++ b) = true -> forallb api_op a = true /\ forallb api_op b = true.
Proof. rewrite forallb_app. intros H. apply andb_true_iff in H. exact H. Qed.
