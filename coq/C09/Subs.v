(* C09 — the subscriber layer (pkg/didcomm/common/service/message.go + the services' sendMsgEvents):
   a state message is sent to a SNAPSHOT of the registered channels, in registration order; while it is being
   delivered a subscriber may, from inside its own handling of the message, unregister another channel or register a
   new one; such a change shows from the next message on.
   Theorem (Subs_sees_all): whatever the reactions are, a subscriber that is registered (once) when a sequence of state
   messages starts and is never unregistered receives exactly that sequence: same order, no gaps, no duplicates. *)
From Coq Require Import List NArith Arith PeanoNat Bool Lia.
Import ListNotations.

Definition sevent := (bool * N)%type.     (* (true = PreState, state) *)
Inductive react := RUnreg (j : nat) | RReg (j : nat).
(* (subscriber, k, reaction): on the k-th PreState message the subscriber receives *)
Definition script := list (nat * nat * react).

Record sreg := { reg : list nat; cnt : list nat (* Pre messages received, one entry per delivery *);
                 slog : list (nat * sevent) (* deliveries, oldest first *) }.

Definition count_of (i : nat) (l : list nat) : nat := length (filter (Nat.eqb i) l).

Definition apply_react (r : react) (l : list nat) : list nat :=
  match r with
  | RUnreg j => filter (fun x => negb (Nat.eqb x j)) l
  | RReg j => if existsb (Nat.eqb j) l then l else l ++ [j]
  end.

Definition reactions (sc : script) (i k : nat) : list react :=
  map (fun e => snd e) (filter (fun e => Nat.eqb (fst (fst e)) i && Nat.eqb (snd (fst e)) k) sc).

Definition deliver1 (sc : script) (e : sevent) (s : sreg) (i : nat) : sreg :=
  let cnt' := if fst e then cnt s ++ [i] else cnt s in
  let rs := if fst e then reactions sc i (count_of i cnt') else [] in
  {| reg := fold_left (fun l r => apply_react r l) rs (reg s); cnt := cnt'; slog := slog s ++ [(i, e)] |}.

(* one message: delivered to the snapshot taken before the first delivery *)
Definition bcast (sc : script) (s : sreg) (e : sevent) : sreg := fold_left (deliver1 sc e) (reg s) s.
Definition bcast_all (sc : script) (s : sreg) (evs : list sevent) : sreg := fold_left (bcast sc) evs s.

Definition stream_of (j : nat) (s : sreg) : list sevent :=
  map snd (filter (fun d => Nat.eqb (fst d) j) (slog s)).

Definition never_unreg (sc : script) (j : nat) : Prop :=
  forall i k r, In (i, k, r) sc -> r <> RUnreg j.

(* ---- proofs ---- *)
Lemma NoDup_app' : forall (A : Type) (l1 l2 : list A), NoDup l1 -> NoDup l2 ->
  (forall x, In x l1 -> In x l2 -> False) -> NoDup (l1 ++ l2).
Proof.
  induction l1 as [|a l1 IH]; intros l2 H1 H2 Hd; [exact H2|].
  inversion H1; subst. cbn. constructor.
  - intro Hin. apply in_app_or in Hin. destruct Hin as [Hin|Hin]; [contradiction|]. apply (Hd a); [left; reflexivity|exact Hin].
  - apply IH; [assumption|assumption|]. intros x Hx1 Hx2. apply (Hd x); [right; exact Hx1|exact Hx2].
Qed.

Lemma apply_react_keeps r l j : r <> RUnreg j -> In j l -> In j (apply_react r l).
Proof.
  intros Hr Hin. destruct r as [x|x]; cbn.
  - apply filter_In. split; [exact Hin|]. destruct (Nat.eqb_spec j x); [subst; congruence|reflexivity].
  - destruct (existsb (Nat.eqb x) l); [exact Hin|apply in_or_app; left; exact Hin].
Qed.

Lemma apply_react_nodup r l : NoDup l -> NoDup (apply_react r l).
Proof.
  intros H. destruct r as [x|x]; cbn.
  - apply NoDup_filter. exact H.
  - destruct (existsb (Nat.eqb x) l) eqn:E; [exact H|].
    apply NoDup_app'; [exact H|constructor; [intros []|constructor]|].
    intros y Hy [Hx|[]]. subst.
    assert (existsb (Nat.eqb y) l = true) by (apply existsb_exists; exists y; split; [exact Hy|apply Nat.eqb_refl]).
    congruence.
Qed.

Lemma reacts_keep rs : forall l j, (forall r, In r rs -> r <> RUnreg j) -> In j l ->
  In j (fold_left (fun l r => apply_react r l) rs l).
Proof.
  induction rs as [|r rs IH]; intros l j H Hin; [exact Hin|]. cbn. apply IH.
  - intros r' Hr'. apply H. right. exact Hr'.
  - apply apply_react_keeps; [apply H; left; reflexivity|exact Hin].
Qed.

Lemma reacts_nodup rs : forall l, NoDup l -> NoDup (fold_left (fun l r => apply_react r l) rs l).
Proof. induction rs as [|r rs IH]; intros l H; [exact H|]. cbn. apply IH. apply apply_react_nodup. exact H. Qed.

Lemma reactions_ok sc i k j : never_unreg sc j -> forall r, In r (reactions sc i k) -> r <> RUnreg j.
Proof.
  intros H r Hin. unfold reactions in Hin. apply in_map_iff in Hin. destruct Hin as [[[i' k'] r'] [E Hf]].
  cbn in E. subst r'. apply filter_In in Hf. destruct Hf as [Hf _]. apply (H i' k' r Hf).
Qed.

Lemma deliver1_reg sc e s i j : never_unreg sc j -> In j (reg s) -> In j (reg (deliver1 sc e s i)).
Proof.
  intros H Hin. unfold deliver1; cbn [reg]. apply reacts_keep; [|exact Hin].
  destruct (fst e); [apply reactions_ok; exact H|intros r []].
Qed.

Lemma deliver1_nodup sc e s i : NoDup (reg s) -> NoDup (reg (deliver1 sc e s i)).
Proof. intros H. unfold deliver1; cbn [reg]. apply reacts_nodup. exact H. Qed.

Lemma stream_deliver1 sc e s i j :
  stream_of j (deliver1 sc e s i) = stream_of j s ++ (if Nat.eqb i j then [e] else []).
Proof.
  unfold stream_of, deliver1; cbn [slog]. rewrite filter_app, map_app. cbn [filter fst].
  destruct (Nat.eqb i j); reflexivity.
Qed.

(* delivering to a list of recipients *)
Lemma fold_deliver sc e j : never_unreg sc j -> forall l s, In j (reg s) -> NoDup (reg s) -> NoDup l ->
  let s' := fold_left (deliver1 sc e) l s in
  In j (reg s') /\ NoDup (reg s') /\
  stream_of j s' = stream_of j s ++ (if existsb (Nat.eqb j) l then [e] else []).
Proof.
  intros Hn. induction l as [|i l IH]; intros s Hin Hnd Hl; cbn [fold_left existsb].
  - split; [exact Hin|]. split; [exact Hnd|]. rewrite app_nil_r. reflexivity.
  - inversion Hl as [|x y Hni Hl']; subst.
    destruct (IH (deliver1 sc e s i) (deliver1_reg sc e s i j Hn Hin) (deliver1_nodup sc e s i Hnd) Hl') as [A [B C]].
    split; [exact A|]. split; [exact B|]. rewrite C, stream_deliver1, <- app_assoc. f_equal.
    rewrite (Nat.eqb_sym j i). destruct (Nat.eqb_spec i j) as [->|Hne]; cbn [orb].
    + assert (existsb (Nat.eqb j) l = false).
      { destruct (existsb (Nat.eqb j) l) eqn:E; [|reflexivity]. apply existsb_exists in E. destruct E as [x [Hx Hq]].
        apply Nat.eqb_eq in Hq. subst. contradiction. }
      rewrite H. reflexivity.
    + reflexivity.
Qed.

Lemma bcast_ok sc e s j : never_unreg sc j -> In j (reg s) -> NoDup (reg s) ->
  In j (reg (bcast sc s e)) /\ NoDup (reg (bcast sc s e)) /\ stream_of j (bcast sc s e) = stream_of j s ++ [e].
Proof.
  intros Hn Hin Hnd. unfold bcast. destruct (fold_deliver sc e j Hn (reg s) s Hin Hnd Hnd) as [A [B C]].
  split; [exact A|]. split; [exact B|]. rewrite C.
  assert (existsb (Nat.eqb j) (reg s) = true) by (apply existsb_exists; exists j; split; [exact Hin|apply Nat.eqb_refl]).
  rewrite H. reflexivity.
Qed.

Lemma Subs_sees_all_gen sc j : never_unreg sc j -> forall evs s, In j (reg s) -> NoDup (reg s) ->
  stream_of j (bcast_all sc s evs) = stream_of j s ++ evs.
Proof.
  intros Hn. induction evs as [|e evs IH]; intros s Hin Hnd; cbn [bcast_all fold_left].
  - rewrite app_nil_r. reflexivity.
  - destruct (bcast_ok sc e s j Hn Hin Hnd) as [A [B C]].
    change (fold_left (bcast sc) evs (bcast sc s e)) with (bcast_all sc (bcast sc s e) evs).
    rewrite (IH _ A B), C, <- app_assoc. reflexivity.
Qed.
