(* C09 — the PUBLISHED state graphs, written by hand in the implementation's state names.

   Name map (DESIGN section 7, C09):
     issue-credential (RFC 0453) : states as in the RFC; the RFC's `abandoned` = `abandoning` followed by `done`
     present-proof   (RFC 0454) : states as in the RFC (`abandoned` is a terminal state of its own)
     introduce       (RFC 0028) : arranging / delivering / confirming (introducer), requesting / deciding /
                                  waiting (introducee); `abandoned` = `abandoning` followed by `done`
     DID Exchange    (RFC 0023) : invited = invitation-received|sent, requested = request-sent|received,
                                  responded = response-received|sent, completed; role-agnostic chain
     Connection      (RFC 0160) : the same chain without `abandoned`
   Every protocol: a problem report / processing error may abandon the thread from any non-terminal state.

   This file also builds the machine instances from the generated tables (coq/gen/Gen_C09.v). *)
From Coq Require Import List NArith String Bool.
Import ListNotations.
From VF Require Import gen.Gen_C09 C09.Model.
Local Open Scope string_scope.

Record spec := {
  sp_edges : list (string * string);
  sp_terminal : list string;
  sp_abandon : string;
  sp_start : string;
  (* message type (short name), outbound?, state it leads to *)
  sp_targets : list (string * bool * string)
}.

Definition ic_spec : spec := {|
  sp_edges := [
    (* issuer *)
    ("start", "proposal-received"); ("start", "offer-sent"); ("start", "request-received");
    ("proposal-received", "offer-sent"); ("offer-sent", "proposal-received"); ("offer-sent", "request-received");
    ("request-received", "credential-issued"); ("credential-issued", "done");
    (* holder *)
    ("start", "proposal-sent"); ("start", "offer-received"); ("start", "request-sent");
    ("proposal-sent", "offer-received"); ("offer-received", "proposal-sent"); ("offer-received", "request-sent");
    ("request-sent", "credential-received"); ("credential-received", "done");
    ("abandoning", "done") ];
  sp_terminal := ["done"];
  sp_abandon := "abandoning";
  sp_start := "start";
  sp_targets := [
    ("propose", false, "proposal-received"); ("propose", true, "proposal-sent");
    ("offer", false, "offer-received"); ("offer", true, "offer-sent");
    ("request", false, "request-received"); ("request", true, "request-sent");
    ("issue", false, "credential-received"); ("issue", true, "credential-received");
    ("ack", false, "done"); ("ack", true, "done");
    ("problem-report", false, "abandoning"); ("problem-report", true, "abandoning") ]
|}.

Definition pp_spec : spec := {|
  sp_edges := [
    (* verifier *)
    ("start", "request-sent"); ("start", "proposal-received"); ("proposal-received", "request-sent");
    ("request-sent", "presentation-received"); ("request-sent", "proposal-received");
    ("presentation-received", "done");
    (* prover *)
    ("start", "proposal-sent"); ("start", "request-received"); ("proposal-sent", "request-received");
    ("request-received", "presentation-sent"); ("request-received", "proposal-sent");
    ("presentation-sent", "done") ];
  sp_terminal := ["done"; "abandoned"];
  sp_abandon := "abandoned";
  sp_start := "start";
  sp_targets := [
    ("propose", false, "proposal-received"); ("propose", true, "proposal-sent");
    ("request", false, "request-received"); ("request", true, "request-sent");
    ("presentation", false, "presentation-received"); ("presentation", true, "presentation-received");
    ("ack", false, "done"); ("ack", true, "done");
    ("problem-report", false, "abandoned"); ("problem-report", true, "abandoned") ]
|}.

Definition intro_spec : spec := {|
  sp_edges := [
    (* introducer *)
    ("start", "arranging"); ("arranging", "arranging"); ("arranging", "delivering"); ("arranging", "done");
    ("delivering", "confirming"); ("delivering", "done"); ("confirming", "done");
    (* introducee *)
    ("start", "requesting"); ("start", "deciding"); ("requesting", "deciding"); ("requesting", "done");
    ("deciding", "waiting"); ("deciding", "done"); ("waiting", "done");
    ("abandoning", "done") ];
  sp_terminal := ["done"];
  sp_abandon := "abandoning";
  sp_start := "start";
  sp_targets := [
    ("proposal", false, "deciding"); ("proposal", true, "arranging");
    ("request", false, "arranging"); ("request", true, "requesting");
    ("response", false, "arranging"); ("response", true, "arranging");
    ("ack", false, "done"); ("ack", true, "done");
    ("problem-report", false, "abandoning"); ("problem-report", true, "abandoning") ]
|}.

(* DID Exchange / Connection: no outbound handling; the bool of a target is unused (false) *)
Definition didex_spec : spec := {|
  sp_edges := [ ("null", "invited"); ("null", "requested"); ("invited", "requested");
                ("requested", "responded"); ("responded", "completed") ];
  sp_terminal := ["completed"; "abandoned"];
  sp_abandon := "abandoned";
  sp_start := "null";
  sp_targets := [ ("invitation", false, "invited"); ("oob-invitation", false, "invited");
                  ("request", false, "requested"); ("response", false, "responded");
                  ("ack", false, "completed"); ("complete", false, "completed") ]
|}.

Definition legacy_spec : spec := {|
  sp_edges := [ ("null", "invited"); ("null", "requested"); ("invited", "requested");
                ("requested", "responded"); ("responded", "completed") ];
  sp_terminal := ["completed"];
  sp_abandon := "abandoned";        (* not a state of this protocol: nothing maps to it *)
  sp_start := "null";
  sp_targets := [ ("invitation", false, "invited"); ("request", false, "requested");
                  ("response", false, "responded"); ("ack", false, "completed") ]
|}.

(* ---- names <-> numbers (numbering of the generated file: 0 = noop, i+1 = i-th name) ---- *)
Fixpoint idx_from (i : N) (names : list string) (s : string) : N :=
  match names with
  | [] => 0%N
  | x :: r => if String.eqb x s then i else idx_from (N.succ i) r s
  end.
Definition idx (names : list string) (s : string) : N := idx_from 1%N names s.

Definition spec_edges_n (names : list string) (sp : spec) : list (N * N) :=
  map (fun e => (idx names (fst e), idx names (snd e))) (sp_edges sp).
Definition spec_terminal_n (names : list string) (sp : spec) : list N := map (idx names) (sp_terminal sp).

(* the published relation on numbered states: listed edge, or abandon from a non-terminal state *)
Definition spec_edge (names : list string) (sp : spec) (a b : N) : bool :=
  existsb (pair_eqb (a, b)) (spec_edges_n names sp)
  || (N.eqb b (idx names (sp_abandon sp)) && negb (memN a (spec_terminal_n names sp))).

Definition mk_proto (names : list string) (sp : spec)
    (edges : list (N * N)) (targets : list (N * bool * bool * option N)) (actions : list (N * bool))
    (exec : list (N * bool * bool * N * bool * option N)) (tape each : bool)
    (stop_handles : list N) (cont_stops : list (N * N)) (post : list (N * bool)) (abandons async : bool)
    (res : list (N * bool * bool * bool * bool * bool * N * N)) (tidc pr : N) (keep : bool) (mt : option (N * N))
    (fl : option (list (N * N * option N))) (abd : bool) : proto :=
  {| p_start := idx names (sp_start sp); p_abandon := idx names (sp_abandon sp);
     p_terminal := spec_terminal_n names sp; p_edges := edges; p_targets := targets; p_actions := actions;
     p_exec := exec; p_tape := tape; p_persist_each := each; p_stop_handles := stop_handles;
     p_cont_stops := cont_stops; p_post_actions := post; p_abandons := abandons; p_async := async;
     p_resolve := res; p_tid_check := tidc; p_pr := pr; p_stop_keeps_payload := keep; p_meta := mt;
     p_follow := fl; p_abandon_direct := abd |}.

Definition ic_proto : proto :=
  mk_proto ic_names ic_spec ic_edges ic_targets ic_actions ic_exec false false [] [] [] true false ic_resolve 1%N (idx_from 0%N ic_msgs "problem-report") false None None false.
Definition pp_proto : proto :=
  mk_proto pp_names pp_spec pp_edges pp_targets pp_actions pp_exec false true [] [] [] true false pp_resolve 2%N (idx_from 0%N pp_msgs "problem-report") false None None false.
(* introduce: follow-ups depend on stored participants/metadata: read from the op's tape (what the service did);
   Stop of a proposal still runs handle (md.rejected); Continue of a request without recipients is an error *)
Definition intro_proto : proto :=
  mk_proto intro_names intro_spec intro_edges intro_targets intro_actions [] true false
           [idx_from 0%N intro_msgs "proposal"] [(idx_from 0%N intro_msgs "request", 0%N)] [] true false intro_resolve 0%N (idx_from 0%N intro_msgs "problem-report") true
           (Some (idx_from 0%N intro_msgs "request", idx_from 0%N intro_opts "recipients")) None false.

(* DID Exchange / Connection: the generated targets carry the namespace ("my" = true), put in the v3 slot of the
   machine (these protocols have one version and no outbound handling); the generated action table lists the
   (state, namespace) pairs after which the action event is raised; follow-ups from the tape; every state is
   persisted; HandleInbound works in a goroutine (errors are not reported); legacy Connection never abandons *)
Definition ns_targets (l : list (N * bool * option N)) : list (N * bool * bool * option N) :=
  map (fun r => match r with (m, ns, x) => (m, ns, false, x) end) l.
Definition didex_proto : proto :=
  mk_proto didex_names didex_spec didex_edges (ns_targets didex_targets) [] [] true true [] [] didex_actions true true [] 0%N 99%N false None (Some didex_follow) true.
Definition legacy_proto : proto :=
  mk_proto legacy_names legacy_spec legacy_edges (ns_targets legacy_targets) [] [] true true [] [] legacy_actions false true [] 0%N 99%N false None (Some legacy_follow) true.

(* ---- which identifier of a wire message names the protocol instance (PUBLISHED rule, written by hand) ----
   DIDComm threading: thid names the thread; a message without thid starts a thread named by its own id; a thid without
   an id is an invalid message; a message with neither gets a fresh id.  Codes: 0 refused, 1 id, 2 thid, 3 pthid, 4 fresh.
   issue-credential and introduce run as sub-protocols: a pthid, when present, names the instance;
   present-proof: only a problem-report is addressed by pthid;  introduce needs a thread id to load the thread's
   metadata before anything else when the message is inbound. *)
Definition thread_id_rule (has_id has_thid : bool) : N :=
  if has_thid then (if has_id then 2 else 0)%N else if has_id then 1%N else 4%N.

Definition ic_resolve_spec (m : N) (v3 outbound has_id has_thid has_pthid : bool) : N :=
  if has_pthid then 3%N else thread_id_rule has_id has_thid.
Definition pp_resolve_spec (m : N) (v3 outbound has_id has_thid has_pthid : bool) : N :=
  if has_pthid && N.eqb m (idx_from 0%N pp_msgs "problem-report") then 3%N else thread_id_rule has_id has_thid.
Definition intro_resolve_spec (m : N) (v3 outbound has_id has_thid has_pthid : bool) : N :=
  let t := thread_id_rule has_id has_thid in
  if negb outbound && (N.eqb t 0 || N.eqb t 4) then 0%N
  else if has_pthid then 3%N else t.

(* the generated rule is the published one, and the state that is read is the state of the very identifier that is
   taken as instance id (so the check and the update concern the same thread) *)
Definition resolve_refines_b (rule : N -> bool -> bool -> bool -> bool -> bool -> N)
    (tbl : list (N * bool * bool * bool * bool * bool * N * N)) : bool :=
  negb (match tbl with [] => true | _ => false end) &&
  forallb (fun r => match r with (m, v3, o, i, t, q, k, st) => N.eqb k (rule m v3 o i t q) && N.eqb st k end) tbl.

(* ---- finite obligations on the generated tables (decided by vm_compute in Props.v) ---- *)

(* every generated CanTransitionTo pair is an edge of the published graph (noop never appears) *)
Definition graph_refines_b (names : list string) (sp : spec) (edges : list (N * N)) : bool :=
  forallb (fun e => spec_edge names sp (fst e) (snd e) && negb (N.eqb (fst e) 0) && negb (N.eqb (snd e) 0)
                    && N.leb (fst e) (N.of_nat (List.length names)) && N.leb (snd e) (N.of_nat (List.length names))) edges.

(* terminal states have no outgoing pair *)
Definition terminal_stuck_b (p : proto) : bool :=
  forallb (fun e => negb (terminal p (fst e))) (p_edges p).

(* the generated message -> state map is the published one *)
Definition targets_refine_b (names msgs : list string) (sp : spec)
    (targets : list (N * bool * bool * option N)) : bool :=
  forallb (fun r => match r with (m, _, outbound, x) =>
      match x with
      | None => false
      | Some n => existsb (fun q => match q with (ms, o, stn) =>
                     N.eqb (idx_from 0%N msgs ms) m && Bool.eqb o outbound && N.eqb (idx names stn) n end)
                   (sp_targets sp)
      end end) targets.
Definition ns_targets_refine_b (names msgs : list string) (sp : spec) (targets : list (N * bool * option N)) : bool :=
  forallb (fun r => match r with (m, _, x) =>
      match x with
      | None => false
      | Some n => existsb (fun q => match q with (ms, _, stn) =>
                     N.eqb (idx_from 0%N msgs ms) m && N.eqb (idx names stn) n end) (sp_targets sp)
      end end) targets.

(* table mode: executing a terminal state inbound has no follow-up and no error; the abandon state never errors *)
Definition exec_terminal_b (p : proto) : bool :=
  p_tape p ||
  forallb (fun r => match r with (c, _, inbound, _, _, x) =>
      negb (terminal p c && inbound) || match x with Some 0%N => true | _ => false end end) (p_exec p).

(* all spec names exist in the generated name list *)
Definition names_ok_b (names : list string) (sp : spec) : bool :=
  forallb (fun e => negb (N.eqb (idx names (fst e)) 0) && negb (N.eqb (idx names (snd e)) 0)) (sp_edges sp)
  && forallb (fun s => negb (N.eqb (idx names s) 0)) (sp_terminal sp)
  && negb (N.eqb (idx names (sp_start sp)) 0).

Definition wf_proto (p : proto) : bool :=
  terminal_stuck_b p && exec_terminal_b p && negb (terminal p (p_start p)) && negb (N.eqb (p_start p) 0).

(* ---- wave 5: source-level obligations (go/ast tables of coq/gen/Gen_C09.v) ---- *)

(* the state list the export hook enumerates (typed by hand in the hook) is exactly the set of state types the package
   declares (every type with a CanTransitionTo method, by its Name(); noop left out): no state of states.go is outside
   the executed tables *)
Fixpoint str_mem (s : string) (l : list string) : bool :=
  match l with [] => false | x :: r => String.eqb x s || str_mem s r end.
Definition declared_listed_b (names declared : list string) : bool :=
  forallb (fun s => str_mem s names) declared && forallb (fun s => str_mem s declared) names
  && Nat.eqb (List.length names) (List.length declared).

(* PUBLISHED follow-up rule of the two connection protocols (RFC 0023 / 0160), written by hand: which state is entered
   right after which, by message type; every other (state, message type) the state accepts has no follow-up *)
Definition didex_follow_spec : list (string * string * string) :=
  [ ("invited", "invitation", "requested"); ("invited", "oob-invitation", "requested");
    ("requested", "request", "responded");
    ("responded", "response", "completed"); ("responded", "complete", "completed") ].
Definition legacy_follow_spec : list (string * string * string) :=
  [ ("invited", "invitation", "requested"); ("requested", "request", "responded");
    ("responded", "response", "completed") ].

(* the generated follow-up table: covers every (state, message type); each follow-up other than noop is the published
   one, is a CanTransitionTo pair of the code (the chain can never stop at an invalid transition) and an edge of the
   published graph; every published follow-up is in the table; terminal states have no follow-up *)
Definition follow_refines_b (names msgs : list string) (sp : spec) (fs : list (string * string * string))
    (edges : list (N * N)) (tbl : list (N * N * option N)) : bool :=
  Nat.eqb (List.length tbl) (List.length names * List.length msgs) &&
  forallb (fun c => forallb (fun m =>
      existsb (fun r => match r with (c', m', _) => N.eqb c c' && N.eqb m m' end) tbl)
      (map N.of_nat (seq 0 (List.length msgs)))) (map N.of_nat (seq 1 (List.length names))) &&
  forallb (fun r => match r with (c, m, x) =>
      match x with
      | None | Some 0%N => true
      | Some n =>
          existsb (fun q => match q with (cs, ms, ns) =>
             N.eqb (idx names cs) c && N.eqb (idx_from 0%N msgs ms) m && N.eqb (idx names ns) n end) fs
          && existsb (pair_eqb (c, n)) edges && spec_edge names sp c n
          && negb (memN c (spec_terminal_n names sp))
      end end) tbl &&
  forallb (fun q => match q with (cs, ms, ns) =>
      match follow_tbl tbl (idx names cs) (idx_from 0%N msgs ms) with
      | Some n => N.eqb n (idx names ns) && negb (N.eqb n 0)
      | None => false
      end end) fs.
