(* C09 — correspondence: the harness drives the REAL services of /repo with an op list and records, per op,
   the result class, the states announced on the StateMsg stream (Pre/Post pairs) and the persisted state of
   the op's thread read back from the harness-owned store.  check_case runs the SAME `step` the theorems
   are about and compares.  A second kind of case ties the harness' own copy of the published graph
   (used by its direct oracle) to Spec.v. *)
From Coq Require Import List NArith String Bool.
Import ListNotations.
From VF Require Export gen.Gen_C09 C09.Model C09.Spec C09.Subs.

Inductive pname := PIC | PPP | PIntro | PDidex | PLegacy.

Definition proto_of (n : pname) : proto :=
  match n with PIC => ic_proto | PPP => pp_proto | PIntro => intro_proto
             | PDidex => didex_proto | PLegacy => legacy_proto end.
Definition spec_of (n : pname) : spec :=
  match n with PIC => ic_spec | PPP => pp_spec | PIntro => intro_spec
             | PDidex => didex_spec | PLegacy => legacy_spec end.

Inductive case :=
| Hist (n : pname) (ops : list op) (obs : list (res * list st * st))
(* a history observed by several subscribers: n0 channels registered at the start (0 .. n0-1), reactions scripted
   inside the handling of state messages, and what every channel received over the whole history *)
| SubHist (n : pname) (ops : list op) (obs : list (res * list st * st)) (n0 : nat) (sc : script)
          (streams : list (list sevent))
| SpecIs (n : pname) (edges : list (string * string)) (term : list string) (abandon start : string)
         (targets : list (string * bool * string)).

Fixpoint listN_eqb (a b : list N) : bool :=
  match a, b with
  | [], [] => true
  | x :: r, y :: s => N.eqb x y && listN_eqb r s
  | _, _ => false
  end.

Fixpoint check_from (p : proto) (s : sstate) (ops : list op) (obs : list (res * list st * st)) : bool :=
  match ops, obs with
  | [], [] => true
  | o :: r, (x, ann, post) :: t =>
      let '(s1, (y, ann')) := step p s o in
      res_eqb x y && listN_eqb ann ann' &&
      match op_thread p s o with Some th => N.eqb post (cur p s1 th) | None => true end &&
      check_from p s1 r t
  | _, _ => false
  end.

Fixpoint strs_eqb (a b : list string) : bool :=
  match a, b with
  | [], [] => true
  | x :: r, y :: s => String.eqb x y && strs_eqb r s
  | _, _ => false
  end.
Fixpoint pairs_eqb (a b : list (string * string)) : bool :=
  match a, b with
  | [], [] => true
  | (x1, x2) :: r, (y1, y2) :: s => String.eqb x1 y1 && String.eqb x2 y2 && pairs_eqb r s
  | _, _ => false
  end.
Fixpoint targets_eqb (a b : list (string * bool * string)) : bool :=
  match a, b with
  | [], [] => true
  | (x1, x2, x3) :: r, (y1, y2, y3) :: s =>
      String.eqb x1 y1 && Bool.eqb x2 y2 && String.eqb x3 y3 && targets_eqb r s
  | _, _ => false
  end.

Fixpoint sevents_eqb (a b : list sevent) : bool :=
  match a, b with
  | [], [] => true
  | (p1, x) :: r, (p2, y) :: s => Bool.eqb p1 p2 && N.eqb x y && sevents_eqb r s
  | _, _ => false
  end.

(* the state messages of a history: every announced state as PreState then PostState *)
Definition events_of (p : proto) (ops : list op) : list sevent :=
  flat_map (fun y => flat_map (fun a => [(true, a); (false, a)]) (snd y)) (snd (run p s0 ops)).

Fixpoint check_streams (j : nat) (s : sreg) (streams : list (list sevent)) : bool :=
  match streams with
  | [] => true
  | x :: r => sevents_eqb x (stream_of j s) && check_streams (S j) s r
  end.

Definition check_case (c : case) : bool :=
  match c with
  | Hist n ops obs => check_from (proto_of n) s0 ops obs
  | SubHist n ops obs n0 sc streams =>
      check_from (proto_of n) s0 ops obs &&
      check_streams 0 (bcast_all sc {| reg := seq 0 n0; cnt := []; slog := [] |} (events_of (proto_of n) ops)) streams
  | SpecIs n edges term abandon start targets =>
      let sp := spec_of n in
      pairs_eqb edges (sp_edges sp) && strs_eqb term (sp_terminal sp) &&
      String.eqb abandon (sp_abandon sp) && String.eqb start (sp_start sp) && targets_eqb targets (sp_targets sp)
  end.

Fixpoint mismatches_from (i : nat) (cs : list case) : list nat :=
  match cs with
  | [] => []
  | c :: r => if check_case c then mismatches_from (S i) r else i :: mismatches_from (S i) r
  end.
Definition mismatches := mismatches_from 0.
