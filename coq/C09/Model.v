(* C09 — executable model of the protocol services' state handling (no proofs here).

   One generic machine, instantiated per protocol from the tables that the translator regenerates from
   /repo on every run (coq/gen/Gen_C09.v): issue-credential, present-proof, introduce have the same
   service loop (pkg/didcomm/protocol/{issuecredential,presentproof,introduce}/service.go):

     HandleInbound/HandleOutbound -> doHandle/buildMetaData: current := persisted state of the thread
       (start if none); next := nextState(msg type, direction); reject unless current.CanTransitionTo(next)
     inbound message types of canTriggerActionEvents: an action event is raised, NOTHING is persisted;
       the application later calls Continue(opt) or Stop on the event
     otherwise handle(md) runs at once
     handle: execute the state (PreState + PostState announced), take its follow-up state, check
       current.CanTransitionTo(followup), go on until noop; issue-credential and introduce persist the
       LAST executed state name once the chain ended, present-proof persists each state of the chain
     listener (Continue/Stop): handle(md); on error or Stop: md.state := abandoning/abandoned, handle again
       -- WITHOUT looking at the persisted state again (the code as it is: observation #16)

   States, message types and options are numbers (position in the generated name lists; state 0 = noop). *)
From Coq Require Import List NArith Bool.
Import ListNotations.
Local Open Scope N_scope.

Definition st := N.
Definition thid := N.

Record proto := {
  p_start : st;
  p_abandon : st;                        (* the state the listener switches to on error / Stop *)
  p_terminal : list st;
  p_edges : list (st * st);              (* generated: CanTransitionTo *)
  p_targets : list (N * bool * bool * option st);   (* generated: (msg, v3, outbound) -> nextState *)
  p_actions : list (N * bool);           (* generated: (msg, v3) raising an action event when inbound *)
  p_exec : list (st * bool * bool * N * bool * option st);  (* generated follow-up table *)
  p_tape : bool;                         (* follow-ups are read from the op's tape (introduce) *)
  p_persist_each : bool;                 (* present-proof: every state of the chain is persisted *)
  p_stop_handles : list N;               (* message types whose Stop still runs handle (introduce: proposal) *)
  p_cont_stops : list (N * N)            (* (msg, opt): Continue behaves like an internal error (introduce: request without recipients) *)
}.

Definition pair_eqb (a b : st * st) : bool := N.eqb (fst a) (fst b) && N.eqb (snd a) (snd b).
Definition memN (x : N) (l : list N) : bool := existsb (N.eqb x) l.

Definition can (p : proto) (a b : st) : bool := existsb (pair_eqb (a, b)) (p_edges p).
Definition terminal (p : proto) (a : st) : bool := memN a (p_terminal p).

(* the published graph as far as the machine needs it: the implementation's relation plus
   "any non-terminal state may be abandoned" (RFC 0453/0454/0028: problem-report / error from any state) *)
Definition sedge (p : proto) (a b : st) : bool :=
  can p a b || (N.eqb b (p_abandon p) && negb (terminal p a)).

Definition target (p : proto) (m : N) (v3 outbound : bool) : option st :=
  match find (fun r => match r with (m', v', o', _) => N.eqb m m' && Bool.eqb v3 v' && Bool.eqb outbound o' end)
             (p_targets p) with
  | Some (_, _, _, x) => x
  | None => None
  end.

Definition is_action (p : proto) (m : N) (v3 : bool) : bool :=
  existsb (fun r => N.eqb m (fst r) && Bool.eqb v3 (snd r)) (p_actions p).

Definition exec_tbl (p : proto) (c : st) (v3 inbound : bool) (opt : N) (flag : bool) : option st :=
  match find (fun r => match r with (c', v', i', o', f', _) =>
                N.eqb c c' && Bool.eqb v3 v' && Bool.eqb inbound i' && N.eqb opt o' && Bool.eqb flag f' end)
             (p_exec p) with
  | Some (_, _, _, _, _, x) => x
  | None => None
  end.

(* a pending action event *)
Record ev := { e_t : thid; e_st : st; e_msg : N; e_v3 : bool; e_flag : bool; e_live : bool }.

Record sstate := { persisted : list (thid * st); pending : list ev }.
Definition s0 : sstate := {| persisted := []; pending := [] |}.

Definition cur (p : proto) (s : sstate) (t : thid) : st :=
  match find (fun x => N.eqb (fst x) t) (persisted s) with Some x => snd x | None => p_start p end.
Definition set (s : sstate) (t : thid) (x : st) : sstate :=
  {| persisted := (t, x) :: persisted s; pending := pending s |}.

(* parameters of one execution context *)
Record ctx := { c_v3 : bool; c_inbound : bool; c_opt : N; c_flag : bool }.

(* the follow-up of executing state c: a terminal state executed inbound has no follow-up
   (done/abandoned return noOp; Spec.exec_terminal_b checks the generated table against this rule); otherwise from
   the generated table, or from the tape (head) *)
Definition exec1 (p : proto) (k : ctx) (c : st) (tape : list (option st)) : option st * list (option st) :=
  if terminal p c && c_inbound k then (Some 0, tape)
  else if p_tape p then
    match tape with
    | [] => (Some 0, [])
    | x :: r => (x, r)
    end
  else (exec_tbl p c (c_v3 k) (c_inbound k) (c_opt k) (c_flag k), tape).

(* handle's loop: (announced states, ok?, rest of tape).  fuel bounds the chain (the code would spin). *)
Fixpoint chain (p : proto) (k : ctx) (fuel : nat) (c : st) (tape : list (option st))
  : list st * bool * list (option st) :=
  match fuel with
  | O => ([], false, tape)
  | S f =>
      match exec1 p k c tape with
      | (None, tape') => ([c], false, tape')                       (* Execute failed (events already sent) *)
      | (Some n, tape') =>
          if N.eqb n 0 then ([c], true, tape')
          else if can p c n then
                 let '(ann, ok, tp) := chain p k f n tape' in (c :: ann, ok, tp)
               else ([c], false, tape')                            (* invalid state transition: c --> n *)
      end
  end.

Definition chain_fuel : nat := 12.

Definition last_st (l : list st) (d : st) : st := last l d.
(* the state persisted by a FAILED chain: none (issue-credential, introduce) or the last element that
   completed (present-proof persists inside the loop) *)
Definition penult (l : list st) : option st :=
  match rev l with
  | _ :: x :: _ => Some x
  | _ => None
  end.

Definition commit (p : proto) (s : sstate) (t : thid) (ann : list st) (ok : bool) : sstate :=
  if ok then set s t (last_st ann (cur p s t))
  else if p_persist_each p then
         match penult ann with Some x => set s t x | None => s end
       else s.

Inductive op :=
| Msg (outbound : bool) (m : N) (v3 flag : bool) (t : thid) (tape : list (option st))
| Continue (e : nat) (opt : N) (tape : list (option st))
| Stop (e : nat) (tape : list (option st)).

Inductive res := RReject | RAction | ROk | RErr | RNoEvent.

Definition res_eqb (a b : res) : bool :=
  match a, b with
  | RReject, RReject | RAction, RAction | ROk, ROk | RErr, RErr | RNoEvent, RNoEvent => true
  | _, _ => false
  end.

Fixpoint kill (l : list ev) (n : nat) : list ev :=
  match l, n with
  | e :: r, O => {| e_t := e_t e; e_st := e_st e; e_msg := e_msg e; e_v3 := e_v3 e; e_flag := e_flag e;
                    e_live := false |} :: r
  | e :: r, S n' => e :: kill r n'
  | [], _ => []
  end.

(* the listener: handle, then abandon on failure / Stop *)
Definition listener (p : proto) (s : sstate) (e : ev) (opt : N) (skip_handle : bool) (tape : list (option st))
  : sstate * list st :=
  let k := {| c_v3 := e_v3 e; c_inbound := true; c_opt := opt; c_flag := e_flag e |} in
  let t := e_t e in
  let '(s1, ann1, ok1, tape1) :=
    if skip_handle then (s, [], false, tape)
    else let '(ann, ok, tp) := chain p k chain_fuel (e_st e) tape in (commit p s t ann ok, ann, ok, tp) in
  if ok1 then (s1, ann1)
  else
    let '(ann2, ok2, _) := chain p k chain_fuel (p_abandon p) tape1 in
    (commit p s1 t ann2 ok2, ann1 ++ ann2).

Definition step (p : proto) (s : sstate) (o : op) : sstate * (res * list st) :=
  match o with
  | Msg outbound m v3 flag t tape =>
      match target p m v3 outbound with
      | None => (s, (RReject, []))
      | Some x =>
          if negb (can p (cur p s t) x) then (s, (RReject, []))
          else if negb outbound && is_action p m v3 then
                 ({| persisted := persisted s;
                     pending := pending s ++ [{| e_t := t; e_st := x; e_msg := m; e_v3 := v3; e_flag := flag;
                                                 e_live := true |}] |}, (RAction, []))
               else
                 let k := {| c_v3 := v3; c_inbound := negb outbound; c_opt := 0; c_flag := flag |} in
                 let '(ann, ok, _) := chain p k chain_fuel x tape in
                 (commit p s t ann ok, (if ok then ROk else RErr, ann))
      end
  | Continue e opt tape =>
      match nth_error (pending s) e with
      | Some v =>
          if e_live v then
            let s' := {| persisted := persisted s; pending := kill (pending s) e |} in
            let skip := existsb (fun r => N.eqb (fst r) (e_msg v) && N.eqb (snd r) opt) (p_cont_stops p) in
            let '(s2, ann) := listener p s' v opt skip tape in (s2, (ROk, ann))
          else (s, (RNoEvent, []))
      | None => (s, (RNoEvent, []))
      end
  | Stop e tape =>
      match nth_error (pending s) e with
      | Some v =>
          if e_live v then
            let s' := {| persisted := persisted s; pending := kill (pending s) e |} in
            let skip := negb (memN (e_msg v) (p_stop_handles p)) in
            let '(s2, ann) := listener p s' v 0 skip tape in (s2, (ROk, ann))
          else (s, (RNoEvent, []))
      | None => (s, (RNoEvent, []))
      end
  end.

(* the thread an operation works on *)
Definition op_thread (s : sstate) (o : op) : option thid :=
  match o with
  | Msg _ _ _ _ t _ => Some t
  | Continue e _ _ | Stop e _ =>
      match nth_error (pending s) e with Some v => if e_live v then Some (e_t v) else None | None => None end
  end.

Fixpoint run (p : proto) (s : sstate) (ops : list op) : sstate * list (res * list st) :=
  match ops with
  | [] => (s, [])
  | o :: r => let '(s1, y) := step p s o in let '(s2, ys) := run p s1 r in (s2, y :: ys)
  end.

Definition final (p : proto) (s : sstate) (ops : list op) : sstate := fst (run p s ops).

(* ---- the "busy" discipline: nothing is accepted on a thread while one of its action events is open ---- *)
Definition has_live (s : sstate) (t : thid) : bool :=
  existsb (fun e => e_live e && N.eqb (e_t e) t) (pending s).

Definition is_reject (r : res) : bool := match r with RReject => true | _ => false end.

Definition disciplined_step (p : proto) (s : sstate) (o : op) : bool :=
  match o with
  | Msg _ _ _ _ t _ => negb (has_live s t) || is_reject (fst (snd (step p s o)))
  | _ => true
  end.

Fixpoint disciplined (p : proto) (s : sstate) (ops : list op) : bool :=
  match ops with
  | [] => true
  | o :: r => disciplined_step p s o && disciplined p (fst (step p s o)) r
  end.

(* ---- the property, per step, as an executable predicate (also the harness' oracle, re-computed in Go) ---- *)
Fixpoint is_path (p : proto) (l : list st) : bool :=
  match l with
  | a :: ((b :: _) as r) => sedge p a b && is_path p r
  | _ => true
  end.

(* one step respects the graph: the announced states continue the thread's persisted state along edges,
   the new persisted state is one of them (or unchanged), a terminal state announces nothing *)
Definition step_ok (p : proto) (s : sstate) (o : op) : bool :=
  match op_thread s o with
  | None => true
  | Some t =>
      let '(s', (_, ann)) := step p s o in
      is_path p (cur p s t :: ann) && memN (cur p s' t) (cur p s t :: ann) &&
      (negb (terminal p (cur p s t)) || match ann with [] => true | _ => false end)
  end.

Fixpoint all_steps_ok (p : proto) (s : sstate) (ops : list op) : bool :=
  match ops with
  | [] => true
  | o :: r => step_ok p s o && all_steps_ok p (fst (step p s o)) r
  end.
