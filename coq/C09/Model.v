(* C09 — executable model of the protocol services' state handling (no proofs here).

   One generic machine, instantiated per protocol from the tables that the translator regenerates from
   /repo on every run (coq/gen/Gen_C09.v).

   issue-credential, present-proof, introduce (pkg/didcomm/protocol/{issuecredential,presentproof,introduce}/service.go):
     HandleInbound/HandleOutbound -> doHandle/buildMetaData: current := persisted state of the thread
       (start if none); next := nextState(msg type, direction); reject unless current.CanTransitionTo(next)
     inbound message types of canTriggerActionEvents: an action event is raised, NOTHING is persisted;
       the application later calls Continue(opt) or Stop on the event
     otherwise handle(md) runs at once
     handle: execute the state (PreState + PostState announced), take its follow-up state, check
       current.CanTransitionTo(followup), go on until noop;
       issue-credential / introduce: persist the LAST executed state name once the chain ended, THEN run the
         collected network actions;
       present-proof: persist each state and run its action inside the loop, before the follow-up is executed
     listener (Continue/Stop): handle(md); on error or Stop: md.state := abandoning/abandoned, handle again
       -- WITHOUT looking at the persisted state again (the code as it is: observation #16)

   DID Exchange, legacy Connection (didexchange/service.go, legacyconnection/service.go):
     HandleInbound: nextState (current.CanTransitionTo(stateFromMsgType)) or reject; handle in a goroutine
     handle: execute, persist (connection record), action, per state; after `invited` (invitee) / `requested`
       (inviter) the action event is raised with the FOLLOW-UP as continuation and execution halts
     Continue: handle from the stored follow-up; error / Stop: DID Exchange persists and announces `abandoned`,
       legacy Connection does nothing
     AcceptInvitation / AcceptExchangeRequest (API): refused unless the thread's CURRENT state is the state the
       event was raised in; then handle from the stored follow-up (no abandon on error)

   Faults (one per op, injected by the harness): f_get = the read of the thread's state fails; f_tp = the write
   of the action event's transitional payload fails; f_put = Some k: the k-th write of the thread's state fails;
   f_act = Some j: the network action of the j-th executed state of the op fails (observed position).

   States, message types and options are numbers (position in the generated name lists; state 0 = noop). *)
From Coq Require Import List NArith Bool Arith.
Import ListNotations.
Local Open Scope N_scope.

Definition st := N.
Definition thid := N.

Record proto := {
  p_start : st;
  p_abandon : st;                        (* the state the listener switches to on error / Stop *)
  p_terminal : list st;
  p_edges : list (st * st);              (* generated: CanTransitionTo *)
  p_targets : list (N * bool * bool * option st);   (* generated: (msg, v3 | namespace, outbound) -> nextState *)
  p_actions : list (N * bool);           (* generated: (msg, v3) raising an action event when inbound *)
  p_exec : list (st * bool * bool * N * bool * option st);  (* generated follow-up table *)
  p_tape : bool;                         (* follow-ups are read from the op's tape *)
  p_persist_each : bool;                 (* every state of the chain is persisted, its action runs inside the loop *)
  p_stop_handles : list N;               (* message types whose Stop still runs handle (introduce: proposal) *)
  p_cont_stops : list (N * N);           (* (msg, opt): Continue behaves like an internal error *)
  p_post_actions : list (st * bool);     (* generated: (state, namespace): executing it raises the action event *)
  p_abandons : bool;                     (* the listener abandons on error / Stop *)
  p_async : bool;                        (* handling errors of a message are not reported to the caller *)
  (* generated: (msg, v3, outbound, has id, has thid, has pthid) -> which identifier of the message is the protocol
     instance id: 0 = none (the message is refused), 1 = id, 2 = thid, 3 = pthid, 4 = a freshly generated one *)
  p_resolve : list (N * bool * bool * bool * bool * bool * N * N);
  (* messages handled at once also need a usable thread id (msg.ThreadID(): there must be an id) although the instance
     was found through the pthid: 0 = no, 1 = asked for after handling: the caller gets an error, the handling stays
     (issue-credential), 2 = asked for before handling: refused (present-proof) *)
  p_tid_check : N;
  p_pr : N;                              (* the problem-report message type *)
  p_stop_keeps_payload : bool;           (* the Stop callback does not delete the stored payload (introduce) *)
  (* introduce: continuing a (msg, opt) event saves the instance id with the metadata of the message's thread, and an
     inbound message belongs first of all to the instance stored with its thread's metadata *)
  p_meta : option (N * N);
  (* generated (go/ast over ExecuteInbound; DID Exchange, legacy Connection): (state, message type) -> follow-up.
     When present the machine PREDICTS the follow-up of every executed state from this table; the op's tape then only
     says whether an Execute failed on the CONTENT of the message (signature, DID resolution: C10's subject) *)
  p_follow : option (list (st * N * option st));
  (* the listener abandons by writing the abandon state itself and announcing it afterwards (DID Exchange: abandon());
     otherwise the abandon state is executed through handle like any other *)
  p_abandon_direct : bool
}.

Definition pair_eqb (a b : st * st) : bool := N.eqb (fst a) (fst b) && N.eqb (snd a) (snd b).
Definition memN (x : N) (l : list N) : bool := existsb (N.eqb x) l.

Definition can (p : proto) (a b : st) : bool := existsb (pair_eqb (a, b)) (p_edges p).
Definition terminal (p : proto) (a : st) : bool := memN a (p_terminal p).

(* the published graph as far as the machine needs it: the implementation's relation plus
   "any non-terminal state may be abandoned" (problem-report / error from any state) *)
Definition sedge (p : proto) (a b : st) : bool :=
  can p a b || (N.eqb b (p_abandon p) && negb (terminal p a)).

Definition target (p : proto) (m : N) (v3 outbound : bool) : option st :=
  match find (fun r => match r with (m', v', o', _) => N.eqb m m' && Bool.eqb v3 v' && Bool.eqb outbound o' end)
             (p_targets p) with
  | Some (_, _, _, x) => x
  | None => None
  end.

Definition is_action (p : proto) (m : N) (v3 : bool) : bool :=
  existsb (fun r => N.eqb m (fst r) && Bool.eqb v3 (snd r)) (p_actions p).

Definition resolve (p : proto) (m : N) (v3 outbound has_id has_thid has_pthid : bool) : N :=
  match find (fun r => match r with (m', v', o', i', t', q', _, _) =>
                N.eqb m m' && Bool.eqb v3 v' && Bool.eqb outbound o' && Bool.eqb has_id i' && Bool.eqb has_thid t'
                && Bool.eqb has_pthid q' end) (p_resolve p) with
  | Some (_, _, _, _, _, _, k, _) => k
  | None => 0
  end.

Definition is_some {A} (o : option A) : bool := match o with Some _ => true | None => false end.

(* the persisted thread a WIRE message is checked against and (if accepted) changes: the identifiers the message
   carries (each possibly absent, possibly naming any thread) and the generated resolution rule *)
Definition wire_thread (p : proto) (m : N) (v3 outbound : bool) (i th pth : option thid) (fresh : thid)
  : option thid :=
  match resolve p m v3 outbound (is_some i) (is_some th) (is_some pth) with
  | 1 => i
  | 2 => th
  | 3 => pth
  | 4 => Some fresh
  | _ => None
  end.

Definition post_action (p : proto) (c : st) (ns : bool) : bool :=
  existsb (fun r => N.eqb c (fst r) && Bool.eqb ns (snd r)) (p_post_actions p).

Definition exec_tbl (p : proto) (c : st) (v3 inbound : bool) (opt : N) (flag : bool) : option st :=
  match find (fun r => match r with (c', v', i', o', f', _) =>
                N.eqb c c' && Bool.eqb v3 v' && Bool.eqb inbound i' && N.eqb opt o' && Bool.eqb flag f' end)
             (p_exec p) with
  | Some (_, _, _, _, _, x) => x
  | None => None
  end.

Definition follow_tbl (l : list (st * N * option st)) (c : st) (m : N) : option st :=
  match find (fun r => match r with (c', m', _) => N.eqb c c' && N.eqb m m' end) l with
  | Some (_, _, x) => x
  | None => None
  end.

Record fault := { f_get : bool; f_tp : bool; f_put : option nat; f_act : option nat }.
Definition nofault : fault := {| f_get := false; f_tp := false; f_put := None; f_act := None |}.
Definition is_nofault (f : fault) : bool :=
  negb (f_get f) && negb (f_tp f) && match f_put f with None => true | _ => false end
  && match f_act f with None => true | _ => false end.

Definition hit (f : option nat) (n : nat) : bool := match f with Some j => Nat.eqb j n | None => false end.
(* some position in [base, base + len) *)
Definition hit_range (f : option nat) (base len : nat) : bool :=
  match f with Some j => Nat.leb base j && Nat.ltb j (base + len) | None => false end.

(* a pending action event: e_src is the thread's state when the event was raised *)
(* e_badtid: the message has no usable thread id of its own (no id; the instance was found through the pthid) *)
(* e_live: the decision is still open;  e_clos: the callback (closure) of the event is still usable -- lost when the
   service is restarted; the decision can then only be taken through the API by protocol instance id *)
Record ev := { e_t : thid; e_src : st; e_st : st; e_msg : N; e_v3 : bool; e_flag : bool; e_live : bool; e_badtid : bool;
               e_clos : bool;
               e_tid : option thid   (* the message's own thread id (thid, else id) *) }.

(* stored: the transitional payload kept per protocol instance for ActionContinue/ActionStop(piID): the index of the
   event whose payload was written last (None: deleted by a decision on that instance) *)
(* meta: introduce keeps, with the metadata of a THREAD, the protocol instance id its messages belong to *)
Record sstate := { persisted : list (thid * st); pending : list ev; stored : list (thid * option nat);
                   meta : list (thid * thid) }.
Definition s0 : sstate := {| persisted := []; pending := []; stored := []; meta := [] |}.

Definition meta_of (s : sstate) (tid : thid) : option thid :=
  match find (fun x => N.eqb (fst x) tid) (meta s) with Some x => Some (snd x) | None => None end.
Definition set_meta (s : sstate) (tid : option thid) (t : thid) : sstate :=
  match tid with
  | Some x => {| persisted := persisted s; pending := pending s; stored := stored s; meta := (x, t) :: meta s |}
  | None => s
  end.

Definition payload (s : sstate) (t : thid) : option nat :=
  match find (fun x => N.eqb (fst x) t) (stored s) with Some x => snd x | None => None end.

Definition wire_thread_s (p : proto) (s : sstate) (m : N) (v3 outbound : bool) (i th pth : option thid) (fresh : thid)
  : option thid :=
  match wire_thread p m v3 outbound i th pth fresh with
  | Some t =>
      match p_meta p, (match th with Some x => Some x | None => i end) with
      | Some _, Some tid =>
          if negb outbound then match meta_of s tid with Some q => Some q | None => Some t end else Some t
      | _, _ => Some t
      end
  | None => None
  end.

Definition cur (p : proto) (s : sstate) (t : thid) : st :=
  match find (fun x => N.eqb (fst x) t) (persisted s) with Some x => snd x | None => p_start p end.
Definition set (s : sstate) (t : thid) (x : st) : sstate :=
  {| persisted := (t, x) :: persisted s; pending := pending s; stored := stored s; meta := meta s |}.
Definition commit (s : sstate) (t : thid) (pers : option st) : sstate :=
  match pers with Some x => set s t x | None => s end.
Definition add_ev (s : sstate) (e : ev) : sstate :=
  {| persisted := persisted s; pending := pending s ++ [e]; stored := stored s; meta := meta s |}.
Definition store_ev (s : sstate) (t : thid) (i : nat) : sstate :=
  {| persisted := persisted s; pending := pending s; stored := (t, Some i) :: stored s; meta := meta s |}.

(* parameters of one execution context *)
Record ctx := { c_v3 : bool; c_inbound : bool; c_opt : N; c_flag : bool; c_f : fault; c_badtid : bool; c_pr : bool;
                c_msg : N   (* the type of the message being handled *) }.

(* the follow-up of executing state c: a terminal state executed inbound has no follow-up
   (done/abandoned/completed return noOp; Spec.exec_terminal_b checks the generated table against this rule);
   otherwise from the generated table, or from the tape (head) *)
Definition exec1 (p : proto) (k : ctx) (c : st) (tape : list (option st)) : option st * list (option st) :=
  (* abandoning/abandoned answer with a problem report on the message's thread: without a usable thread id their
     Execute fails (unless the message itself is a problem report, which is not answered) *)
  if negb (p_tape p) && N.eqb c (p_abandon p) && c_badtid k && negb (c_pr k) then (None, tape)
  else if terminal p c && c_inbound k then (Some 0, tape)
  else match p_follow p with
  | Some tbl =>
      (* predicted from the generated table; a `None` on the tape = the Execute failed on the message's content *)
      match tape with
      | None :: r => (None, r)
      | _ :: r => (follow_tbl tbl c (c_msg k), r)
      | [] => (follow_tbl tbl c (c_msg k), [])
      end
  | None =>
  if p_tape p then
    match tape with
    | [] => (Some 0, [])
    | x :: r => (x, r)
    end
  else (exec_tbl p c (c_v3 k) (c_inbound k) (c_opt k) (c_flag k), tape)
  end.

(* result of running handle's loop *)
Record cres := {
  r_ann : list st;            (* announced states *)
  r_pers : option st;         (* what the loop itself left persisted (persist-each mode) *)
  r_ok : bool;
  r_halt : option st;         (* an action event is to be raised for this follow-up *)
  r_tape : list (option st);
  r_np : nat;                 (* state writes attempted so far in the op *)
  r_ix : nat                  (* states executed so far in the op *)
}.

Definition cfail (ann : list st) (pers : option st) tape np ix : cres :=
  {| r_ann := ann; r_pers := pers; r_ok := false; r_halt := None; r_tape := tape; r_np := np; r_ix := ix |}.

(* handle's loop.  fuel bounds the chain (the code would spin). *)
Fixpoint chain (p : proto) (k : ctx) (fuel : nat) (c : st) (tape : list (option st)) (np ix : nat) : cres :=
  match fuel with
  | O => cfail [] None tape np ix
  | S f =>
      match exec1 p k c tape with
      | (None, tape') => cfail [c] None tape' np (S ix)              (* Execute failed (events already sent) *)
      | (Some n, tape') =>
          if negb (N.eqb n 0) && negb (can p c n) then cfail [c] None tape' np (S ix)   (* invalid transition c --> n *)
          else
            let go (np1 : nat) (pc : option st) :=
              if N.eqb n 0 then
                {| r_ann := [c]; r_pers := pc; r_ok := true; r_halt := None; r_tape := tape'; r_np := np1; r_ix := S ix |}
              else if post_action p c (c_v3 k) then
                {| r_ann := [c]; r_pers := pc; r_ok := true; r_halt := Some n; r_tape := tape'; r_np := np1; r_ix := S ix |}
              else
                let r := chain p k f n tape' np1 (S ix) in
                {| r_ann := c :: r_ann r; r_pers := match r_pers r with Some x => Some x | None => pc end;
                   r_ok := r_ok r; r_halt := r_halt r; r_tape := r_tape r; r_np := r_np r; r_ix := r_ix r |} in
            if p_persist_each p then
              if hit (f_put (c_f k)) np then cfail [c] None tape' (S np) (S ix)        (* the state write fails *)
              else if hit (f_act (c_f k)) ix then cfail [c] (Some c) tape' (S np) (S ix)  (* its action fails *)
              else go (S np) (Some c)
            else go np None
      end
  end.

Definition chain_fuel : nat := 12.

(* handle: the loop, then (persist-last protocols) the write of the last state and the collected actions *)
Definition run_chain (p : proto) (k : ctx) (c : st) (tape : list (option st)) (np ix : nat) : cres :=
  let r := chain p k chain_fuel c tape np ix in
  if p_persist_each p then r
  else if r_ok r then
    if hit (f_put (c_f k)) (r_np r) then cfail (r_ann r) None (r_tape r) (S (r_np r)) (r_ix r)
    else if hit_range (f_act (c_f k)) ix (r_ix r - ix) then
           cfail (r_ann r) (Some (last (r_ann r) c)) (r_tape r) (S (r_np r)) (r_ix r)
         else {| r_ann := r_ann r; r_pers := Some (last (r_ann r) c); r_ok := true; r_halt := r_halt r;
                 r_tape := r_tape r; r_np := S (r_np r); r_ix := r_ix r |}
  else cfail (r_ann r) None (r_tape r) (r_np r) (r_ix r).

Inductive op :=
| Msg (outbound : bool) (m : N) (v3 flag : bool) (t : thid) (f : fault) (tape : list (option st))
(* a message as it is on the wire: its id / thid / pthid (absent or naming any thread); `fresh` is the identifier
   the service generates when it finds none (observed) *)
| Wire (outbound : bool) (m : N) (v3 flag : bool) (i th pth : option thid) (fresh : thid) (f : fault)
       (tape : list (option st))
| Continue (e : nat) (opt : N) (f : fault) (tape : list (option st))
| Stop (e : nat) (f : fault) (tape : list (option st))
| Accept (e : nat) (tape : list (option st))
(* ActionContinue / ActionStop by protocol instance id: works from the stored transitional payload *)
| ContinueP (t : thid) (opt : N) (f : fault) (tape : list (option st))
| StopP (t : thid) (f : fault) (tape : list (option st))
(* the service is restarted: a new instance over the same stores; callbacks handed out before are gone *)
| Restart.

Inductive res := RReject | RAction | ROk | RErr | RNoEvent.

Definition res_eqb (a b : res) : bool :=
  match a, b with
  | RReject, RReject | RAction, RAction | ROk, ROk | RErr, RErr | RNoEvent, RNoEvent => true
  | _, _ => false
  end.

Fixpoint kill (l : list ev) (n : nat) : list ev :=
  match l, n with
  | e :: r, O => {| e_t := e_t e; e_src := e_src e; e_st := e_st e; e_msg := e_msg e; e_v3 := e_v3 e;
                    e_flag := e_flag e; e_live := false; e_badtid := e_badtid e; e_clos := e_clos e; e_tid := e_tid e |} :: r
  | e :: r, S n' => e :: kill r n'
  | [], _ => []
  end.

(* the decision on event i of instance t is taken: the event is closed, the stored payload of t is deleted *)
Definition killed (s : sstate) (i : nat) (t : thid) : sstate :=
  {| persisted := persisted s; pending := kill (pending s) i; stored := (t, None) :: stored s; meta := meta s |}.

Definition no_closures (s : sstate) : sstate :=
  {| persisted := persisted s;
     pending := map (fun e => {| e_t := e_t e; e_src := e_src e; e_st := e_st e; e_msg := e_msg e; e_v3 := e_v3 e;
                                 e_flag := e_flag e; e_live := e_live e; e_badtid := e_badtid e; e_clos := false; e_tid := e_tid e |}) (pending s);
     stored := stored s; meta := meta s |}.

(* run handle for thread t from state c, commit what it persisted, raise the action event it halted for.
   `ab`: abandon afterwards when it failed (the listener).  Returns the state, the announced states and
   `fat`: the chain failed after announcing a terminal state (the abandon that follows leaves it). *)
Definition process (p : proto) (s : sstate) (t : thid) (k : ctx) (m : N) (c : st) (skip ab : bool)
    (tape : list (option st)) : sstate * list st * bool * bool :=
  let r1 := if skip then cfail [] None tape 0%nat 0%nat else run_chain p k c tape 0%nat 0%nat in
  let s1 := commit s t (r_pers r1) in
  let s1' := match r_halt r1 with
             | Some n => add_ev s1 {| e_t := t; e_src := last (r_ann r1) c; e_st := n; e_msg := m; e_v3 := c_v3 k;
                                      e_flag := c_flag k; e_live := true; e_badtid := false; e_clos := true; e_tid := None |}
             | None => s1
             end in
  if r_ok r1 then (s1', r_ann r1, true, false)
  else if ab && p_abandons p && p_abandon_direct p then
    (* one more state write; when it fails nothing is announced *)
    if hit (f_put (c_f k)) (r_np r1) then (s1, r_ann r1, false, false)
    else (commit s1 t (Some (p_abandon p)), r_ann r1 ++ [p_abandon p], false,
          negb skip && terminal p (last (r_ann r1) (cur p s t)))
  else if ab && p_abandons p then
    let r2 := run_chain p k (p_abandon p) (r_tape r1) (r_np r1) (r_ix r1) in
    (commit s1 t (r_pers r2), r_ann r1 ++ r_ann r2, false,
     negb skip && terminal p (last (r_ann r1) (cur p s t)))
  else (s1, r_ann r1, false, false).

Definition msg_step (p : proto) (s : sstate) (outbound : bool) (m : N) (v3 flag : bool) (t : thid) (bt : bool) (tid : option thid)
    (f : fault) (tape : list (option st)) : sstate * (res * list st) * bool :=
      if f_get f then (s, (RReject, []), false)
      else
      match target p m v3 outbound with
      | None => (s, (RReject, []), false)
      | Some x =>
          if negb (can p (cur p s t) x) then (s, (RReject, []), false)
          else if negb outbound && is_action p m v3 then
                 if f_tp f then (s, (RReject, []), false)
                 else (store_ev (add_ev s {| e_t := t; e_src := cur p s t; e_st := x; e_msg := m; e_v3 := v3;
                                             e_flag := flag; e_live := true; e_badtid := bt; e_clos := true; e_tid := tid |})
                                 t (length (pending s)), (RAction, []), false)
               else
                 let k := {| c_v3 := v3; c_inbound := negb outbound; c_opt := 0; c_flag := flag; c_f := f; c_badtid := bt;
                             c_pr := N.eqb m (p_pr p); c_msg := m |} in
                 let '(s1, ann, ok, _) := process p s t k m x false false tape in
                 (s1, (if ok || p_async p
                       then (if Nat.ltb (length (pending s)) (length (pending s1)) then RAction else ROk)
                       else RErr, ann), false)
      end.

(* the application's decision on event i (record v): Continue with an option, or Stop *)
Definition decide (p : proto) (s : sstate) (i : nat) (v : ev) (opt : N) (stop : bool) (f : fault)
    (tape : list (option st)) : sstate * (res * list st) * bool :=
  let skip := if stop then negb (memN (e_msg v) (p_stop_handles p))
              else existsb (fun r => N.eqb (fst r) (e_msg v) && N.eqb (snd r) opt) (p_cont_stops p) in
  let k := {| c_v3 := e_v3 v; c_inbound := true; c_opt := opt; c_flag := e_flag v; c_f := f; c_badtid := e_badtid v;
              c_pr := N.eqb (e_msg v) (p_pr p); c_msg := e_msg v |} in
  let '(s2, ann, ok, fat) := process p (killed s i (e_t v)) (e_t v) k (e_msg v) (e_st v) skip true tape in
  let saves := match p_meta p with
               | Some (m, o) => negb stop && N.eqb (e_msg v) m && N.eqb opt o
                                && (ok || match f_act f with Some _ => true | None => false end)
               | None => false
               end in
  ((if saves then set_meta s2 (e_tid v) (e_t v) else s2), (ROk, ann), fat).

Definition with_stored (s : sstate) (st : list (thid * option nat)) : sstate :=
  {| persisted := persisted s; pending := pending s; stored := st; meta := meta s |}.

(* the handling succeeded but the caller is told an error *)
Definition relabel (b : bool) (r : res) : res := if b then match r with ROk => RErr | _ => r end else r.

Definition step_full (p : proto) (s : sstate) (o : op) : sstate * (res * list st) * bool :=
  match o with
  | Msg outbound m v3 flag t f tape => msg_step p s outbound m v3 flag t false None f tape
  | Wire outbound m v3 flag i th pth fresh f tape =>
      match wire_thread_s p s m v3 outbound i th pth fresh with
      | Some t =>
          let bt := negb (is_some i) && negb (N.eqb (resolve p m v3 outbound (is_some i) (is_some th) (is_some pth)) 4) in
          let bad_tid := bt && negb (negb outbound && is_action p m v3) in
          if bad_tid && N.eqb (p_tid_check p) 2 then (s, (RReject, []), false)
          else
            (* a freshly generated id: nothing is read from the store *)
            let f' := if N.eqb (resolve p m v3 outbound (is_some i) (is_some th) (is_some pth)) 4
                      then {| f_get := false; f_tp := f_tp f; f_put := f_put f; f_act := f_act f |} else f in
            let '(s1, (r, ann), fat) := msg_step p s outbound m v3 flag t bt (match th with Some x => Some x | None => i end) f' tape in
            (s1, (relabel (bad_tid && N.eqb (p_tid_check p) 1) r, ann), fat)
      | None => (s, (RReject, []), false)          (* no usable identifier: refused, nothing consulted *)
      end
  | Continue e opt f tape =>
      match nth_error (pending s) e with
      | Some v => if e_live v && e_clos v then decide p s e v opt false f tape else (s, (RNoEvent, []), false)
      | None => (s, (RNoEvent, []), false)
      end
  | Stop e f tape =>
      match nth_error (pending s) e with
      | Some v =>
          if e_live v && e_clos v then
            let '(s2, y, fat) := decide p s e v 0 true f tape in
            ((if p_stop_keeps_payload p then with_stored s2 (stored s) else s2), y, fat)
          else (s, (RNoEvent, []), false)
      | None => (s, (RNoEvent, []), false)
      end
  | ContinueP t opt f tape =>
      match payload s t with
      | Some e =>
          match nth_error (pending s) e with
          | Some v =>
              if existsb (fun r => N.eqb (fst r) (e_msg v) && N.eqb (snd r) opt) (p_cont_stops p)
              then (s, (RErr, []), false)                     (* the API refuses, nothing is touched *)
              else decide p s e v opt false f tape
          | None => (s, (RNoEvent, []), false)
          end
      | None => (s, (RNoEvent, []), false)
      end
  | StopP t f tape =>
      match payload s t with
      | Some e =>
          match nth_error (pending s) e with
          | Some v => decide p s e v 0 true f tape
          | None => (s, (RNoEvent, []), false)
          end
      | None => (s, (RNoEvent, []), false)
      end
  | Restart => (no_closures s, (ROk, []), false)
  | Accept e tape =>
      match nth_error (pending s) e with
      | Some v =>
          if N.eqb (cur p s (e_t v)) (e_src v) then
            let s' := killed s e (e_t v) in
            let k := {| c_v3 := e_v3 v; c_inbound := true; c_opt := 0; c_flag := e_flag v; c_f := nofault; c_badtid := e_badtid v;
                        c_pr := N.eqb (e_msg v) (p_pr p); c_msg := e_msg v |} in
            let '(s2, ann, ok, _) := process p s' (e_t v) k (e_msg v) (e_st v) false false tape in
            (s2, (if ok then ROk else RErr, ann), false)
          else (s, (RReject, []), false)
      | None => (s, (RNoEvent, []), false)
      end
  end.

Definition step (p : proto) (s : sstate) (o : op) : sstate * (res * list st) := fst (step_full p s o).
(* the step abandoned a thread after announcing a terminal state (only possible when a fault was injected) *)
Definition step_fat (p : proto) (s : sstate) (o : op) : bool := snd (step_full p s o).

(* the thread an operation works on *)
Definition op_thread (p : proto) (s : sstate) (o : op) : option thid :=
  match o with
  | Msg _ _ _ _ t _ _ => Some t
  | Wire outbound m v3 _ i th pth fresh _ _ => wire_thread_s p s m v3 outbound i th pth fresh
  | Continue e _ _ _ | Stop e _ _ =>
      match nth_error (pending s) e with Some v => if e_live v && e_clos v then Some (e_t v) else None | None => None end
  | ContinueP t _ _ _ | StopP t _ _ =>
      match payload s t with
      | Some e => match nth_error (pending s) e with Some v => Some (e_t v) | None => None end
      | None => None
      end
  | Restart => None
  | Accept e _ => match nth_error (pending s) e with Some v => Some (e_t v) | None => None end
  end.

Fixpoint run (p : proto) (s : sstate) (ops : list op) : sstate * list (res * list st) :=
  match ops with
  | [] => (s, [])
  | o :: r => let '(s1, y) := step p s o in let '(s2, ys) := run p s1 r in (s2, y :: ys)
  end.

Definition final (p : proto) (s : sstate) (ops : list op) : sstate := fst (run p s ops).

(* ---- the guards of the partial theorems ----
   busy discipline: nothing is accepted on a thread while one of its action events is open (an API Accept
   only for the thread's single open event);  no abandon after a terminal state was announced. *)
Definition has_live (s : sstate) (t : thid) : bool :=
  existsb (fun e => e_live e && N.eqb (e_t e) t) (pending s).

Fixpoint live_others (l : list ev) (i : nat) (t : thid) : bool :=
  match l with
  | [] => false
  | e :: r => match i with
              | O => existsb (fun e' => e_live e' && N.eqb (e_t e') t) r
              | S i' => (e_live e && N.eqb (e_t e) t) || live_others r i' t
              end
  end.

Definition is_reject (r : res) : bool := match r with RReject => true | _ => false end.
Definition is_err (r : res) : bool := match r with RErr => true | _ => false end.

Definition disciplined_step (p : proto) (s : sstate) (o : op) : bool :=
  match o with
  | Msg _ _ _ _ t _ _ => negb (has_live s t) || is_reject (fst (snd (step p s o)))
  | Wire outbound m v3 _ i th pth fresh _ _ =>
      match wire_thread_s p s m v3 outbound i th pth fresh with
      | Some t => negb (has_live s t) || is_reject (fst (snd (step p s o)))
      | None => true
      end
  | Accept e _ =>
      is_reject (fst (snd (step p s o))) ||
      match nth_error (pending s) e with Some v => negb (live_others (pending s) e (e_t v)) | None => true end
  | ContinueP t _ _ _ | StopP t _ _ =>
      (* a stored payload is only used while its decision is open *)
      match payload s t with
      | Some e => match nth_error (pending s) e with
                  | Some v => is_err (fst (snd (step p s o))) || (e_live v && negb (step_fat p s o))
                  | None => true
                  end
      | None => true
      end
  | _ => negb (step_fat p s o)
  end.

Fixpoint disciplined (p : proto) (s : sstate) (ops : list op) : bool :=
  match ops with
  | [] => true
  | o :: r => disciplined_step p s o && disciplined p (fst (step p s o)) r
  end.

(* ---- the property, per step, as an executable predicate (also the harness' oracle, re-computed in Go) ---- *)
Fixpoint is_path (p : proto) (l : list st) : bool :=
  match l with
  | a :: ((b :: _) as r) => sedge p a b && is_path p r
  | _ => true
  end.

(* one step respects the graph: the announced states continue the thread's persisted state along edges,
   the new persisted state is one of them (or unchanged), a terminal state announces nothing *)
Definition step_ok (p : proto) (s : sstate) (o : op) : bool :=
  match op_thread p s o with
  | None => true
  | Some t =>
      let '(s', (_, ann)) := step p s o in
      is_path p (cur p s t :: ann) && memN (cur p s' t) (cur p s t :: ann) &&
      (negb (terminal p (cur p s t)) || match ann with [] => true | _ => false end)
  end.

Fixpoint all_steps_ok (p : proto) (s : sstate) (ops : list op) : bool :=
  match ops with
  | [] => true
  | o :: r => step_ok p s o && all_steps_ok p (fst (step p s o)) r
  end.

(* the same predicate with the edge relation as a parameter (instantiated with the PUBLISHED graph in Props.v) *)
Fixpoint is_path_rel (R : st -> st -> bool) (l : list st) : bool :=
  match l with
  | a :: ((b :: _) as r) => R a b && is_path_rel R r
  | _ => true
  end.

Definition step_ok_rel (R : st -> st -> bool) (p : proto) (s : sstate) (o : op) : bool :=
  match op_thread p s o with
  | None => true
  | Some t =>
      let '(s', (_, ann)) := step p s o in
      is_path_rel R (cur p s t :: ann) && memN (cur p s' t) (cur p s t :: ann) &&
      (negb (terminal p (cur p s t)) || match ann with [] => true | _ => false end)
  end.

Fixpoint all_steps_ok_rel (R : st -> st -> bool) (p : proto) (s : sstate) (ops : list op) : bool :=
  match ops with
  | [] => true
  | o :: r => step_ok_rel R p s o && all_steps_ok_rel R p (fst (step p s o)) r
  end.

Definition op_fault (o : op) : fault :=
  match o with
  | Msg _ _ _ _ _ f _ | Wire _ _ _ _ _ _ _ _ f _ | Continue _ _ f _ | Stop _ f _ | ContinueP _ _ f _ | StopP _ f _ => f
  | Accept _ _ | Restart => nofault
  end.
