(* C13 — lock order ACROSS the layers of a stack of storage wrappers (cachedstore over batchedstore over formattedstore
   over mem ...): a wrapper calls the store below while holding its own mutex; the layer below takes its mutexes inside.
   A mutex is identified by (depth of the layer in the stack, declaring type . field); its rank is depth * K + the
   in-package rank of Table.lock_rank.  The calls that an entry point makes on objects of the layer below (every
   call through a field, with the mutexes held at that point: Gen_C13's [m_scalls]) are EXPANDED into the footprints of
   every exported method of that name of the package below, recursively.  For EVERY stack (any packages, any depth)
   the expanded action sequences acquire in strictly increasing rank and release everything, hence
   (Deadlock.no_deadlock_reachable) no reachable configuration has every unfinished goroutine blocked.
   Executable definitions first (the obligation [layer_footprints_ordered] is discharged by vm_compute in Props.v),
   then the proof. *)
From Coq Require Import List String Bool Arith Lia Ascii.
Import ListNotations.
From VF Require Import gen.Gen_C13 C13.Table C13.Deadlock.
Open Scope string_scope.
Open Scope list_scope.

Inductive dact := DAcq (l : string) | DRel (l : string) | DDown (method : string).

(* every acquisition, and every call through a field, of a method (own helpers inlined) as a critical section of its own:
   take the mutexes held at that point, then the mutex itself / make the call, release in reverse order *)
Definition dfoot (m : meth) : list dact :=
  flat_map (fun q => if existsb (fun h => existsb (fun x => String.eqb (unq (fst h)) (fst x) && String.eqb (q_lock q) (snd x)) edge_exempt) (q_held q) then [] else
                     map (fun h => DAcq (unq (fst h))) (q_held q) ++ [DAcq (q_lock q); DRel (q_lock q)] ++
                     map (fun h => DRel (unq (fst h))) (rev (q_held q)))
           (eff_acqs depth [] m) ++
  flat_map (fun s => if is_store_call s then
                       (* a mutex listed twice is a re-acquisition: an acquisition with itself held, judged (or exempted
                          as path-infeasible) by the acquisition sections above and by lock_order_acyclic *)
                       let hs := nodup string_dec (map (fun h => unq (fst h)) (s_held s)) in
                       map DAcq hs ++ [DDown (s_method s)] ++ map DRel (rev hs)
                     else [])
           (eff_scalls depth [] m).

(* the in-package discipline of such a sequence: a call down is allowed with anything held *)
Fixpoint strip (p : list dact) : list (act string) :=
  match p with
  | [] => []
  | DAcq l :: r => Acq string l :: strip r
  | DRel l :: r => Rel string l :: strip r
  | DDown _ :: r => strip r
  end.
Definition dfoot_ok (m : meth) : bool :=
  match runb string String.eqb lock_rank [] (strip (dfoot m)) with Some [] => true | _ => false end.
Definition layer_footprints_ordered : bool := forallb dfoot_ok table.

(* the methods of package [pkg] that a call of method [me] on an object of the layer below may reach: every method of
   that name of every type of the package (no type information: over-approximation) *)
Fixpoint last_component (acc s : string) : string :=
  match s with
  | EmptyString => acc
  | String c r => if Ascii.eqb c "."%char then last_component EmptyString r else last_component (acc ++ String c EmptyString) r
  end.
Definition cands (pkg me : string) : list meth :=
  filter (fun m => prefixb (pkg ++ ".") (m_name m) && String.eqb (last_component EmptyString (m_name m)) me) table.

Definition dlock := (nat * string)%type.
Definition dleqb (a b : dlock) : bool := Nat.eqb (fst a) (fst b) && String.eqb (snd a) (snd b).

Fixpoint expand (below : list string) (d : nat) (p : list dact) {struct below} : list (act dlock) :=
  flat_map (fun a => match a with
     | DAcq l => [Acq dlock (d, l)]
     | DRel l => [Rel dlock (d, l)]
     | DDown me => match below with
                   | [] => []
                   | pkg :: rest => flat_map (fun m' => expand rest (S d) (dfoot m')) (cands pkg me)
                   end
     end) p.

Definition rankK : nat := S (S (List.length all_locks)).
Definition drank (x : dlock) : nat := fst x * rankK + lock_rank (snd x).

(* ---------- proofs ---------- *)
Local Opaque all_locks table edges preds.
Lemma dleqb_spec a b : dleqb a b = true <-> a = b.
Proof. destruct a as [d l], b as [d' l']. unfold dleqb. cbn. rewrite andb_true_iff, Nat.eqb_eq, String.eqb_eq.
  split; [intros [-> ->]; reflexivity|intros H; inversion H; split; reflexivity]. Qed.

Lemma fold_max_le (f : string -> nat) n l : (forall p, f p <= n) ->
  fold_right (fun p m => Nat.max (S (f p)) m) 0 l <= S n.
Proof. intros H. induction l as [|x r IH]; cbn [fold_right]; [lia|]. specialize (H x). apply Nat.max_lub; lia. Qed.
Lemma chain_le fuel l : chain fuel l <= fuel.
Proof. revert l. induction fuel as [|f IH]; intros l; cbn [chain]; [lia|]. apply fold_max_le. intros p. apply IH. Qed.
Lemma lock_rank_lt l : lock_rank l < rankK.
Proof. unfold lock_rank, rankK. pose proof (chain_le (S (List.length all_locks)) l). lia. Qed.

Local Opaque lock_rank rankK.
Definition tag (d : nat) (h : list string) : list dlock := map (fun l => (d, l)) h.

Lemma remove_tag d l hl ctx : (forall x, In x ctx -> fst x < d) ->
  remove_lock dlock dleqb (d, l) (tag d hl ++ ctx) = tag d (remove_lock string String.eqb l hl) ++ ctx.
Proof. intros Hc. unfold remove_lock. rewrite filter_app. f_equal.
  - induction hl as [|x r IH]; cbn; [reflexivity|]. unfold dleqb at 1. cbn. rewrite Nat.eqb_refl. cbn.
    destruct (String.eqb l x); cbn; [assumption|f_equal; assumption].
  - induction ctx as [|x r IH]; cbn; [reflexivity|]. assert (fst x < d) by (apply Hc; left; reflexivity).
    unfold dleqb at 1. cbn. destruct (Nat.eqb_spec d (fst x)); [lia|]. cbn. f_equal. apply IH. intros y Hy. apply Hc. right; assumption. Qed.

Lemma acq_ok d l hl ctx : (forall x, In x ctx -> fst x < d) ->
  forallb (fun x => Nat.ltb (lock_rank x) (lock_rank l)) hl = true ->
  forallb (fun x => Nat.ltb (drank x) (drank (d, l))) (tag d hl ++ ctx) = true.
Proof. intros Hc Hl. rewrite forallb_app. apply andb_true_iff. split.
  - unfold tag. rewrite forallb_forall in *. intros x Hx. apply in_map_iff in Hx as (y & <- & Hy).
    specialize (Hl y Hy). apply Nat.ltb_lt in Hl. apply Nat.ltb_lt. unfold drank. cbn. lia.
  - rewrite forallb_forall. intros x Hx. specialize (Hc x Hx). apply Nat.ltb_lt. unfold drank. cbn.
    pose proof (lock_rank_lt (snd x)). assert (S (fst x) <= d) by lia.
    assert (S (fst x) * rankK <= d * rankK) by (apply Nat.mul_le_mono_r; assumption). lia. Qed.

Section Expand.
  Hypothesis Hall : layer_footprints_ordered = true.

  Lemma cand_ok pkg me m : In m (cands pkg me) -> runb string String.eqb lock_rank [] (strip (dfoot m)) = Some [].
  Proof. unfold cands. intros H. apply filter_In in H as [H _]. pose proof Hall as H0. unfold layer_footprints_ordered in H0.
    rewrite forallb_forall in H0. specialize (H0 m H). unfold dfoot_ok in H0.
    destruct (runb string String.eqb lock_rank [] (strip (dfoot m))) as [[|x r]|]; [reflexivity|discriminate H0|discriminate H0]. Qed.

  Lemma expand_ok : forall below d p hl hl' ctx,
    runb string String.eqb lock_rank hl (strip p) = Some hl' -> (forall x, In x ctx -> fst x < d) ->
    runb dlock dleqb drank (tag d hl ++ ctx) (expand below d p) = Some (tag d hl' ++ ctx).
  Proof.
    induction below as [|pkg rest IHb]; intros d p; induction p as [|a p IHp]; intros hl hl' ctx Hr Hc.
    - cbn in *. inversion Hr; subst. reflexivity.
    - destruct a as [l|l|me]; cbn [strip] in Hr.
      + cbn [runb] in Hr. destruct (forallb _ hl) eqn:F; [|discriminate].
        change (expand [] d (DAcq l :: p)) with ([Acq dlock (d, l)] ++ expand [] d p). rewrite runb_app. cbn [runb].
        rewrite (acq_ok d l hl ctx Hc F). apply (IHp (l :: hl) hl' ctx Hr Hc).
      + cbn [runb] in Hr.
        change (expand [] d (DRel l :: p)) with ([Rel dlock (d, l)] ++ expand [] d p). rewrite runb_app. cbn [runb].
        rewrite remove_tag by assumption. apply (IHp _ hl' ctx Hr Hc).
      + change (expand [] d (DDown me :: p)) with (@nil (act dlock) ++ expand [] d p). cbn [app]. apply (IHp hl hl' ctx Hr Hc).
    - cbn in *. inversion Hr; subst. reflexivity.
    - destruct a as [l|l|me]; cbn [strip] in Hr.
      + cbn [runb] in Hr. destruct (forallb _ hl) eqn:F; [|discriminate].
        change (expand (pkg :: rest) d (DAcq l :: p)) with ([Acq dlock (d, l)] ++ expand (pkg :: rest) d p). rewrite runb_app. cbn [runb].
        rewrite (acq_ok d l hl ctx Hc F). apply (IHp (l :: hl) hl' ctx Hr Hc).
      + cbn [runb] in Hr.
        change (expand (pkg :: rest) d (DRel l :: p)) with ([Rel dlock (d, l)] ++ expand (pkg :: rest) d p). rewrite runb_app. cbn [runb].
        rewrite remove_tag by assumption. apply (IHp _ hl' ctx Hr Hc).
      + change (expand (pkg :: rest) d (DDown me :: p))
          with (flat_map (fun m' => expand rest (S d) (dfoot m')) (cands pkg me) ++ expand (pkg :: rest) d p).
        rewrite runb_app.
        assert (Hdown : forall cs, (forall m, In m cs -> In m (cands pkg me)) ->
                  runb dlock dleqb drank (tag d hl ++ ctx) (flat_map (fun m' => expand rest (S d) (dfoot m')) cs) = Some (tag d hl ++ ctx)).
        { induction cs as [|m cs IHc]; intros Hin; cbn [flat_map]; [reflexivity|]. rewrite runb_app.
          assert (Hm : runb dlock dleqb drank (tag (S d) [] ++ (tag d hl ++ ctx)) (expand rest (S d) (dfoot m)) = Some (tag (S d) [] ++ (tag d hl ++ ctx))).
          { apply IHb; [apply (cand_ok pkg me); apply Hin; left; reflexivity|].
            intros x Hx. apply in_app_or in Hx as [Hx|Hx].
            - unfold tag in Hx. apply in_map_iff in Hx as (y & <- & _). cbn. lia.
            - specialize (Hc x Hx). lia. }
          cbn [tag map app] in Hm. rewrite Hm. apply IHc. intros m' Hm'. apply Hin. right; assumption. }
        rewrite (Hdown (cands pkg me)) by (intros m Hm; assumption). apply (IHp hl hl' ctx Hr Hc).
  Qed.

  Local Opaque dfoot expand cands.
  Lemma entry_expand_ok below m : In m table -> runb dlock dleqb drank [] (expand below 0 (dfoot m)) = Some [].
  Proof. intros Hm. pose proof Hall as H0. unfold layer_footprints_ordered in H0. rewrite forallb_forall in H0. specialize (H0 m Hm).
    unfold dfoot_ok in H0. destruct (runb string String.eqb lock_rank [] (strip (dfoot m))) as [[|x r]|] eqn:E; try discriminate H0.
    apply (expand_ok below 0 (dfoot m) [] [] [] E). intros x []. Qed.

  Lemma calls_expand_ok below (g : list meth) : (forall m, In m g -> In m table) ->
    runb dlock dleqb drank [] (flat_map (fun m => expand below 0 (dfoot m)) g) = Some [].
  Proof. induction g as [|m g IH]; intros Hg; cbn [flat_map]; [reflexivity|]. rewrite runb_app.
    rewrite (entry_expand_ok below m) by (apply Hg; left; reflexivity). apply IH. intros m' Hm'. apply Hg. right; assumption. Qed.

  Lemma stack_table_no_deadlock (below : list string) (gs : list (list meth)) sched :
    (forall g m, In g gs -> In m g -> In m table) ->
    let ts := lexec dlock dleqb (map (mkL dlock []) (map (flat_map (fun m => expand below 0 (dfoot m))) gs)) sched in
    existsb (unfinished dlock) ts = true -> existsb (enabled dlock dleqb ts) ts = true.
  Proof. intros Hg. apply (no_deadlock_reachable dlock dleqb dleqb_spec drank).
    intros p Hp. apply in_map_iff in Hp as (g & <- & Hin). apply calls_expand_ok. intros m Hm. eapply Hg; eassumption. Qed.
End Expand.
