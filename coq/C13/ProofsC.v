(* C13 — lemmas: (1) the operations in the linearization witness are operations of the goroutines' lists (so a guard
   on the lists is a guard on the witness); (2) a sequential run of a provider that simulates the contract (C11's
   [sim]) is a sequential run of the contract machine [spec_step]: linearizable w.r.t. the DOCUMENTED store. *)
From Coq Require Import List Arith Bool Lia NArith.
Import ListNotations.
From VF Require Import common.Lin C13.Model C13.Proofs C11.Proofs.

Section Guard.
  Variables (S op out : Type).
  Variable prog : op -> thr S out.
  Variable G : op -> Prop.

  Record ginv (c : cfg S op out) : Prop := {
    g_todo : forall n o, In o (todo S op out (thrs c n)) -> G o;
    g_cur : forall n i o k, cur S op out (thrs c n) = Some (i, o, k) -> G o;
    g_lg : forall i o r, In (i, o, r) (lg c) -> G o
  }.

  Lemma ginv_start s0 threads : (forall t o, In t threads -> In o t -> G o) -> ginv (start s0 threads).
  Proof. intros H. constructor; cbn.
    - intros n o Ho. destruct (nth_in_or_default n threads []) as [Hi|Hd]; [eapply H; eassumption|rewrite Hd in Ho; destruct Ho].
    - intros; discriminate.
    - intros i o r [].
  Qed.

  Lemma ginv_step c n : ginv c -> ginv (sched_step S op out prog c n).
  Proof.
    intros H. unfold sched_step.
    destruct (cur S op out (thrs c n)) as [[[i o] k]|] eqn:Ec.
    - pose proof (g_cur _ H _ _ _ _ Ec) as Go. destruct k as [r|f].
      + constructor; cbn [thrs lg].
        * intros m o' Ho. unfold upd in Ho. destruct (Nat.eqb m n) eqn:E; [cbn in Ho; apply (g_todo _ H n); assumption|apply (g_todo _ H m); assumption].
        * intros m i' o' k' Hc. unfold upd in Hc. destruct (Nat.eqb m n); [discriminate|apply (g_cur _ H _ _ _ _ Hc)].
        * apply (g_lg _ H).
      + destruct (f (sh c)) as [[s' cm] k'] eqn:Ef. constructor; cbn [thrs lg].
        * intros m o' Ho. unfold upd in Ho. destruct (Nat.eqb m n) eqn:E; [cbn in Ho; apply (g_todo _ H n); assumption|apply (g_todo _ H m); assumption].
        * intros m i' o' k'' Hc. unfold upd in Hc. destruct (Nat.eqb m n); [cbn in Hc; inversion Hc; subst; assumption|apply (g_cur _ H _ _ _ _ Hc)].
        * intros i' o' r' Hi. destruct cm as [r|]; [|apply (g_lg _ H _ _ _ Hi)].
          apply in_app_or in Hi as [Hi|[Hi|[]]]; [apply (g_lg _ H _ _ _ Hi)|inversion Hi; subst; assumption].
    - destruct (todo S op out (thrs c n)) as [|o rest] eqn:Et; [assumption|].
      constructor; cbn [thrs lg].
      * intros m o' Ho. unfold upd in Ho. destruct (Nat.eqb m n) eqn:E.
        -- cbn in Ho. apply (g_todo _ H n). rewrite Et. right; assumption.
        -- apply (g_todo _ H m); assumption.
      * intros m i' o' k' Hc. unfold upd in Hc. destruct (Nat.eqb m n).
        -- cbn in Hc. inversion Hc; subst. apply (g_todo _ H n). rewrite Et. left; reflexivity.
        -- apply (g_cur _ H _ _ _ _ Hc).
      * apply (g_lg _ H).
  Qed.

  Lemma ginv_exec sched : forall c, ginv c -> ginv (exec prog c sched).
  Proof. induction sched as [|n r IH]; intros c H; cbn; [assumption|]. apply IH. apply ginv_step. assumption. Qed.
End Guard.

(* the witness of the atomic-component theorem is the log of linearization points *)
Lemma atomic_lin_lg (S op out : Type) (sstep : S -> op -> S * out) s0 threads sched :
  let c := exec (atomic_prog sstep) (start s0 threads) sched in
  seq_run S op out sstep s0 (lg c) /\ NoDup (map (eid op out) (lg c)) /\
  (forall i o r, In (i, o, r) (lg c) -> In (Inv op out i o) (tr c)) /\
  (forall i r, In (Ret op out i r) (tr c) -> exists o, In (i, o, r) (lg c)) /\
  (forall i j r o, before (Ret op out i r) (Inv op out j o) (tr c) -> In j (map (eid op out) (lg c)) ->
                   before i j (map (eid op out) (lg c))).
Proof.
  intros c. assert (H : inv S op out sstep s0 c) by (apply inv_exec, inv_start).
  split; [apply (i_run _ _ _ _ _ _ H)|]. split; [rewrite (i_lins _ _ _ _ _ _ H); apply (i_nodup _ _ _ _ _ _ H)|].
  split; [apply (i_lginv _ _ _ _ _ _ H)|]. split; [apply (i_ret _ _ _ _ _ _ H)|].
  rewrite (i_lins _ _ _ _ _ _ H). apply (i_rt _ _ _ _ _ _ H).
Qed.

(* a sequential run of a provider that simulates the contract is a sequential run of the contract *)
Lemma seq_run_sim (Gd : op -> bool) pers (P : prov) (R : St P -> store -> Prop) :
  sim Gd pers P R ->
  forall (l : list (nat * op * out)) (s : St P) (a : store),
    (forall i o r, In (i, o, r) l -> Gd o = true) -> R s a ->
    seq_run (St P) op out (step P) s l -> seq_run store op out (spec_step pers) a l.
Proof.
  intros HS. induction l as [|[[i o] r] l IH]; intros s a HG HR Hrun; cbn in *; [exact I|].
  destruct Hrun as [Hr Hrest].
  assert (Go : Gd o = true) by (apply (HG i o r); left; reflexivity).
  destruct (HS s a o Go HR) as [HR' Hx]. split; [rewrite <- Hx; exact Hr|].
  apply (IH (fst (step P s o)) (fst (spec_step pers a o))); [intros; eapply HG; right; eassumption|exact HR'|exact Hrest].
Qed.

Lemma contract_lin (Gd : op -> bool) pers (P : prov) (R : St P -> store -> Prop) a0 threads sched :
  sim Gd pers P R -> R (init P) a0 ->
  (forall t, In t threads -> forallb Gd t = true) ->
  lin_strong store op out (spec_step pers) a0
    (tr (exec (atomic_prog (step P)) (start (init P) threads) sched)).
Proof.
  intros HS HR HG.
  destruct (atomic_lin_lg (St P) op out (step P) (init P) threads sched) as (H1 & H2 & H3 & H4 & H5).
  set (c := exec (atomic_prog (step P)) (start (init P) threads) sched) in *.
  exists (lg c). split; [|split; [exact H2|split; [exact H3|split; [exact H4|exact H5]]]].
  apply (seq_run_sim Gd pers P R HS (lg c) (init P) a0); [|exact HR|exact H1].
  assert (Hg : ginv (St P) op out (fun o => Gd o = true) c).
  { apply ginv_exec. apply ginv_start. intros t o Ht Ho. pose proof (HG t Ht) as Hf. rewrite forallb_forall in Hf. apply Hf; assumption. }
  apply (g_lg _ _ _ _ _ Hg).
Qed.

(* the Message registry specification keeps the subscriber list duplicate-free *)
Lemma msg_step_nodup (s : list N) (o : mop) :
  NoDup s -> (forall ch, o = MReg ch -> ~ In ch s) ->
  NoDup (fst (msg_step s o)) /\ (forall l, snd (msg_step s o) = MList l -> NoDup l).
Proof. intros Hn Hf. destruct o as [ch|ch|]; cbn.
  - split; [|intros l E; discriminate]. apply NoDup_snoc; [exact Hn|apply Hf; reflexivity].
  - split; [apply NoDup_filter; exact Hn|intros l E; discriminate].
  - split; [exact Hn|intros l E; inversion E; subst; exact Hn]. Qed.
