(* C13 — mutexes made explicit: goroutines are sequences of Acquire/Release actions; an Acquire is enabled only while
   no goroutine holds the mutex (Go mutexes are not re-entrant).  If every goroutine acquires in strictly increasing
   rank and releases everything before it ends, then in EVERY configuration in which some goroutine is unfinished some
   goroutine can move: no deadlock.  The rank and the action sequences come from the generated lock table. *)
From Coq Require Import List Arith Bool Lia String.
Import ListNotations.

Section Locks.
  Variable lock : Type.
  Variable leqb : lock -> lock -> bool.
  Hypothesis leqb_spec : forall a b, leqb a b = true <-> a = b.
  Variable rank : lock -> nat.

  Inductive act := Acq (l : lock) | Rel (l : lock).
  Record lthread := mkL { lheld : list lock; lrest : list act }.

  Definition holds (t : lthread) (l : lock) : bool := existsb (leqb l) (lheld t).
  Definition held_by_some (ts : list lthread) (l : lock) : bool := existsb (fun t => holds t l) ts.
  Definition enabled (ts : list lthread) (t : lthread) : bool :=
    match lrest t with
    | [] => false
    | Rel _ :: _ => true
    | Acq l :: _ => negb (held_by_some ts l)
    end.
  Definition unfinished (t : lthread) : bool := match lrest t with [] => false | _ => true end.

  Definition remove_lock (l : lock) (h : list lock) : list lock := filter (fun x => negb (leqb l x)) h.
  Definition perform (t : lthread) : lthread :=
    match lrest t with
    | [] => t
    | Acq l :: r => mkL (l :: lheld t) r
    | Rel l :: r => mkL (remove_lock l (lheld t)) r
    end.

  Fixpoint set_nth (n : nat) (x : lthread) (ts : list lthread) : list lthread :=
    match ts, n with
    | [], _ => []
    | _ :: r, O => x :: r
    | y :: r, S k => y :: set_nth k x r
    end.
  (* goroutine n moves if it can; otherwise nothing happens (it stays blocked) *)
  Definition lstep (ts : list lthread) (n : nat) : list lthread :=
    match nth_error ts n with
    | Some t => if enabled ts t then set_nth n (perform t) ts else ts
    | None => ts
    end.
  Definition lexec (ts : list lthread) (sched : list nat) : list lthread := fold_left lstep sched ts.

  (* discipline: acquire in strictly increasing rank; end with nothing held *)
  Fixpoint runb (h : list lock) (a : list act) : option (list lock) :=
    match a with
    | [] => Some h
    | Acq l :: r => if forallb (fun x => Nat.ltb (rank x) (rank l)) h then runb (l :: h) r else None
    | Rel l :: r => runb (remove_lock l h) r
    end.
  Definition wf (t : lthread) : Prop := runb (lheld t) (lrest t) = Some [].

  Lemma runb_app h a b : runb h (a ++ b) = match runb h a with Some h' => runb h' b | None => None end.
  Proof. revert h. induction a as [|[l|l] a IH]; intros h; cbn; [reflexivity| |apply IH].
    destruct (forallb _ h); [apply IH|reflexivity]. Qed.

  Lemma runb_acq h l r x : runb h (Acq l :: r) = Some x -> forallb (fun y => Nat.ltb (rank y) (rank l)) h = true.
  Proof. cbn. destruct (forallb _ h); [reflexivity|discriminate]. Qed.

  Lemma wf_perform t : wf t -> wf (perform t).
  Proof. unfold wf, perform. destruct t as [h [|[l|l] r]]; cbn; intros H; try assumption.
    destruct (forallb _ h); [assumption|discriminate]. Qed.

  Lemma Forall_set_nth (P : lthread -> Prop) n x ts : Forall P ts -> P x -> Forall P (set_nth n x ts).
  Proof. revert n. induction ts as [|y r IH]; intros n Hf Hx; [destruct n; constructor|].
    inversion Hf; subst. destruct n; cbn; constructor; auto. Qed.

  Lemma wf_lstep ts n : Forall wf ts -> Forall wf (lstep ts n).
  Proof. intros H. unfold lstep. destruct (nth_error ts n) as [t|] eqn:E; [|assumption].
    destruct (enabled ts t); [|assumption]. apply Forall_set_nth; [assumption|].
    apply wf_perform. rewrite Forall_forall in H. apply H. eapply nth_error_In; eassumption. Qed.
  Lemma wf_lexec sched : forall ts, Forall wf ts -> Forall wf (lexec ts sched).
  Proof. induction sched as [|n r IH]; intros ts H; cbn; [assumption|]. apply IH, wf_lstep, H. Qed.

  (* a goroutine that holds something is unfinished, and what it acquires next outranks what it holds *)
  Lemma wf_holding t l : wf t -> holds t l = true ->
    unfinished t = true /\ forall l', (exists r, lrest t = Acq l' :: r) -> rank l < rank l'.
  Proof. unfold wf, holds, unfinished. destruct t as [h rest]; cbn. intros Hw Hh.
    apply existsb_exists in Hh as (x & Hx & Ex). apply leqb_spec in Ex. subst x.
    destruct rest as [|a r].
    - cbn in Hw. inversion Hw; subst. destruct Hx.
    - split; [reflexivity|]. intros l' (r' & E). inversion E; subst. pose proof (runb_acq _ _ _ _ Hw) as F.
      rewrite forallb_forall in F. apply Nat.ltb_lt. apply F. assumption. Qed.

  Definition next_rank (t : lthread) : nat := match lrest t with Acq l :: _ => rank l | _ => 0 end.
  Definition bound (ts : list lthread) : nat := S (fold_right (fun t m => Nat.max (next_rank t) m) 0 ts).
  Lemma next_rank_lt ts t : In t ts -> next_rank t < bound ts.
  Proof. unfold bound. induction ts as [|y r IH]; intros H; [destruct H|]. cbn. destruct H as [->|H]; [lia|].
    specialize (IH H). lia. Qed.

  (* if nobody can move, a goroutine blocked on a mutex of rank r yields one blocked on a mutex of higher rank *)
  Lemma ascent ts : Forall wf ts -> (forall t, In t ts -> enabled ts t = false) ->
    forall k t l r, In t ts -> lrest t = Acq l :: r -> bound ts - k <= rank l -> False.
  Proof.
    intros Hw Hb. induction k as [|k IH]; intros t l r Ht El Hk.
    - pose proof (next_rank_lt ts t Ht) as Hlt. unfold next_rank in Hlt. rewrite El in Hlt. lia.
    - pose proof (Hb t Ht) as Hen. unfold enabled in Hen. rewrite El in Hen. apply negb_false_iff in Hen.
      unfold held_by_some in Hen. apply existsb_exists in Hen as (u & Hu & Hh).
      assert (Hwu : wf u) by (rewrite Forall_forall in Hw; apply Hw; assumption).
      destruct (wf_holding u l Hwu Hh) as [Hunf Hrank].
      pose proof (Hb u Hu) as Henu. unfold enabled in Henu. unfold unfinished in Hunf.
      destruct (lrest u) as [|[l'|l'] r'] eqn:Eu; [discriminate| |discriminate].
      assert (Hlt : rank l < rank l') by (apply Hrank; exists r'; reflexivity).
      apply (IH u l' r' Hu Eu). lia. Qed.

  Theorem no_deadlock_config ts : Forall wf ts -> existsb unfinished ts = true -> existsb (enabled ts) ts = true.
  Proof.
    intros Hw Hu. destruct (existsb (enabled ts) ts) eqn:E; [reflexivity|exfalso].
    assert (Hb : forall t, In t ts -> enabled ts t = false).
    { intros t Ht. destruct (enabled ts t) eqn:Et; [|reflexivity].
      assert (existsb (enabled ts) ts = true) by (apply existsb_exists; exists t; split; assumption). congruence. }
    apply existsb_exists in Hu as (t & Ht & Hunf). pose proof (Hb t Ht) as Hen.
    unfold enabled in Hen. unfold unfinished in Hunf. destruct (lrest t) as [|[l|l] r] eqn:El; try discriminate.
    apply (ascent ts Hw Hb (bound ts) t l r Ht El). lia. Qed.

  (* from the initial configuration (nothing held), under any schedule *)
  Theorem no_deadlock_reachable (progs : list (list act)) sched :
    (forall p, In p progs -> runb [] p = Some []) ->
    let ts := lexec (map (mkL []) progs) sched in
    existsb unfinished ts = true -> existsb (enabled ts) ts = true.
  Proof. intros H ts. apply no_deadlock_config. apply wf_lexec. apply Forall_forall. intros t Ht.
    apply in_map_iff in Ht as (p & <- & Hp). apply H; assumption. Qed.
End Locks.
