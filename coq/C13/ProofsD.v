(* C13 — lemmas: (1) the action sequences extracted from the lock table are ordered, so sequences of entry-point calls
   are; (2) every order that the certificate checker accepts for a history of n completed operations is one of the
   n! orders enumerated by [orders]: "no enumerated order is valid" means "no order is valid". *)
From Coq Require Import List Arith Bool Lia String NArith.
Import ListNotations.
From VF Require Import gen.Gen_C13 C13.Model C13.Table C13.Deadlock.

Lemma footprint_ok m : footprints_ordered = true -> In m entries ->
  runb string String.eqb lock_rank [] (footprint m) = Some [].
Proof. unfold footprints_ordered. intros H Hm. rewrite forallb_forall in H. specialize (H m Hm).
  destruct (runb string String.eqb lock_rank [] (footprint m)) as [[|x r]|]; [reflexivity|discriminate|discriminate]. Qed.

Lemma calls_ok (g : list meth) : footprints_ordered = true -> (forall m, In m g -> In m entries) ->
  runb string String.eqb lock_rank [] (flat_map footprint g) = Some [].
Proof. intros H. induction g as [|m g IH]; intros Hg; cbn [flat_map]; [reflexivity|].
  rewrite runb_app. rewrite (footprint_ok m H) by (apply Hg; left; reflexivity).
  apply IH. intros m' Hm'. apply Hg. right; assumption. Qed.

Lemma table_no_deadlock (gs : list (list meth)) sched : footprints_ordered = true ->
  (forall g m, In g gs -> In m g -> In m entries) ->
  let ts := lexec string String.eqb (map (mkL string []) (map (flat_map footprint) gs)) sched in
  existsb (unfinished string) ts = true -> existsb (enabled string String.eqb ts) ts = true.
Proof. intros H Hg. apply (no_deadlock_reachable string String.eqb String.eqb_eq lock_rank).
  intros p Hp. apply in_map_iff in Hp as (g & <- & Hin). apply calls_ok; [assumption|]. intros m Hm. eapply Hg; eassumption. Qed.

(* ---------- completeness of the enumeration of orders ---------- *)
Lemma ins_all_in x w1 w2 : In (w1 ++ x :: w2) (ins_all x (w1 ++ w2)).
Proof. induction w1 as [|y w1 IH]; cbn.
  - destruct w2; cbn; left; reflexivity.
  - right. apply in_map. exact IH. Qed.

Lemma orders_complete n : forall w, NoDup w -> (forall i, In i w <-> i < n) -> In w (orders n).
Proof.
  induction n as [|k IH]; intros w Hnd Hin.
  - destruct w as [|x r]; [left; reflexivity|]. exfalso. assert (x < 0) by (apply Hin; left; reflexivity). lia.
  - assert (Hk : In k w) by (apply Hin; lia). apply in_split in Hk as (w1 & w2 & ->).
    cbn [orders]. apply in_flat_map. exists (w1 ++ w2). split; [|apply ins_all_in].
    apply IH.
    + apply NoDup_remove_1 in Hnd. exact Hnd.
    + intros i. pose proof (NoDup_remove_2 _ _ _ Hnd) as Hnk. split.
      * intros Hi. assert (In i (w1 ++ k :: w2)) by (apply in_app_or in Hi as [Hi|Hi]; apply in_or_app; [left|right; right]; assumption).
        apply Hin in H. assert (i <> k) by (intros ->; contradiction). lia.
      * intros Hi. assert (In i (w1 ++ k :: w2)) by (apply Hin; lia).
        apply in_app_or in H as [H|[H|H]]; [apply in_or_app; left; assumption|lia|apply in_or_app; right; assumption]. Qed.

Section Complete.
  Variables (S op out : Type).
  Variable sstep : S -> op -> S * out.
  Variable out_eqb : out -> out -> bool.

  Lemma nodupb_NoDup l : nodupb l = true -> NoDup l.
  Proof. induction l as [|x r IH]; cbn; intros H; [constructor|]. apply andb_prop in H as [H1 H2].
    constructor; [|apply IH; assumption]. intros Hi. apply negb_true_iff in H1.
    assert (existsb (Nat.eqb x) r = true) by (apply existsb_exists; exists x; split; [assumption|apply Nat.eqb_refl]). congruence. Qed.

  Lemma replay_bound h : forall w s mx, replay S op out sstep out_eqb h s mx w = true -> forall i, In i w -> i < List.length h.
  Proof. induction w as [|j r IH]; intros s mx H i Hi; [destruct Hi|]. cbn in H.
    destruct (nth_error h j) as [e|] eqn:E; [|discriminate].
    destruct (sstep s (h_op e)) as [s' y]. apply andb_prop in H as [_ H].
    destruct Hi as [<-|Hi]; [apply nth_error_Some; congruence|eapply IH; eassumption]. Qed.

  Definition all_completed (h : list (hrec op out)) : bool :=
    forallb (fun e => match h_out e with Some _ => true | None => false end) h.

  Lemma completed_all h : all_completed h = true -> forall w k, completed_in op out h k w = true ->
    forall i, i < List.length h -> In (k + i) w.
  Proof. induction h as [|e r IH]; intros Ha w k Hc i Hi; cbn in *; [lia|].
    apply andb_prop in Ha as [He Hr]. apply andb_prop in Hc as [H1 H2].
    destruct (h_out e); [|discriminate]. destruct i as [|i].
    - rewrite Nat.add_0_r. apply existsb_exists in H1 as (x & Hx & Ex). apply Nat.eqb_eq in Ex. subst x. assumption.
    - replace (k + Datatypes.S i) with (Datatypes.S k + i) by lia. apply (IH Hr w (Datatypes.S k) H2). lia. Qed.

  Lemma valid_in_orders s0 h w : all_completed h = true ->
    valid_linearization sstep out_eqb s0 h w = true -> In w (orders (List.length h)).
  Proof. intros Ha Hv. unfold valid_linearization in Hv. apply andb_prop in Hv as [Hv Hr]. apply andb_prop in Hv as [Hn Hc].
    apply orders_complete; [apply nodupb_NoDup; assumption|]. intros i. split.
    - apply (replay_bound h w s0 0%N Hr).
    - intros Hi. apply (completed_all h Ha w 0 Hc i Hi). Qed.

  Lemma no_linearization_forall s0 h : all_completed h = true ->
    no_linearization sstep out_eqb s0 h = true -> forall w, valid_linearization sstep out_eqb s0 h w = false.
  Proof. intros Ha Hn w. destruct (valid_linearization sstep out_eqb s0 h w) eqn:E; [|reflexivity].
    unfold no_linearization in Hn. rewrite forallb_forall in Hn. specialize (Hn w (valid_in_orders s0 h w Ha E)).
    rewrite E in Hn. discriminate. Qed.
End Complete.
