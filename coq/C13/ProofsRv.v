(* C13 — lemmas about the request/response rendezvous (C13/Rendezvous.v): for ANY number of response handlers, ANY
   responses and ANY schedule. *)
From Coq Require Import List Arith Bool NArith Lia.
Import ListNotations.
From VF Require Import C13.Rendezvous.

(* ---------- list plumbing ---------- *)
Lemma rset_nth_same i x l r : nth_error l i = Some r -> nth_error (rset i x l) i = Some x.
Proof. revert i. induction l as [|y l IH]; intros [|i] H; cbn in *; try discriminate; [reflexivity|apply IH; assumption]. Qed.
Lemma rset_nth_other i j x l : i <> j -> nth_error (rset i x l) j = nth_error l j.
Proof. revert i j. induction l as [|y l IH]; intros [|i] [|j] H; cbn; try reflexivity; [congruence|apply IH; congruence]. Qed.
Lemma rset_none i x l : nth_error l i = None -> rset i x l = l.
Proof. revert i. induction l as [|y l IH]; intros [|i] H; cbn in *; try reflexivity; [discriminate|f_equal; apply IH; assumption]. Qed.

Lemma wsum_rset i x l r : nth_error l i = Some r -> wsum (rset i x l) + rwork1 r = wsum l + rwork1 x.
Proof. revert i. induction l as [|y l IH]; intros [|i] H; cbn in *; try discriminate.
  - inversion H; subst. lia.
  - specialize (IH i H). unfold wsum in *. lia. Qed.
Local Opaque wsum.

Definition dcount (l : list rpc) : nat := List.length (filter delivered l).
Definition d1 (r : rpc) : nat := if delivered r then 1 else 0.
Lemma dcount_rset i x l r : nth_error l i = Some r -> dcount (rset i x l) + d1 r = dcount l + d1 x.
Proof. unfold dcount, d1. revert i. induction l as [|y l IH]; intros [|i] H; cbn in *; try discriminate.
  - inversion H; subst. destruct (delivered x), (delivered r); cbn; lia.
  - specialize (IH i H). destruct (delivered y); cbn; lia. Qed.
Local Opaque dcount.

Lemma Forall2_nth {A B} (P : A -> B -> Prop) a b i r : Forall2 P a b -> nth_error b i = Some r ->
  exists m, nth_error a i = Some m /\ P m r.
Proof. intros F. revert i. induction F as [|x y a b Hxy F IH]; intros [|i] H; cbn in *; try discriminate.
  - inversion H; subst. exists x. split; [reflexivity|assumption].
  - apply IH; assumption. Qed.
Lemma Forall2_rset (P : N -> rpc -> Prop) a b i m x : Forall2 P a b -> nth_error a i = Some m -> P m x ->
  Forall2 P a (rset i x b).
Proof. intros F. revert i. induction F as [|u y a b Hxy F IH]; intros [|i] H Hp; cbn in *; try discriminate.
  - inversion H; subst. constructor; assumption.
  - constructor; [assumption|apply IH; assumption]. Qed.

(* ---------- the repaired protocol: nobody is ever blocked for good ---------- *)
Lemma bounded_never_stuck c t : runfinished c t = true -> renabled true c t = true.
Proof. destruct t as [|i]; cbn.
  - destruct (rq c); intros H; congruence.
  - destruct (nth_error (rrs c) i) as [[m|m|b]|]; intros H; try discriminate; reflexivity. Qed.

(* an enabled thread has a step that strictly decreases the remaining work; no step increases it *)
Lemma enabled_step_decreases b c t : renabled b c t = true -> exists alt, rwork (rstep b c (t, alt)) < rwork c.
Proof. unfold rwork. destruct t as [|i]; cbn.
  - destruct (rq c) eqn:E; intros H; try discriminate; exists true; cbn; rewrite ?E; cbn; lia.
  - destruct (nth_error (rrs c) i) as [[m|m|d]|] eqn:E; intros H; try discriminate.
    + exists false. cbn. pose proof (wsum_rset i (if reg c then RHave m else RFin false) _ _ E) as W.
      destruct (reg c); cbn in *; lia.
    + destruct b; cbn in H.
      * exists true. cbn. pose proof (wsum_rset i (RFin false) _ _ E) as W. cbn in *; lia.
      * exists false. destruct (rq c) eqn:Q; try discriminate. cbn.
        pose proof (wsum_rset i (RFin true) _ _ E) as W. cbn in *; lia. Qed.

Lemma step_work_le b c e : rwork (rstep b c e) <= rwork c.
Proof. unfold rwork. destruct e as [[|i] alt]; cbn.
  - destruct (rq c) eqn:E; cbn; rewrite ?E; try lia; destruct alt; cbn; rewrite ?E; cbn; lia.
  - destruct (nth_error (rrs c) i) as [[m|m|d]|] eqn:E; try lia.
    + cbn. pose proof (wsum_rset i (if reg c then RHave m else RFin false) _ _ E) as W.
      destruct (reg c); cbn in *; lia.
    + destruct alt.
      * destruct b; [|lia]. cbn. pose proof (wsum_rset i (RFin false) _ _ E) as W. cbn in *; lia.
      * destruct (rq c) eqn:Q; cbn; rewrite ?Q; cbn; try lia. pose proof (wsum_rset i (RFin true) _ _ E) as W. cbn in W. lia. Qed.

(* a step that changes the configuration takes work away: there is no infinite sequence of effective steps *)
Lemma effective_step_decreases b c e : rstep b c e <> c -> rwork (rstep b c e) < rwork c.
Proof. unfold rwork. destruct e as [[|i] alt]; cbn.
  - destruct (rq c) eqn:E; cbn; rewrite ?E; intros H; try lia; try (exfalso; apply H; reflexivity);
      destruct alt; cbn in *; rewrite ?E in *; cbn; try lia; exfalso; apply H; reflexivity.
  - destruct (nth_error (rrs c) i) as [[m|m|d]|] eqn:E; intros H; try (exfalso; apply H; reflexivity).
    + cbn. pose proof (wsum_rset i (if reg c then RHave m else RFin false) _ _ E) as W.
      destruct (reg c); cbn in *; lia.
    + destruct alt.
      * destruct b; [|exfalso; apply H; reflexivity]. cbn. pose proof (wsum_rset i (RFin false) _ _ E) as W.
        cbn in *; lia.
      * destruct (rq c) eqn:Q; try (exfalso; apply H; reflexivity). cbn.
        pose proof (wsum_rset i (RFin true) _ _ E) as W. cbn in *; lia. Qed.

(* ---------- safety, both variants: at most one response is taken, and it is the one the requester returns ---------- *)
Definition shape (m : N) (r : rpc) : Prop := r = RLook m \/ r = RHave m \/ exists b, r = RFin b.
Definition agrees (msgs : list N) (c : rcfg) : Prop :=
  match got (rq c) with
  | None => dcount (rrs c) = 0
  | Some m => dcount (rrs c) = 1 /\ exists i, nth_error (rrs c) i = Some (RFin true) /\ nth_error msgs i = Some m
  end.
Definition rinv (msgs : list N) (c : rcfg) : Prop :=
  Forall2 shape msgs (rrs c) /\ agrees msgs c /\ (rq c = QWait -> got (rq c) = None).

Lemma agrees_keep msgs c q' l' : agrees msgs c -> got q' = got (rq c) -> dcount l' = dcount (rrs c) ->
  (forall i, nth_error (rrs c) i = Some (RFin true) -> nth_error l' i = Some (RFin true)) ->
  agrees msgs (mkRC (reg c) q' l').
Proof. unfold agrees. cbn [rq rrs]. intros A G D K. rewrite G, D. destruct (got (rq c)); [|assumption].
  destruct A as (A1 & i & A2 & A3). split; [assumption|]. exists i. split; [apply K; assumption|assumption]. Qed.

Lemma rinv_step b msgs c e : rinv msgs c -> rinv msgs (rstep b c e).
Proof.
  intros (F & A & _). destruct e as [[|i] alt]; cbn.
  - (* the requester *)
    unfold rinv, agrees in *. destruct (rq c) eqn:Q; cbn [got] in A; [| destruct alt | destruct alt | |]; cbn; rewrite ?Q; cbn;
      (split; [assumption|split; [exact A|intros X; try discriminate X; reflexivity]]).
  - destruct (nth_error (rrs c) i) as [[m|m|d]|] eqn:E.
    + (* look-up *)
      destruct (Forall2_nth _ _ _ _ _ F E) as (m0 & Em & Sh).
      assert (m0 = m) as -> by (destruct Sh as [H|[H|[x H]]]; congruence).
      set (x := if reg c then RHave m else RFin false).
      assert (Hx : delivered x = false) by (unfold x; destruct (reg c); reflexivity).
      pose proof (dcount_rset i x _ _ E) as D. unfold d1 in D. rewrite Hx in D. cbn in D.
      split; [|split].
      * cbn. apply (Forall2_rset shape _ _ _ m); [assumption|assumption|]. unfold x, shape. destruct (reg c); [right; left; reflexivity|right; right; eexists; reflexivity].
      * apply agrees_keep; [assumption|reflexivity|cbn; lia|]. intros j Hj. cbn.
        destruct (Nat.eq_dec i j) as [<-|Hn]; [congruence|rewrite rset_nth_other by assumption; assumption].
      * cbn. intros Q. unfold agrees in A. rewrite Q. reflexivity.
    + (* at the send *)
      destruct (Forall2_nth _ _ _ _ _ F E) as (m0 & Em & Sh).
      assert (m0 = m) as -> by (destruct Sh as [H|[H|[x H]]]; congruence).
      destruct alt.
      * destruct b; [|split; [assumption|split; [assumption|intros Q; unfold agrees in A; rewrite Q; reflexivity]]].
        pose proof (dcount_rset i (RFin false) _ _ E) as D. unfold d1 in D. cbn in D.
        split; [|split].
        -- cbn. apply (Forall2_rset shape _ _ _ m); [assumption|assumption|right; right; eexists; reflexivity].
        -- apply agrees_keep; [assumption|reflexivity|cbn; lia|]. intros j Hj. cbn.
           destruct (Nat.eq_dec i j) as [<-|Hn]; [congruence|rewrite rset_nth_other by assumption; assumption].
        -- cbn. intros Q. rewrite Q. reflexivity.
      * destruct (rq c) eqn:Q; try (split; [assumption|split; [assumption|intros Q'; rewrite Q in *; try discriminate; reflexivity]]).
        (* the rendezvous: the requester is in its select *)
        pose proof (dcount_rset i (RFin true) _ _ E) as D. unfold d1 in D. cbn in D.
        unfold agrees in A. rewrite Q in A. cbn in A.
        split; [|split].
        -- cbn. apply (Forall2_rset shape _ _ _ m); [assumption|assumption|right; right; eexists; reflexivity].
        -- unfold agrees. cbn. split; [lia|]. exists i. split; [eapply rset_nth_same; eassumption|assumption].
        -- cbn. discriminate.
    + split; [assumption|split; [assumption|intros Q; unfold agrees in A; rewrite Q; reflexivity]].
    + split; [assumption|split; [assumption|intros Q; unfold agrees in A; rewrite Q; reflexivity]].
Qed.

Local Transparent dcount.
Lemma rinv_init msgs : rinv msgs (rinit msgs).
Proof. unfold rinv, rinit, agrees. cbn [rq rrs got]. split; [|split].
  - induction msgs as [|m l IH]; cbn; constructor; [left; reflexivity|assumption].
  - unfold dcount. induction msgs as [|m l IH]; cbn; [reflexivity|assumption].
  - discriminate. Qed.

Lemma rinv_exec b msgs sched : forall c, rinv msgs c -> rinv msgs (rexec b c sched).
Proof. induction sched as [|e r IH]; intros c H; cbn; [assumption|]. apply IH, rinv_step, H. Qed.

Lemma delivery_exact b msgs sched :
  let c := rexec b (rinit msgs) sched in
  match got (rq c) with
  | None => deliveries c = 0
  | Some m => deliveries c = 1 /\ exists i, nth_error (rrs c) i = Some (RFin true) /\ nth_error msgs i = Some m
  end.
Proof. intros c. destruct (rinv_exec b msgs sched _ (rinv_init msgs)) as (_ & A & _). exact A. Qed.

(* ---------- the protocol as found: a handler that found the channel stays at its send for good once the requester
   has returned ---------- *)
Lemma asis_blocked_step c i m x e : rq c = QDone x -> nth_error (rrs c) i = Some (RHave m) ->
  rq (rstep false c e) = QDone x /\ nth_error (rrs (rstep false c e)) i = Some (RHave m).
Proof.
  intros Q E. destruct e as [[|j] alt]; cbn.
  - rewrite Q. split; assumption.
  - destruct (nth_error (rrs c) j) as [[m'|m'|d]|] eqn:Ej; try (split; assumption).
    + cbn. split; [assumption|]. destruct (Nat.eq_dec j i) as [->|Hn]; [congruence|].
      rewrite rset_nth_other by assumption. assumption.
    + destruct alt; [split; assumption|]. rewrite Q. split; assumption. Qed.

Lemma asis_blocked_forever c i m x : rq c = QDone x -> nth_error (rrs c) i = Some (RHave m) ->
  forall sched, rq (rexec false c sched) = QDone x /\ nth_error (rrs (rexec false c sched)) i = Some (RHave m).
Proof.
  intros Q E sched. revert c Q E. induction sched as [|e r IH]; intros c Q E; cbn; [split; assumption|].
  destruct (asis_blocked_step c i m x e Q E) as [Q' E']. apply IH; assumption. Qed.
