(* C13 — the request/response rendezvous of the message-pickup service (StatusRequest <-> handleStatus, BatchPickup <->
   handleBatch; the mediator's keylist update has the same shape): executable model, NO proofs here.

   The requester registers a fresh UNBUFFERED channel under the id of its request, sends the request, and waits in a
   select for the channel or a timeout; on leaving (result, timeout or failed send) it removes the registration.
   Every inbound response runs in a goroutine of its own (HandleInbound): it looks the id up under the read lock and, when
   a channel is registered, sends the response on it.  Nothing ties the look-up to the requester's presence: a response
   that found the channel may try to send after the requester has left (a second response for one request - a
   re-delivery by the transport, or a mediator that answers twice -, or a response racing with the time-out).

   As found: a plain send ("ch <- m"): enabled only while the requester sits in its select.
   Repaired: select { ch <- m ; time-out }: the sender gives up when nobody takes the response.

   Threads: 0 = the requester, S i = the i-th response handler.  A schedule element (t, alt) lets thread t take one step;
   alt = true selects the time-out branch of the select the thread is blocked in (for the requester before its send:
   "the outbound send failed").  A step that is not enabled leaves the configuration unchanged (the thread stays
   blocked). *)
From Coq Require Import List Arith Bool NArith.
Import ListNotations.

Inductive qpc :=
| QStart                      (* before setStatusCh(id, ch) *)
| QRegd                       (* registered; inside the outbound send of the request *)
| QWait                       (* in the select *)
| QGot (m : option N)         (* left the select (Some: a response was received; None: time-out / failed send) *)
| QDone (m : option N).       (* registration removed, returned *)
Inductive rpc :=
| RLook (m : N)               (* handler of response m, before the look-up *)
| RHave (m : N)               (* found the channel, at its send *)
| RFin (delivered : bool).    (* returned *)
Record rcfg := mkRC { reg : bool; rq : qpc; rrs : list rpc }.

Fixpoint rset (i : nat) (x : rpc) (l : list rpc) : list rpc :=
  match l, i with
  | [], _ => []
  | _ :: r, O => x :: r
  | y :: r, S k => y :: rset k x r
  end.

Definition rstep (bounded : bool) (c : rcfg) (e : nat * bool) : rcfg :=
  let '(t, alt) := e in
  match t with
  | O =>
      match rq c with
      | QStart => mkRC true QRegd (rrs c)
      | QRegd => mkRC (reg c) (if alt then QGot None else QWait) (rrs c)
      | QWait => if alt then mkRC (reg c) (QGot None) (rrs c) else c    (* a receive happens in the sender's step *)
      | QGot m => mkRC false (QDone m) (rrs c)
      | QDone _ => c
      end
  | S i =>
      match nth_error (rrs c) i with
      | Some (RLook m) => mkRC (reg c) (rq c) (rset i (if reg c then RHave m else RFin false) (rrs c))
      | Some (RHave m) =>
          if alt then (if bounded then mkRC (reg c) (rq c) (rset i (RFin false) (rrs c)) else c)
          else match rq c with
               | QWait => mkRC (reg c) (QGot (Some m)) (rset i (RFin true) (rrs c))
               | _ => c
               end
      | _ => c
      end
  end.
Definition rexec (bounded : bool) (c : rcfg) (sched : list (nat * bool)) : rcfg := fold_left (rstep bounded) sched c.
Definition rinit (msgs : list N) : rcfg := mkRC false QStart (map RLook msgs).

(* thread t has not returned / can take a step *)
Definition runfinished (c : rcfg) (t : nat) : bool :=
  match t with
  | O => match rq c with QDone _ => false | _ => true end
  | S i => match nth_error (rrs c) i with Some (RFin _) | None => false | Some _ => true end
  end.
Definition renabled (bounded : bool) (c : rcfg) (t : nat) : bool :=
  match t with
  | O => match rq c with QDone _ => false | _ => true end       (* the requester's select has a time-out *)
  | S i => match nth_error (rrs c) i with
           | Some (RLook _) => true
           | Some (RHave _) => bounded || match rq c with QWait => true | _ => false end
           | _ => false
           end
  end.

(* steps still to be taken at most (every effective step decreases it) *)
Definition qwork (x : qpc) : nat :=
  match x with QStart => 4 | QRegd => 3 | QWait => 2 | QGot _ => 1 | QDone _ => 0 end.
Definition rwork1 (r : rpc) : nat := match r with RLook _ => 2 | RHave _ => 1 | RFin _ => 0 end.
Definition wsum (l : list rpc) : nat := fold_right (fun r n => rwork1 r + n) 0 l.
Definition rwork (c : rcfg) : nat := qwork (rq c) + wsum (rrs c).

Definition got (x : qpc) : option N := match x with QGot m | QDone m => m | _ => None end.
Definition delivered (r : rpc) : bool := match r with RFin true => true | _ => false end.
Definition deliveries (c : rcfg) : nat := List.length (filter delivered (rrs c)).

(* ---------- what the harness observes of one forced run ---------- *)
Inductive robs :=
| RvDelivered                  (* the handler returned after its send was taken *)
| RvNotFound                   (* the handler returned without sending (no channel registered, or gave up) *)
| RvBlocked (can_give_up : bool).   (* still at its send when the run was inspected; can_give_up: inside a select with a time-out *)
Definition robs_eqb (a b : robs) : bool :=
  match a, b with
  | RvDelivered, RvDelivered | RvNotFound, RvNotFound => true
  | RvBlocked x, RvBlocked y => Bool.eqb x y
  | _, _ => false
  end.
Definition obs_of (bounded : bool) (r : rpc) : option robs :=
  match r with
  | RFin true => Some RvDelivered
  | RFin false => Some RvNotFound
  | RHave _ => Some (RvBlocked bounded)
  | RLook _ => None
  end.
Definition oopt_eqb (a b : option N) : bool :=
  match a, b with Some x, Some y => N.eqb x y | None, None => true | _, _ => false end.
Fixpoint robs_all (bounded : bool) (rs : list rpc) (os : list robs) : bool :=
  match rs, os with
  | [], [] => true
  | r :: rr, o :: oo => match obs_of bounded r with Some x => robs_eqb x o | None => false end && robs_all bounded rr oo
  | _, _ => false
  end.
(* the run of the REPAIRED protocol under the schedule the harness forced ends with the requester returned with
   [res] and the handlers in the observed states *)
Definition rv_check (msgs : list N) (sched : list (nat * bool)) (res : option N) (os : list robs) : bool :=
  let c := rexec true (rinit msgs) sched in
  match rq c with
  | QDone m => oopt_eqb m res && negb (reg c)
  | _ => false
  end && robs_all true (rrs c) os.
