(* C13 — correspondence.  The -race stress harness records, per run, the invoke/return history of the operations that
   N goroutines performed on ONE shared instance of the real component, and the witness order its search found.
   Here the witness is VALIDATED: replaying the operations in witness order on the sequential model of the component
   (the very step functions of the theorems: C11's provider models for the storage stacks, the specifications of
   C13/Model.v for the other services) must give every returned result, contain every completed operation once, and
   never place an operation after one that was invoked only after it had returned. *)
From Coq Require Import List NArith ZArith Bool.
Import ListNotations.
From VF Require Export C13.Model C11.Corr C13.Rendezvous.
Local Open Scope N_scope.

Definition kout_eqb (a b : kout) : bool :=
  match a, b with
  | KId x, KId y | KMat x, KMat y => N.eqb x y
  | KErr, KErr | KNotFound, KNotFound => true
  | _, _ => false
  end.
Definition sout_eqb (a b : sout) : bool :=
  match a, b with
  | SToken, SToken | SAlready, SAlready => true
  | SClosed x, SClosed y | SLive x, SLive y => Bool.eqb x y
  | _, _ => false
  end.
Definition rout_eqb (a b : rout) : bool :=
  match a, b with
  | ROk, ROk | RErr, RErr => true
  | RChan x, RChan y => N.eqb x y
  | _, _ => false
  end.
Definition mout_eqb (a b : mout) : bool :=
  match a, b with
  | MOk, MOk => true
  | MList x, MList y => list_eqb N.eqb x y
  | _, _ => false
  end.
Definition wout_eqb (a b : wout) : bool :=
  match a, b with
  | WOk, WOk => true
  | WPresent x, WPresent y => Bool.eqb x y
  | _, _ => false
  end.
Definition iout_eqb (a b : iout) : bool :=
  match a, b with
  | IAdded, IAdded | IErr, IErr => true
  | ICount x, ICount y => Nat.eqb x y
  | IBatch x, IBatch y | IBatchFail x, IBatchFail y => list_eqb N.eqb x y
  | _, _ => false
  end.

(* the key manager draws fresh ids: the harness numbers created ids 1000, 1001, ... in WITNESS order, which is the
   numbering [kms_step] produces when replayed in that order *)
Inductive xcase :=
| HStore (s : stack) (h : list (hrec op out)) (w : list nat)
| HKms (h : list (hrec kop kout)) (w : list nat)
| HSess (h : list (hrec sop sout)) (w : list nat)
| HReg (h : list (hrec rop rout)) (w : list nat)
| HInbox (h : list (hrec iop iout)) (w : list nat)
| HMsg (h : list (hrec mop mout)) (w : list nat)
(* provider level, over the in-memory base: C11's provider-level CONTRACT machine (Close deletes) *)
| HProv (h : list (hrec pop pout)) (w : list nat)
| HPool (h : list (hrec wop wout)) (w : list nat)
(* request/response rendezvous: the forced schedule, the requester's result, the handlers' final states *)
| HRv (msgs : list N) (sched : list (nat * bool)) (res : option N) (os : list robs).

Definition check_xcase (x : xcase) : bool :=
  match x with
  | HStore s h w => valid_linearization (step (prov_of s)) out_eqb (init (prov_of s)) h w
  | HKms h w => valid_linearization kms_step kout_eqb [] h w
  | HSess h w => valid_linearization sess_step sout_eqb [] h w
  | HReg h w => valid_linearization reg_step rout_eqb 0 h w
  | HInbox h w => valid_linearization inbox_step iout_eqb [] h w
  | HMsg h w => valid_linearization msg_step mout_eqb [] h w
  | HProv h w => valid_linearization (pspec_step false) pout_eqb [] h w
  | HPool h w => valid_linearization pool_step wout_eqb [] h w
  | HRv msgs sched res os => rv_check msgs sched res os
  end.

Fixpoint mismatches_from (i : nat) (cs : list xcase) : list nat :=
  match cs with
  | [] => []
  | c :: r => if check_xcase c then mismatches_from (S i) r else i :: mismatches_from (S i) r
  end.
Definition mismatches := mismatches_from 0.
