(* C13 — the lock discipline of the source, over the table that harness/c13gen regenerates from /repo on every run
   (coq/gen/Gen_C13.v).  Executable checks, no proofs here (Props.v discharges them by vm_compute):
     covers        every access to a shared mutable field, in every entry point (inlining the package's own helpers
                   with the locks held at the call), is under ONE common mutex — exclusively for writes;
     atomic_ok     every method that the model treats as ONE atomic step acquires its mutex exactly once, not inside a
                   loop, and performs all its calls on injected stores/caches and all its shared accesses under it;
     lock_order_ok the "held -> acquired" relation over all entry points is acyclic and never re-acquires a held mutex. *)
From Coq Require Import List String Bool Arith Ascii.
Import ListNotations.
From VF Require Import gen.Gen_C13.
Open Scope string_scope.
Open Scope list_scope.

Definition held := list (string * bool).
(* "m?" = mutex m acquired in a branch with a deferred release: held from there to the end of the function on the path
   that took the branch (the other path does not touch the state the mutex protects: e.g. deterministic key
   formatting in formattedstore) *)
Fixpoint unq (s : string) : string :=
  match s with
  | EmptyString => EmptyString
  | String c EmptyString => if Ascii.eqb c "?"%char then EmptyString else s
  | String c r => String c (unq r)
  end.
Definition heldb (l : string) (excl : bool) (h : held) : bool :=
  existsb (fun x => String.eqb (unq (fst x)) l && (negb excl || snd x)) h.

Fixpoint find_meth (n : string) (t : list meth) : option meth :=
  match t with [] => None | m :: r => if String.eqb (m_name m) n then Some m else find_meth n r end.

(* start-up code that runs before the service is handed to other goroutines: not an entry point, not inlined *)
Definition startup_methods : list string := ["messagepickup.Service.Initialize"; "mediator.Service.Initialize"].
Definition callee (n : string) : option meth :=
  if existsb (String.eqb n) startup_methods then None else find_meth n table.

(* effects of a method with the package's own callees inlined (depth bounded by the fuel) *)
Fixpoint eff_accs (fuel : nat) (extra : held) (m : meth) : list acc :=
  map (fun a => mkAcc (a_field a) (a_write a) (extra ++ a_held a)) (m_accs m) ++
  match fuel with
  | O => []
  | S f => flat_map (fun c => match callee (c_callee c) with
                              | Some m' => eff_accs f (extra ++ c_held c) m'
                              | None => [] end) (m_calls m)
  end.
Fixpoint eff_scalls (fuel : nat) (extra : held) (m : meth) : list scall :=
  map (fun a => mkSCall (s_field a) (s_method a) (extra ++ s_held a)) (m_scalls m) ++
  match fuel with
  | O => []
  | S f => flat_map (fun c => match callee (c_callee c) with
                              | Some m' => eff_scalls f (extra ++ c_held c) m'
                              | None => [] end) (m_calls m)
  end.
Fixpoint eff_acqs (fuel : nat) (extra : held) (m : meth) : list acq :=
  map (fun a => mkAcq (q_lock a) (q_excl a) (q_loop a) (extra ++ q_held a)) (m_acqs m) ++
  match fuel with
  | O => []
  | S f => flat_map (fun c => match callee (c_callee c) with
                              | Some m' => eff_acqs f (extra ++ c_held c) m'
                              | None => [] end) (m_calls m)
  end.
Definition depth : nat := 5.

(* entry points: exported, or called by nobody in the table *)
Definition called (n : string) : bool :=
  existsb (fun m => existsb (fun c => String.eqb (c_callee c) n) (m_calls m)) table.
Definition is_entry (m : meth) : bool := m_exported m || negb (called (m_name m)).

Definition prefixb (p s : string) : bool := String.prefix p s.

(* objects created per call and never shared between goroutines: their fields need no lock *)
Definition local_objects : list string :=
  ["mem.memIterator."; "messagepickup.inbox."; "localkms.storeWriter."; "leveldb.dbEntry."; "leveldb.iterator.";
   "mediator.callback."].   (* created per action event, handed to ONE goroutine through the callbacks channel *)

(* a field that only start-up code writes is configuration: read-only once the service is shared *)
Definition written_after_startup (f : string) : bool :=
  existsb (fun m => negb (existsb (String.eqb (m_name m)) startup_methods) &&
                    existsb (fun a => a_write a && String.eqb (a_field a) f) (m_accs m)) table.
Definition shared_fields : list string :=
  filter (fun f => negb (existsb (fun p => prefixb p f) local_objects) && written_after_startup f) mutable_fields.
Definition entries : list meth :=
  filter (fun m => is_entry m && negb (existsb (String.eqb (m_name m)) startup_methods)) table.

Definition all_locks : list string :=
  nodup string_dec (flat_map (fun m => map q_lock (m_acqs m)) table).

Definition all_entry_accs : list acc := flat_map (eff_accs depth []) entries.
Definition field_covered_by (f l : string) : bool :=
  forallb (fun a => heldb l (a_write a) (a_held a)) (filter (fun a => String.eqb (a_field a) f) all_entry_accs).
Definition uncovered : list string :=
  filter (fun f => negb (existsb (field_covered_by f) all_locks)) shared_fields.
Definition covers : bool := match uncovered with [] => true | _ => false end.

(* ---------- which methods the model treats as one atomic step, under which mutex ---------- *)
Definition modelled_atomic : list (string * string * bool) :=   (* method, mutex, exclusive *)
  [ ("mem.memStore.Put", "mem.memStore.RWMutex", true); ("mem.memStore.Get", "mem.memStore.RWMutex", false);
    ("mem.memStore.GetTags", "mem.memStore.RWMutex", false); ("mem.memStore.GetBulk", "mem.memStore.RWMutex", false);
    ("mem.memStore.Query", "mem.memStore.RWMutex", false); ("mem.memStore.Delete", "mem.memStore.RWMutex", true);
    ("mem.memStore.Batch", "mem.memStore.RWMutex", true);
    ("cachedstore.store.Put", "cachedstore.store.lock", true); ("cachedstore.store.Get", "cachedstore.store.lock", true);
    ("cachedstore.store.GetTags", "cachedstore.store.lock", false); ("cachedstore.store.GetBulk", "cachedstore.store.lock", false);
    ("cachedstore.store.Query", "cachedstore.store.lock", false); ("cachedstore.store.Delete", "cachedstore.store.lock", true);
    ("cachedstore.store.Batch", "cachedstore.store.lock", true); ("cachedstore.store.Flush", "cachedstore.store.lock", true);
    ("batchedstore.store.Put", "batchedstore.store.RWMutex", true); ("batchedstore.store.Get", "batchedstore.store.RWMutex", true);
    ("batchedstore.store.GetTags", "batchedstore.store.RWMutex", true); ("batchedstore.store.GetBulk", "batchedstore.store.RWMutex", true);
    ("batchedstore.store.Query", "batchedstore.store.RWMutex", true); ("batchedstore.store.Delete", "batchedstore.store.RWMutex", true);
    ("batchedstore.store.Batch", "batchedstore.store.RWMutex", true); ("batchedstore.store.Flush", "batchedstore.store.RWMutex", true);
    ("localkms.LocalKMS.writeToStore", "localkms.LocalKMS.writeLock", true);
    ("messagepickup.Service.AddMessage", "messagepickup.Service.inboxLock", true);
    ("messagepickup.Service.handleStatusRequest", "messagepickup.Service.inboxLock", true);
    ("messagepickup.Service.handleBatchPickup", "messagepickup.Service.inboxLock", true);
    ("wallet.walletSessionManager.createSession", "wallet.walletSessionManager.mu", true);
    ("wallet.walletSessionManager.closeSession", "wallet.walletSessionManager.mu", true);
    ("service.Action.RegisterActionEvent", "service.Action.mu", true);
    ("service.Action.UnregisterActionEvent", "service.Action.mu", true);
    ("service.Action.ActionEvent", "service.Action.mu", false);
    ("service.Message.RegisterMsgEvent", "service.Message.mu", true);
    ("service.Message.UnregisterMsgEvent", "service.Message.mu", true);
    ("ws.connPool.add", "ws.connPool.RWMutex", true); ("ws.connPool.fetch", "ws.connPool.RWMutex", false);
    ("ws.connPool.remove", "ws.connPool.RWMutex", true); ("ws.getConnPool", "ws.poolLock", true);
    ("service.Message.MsgEvents", "service.Message.mu", false);
    (* formattedstore with NON-deterministic (random) formatted keys: resolve-the-key-then-write is one step *)
    ("formattedstore.formatStore.storeUsingNonDeterministicKey", "formattedstore.formatStore.lock", true);
    ("formattedstore.formatStore.lockAndGetValueStoredUnderNonDeterministicKey", "formattedstore.formatStore.lock", false);
    ("formattedstore.formatStore.getTagsStoredUnderNonDeterministicKey", "formattedstore.formatStore.lock", false);
    ("formattedstore.formatStore.getValuesStoredUnderNonDeterministicKeys", "formattedstore.formatStore.lock", false);
    ("formattedstore.formatStore.deleteDataStoredUnderNonDeterministicKey", "formattedstore.formatStore.lock", true);
    ("formattedstore.formatStore.Batch", "formattedstore.formatStore.lock", true);
    ("formattedstore.formatStore.Flush", "formattedstore.formatStore.lock", true);
    ("did.Store.SaveDID", "did.Store.saveLock", true);
    ("wallet.walletSessionManager.getSession", "wallet.walletSessionManager.mu", true);
    ("wallet.contentStore.safeSave", "wallet.contentStore.saveLock", true);
    ("leveldb.Provider.OpenStore", "leveldb.Provider.lock", true) ].
(* where a method also serves a mode that needs no lock (deterministic keys: one call on the store below), only the
   calls on these fields are required to be inside the region *)
Definition atomic_fields (n : string) : list string :=
  if String.eqb n "formattedstore.formatStore.Batch" then ["formattedstore.formatStore.underlyingStore"] else [].
Definition in_scope (n : string) (s : scall) : bool :=
  match atomic_fields n with [] => true | fs => existsb (String.eqb (s_field s)) fs end.

Definition is_shared_acc (a : acc) : bool := existsb (String.eqb (a_field a)) shared_fields.
(* calls through a "close" callback leave the store (they run under the provider's lock, not the store's) *)
Definition is_store_call (s : scall) : bool := negb (String.eqb (s_method s) "()").

Definition atomic_one (x : string * string * bool) : bool :=
  let '(n, l, ex) := x in
  match find_meth n table with
  | None => false
  | Some m =>
      let qs := filter (fun q => String.eqb (q_lock q) l) (eff_acqs depth [] m) in
      match qs with
      | [q] => negb (q_loop q) && (negb ex || q_excl q)
      | _ => false
      end &&
      forallb (fun s => negb (is_store_call s && in_scope n s) || heldb l false (s_held s)) (eff_scalls depth [] m) &&
      forallb (fun a => negb (is_shared_acc a) || heldb l (a_write a) (a_held a)) (eff_accs depth [] m)
  end.
Definition not_atomic : list string := map (fun x => fst (fst x)) (filter (fun x => negb (atomic_one x)) modelled_atomic).
Definition atomic_ok : bool := match not_atomic with [] => true | _ => false end.

(* ---------- lock order ---------- *)
(* leveldb's updateTagMap/removeFromTagMap hold the store mutex and call s.Put(tagMapKey, ...) WITHOUT tags; Put takes the
   mutex again only for a Put WITH tags (path-insensitive extraction sees the nesting; it cannot happen) *)
Definition edge_exempt : list (string * string) := [("leveldb.store.lock", "leveldb.store.lock")].
Definition raw_edges : list (string * string) :=
  flat_map (fun m => flat_map (fun q => map (fun h => (unq (fst h), q_lock q)) (q_held q)) (eff_acqs depth [] m)) entries.
Definition edges : list (string * string) :=
  filter (fun e => negb (existsb (fun x => String.eqb (fst e) (fst x) && String.eqb (snd e) (snd x)) edge_exempt)) raw_edges.
Definition succs (l : string) : list string := map snd (filter (fun e => String.eqb (fst e) l) edges).
Fixpoint reaches (fuel : nat) (from to : string) : bool :=
  match fuel with
  | O => false
  | S f => existsb (fun s => String.eqb s to || reaches f s to) (succs from)
  end.
Definition cyclic_locks : list string := filter (fun l => reaches (S (List.length all_locks)) l l) all_locks.
Definition lock_order_ok : bool := match cyclic_locks with [] => true | _ => false end.

(* ---------- explicit mutex actions of the entry points, for the deadlock-freedom theorem (C13/Deadlock.v) ---------- *)
From VF Require Import C13.Deadlock.
(* rank of a mutex = length of the longest chain of "held -> acquired" edges that ends in it *)
Definition preds (l : string) : list string := map fst (filter (fun e => String.eqb (snd e) l) edges).
Fixpoint chain (fuel : nat) (l : string) : nat :=
  match fuel with
  | O => O
  | S f => fold_right (fun p m => Nat.max (S (chain f p)) m) O (preds l)
  end.
Definition lock_rank (l : string) : nat := chain (S (List.length all_locks)) l.
(* every acquisition of an entry point, as its own critical section: take the mutexes held at that point in the
   order the method took them, then the mutex itself; release in reverse order *)
Definition lact := act string.
Definition footprint (m : meth) : list lact :=
  flat_map (fun q => if existsb (fun h => existsb (fun x => String.eqb (unq (fst h)) (fst x) && String.eqb (q_lock q) (snd x)) edge_exempt) (q_held q) then [] else
                     map (fun h => Acq string (unq (fst h))) (q_held q) ++ [Acq string (q_lock q); Rel string (q_lock q)] ++
                     map (fun h => Rel string (unq (fst h))) (rev (q_held q)))
           (eff_acqs depth [] m).
Definition footprints_ordered : bool :=
  forallb (fun m => match runb string String.eqb lock_rank [] (footprint m) with Some [] => true | _ => false end) entries.
(* "close" callbacks (a store telling its provider that it is gone) are made with no mutex held *)
Definition callbacks_unlocked : bool :=
  forallb (fun m => forallb (fun s => is_store_call s || match s_held s with [] => true | _ => false end)
                            (eff_scalls depth [] m)) entries.

(* ---------- check-then-act on one field: an entry point (own helpers inlined) that both reads and writes a shared field (look a name up in a
   map, insert when absent; test a channel, set it) must do so inside ONE critical section: it acquires the mutex that
   covers its accesses to the field exactly once, not inside a loop ---------- *)
Definition rmw_fields (m : meth) : list string :=
  let accs := eff_accs depth [] m in
  nodup string_dec (map a_field (filter (fun a => is_shared_acc a && a_write a &&
      existsb (fun b => String.eqb (a_field b) (a_field a) && negb (a_write b)) accs) accs)).
Definition rmw_one (m : meth) (f : string) : bool :=
  existsb (fun l =>
    forallb (fun a => negb (String.eqb (a_field a) f) || heldb l (a_write a) (a_held a)) (eff_accs depth [] m) &&
    match filter (fun q => String.eqb (q_lock q) l) (eff_acqs depth [] m) with
    | [q] => negb (q_loop q)
    | _ => false
    end) all_locks.
(* GetStoreConfig looks the store name up (read lock), then opens the configuration side store "<name>_formattedstore_
   storeconfig" through OpenStore (write lock): the insert concerns the side store's own entry, not the name looked up *)
Definition rmw_exempt : list (string * string) :=
  [("formattedstore.FormattedProvider.GetStoreConfig", "formattedstore.FormattedProvider.openStores")].
Definition split_rmw : list (string * string) :=
  filter (fun x => negb (existsb (fun y => String.eqb (fst x) (fst y) && String.eqb (snd x) (snd y)) rmw_exempt))
    (flat_map (fun m => map (fun f => (m_name m, f)) (filter (fun f => negb (rmw_one m f)) (rmw_fields m))) entries).
Definition rmw_ok : bool := match split_rmw with [] => true | _ => false end.

(* ---------- request/response rendezvous (C13/Rendezvous.v): the handler of an inbound response hands it to the waiting
   requester over an unbuffered channel; its send must be abandonable (inside a select with a time-out clause), or a
   response that arrives when the requester has left blocks its goroutine for good ---------- *)
Definition rendezvous_handlers : list string :=
  ["messagepickup.Service.handleStatus"; "messagepickup.Service.handleBatch"; "mediator.Service.handleKeylistUpdateResponse"].
Definition sends_of (f : string) : list (string * string * bool) :=
  filter (fun x => String.eqb (fst (fst x)) f) chan_sends.
Definition unbounded_handlers : list string :=
  filter (fun f => match sends_of f with [] => true | l => negb (forallb snd l) end) rendezvous_handlers.
Definition rendezvous_sends_bounded : bool := match unbounded_handlers with [] => true | _ => false end.

(* ... and the requester registers its channel BEFORE the request goes out (a response may arrive at once) *)
Definition rendezvous_requesters : list string :=
  ["messagepickup.Service.StatusRequest"; "messagepickup.Service.BatchPickup"; "mediator.Service.AddKey"].
Definition late_requesters : list string :=
  filter (fun f => negb (existsb (fun x => String.eqb (fst x) f && snd x) requesters)) rendezvous_requesters.
Definition requesters_register_first : bool := match late_requesters with [] => true | _ => false end.
