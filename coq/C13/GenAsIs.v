(* FROZEN copy of the table harness/c13gen produced for /repo at 34f49d8 (the tree as found, before the C13 fix: commits). *)
From Coq Require Import List String Bool.
Import ListNotations.
Open Scope string_scope.

Record acc := mkAcc { a_field : string; a_write : bool; a_held : list (string * bool) }.
Record fcall := mkCall { c_callee : string; c_held : list (string * bool) }.
Record scall := mkSCall { s_field : string; s_method : string; s_held : list (string * bool) }.
Record acq := mkAcq { q_lock : string; q_excl : bool; q_loop : bool; q_held : list (string * bool) }.
Record meth := mkMeth { m_name : string; m_exported : bool; m_accs : list acc; m_calls : list fcall; m_scalls : list scall; m_acqs : list acq }.

(* fields / package variables written by some method (constructors initialise, they do not count) *)
Definition mutable_fields : list string := [
  "batchedstore.Provider.openStores";
  "batchedstore.store.currentBatch";
  "cachedstore.CachedProvider.openStores";
  "formattedstore.FormattedProvider.openStores";
  "leveldb.Provider.dbs";
  "leveldb.dbEntry.Tags";
  "leveldb.dbEntry.Value";
  "leveldb.iterator.currentIndex";
  "leveldb.iterator.currentKey";
  "localkms.storeWriter.KeysetID";
  "mem.Provider.dbs";
  "mem.memIterator.currentDBEntry";
  "mem.memIterator.currentIndex";
  "mem.memIterator.currentKey";
  "mem.memIterator.dbEntries";
  "mem.memStore.config";
  "mem.memStore.db";
  "messagepickup.Service.batchMap";
  "messagepickup.Service.connectionLookup";
  "messagepickup.Service.initialized";
  "messagepickup.Service.msgHandler";
  "messagepickup.Service.msgStore";
  "messagepickup.Service.outbound";
  "messagepickup.Service.packager";
  "messagepickup.Service.statusMap";
  "messagepickup.inbox.LastDeliveredTime";
  "messagepickup.inbox.LastRemovedTime";
  "messagepickup.inbox.MessageCount";
  "messagepickup.inbox.Messages";
  "messagepickup.inbox.TotalSize";
  "service.Action.event";
  "service.Message.events";
  "wallet.contentStore.close";
  "wallet.contentStore.open";
  "ws.connPool.connMap"
].

Definition table : list meth := [
  mkMeth "batchedstore.NewProvider" true
    []
    []
    []
    [];
  mkMeth "batchedstore.Provider.Close" true
    [mkAcc "batchedstore.Provider.openStores" false [("batchedstore.Provider.lock", false)]]
    []
    [mkSCall "batchedstore.Provider.underlyingProvider" "Close" []]
    [mkAcq "batchedstore.Provider.lock" false false []];
  mkMeth "batchedstore.Provider.GetOpenStores" true
    [mkAcc "batchedstore.Provider.openStores" false [("batchedstore.Provider.lock", false)]]
    []
    []
    [mkAcq "batchedstore.Provider.lock" false false []];
  mkMeth "batchedstore.Provider.GetStoreConfig" true
    []
    []
    [mkSCall "batchedstore.Provider.underlyingProvider" "GetStoreConfig" []]
    [];
  mkMeth "batchedstore.Provider.OpenStore" true
    [mkAcc "batchedstore.Provider.openStores" false [("batchedstore.Provider.lock", true)]; mkAcc "batchedstore.Provider.openStores" true [("batchedstore.Provider.lock", true)]]
    []
    [mkSCall "batchedstore.Provider.underlyingProvider" "OpenStore" [("batchedstore.Provider.lock", true)]]
    [mkAcq "batchedstore.Provider.lock" true false []];
  mkMeth "batchedstore.Provider.SetStoreConfig" true
    []
    []
    [mkSCall "batchedstore.Provider.underlyingProvider" "SetStoreConfig" []]
    [];
  mkMeth "batchedstore.Provider.removeStore" false
    [mkAcc "batchedstore.Provider.openStores" true [("batchedstore.Provider.lock", true)]]
    []
    []
    [mkAcq "batchedstore.Provider.lock" true false []];
  mkMeth "batchedstore.store.Batch" true
    [mkAcc "batchedstore.store.currentBatch" true [("batchedstore.store.RWMutex", true)]; mkAcc "batchedstore.store.currentBatch" false [("batchedstore.store.RWMutex", true)]]
    [mkCall "batchedstore.store.flush" [("batchedstore.store.RWMutex", true)]]
    []
    [mkAcq "batchedstore.store.RWMutex" true true []];
  mkMeth "batchedstore.store.Close" true
    []
    [mkCall "batchedstore.store.Flush" []]
    [mkSCall "batchedstore.store.close" "()" []; mkSCall "batchedstore.store.underlyingStore" "Close" []]
    [];
  mkMeth "batchedstore.store.Delete" true
    [mkAcc "batchedstore.store.currentBatch" true [("batchedstore.store.RWMutex", true)]; mkAcc "batchedstore.store.currentBatch" false [("batchedstore.store.RWMutex", true)]]
    [mkCall "batchedstore.store.flush" [("batchedstore.store.RWMutex", true)]]
    []
    [mkAcq "batchedstore.store.RWMutex" true false []];
  mkMeth "batchedstore.store.Flush" true
    []
    [mkCall "batchedstore.store.flush" [("batchedstore.store.RWMutex", true)]]
    []
    [mkAcq "batchedstore.store.RWMutex" true false []];
  mkMeth "batchedstore.store.Get" true
    []
    [mkCall "batchedstore.store.Flush" []]
    [mkSCall "batchedstore.store.underlyingStore" "Get" []]
    [];
  mkMeth "batchedstore.store.GetBulk" true
    []
    [mkCall "batchedstore.store.Flush" []]
    [mkSCall "batchedstore.store.underlyingStore" "GetBulk" []]
    [];
  mkMeth "batchedstore.store.GetTags" true
    []
    [mkCall "batchedstore.store.Flush" []]
    [mkSCall "batchedstore.store.underlyingStore" "GetTags" []]
    [];
  mkMeth "batchedstore.store.Put" true
    [mkAcc "batchedstore.store.currentBatch" true [("batchedstore.store.RWMutex", true)]; mkAcc "batchedstore.store.currentBatch" false [("batchedstore.store.RWMutex", true)]]
    [mkCall "batchedstore.store.flush" [("batchedstore.store.RWMutex", true)]]
    []
    [mkAcq "batchedstore.store.RWMutex" true false []];
  mkMeth "batchedstore.store.Query" true
    []
    [mkCall "batchedstore.store.Flush" []]
    [mkSCall "batchedstore.store.underlyingStore" "Query" []]
    [];
  mkMeth "batchedstore.store.flush" false
    [mkAcc "batchedstore.store.currentBatch" false []; mkAcc "batchedstore.store.currentBatch" true []]
    []
    [mkSCall "batchedstore.store.underlyingStore" "Batch" []]
    [];
  mkMeth "cachedstore.CachedProvider.Close" true
    []
    []
    [mkSCall "cachedstore.CachedProvider.mainProvider" "Close" []; mkSCall "cachedstore.CachedProvider.cacheProvider" "Close" []]
    [];
  mkMeth "cachedstore.CachedProvider.GetOpenStores" true
    [mkAcc "cachedstore.CachedProvider.openStores" false [("cachedstore.CachedProvider.lock", false)]]
    []
    []
    [mkAcq "cachedstore.CachedProvider.lock" false false []];
  mkMeth "cachedstore.CachedProvider.GetStoreConfig" true
    []
    []
    [mkSCall "cachedstore.CachedProvider.mainProvider" "GetStoreConfig" []]
    [];
  mkMeth "cachedstore.CachedProvider.OpenStore" true
    [mkAcc "cachedstore.CachedProvider.openStores" false [("cachedstore.CachedProvider.lock", true)]; mkAcc "cachedstore.CachedProvider.openStores" true [("cachedstore.CachedProvider.lock", true)]]
    []
    [mkSCall "cachedstore.CachedProvider.mainProvider" "OpenStore" [("cachedstore.CachedProvider.lock", true)]; mkSCall "cachedstore.CachedProvider.cacheProvider" "OpenStore" [("cachedstore.CachedProvider.lock", true)]]
    [mkAcq "cachedstore.CachedProvider.lock" true false []];
  mkMeth "cachedstore.CachedProvider.SetStoreConfig" true
    []
    []
    [mkSCall "cachedstore.CachedProvider.mainProvider" "SetStoreConfig" []; mkSCall "cachedstore.CachedProvider.cacheProvider" "SetStoreConfig" []]
    [];
  mkMeth "cachedstore.CachedProvider.removeStore" false
    [mkAcc "cachedstore.CachedProvider.openStores" true [("cachedstore.CachedProvider.lock", true)]]
    []
    []
    [mkAcq "cachedstore.CachedProvider.lock" true false []];
  mkMeth "cachedstore.NewProvider" true
    []
    []
    []
    [];
  mkMeth "cachedstore.store.Batch" true
    []
    []
    [mkSCall "cachedstore.store.mainStore" "Batch" []; mkSCall "cachedstore.store.cacheStore" "Batch" []]
    [];
  mkMeth "cachedstore.store.Close" true
    []
    []
    [mkSCall "cachedstore.store.close" "()" []; mkSCall "cachedstore.store.mainStore" "Close" []; mkSCall "cachedstore.store.cacheStore" "Close" []]
    [];
  mkMeth "cachedstore.store.Delete" true
    []
    []
    [mkSCall "cachedstore.store.mainStore" "Delete" []; mkSCall "cachedstore.store.cacheStore" "Delete" []]
    [];
  mkMeth "cachedstore.store.Flush" true
    []
    []
    [mkSCall "cachedstore.store.mainStore" "Flush" []; mkSCall "cachedstore.store.cacheStore" "Flush" []]
    [];
  mkMeth "cachedstore.store.Get" true
    []
    []
    [mkSCall "cachedstore.store.cacheStore" "Get" []; mkSCall "cachedstore.store.mainStore" "Get" []; mkSCall "cachedstore.store.mainStore" "GetTags" []; mkSCall "cachedstore.store.cacheStore" "Put" []]
    [];
  mkMeth "cachedstore.store.GetBulk" true
    []
    []
    [mkSCall "cachedstore.store.mainStore" "GetBulk" []]
    [];
  mkMeth "cachedstore.store.GetTags" true
    []
    []
    [mkSCall "cachedstore.store.cacheStore" "GetTags" []; mkSCall "cachedstore.store.mainStore" "GetTags" []]
    [];
  mkMeth "cachedstore.store.Put" true
    []
    []
    [mkSCall "cachedstore.store.mainStore" "Put" []; mkSCall "cachedstore.store.cacheStore" "Put" []]
    [];
  mkMeth "cachedstore.store.Query" true
    []
    []
    [mkSCall "cachedstore.store.mainStore" "Query" []]
    [];
  mkMeth "did.New" true
    []
    []
    []
    [];
  mkMeth "did.Store.GetDID" true
    []
    []
    [mkSCall "did.Store.store" "Get" []]
    [];
  mkMeth "did.Store.GetDIDByName" true
    []
    [mkCall "did.didNameDataKey" []]
    [mkSCall "did.Store.store" "Get" []]
    [];
  mkMeth "did.Store.GetDIDRecords" true
    []
    [mkCall "did.getDIDName" []]
    [mkSCall "did.Store.store" "Query" []]
    [];
  mkMeth "did.Store.SaveDID" true
    []
    [mkCall "did.Store.GetDIDByName" []; mkCall "did.didNameDataKey" []]
    [mkSCall "did.Store.store" "Put" []; mkSCall "did.Store.store" "Put" []]
    [];
  mkMeth "did.didNameDataKey" false
    []
    []
    []
    [];
  mkMeth "did.getDIDName" false
    []
    []
    []
    [];
  mkMeth "formattedstore.FormattedProvider.Close" true
    []
    []
    [mkSCall "formattedstore.FormattedProvider.provider" "Close" []]
    [];
  mkMeth "formattedstore.FormattedProvider.GetOpenStores" true
    [mkAcc "formattedstore.FormattedProvider.openStores" false []; mkAcc "formattedstore.FormattedProvider.openStores" false [("formattedstore.FormattedProvider.lock", false)]]
    []
    []
    [mkAcq "formattedstore.FormattedProvider.lock" false false []];
  mkMeth "formattedstore.FormattedProvider.GetStoreConfig" true
    [mkAcc "formattedstore.FormattedProvider.openStores" false []]
    [mkCall "formattedstore.FormattedProvider.OpenStore" []]
    []
    [];
  mkMeth "formattedstore.FormattedProvider.OpenStore" true
    []
    [mkCall "formattedstore.FormattedProvider.openStore" [("formattedstore.FormattedProvider.lock", true)]]
    []
    [mkAcq "formattedstore.FormattedProvider.lock" true false []];
  mkMeth "formattedstore.FormattedProvider.SetStoreConfig" true
    []
    [mkCall "formattedstore.FormattedProvider.storeStoreConfig" [("formattedstore.FormattedProvider.lock", true)]]
    [mkSCall "formattedstore.FormattedProvider.formatter" "UsesDeterministicKeyFormatting" []; mkSCall "formattedstore.FormattedProvider.formatter" "Format" []; mkSCall "formattedstore.FormattedProvider.provider" "SetStoreConfig" []]
    [mkAcq "formattedstore.FormattedProvider.lock" true false []];
  mkMeth "formattedstore.FormattedProvider.openStore" false
    [mkAcc "formattedstore.FormattedProvider.openStores" false []; mkAcc "formattedstore.FormattedProvider.openStores" true []]
    []
    [mkSCall "formattedstore.FormattedProvider.provider" "OpenStore" []]
    [];
  mkMeth "formattedstore.FormattedProvider.removeStore" false
    [mkAcc "formattedstore.FormattedProvider.openStores" true [("formattedstore.FormattedProvider.lock", true)]]
    []
    []
    [mkAcq "formattedstore.FormattedProvider.lock" true false []];
  mkMeth "formattedstore.FormattedProvider.storeStoreConfig" false
    []
    [mkCall "formattedstore.FormattedProvider.openStore" []; mkCall "formattedstore.formatStore.Put" []]
    []
    [];
  mkMeth "formattedstore.NewProvider" true
    []
    []
    []
    [];
  mkMeth "formattedstore.ensureNoEmptyKeys" false
    []
    []
    []
    [];
  mkMeth "formattedstore.filterOutKeyTag" false
    []
    []
    []
    [];
  mkMeth "formattedstore.formatStore.Batch" true
    []
    [mkCall "formattedstore.formatStore.generateFormattedOperationsUsingDeterministicKeys" []; mkCall "formattedstore.formatStore.generateFormattedOperationsUsingNonDeterministicKeys" [("formattedstore.formatStore.lock", true)]]
    [mkSCall "formattedstore.formatStore.formatter" "UsesDeterministicKeyFormatting" []; mkSCall "formattedstore.formatStore.underlyingStore" "Batch" [("formattedstore.formatStore.lock?", true)]]
    [mkAcq "formattedstore.formatStore.lock" true false []];
  mkMeth "formattedstore.formatStore.Close" true
    []
    []
    [mkSCall "formattedstore.formatStore.close" "()" []; mkSCall "formattedstore.formatStore.underlyingStore" "Close" []]
    [];
  mkMeth "formattedstore.formatStore.Delete" true
    []
    [mkCall "formattedstore.formatStore.deleteDataStoredUnderDeterministicKey" []; mkCall "formattedstore.formatStore.deleteDataStoredUnderNonDeterministicKey" []]
    [mkSCall "formattedstore.formatStore.formatter" "UsesDeterministicKeyFormatting" []]
    [];
  mkMeth "formattedstore.formatStore.Flush" true
    []
    []
    [mkSCall "formattedstore.formatStore.underlyingStore" "Flush" [("formattedstore.formatStore.lock", true)]]
    [mkAcq "formattedstore.formatStore.lock" true false []];
  mkMeth "formattedstore.formatStore.Get" true
    []
    [mkCall "formattedstore.formatStore.getValueStoredUnderDeterministicKey" []; mkCall "formattedstore.formatStore.lockAndGetValueStoredUnderNonDeterministicKey" []]
    [mkSCall "formattedstore.formatStore.formatter" "UsesDeterministicKeyFormatting" []]
    [];
  mkMeth "formattedstore.formatStore.GetBulk" true
    []
    [mkCall "formattedstore.ensureNoEmptyKeys" []; mkCall "formattedstore.formatStore.getValuesStoredUnderDeterministicKeys" []; mkCall "formattedstore.formatStore.getValuesStoredUnderNonDeterministicKeys" []]
    [mkSCall "formattedstore.formatStore.formatter" "UsesDeterministicKeyFormatting" []]
    [];
  mkMeth "formattedstore.formatStore.GetTags" true
    []
    [mkCall "formattedstore.formatStore.getTagsStoredUnderDeterministicKey" []; mkCall "formattedstore.formatStore.getTagsStoredUnderNonDeterministicKey" []]
    [mkSCall "formattedstore.formatStore.formatter" "UsesDeterministicKeyFormatting" []]
    [];
  mkMeth "formattedstore.formatStore.Put" true
    []
    [mkCall "formattedstore.validatePutInput" []; mkCall "formattedstore.formatStore.formatAndPut" []; mkCall "formattedstore.formatStore.storeUsingNonDeterministicKey" []]
    [mkSCall "formattedstore.formatStore.formatter" "UsesDeterministicKeyFormatting" []]
    [];
  mkMeth "formattedstore.formatStore.Query" true
    []
    [mkCall "formattedstore.formatStore.formatQueryOptions" []]
    [mkSCall "formattedstore.formatStore.formatter" "Format" []; mkSCall "formattedstore.formatStore.underlyingStore" "Query" []; mkSCall "formattedstore.formatStore.formatter" "Format" []; mkSCall "formattedstore.formatStore.underlyingStore" "Query" []]
    [];
  mkMeth "formattedstore.formatStore.createFormattedDeleteOperation" false
    []
    [mkCall "formattedstore.formatStore.determineFormattedKeyToUse" []]
    []
    [];
  mkMeth "formattedstore.formatStore.createFormattedPutOperation" false
    []
    [mkCall "formattedstore.formatStore.determineFormattedKeyToUse" []; mkCall "formattedstore.generateTagsToFormat" []; mkCall "formattedstore.formatStore.createFormattedPutOperationUsingNewFormattedKey" []; mkCall "formattedstore.formatStore.createFormattedPutOperationUsingExistingFormattedKey" []]
    []
    [];
  mkMeth "formattedstore.formatStore.createFormattedPutOperationUsingExistingFormattedKey" false
    []
    []
    [mkSCall "formattedstore.formatStore.formatter" "Format" []]
    [];
  mkMeth "formattedstore.formatStore.createFormattedPutOperationUsingNewFormattedKey" false
    []
    []
    [mkSCall "formattedstore.formatStore.formatter" "Format" []]
    [];
  mkMeth "formattedstore.formatStore.deleteDataStoredUnderDeterministicKey" false
    []
    []
    [mkSCall "formattedstore.formatStore.formatter" "Format" []; mkSCall "formattedstore.formatStore.underlyingStore" "Delete" []]
    [];
  mkMeth "formattedstore.formatStore.deleteDataStoredUnderNonDeterministicKey" false
    []
    [mkCall "formattedstore.formatStore.queryUsingKeyTag" [("formattedstore.formatStore.lock", true)]]
    [mkSCall "formattedstore.formatStore.underlyingStore" "Delete" [("formattedstore.formatStore.lock", true)]]
    [mkAcq "formattedstore.formatStore.lock" true false []];
  mkMeth "formattedstore.formatStore.determineFormattedKeyToUse" false
    []
    [mkCall "formattedstore.getFormattedKeyFromPreviouslyResolvedKeys" []; mkCall "formattedstore.formatStore.getFormattedKeyViaStoreQuery" []]
    []
    [];
  mkMeth "formattedstore.formatStore.formatAndPut" false
    []
    []
    [mkSCall "formattedstore.formatStore.formatter" "Format" []; mkSCall "formattedstore.formatStore.underlyingStore" "Put" []]
    [];
  mkMeth "formattedstore.formatStore.formatQueryOptions" false
    []
    []
    [mkSCall "formattedstore.formatStore.formatter" "Format" []]
    [];
  mkMeth "formattedstore.formatStore.generateFormattedOperationsUsingDeterministicKeys" false
    []
    []
    [mkSCall "formattedstore.formatStore.formatter" "Format" []]
    [];
  mkMeth "formattedstore.formatStore.generateFormattedOperationsUsingNonDeterministicKeys" false
    []
    [mkCall "formattedstore.formatStore.createFormattedDeleteOperation" []; mkCall "formattedstore.formatStore.createFormattedPutOperation" []]
    []
    [];
  mkMeth "formattedstore.formatStore.getFormattedKeyViaStoreQuery" false
    []
    [mkCall "formattedstore.formatStore.queryUsingKeyTag" []]
    []
    [];
  mkMeth "formattedstore.formatStore.getTagsStoredUnderDeterministicKey" false
    []
    []
    [mkSCall "formattedstore.formatStore.formatter" "Format" []; mkSCall "formattedstore.formatStore.underlyingStore" "GetTags" []; mkSCall "formattedstore.formatStore.underlyingStore" "Get" []; mkSCall "formattedstore.formatStore.formatter" "Deformat" []]
    [];
  mkMeth "formattedstore.formatStore.getTagsStoredUnderNonDeterministicKey" false
    []
    [mkCall "formattedstore.formatStore.Query" [("formattedstore.formatStore.lock", false)]; mkCall "formattedstore.filterOutKeyTag" [("formattedstore.formatStore.lock", false)]]
    []
    [mkAcq "formattedstore.formatStore.lock" false false []];
  mkMeth "formattedstore.formatStore.getValueStoredUnderDeterministicKey" false
    []
    []
    [mkSCall "formattedstore.formatStore.formatter" "Format" []; mkSCall "formattedstore.formatStore.underlyingStore" "Get" []; mkSCall "formattedstore.formatStore.formatter" "Deformat" []]
    [];
  mkMeth "formattedstore.formatStore.getValueStoredUnderNonDeterministicKey" false
    []
    [mkCall "formattedstore.formatStore.Query" []]
    []
    [];
  mkMeth "formattedstore.formatStore.getValuesStoredUnderDeterministicKeys" false
    []
    []
    [mkSCall "formattedstore.formatStore.formatter" "Format" []; mkSCall "formattedstore.formatStore.underlyingStore" "GetBulk" []; mkSCall "formattedstore.formatStore.formatter" "Deformat" []]
    [];
  mkMeth "formattedstore.formatStore.getValuesStoredUnderNonDeterministicKeys" false
    []
    [mkCall "formattedstore.formatStore.getValueStoredUnderNonDeterministicKey" [("formattedstore.formatStore.lock", false)]]
    []
    [mkAcq "formattedstore.formatStore.lock" false false []];
  mkMeth "formattedstore.formatStore.lockAndGetValueStoredUnderNonDeterministicKey" false
    []
    [mkCall "formattedstore.formatStore.getValueStoredUnderNonDeterministicKey" [("formattedstore.formatStore.lock", false)]]
    []
    [mkAcq "formattedstore.formatStore.lock" false false []];
  mkMeth "formattedstore.formatStore.queryUsingKeyTag" false
    []
    [mkCall "formattedstore.generateKeyTag" []]
    [mkSCall "formattedstore.formatStore.formatter" "Format" []; mkSCall "formattedstore.formatStore.underlyingStore" "Query" []]
    [];
  mkMeth "formattedstore.formatStore.storeUsingNonDeterministicKey" false
    []
    [mkCall "formattedstore.formatStore.queryUsingKeyTag" [("formattedstore.formatStore.lock", true)]; mkCall "formattedstore.generateKeyTag" [("formattedstore.formatStore.lock", true)]; mkCall "formattedstore.formatStore.formatAndPut" [("formattedstore.formatStore.lock", true)]]
    [mkSCall "formattedstore.formatStore.formatter" "Format" [("formattedstore.formatStore.lock", true)]; mkSCall "formattedstore.formatStore.underlyingStore" "Put" [("formattedstore.formatStore.lock", true)]]
    [mkAcq "formattedstore.formatStore.lock" true false []];
  mkMeth "formattedstore.formattedIterator.Close" true
    []
    []
    [mkSCall "formattedstore.formattedIterator.underlyingIterator" "Close" []]
    [];
  mkMeth "formattedstore.formattedIterator.Key" true
    []
    []
    [mkSCall "formattedstore.formattedIterator.underlyingIterator" "Key" []; mkSCall "formattedstore.formattedIterator.underlyingIterator" "Value" []; mkSCall "formattedstore.formattedIterator.formatter" "Deformat" []]
    [];
  mkMeth "formattedstore.formattedIterator.Next" true
    []
    []
    [mkSCall "formattedstore.formattedIterator.underlyingIterator" "Next" []]
    [];
  mkMeth "formattedstore.formattedIterator.Tags" true
    []
    [mkCall "formattedstore.filterOutKeyTag" []]
    [mkSCall "formattedstore.formattedIterator.underlyingIterator" "Tags" []; mkSCall "formattedstore.formattedIterator.underlyingIterator" "Value" []; mkSCall "formattedstore.formattedIterator.formatter" "UsesDeterministicKeyFormatting" []; mkSCall "formattedstore.formattedIterator.formatter" "Deformat" []; mkSCall "formattedstore.formattedIterator.underlyingIterator" "Key" []; mkSCall "formattedstore.formattedIterator.formatter" "Deformat" []]
    [];
  mkMeth "formattedstore.formattedIterator.TotalItems" true
    []
    []
    [mkSCall "formattedstore.formattedIterator.underlyingIterator" "TotalItems" []]
    [];
  mkMeth "formattedstore.formattedIterator.Value" true
    []
    []
    [mkSCall "formattedstore.formattedIterator.underlyingIterator" "Value" []; mkSCall "formattedstore.formattedIterator.formatter" "Deformat" []]
    [];
  mkMeth "formattedstore.generateKeyTag" false
    []
    []
    []
    [];
  mkMeth "formattedstore.generateTagsToFormat" false
    []
    [mkCall "formattedstore.generateKeyTag" []]
    []
    [];
  mkMeth "formattedstore.getFormattedKeyFromPreviouslyResolvedKeys" false
    []
    []
    []
    [];
  mkMeth "formattedstore.validatePutInput" false
    []
    []
    []
    [];
  mkMeth "leveldb.NewProvider" true
    []
    []
    []
    [];
  mkMeth "leveldb.Provider.Close" true
    [mkAcc "leveldb.Provider.dbs" false [("leveldb.Provider.lock", false)]]
    []
    []
    [mkAcq "leveldb.Provider.lock" false false []];
  mkMeth "leveldb.Provider.GetOpenStores" true
    [mkAcc "leveldb.Provider.dbs" false [("leveldb.Provider.lock", false)]]
    []
    []
    [mkAcq "leveldb.Provider.lock" false false []];
  mkMeth "leveldb.Provider.GetStoreConfig" true
    [mkAcc "leveldb.Provider.dbs" false []]
    []
    []
    [];
  mkMeth "leveldb.Provider.OpenStore" true
    []
    [mkCall "leveldb.Provider.getLeveldbStore" []; mkCall "leveldb.Provider.newLeveldbStore" []]
    []
    [];
  mkMeth "leveldb.Provider.SetStoreConfig" true
    [mkAcc "leveldb.Provider.dbs" false []]
    []
    []
    [];
  mkMeth "leveldb.Provider.getLeveldbStore" false
    [mkAcc "leveldb.Provider.dbs" false [("leveldb.Provider.lock", false)]]
    []
    []
    [mkAcq "leveldb.Provider.lock" false false []];
  mkMeth "leveldb.Provider.newLeveldbStore" false
    [mkAcc "leveldb.Provider.dbs" true [("leveldb.Provider.lock", true)]]
    []
    []
    [mkAcq "leveldb.Provider.lock" true false []];
  mkMeth "leveldb.Provider.removeStore" false
    [mkAcc "leveldb.Provider.dbs" false [("leveldb.Provider.lock", true)]; mkAcc "leveldb.Provider.dbs" true [("leveldb.Provider.lock", true)]]
    []
    []
    [mkAcq "leveldb.Provider.lock" true false []];
  mkMeth "leveldb.checkForUnsupportedQueryOptions" false
    []
    [mkCall "leveldb.getQueryOptions" []]
    []
    [];
  mkMeth "leveldb.getDatabaseKeysMatchingTagName" false
    []
    []
    []
    [];
  mkMeth "leveldb.getQueryOptions" false
    []
    []
    []
    [];
  mkMeth "leveldb.iterator.Close" true
    []
    []
    []
    [];
  mkMeth "leveldb.iterator.Key" true
    [mkAcc "leveldb.iterator.currentKey" false []]
    []
    []
    [];
  mkMeth "leveldb.iterator.Next" true
    [mkAcc "leveldb.iterator.currentIndex" false []; mkAcc "leveldb.iterator.currentKey" true []; mkAcc "leveldb.iterator.currentIndex" true []]
    []
    []
    [];
  mkMeth "leveldb.iterator.Tags" true
    [mkAcc "leveldb.iterator.currentKey" false []]
    []
    [mkSCall "leveldb.iterator.store" "GetTags" []]
    [];
  mkMeth "leveldb.iterator.TotalItems" true
    []
    []
    []
    [];
  mkMeth "leveldb.iterator.Value" true
    [mkAcc "leveldb.iterator.currentKey" false []]
    []
    [mkSCall "leveldb.iterator.store" "Get" []]
    [];
  mkMeth "leveldb.store.Batch" true
    [mkAcc "leveldb.dbEntry.Value" false []; mkAcc "leveldb.dbEntry.Tags" false []]
    [mkCall "leveldb.store.Delete" []; mkCall "leveldb.store.Put" []]
    []
    [];
  mkMeth "leveldb.store.Close" true
    []
    []
    [mkSCall "leveldb.store.close" "()" []; mkSCall "leveldb.store.db" "Close" []]
    [];
  mkMeth "leveldb.store.Delete" true
    []
    [mkCall "leveldb.store.removeFromTagMap" []]
    [mkSCall "leveldb.store.db" "Delete" []]
    [];
  mkMeth "leveldb.store.Flush" true
    []
    []
    []
    [];
  mkMeth "leveldb.store.Get" true
    [mkAcc "leveldb.dbEntry.Value" false []]
    [mkCall "leveldb.store.getDBEntry" []]
    []
    [];
  mkMeth "leveldb.store.GetBulk" true
    []
    [mkCall "leveldb.store.Get" []]
    []
    [];
  mkMeth "leveldb.store.GetTags" true
    [mkAcc "leveldb.dbEntry.Tags" false []]
    [mkCall "leveldb.store.getDBEntry" []]
    []
    [];
  mkMeth "leveldb.store.Put" true
    [mkAcc "leveldb.dbEntry.Value" false []; mkAcc "leveldb.dbEntry.Value" true []; mkAcc "leveldb.dbEntry.Tags" true []]
    [mkCall "leveldb.store.updateTagMap" []]
    [mkSCall "leveldb.store.db" "Put" []]
    [];
  mkMeth "leveldb.store.Query" true
    []
    [mkCall "leveldb.checkForUnsupportedQueryOptions" []; mkCall "leveldb.store.getDatabaseKeysMatchingQuery" []]
    []
    [];
  mkMeth "leveldb.store.getDBEntry" false
    []
    []
    [mkSCall "leveldb.store.db" "Get" []]
    [];
  mkMeth "leveldb.store.getDatabaseKeysMatchingQuery" false
    []
    [mkCall "leveldb.store.getTagMap" []; mkCall "leveldb.getDatabaseKeysMatchingTagName" []; mkCall "leveldb.store.getDatabaseKeysMatchingTagNameAndValue" []]
    []
    [];
  mkMeth "leveldb.store.getDatabaseKeysMatchingTagNameAndValue" false
    [mkAcc "leveldb.dbEntry.Value" false []]
    [mkCall "leveldb.store.GetTags" []]
    []
    [];
  mkMeth "leveldb.store.getTagMap" false
    []
    [mkCall "leveldb.store.Get" []; mkCall "leveldb.store.Put" []]
    []
    [];
  mkMeth "leveldb.store.removeFromTagMap" false
    []
    [mkCall "leveldb.store.getTagMap" [("leveldb.store.lock", true)]; mkCall "leveldb.store.Put" [("leveldb.store.lock", true)]]
    []
    [mkAcq "leveldb.store.lock" true false []];
  mkMeth "leveldb.store.updateTagMap" false
    []
    [mkCall "leveldb.store.getTagMap" [("leveldb.store.lock", true)]; mkCall "leveldb.store.Put" [("leveldb.store.lock", true)]]
    []
    [mkAcq "leveldb.store.lock" true false []];
  mkMeth "localkms.LocalKMS.Create" true
    []
    [mkCall "localkms.LocalKMS.storeKeySet" []]
    []
    [];
  mkMeth "localkms.LocalKMS.CreateAndExportPubKeyBytes" true
    []
    [mkCall "localkms.LocalKMS.Create" []; mkCall "localkms.LocalKMS.ExportPubKeyBytes" []]
    []
    [];
  mkMeth "localkms.LocalKMS.ExportPubKeyBytes" true
    []
    [mkCall "localkms.LocalKMS.getKeySet" []; mkCall "localkms.LocalKMS.exportPubKeyBytes" []; mkCall "localkms.setKIDForCompositeKey" []]
    []
    [];
  mkMeth "localkms.LocalKMS.Get" true
    []
    [mkCall "localkms.LocalKMS.getKeySet" []]
    []
    [];
  mkMeth "localkms.LocalKMS.HealthCheck" true
    []
    []
    []
    [];
  mkMeth "localkms.LocalKMS.ImportPrivateKey" true
    []
    [mkCall "localkms.LocalKMS.importECDSAKey" []; mkCall "localkms.LocalKMS.importEd25519Key" []; mkCall "localkms.LocalKMS.importBBSKey" []]
    []
    [];
  mkMeth "localkms.LocalKMS.PubKeyBytesToHandle" true
    []
    []
    []
    [];
  mkMeth "localkms.LocalKMS.Rotate" true
    []
    [mkCall "localkms.LocalKMS.getKeySet" []; mkCall "localkms.LocalKMS.storeKeySet" []]
    [mkSCall "localkms.LocalKMS.store" "Delete" []]
    [];
  mkMeth "localkms.LocalKMS.buildAndImportECDSAPrivateKeyAsECDHKW" false
    []
    [mkCall "localkms.LocalKMS.importKeySet" []]
    []
    [];
  mkMeth "localkms.LocalKMS.exportPubKeyBytes" false
    []
    []
    []
    [];
  mkMeth "localkms.LocalKMS.generateKID" false
    []
    [mkCall "localkms.LocalKMS.exportPubKeyBytes" []]
    []
    [];
  mkMeth "localkms.LocalKMS.getKeySet" false
    []
    []
    []
    [];
  mkMeth "localkms.LocalKMS.importBBSKey" false
    []
    [mkCall "localkms.newProtoBBSPrivateKey" []; mkCall "localkms.LocalKMS.importKeySet" []]
    []
    [];
  mkMeth "localkms.LocalKMS.importECDSAKey" false
    []
    [mkCall "localkms.validECPrivateKey" []; mkCall "localkms.LocalKMS.buildAndImportECDSAPrivateKeyAsECDHKW" []; mkCall "localkms.LocalKMS.importSecp256K1Key" []; mkCall "localkms.LocalKMS.importSecp256K1Key" []; mkCall "localkms.getMarshalledECDSAPrivateKey" []; mkCall "localkms.LocalKMS.importKeySet" []]
    []
    [];
  mkMeth "localkms.LocalKMS.importEd25519Key" false
    []
    [mkCall "localkms.newProtoEd25519PrivateKey" []; mkCall "localkms.LocalKMS.importKeySet" []]
    []
    [];
  mkMeth "localkms.LocalKMS.importKeySet" false
    []
    [mkCall "localkms.LocalKMS.importedKeyID" []; mkCall "localkms.LocalKMS.writeImportedKey" []; mkCall "localkms.LocalKMS.getKeySet" []]
    []
    [];
  mkMeth "localkms.LocalKMS.importSecp256K1Key" false
    []
    [mkCall "localkms.getMarshalledECDSASecp256K1PrivateKey" []; mkCall "localkms.LocalKMS.importKeySet" []]
    []
    [];
  mkMeth "localkms.LocalKMS.importedKeyID" false
    []
    [mkCall "localkms.LocalKMS.exportPubKeyBytes" []]
    []
    [];
  mkMeth "localkms.LocalKMS.storeKeySet" false
    []
    [mkCall "localkms.LocalKMS.generateKID" []; mkCall "localkms.writeToStore" []; mkCall "localkms.writeToStore" []]
    []
    [];
  mkMeth "localkms.LocalKMS.writeImportedKey" false
    []
    [mkCall "localkms.getKeysetInfo" []; mkCall "localkms.writeToStore" []]
    [mkSCall "localkms.LocalKMS.primaryKeyEnvAEAD" "Encrypt" []]
    [];
  mkMeth "localkms.New" true
    []
    []
    []
    [];
  mkMeth "localkms.buidBBSParams" false
    []
    []
    []
    [];
  mkMeth "localkms.buidCLCredDefParams" false
    []
    []
    []
    [];
  mkMeth "localkms.getKeyInfo" false
    []
    []
    []
    [];
  mkMeth "localkms.getKeysetInfo" false
    []
    [mkCall "localkms.getKeyInfo" []]
    []
    [];
  mkMeth "localkms.getMarshalledECDSAPrivateKey" false
    []
    [mkCall "localkms.newProtoECDSAPrivateKey" []]
    []
    [];
  mkMeth "localkms.getMarshalledECDSASecp256K1PrivateKey" false
    []
    [mkCall "localkms.newProtoECDSASecp256K1PrivateKey" []]
    []
    [];
  mkMeth "localkms.newProtoBBSPrivateKey" false
    []
    []
    []
    [];
  mkMeth "localkms.newProtoECDSAPrivateKey" false
    []
    []
    []
    [];
  mkMeth "localkms.newProtoECDSASecp256K1PrivateKey" false
    []
    []
    []
    [];
  mkMeth "localkms.newProtoEd25519PrivateKey" false
    []
    []
    []
    [];
  mkMeth "localkms.newWriter" false
    []
    []
    []
    [];
  mkMeth "localkms.setKIDForCompositeKey" false
    []
    []
    []
    [];
  mkMeth "localkms.storeWriter.Write" true
    [mkAcc "localkms.storeWriter.KeysetID" true []]
    [mkCall "localkms.storeWriter.verifyRequestedID" []; mkCall "localkms.storeWriter.newKeysetID" []]
    [mkSCall "localkms.storeWriter.storage" "Put" []]
    [];
  mkMeth "localkms.storeWriter.newKeysetID" false
    []
    []
    [mkSCall "localkms.storeWriter.storage" "Get" []]
    [];
  mkMeth "localkms.storeWriter.verifyRequestedID" false
    []
    []
    [mkSCall "localkms.storeWriter.storage" "Get" []]
    [];
  mkMeth "localkms.validECPrivateKey" false
    []
    []
    []
    [];
  mkMeth "localkms.writeToStore" false
    [mkAcc "localkms.storeWriter.KeysetID" false []]
    [mkCall "localkms.newWriter" []; mkCall "localkms.storeWriter.Write" []]
    []
    [];
  mkMeth "mem.NewProvider" true
    []
    []
    []
    [];
  mkMeth "mem.Provider.Close" true
    [mkAcc "mem.Provider.dbs" true [("mem.Provider.lock", true)]]
    []
    []
    [mkAcq "mem.Provider.lock" true false []];
  mkMeth "mem.Provider.GetOpenStores" true
    [mkAcc "mem.Provider.dbs" false [("mem.Provider.lock", false)]]
    []
    []
    [mkAcq "mem.Provider.lock" false false []];
  mkMeth "mem.Provider.GetStoreConfig" true
    [mkAcc "mem.Provider.dbs" false []; mkAcc "mem.memStore.config" false []]
    []
    []
    [];
  mkMeth "mem.Provider.OpenStore" true
    [mkAcc "mem.Provider.dbs" false [("mem.Provider.lock", true)]; mkAcc "mem.Provider.dbs" true [("mem.Provider.lock", true)]]
    []
    []
    [mkAcq "mem.Provider.lock" true false []];
  mkMeth "mem.Provider.Ping" true
    []
    []
    []
    [];
  mkMeth "mem.Provider.SetStoreConfig" true
    [mkAcc "mem.Provider.dbs" false [("mem.Provider.lock", true)]; mkAcc "mem.memStore.config" true [("mem.Provider.lock", true)]]
    []
    []
    [mkAcq "mem.Provider.lock" true false []];
  mkMeth "mem.Provider.removeStore" false
    [mkAcc "mem.Provider.dbs" false [("mem.Provider.lock", true)]; mkAcc "mem.Provider.dbs" true [("mem.Provider.lock", true)]]
    []
    []
    [mkAcq "mem.Provider.lock" true false []];
  mkMeth "mem.checkForUnsupportedQueryOptions" false
    []
    [mkCall "mem.getQueryOptions" []]
    []
    [];
  mkMeth "mem.commonDBEntries" false
    []
    []
    []
    [];
  mkMeth "mem.getQueryOptions" false
    []
    []
    []
    [];
  mkMeth "mem.memIterator.Close" true
    []
    []
    []
    [];
  mkMeth "mem.memIterator.Key" true
    [mkAcc "mem.memIterator.dbEntries" false []; mkAcc "mem.memIterator.currentKey" false []]
    []
    []
    [];
  mkMeth "mem.memIterator.Next" true
    [mkAcc "mem.memIterator.dbEntries" false []; mkAcc "mem.memIterator.currentIndex" false []; mkAcc "mem.memIterator.dbEntries" true []; mkAcc "mem.memIterator.currentKey" true []; mkAcc "mem.memIterator.currentDBEntry" true []; mkAcc "mem.memIterator.currentIndex" true []]
    []
    []
    [];
  mkMeth "mem.memIterator.Tags" true
    [mkAcc "mem.memIterator.dbEntries" false []; mkAcc "mem.memIterator.currentDBEntry" false []]
    []
    []
    [];
  mkMeth "mem.memIterator.TotalItems" true
    []
    []
    []
    [];
  mkMeth "mem.memIterator.Value" true
    [mkAcc "mem.memIterator.dbEntries" false []; mkAcc "mem.memIterator.currentDBEntry" false []]
    []
    []
    [];
  mkMeth "mem.memStore.Batch" true
    [mkAcc "mem.memStore.db" true [("mem.memStore.RWMutex", true)]]
    []
    []
    [mkAcq "mem.memStore.RWMutex" true false []];
  mkMeth "mem.memStore.Close" true
    []
    []
    [mkSCall "mem.memStore.close" "()" []]
    [];
  mkMeth "mem.memStore.Delete" true
    [mkAcc "mem.memStore.db" true [("mem.memStore.RWMutex", true)]]
    []
    []
    [mkAcq "mem.memStore.RWMutex" true false []];
  mkMeth "mem.memStore.Flush" true
    []
    []
    []
    [];
  mkMeth "mem.memStore.Get" true
    [mkAcc "mem.memStore.db" false [("mem.memStore.RWMutex", false)]]
    []
    []
    [mkAcq "mem.memStore.RWMutex" false false []];
  mkMeth "mem.memStore.GetBulk" true
    [mkAcc "mem.memStore.db" false [("mem.memStore.RWMutex", false)]]
    []
    []
    [mkAcq "mem.memStore.RWMutex" false false []];
  mkMeth "mem.memStore.GetTags" true
    [mkAcc "mem.memStore.db" false [("mem.memStore.RWMutex", false)]]
    []
    []
    [mkAcq "mem.memStore.RWMutex" false false []];
  mkMeth "mem.memStore.Put" true
    [mkAcc "mem.memStore.db" true [("mem.memStore.RWMutex", true)]]
    []
    []
    [mkAcq "mem.memStore.RWMutex" true false []];
  mkMeth "mem.memStore.Query" true
    []
    [mkCall "mem.checkForUnsupportedQueryOptions" []; mkCall "mem.memStore.getMatchingKeysAndDBEntries" []; mkCall "mem.memStore.getMatchingKeysAndDBEntries" []; mkCall "mem.commonDBEntries" []]
    []
    [];
  mkMeth "mem.memStore.getMatchingKeysAndDBEntries" false
    [mkAcc "mem.memStore.db" false [("mem.memStore.RWMutex", false)]]
    []
    []
    [mkAcq "mem.memStore.RWMutex" false false []];
  mkMeth "messagepickup.New" true
    []
    []
    []
    [];
  mkMeth "messagepickup.Service.Accept" true
    []
    []
    []
    [];
  mkMeth "messagepickup.Service.AddMessage" true
    [mkAcc "messagepickup.inbox.LastDeliveredTime" true [("messagepickup.Service.inboxLock", true)]; mkAcc "messagepickup.inbox.LastRemovedTime" true [("messagepickup.Service.inboxLock", true)]; mkAcc "messagepickup.inbox.LastDeliveredTime" false [("messagepickup.Service.inboxLock", true)]]
    [mkCall "messagepickup.Service.createInbox" [("messagepickup.Service.inboxLock", true)]; mkCall "messagepickup.inbox.DecodeMessages" [("messagepickup.Service.inboxLock", true)]; mkCall "messagepickup.inbox.EncodeMessages" [("messagepickup.Service.inboxLock", true)]; mkCall "messagepickup.Service.putInbox" [("messagepickup.Service.inboxLock", true)]]
    []
    [mkAcq "messagepickup.Service.inboxLock" true false []];
  mkMeth "messagepickup.Service.BatchPickup" true
    [mkAcc "messagepickup.Service.outbound" false []; mkAcc "messagepickup.inbox.Messages" false []]
    [mkCall "messagepickup.Service.getConnection" []; mkCall "messagepickup.Service.setBatchCh" []; mkCall "messagepickup.Service.setBatchCh" []; mkCall "messagepickup.Service.handle" []]
    [mkSCall "messagepickup.Service.outbound" "SendToDID" []]
    [];
  mkMeth "messagepickup.Service.HandleInbound" true
    []
    [mkCall "messagepickup.Service.handleStatus" []; mkCall "messagepickup.Service.handleStatusRequest" []; mkCall "messagepickup.Service.handleBatchPickup" []; mkCall "messagepickup.Service.handleBatch" []; mkCall "messagepickup.Service.handleNoop" []]
    []
    [];
  mkMeth "messagepickup.Service.HandleOutbound" true
    []
    []
    []
    [];
  mkMeth "messagepickup.Service.Initialize" true
    [mkAcc "messagepickup.Service.initialized" false []; mkAcc "messagepickup.Service.outbound" true []; mkAcc "messagepickup.Service.msgStore" true []; mkAcc "messagepickup.Service.connectionLookup" true []; mkAcc "messagepickup.Service.packager" true []; mkAcc "messagepickup.Service.msgHandler" true []; mkAcc "messagepickup.Service.batchMap" true []; mkAcc "messagepickup.Service.statusMap" true []; mkAcc "messagepickup.Service.initialized" true []]
    []
    []
    [];
  mkMeth "messagepickup.Service.Name" true
    []
    []
    []
    [];
  mkMeth "messagepickup.Service.Noop" true
    [mkAcc "messagepickup.Service.outbound" false []]
    [mkCall "messagepickup.Service.getConnection" []]
    [mkSCall "messagepickup.Service.outbound" "SendToDID" []]
    [];
  mkMeth "messagepickup.Service.StatusRequest" true
    [mkAcc "messagepickup.Service.outbound" false []]
    [mkCall "messagepickup.Service.getConnection" []; mkCall "messagepickup.Service.setStatusCh" []; mkCall "messagepickup.Service.setStatusCh" []]
    [mkSCall "messagepickup.Service.outbound" "SendToDID" []]
    [];
  mkMeth "messagepickup.Service.createInbox" false
    [mkAcc "messagepickup.Service.msgStore" false []]
    [mkCall "messagepickup.Service.getInbox" []]
    [mkSCall "messagepickup.Service.msgStore" "Put" []]
    [];
  mkMeth "messagepickup.Service.getBatchCh" false
    [mkAcc "messagepickup.Service.batchMap" false [("messagepickup.Service.batchMapLock", false)]]
    []
    []
    [mkAcq "messagepickup.Service.batchMapLock" false false []];
  mkMeth "messagepickup.Service.getConnection" false
    [mkAcc "messagepickup.Service.connectionLookup" false []]
    []
    [mkSCall "messagepickup.Service.connectionLookup" "GetConnectionRecord" []]
    [];
  mkMeth "messagepickup.Service.getInbox" false
    [mkAcc "messagepickup.Service.msgStore" false []]
    []
    [mkSCall "messagepickup.Service.msgStore" "Get" []]
    [];
  mkMeth "messagepickup.Service.getStatusCh" false
    [mkAcc "messagepickup.Service.statusMap" false [("messagepickup.Service.statusMapLock", false)]]
    []
    []
    [mkAcq "messagepickup.Service.statusMapLock" false false []];
  mkMeth "messagepickup.Service.handle" false
    [mkAcc "messagepickup.Service.packager" false []; mkAcc "messagepickup.Service.msgHandler" false []]
    []
    [mkSCall "messagepickup.Service.packager" "UnpackMessage" []]
    [];
  mkMeth "messagepickup.Service.handleBatch" false
    []
    [mkCall "messagepickup.Service.getBatchCh" []]
    []
    [];
  mkMeth "messagepickup.Service.handleBatchPickup" false
    [mkAcc "messagepickup.inbox.LastDeliveredTime" true [("messagepickup.Service.inboxLock", true)]; mkAcc "messagepickup.inbox.LastRemovedTime" true [("messagepickup.Service.inboxLock", true)]; mkAcc "messagepickup.Service.outbound" false [("messagepickup.Service.inboxLock", true)]]
    [mkCall "messagepickup.Service.getInbox" [("messagepickup.Service.inboxLock", true)]; mkCall "messagepickup.inbox.DecodeMessages" [("messagepickup.Service.inboxLock", true)]; mkCall "messagepickup.inbox.EncodeMessages" [("messagepickup.Service.inboxLock", true)]; mkCall "messagepickup.Service.putInbox" [("messagepickup.Service.inboxLock", true)]; mkCall "messagepickup.inbox.EncodeMessages" [("messagepickup.Service.inboxLock", true)]; mkCall "messagepickup.Service.putInbox" [("messagepickup.Service.inboxLock", true)]]
    [mkSCall "messagepickup.Service.outbound" "SendToDID" [("messagepickup.Service.inboxLock", true)]]
    [mkAcq "messagepickup.Service.inboxLock" true false []];
  mkMeth "messagepickup.Service.handleNoop" false
    []
    []
    []
    [];
  mkMeth "messagepickup.Service.handleStatus" false
    []
    [mkCall "messagepickup.Service.getStatusCh" []]
    []
    [];
  mkMeth "messagepickup.Service.handleStatusRequest" false
    [mkAcc "messagepickup.inbox.MessageCount" false [("messagepickup.Service.inboxLock", true)]; mkAcc "messagepickup.inbox.LastDeliveredTime" false [("messagepickup.Service.inboxLock", true)]; mkAcc "messagepickup.inbox.LastRemovedTime" false [("messagepickup.Service.inboxLock", true)]; mkAcc "messagepickup.inbox.TotalSize" false [("messagepickup.Service.inboxLock", true)]; mkAcc "messagepickup.Service.outbound" false [("messagepickup.Service.inboxLock", true)]]
    [mkCall "messagepickup.Service.getInbox" [("messagepickup.Service.inboxLock", true)]]
    [mkSCall "messagepickup.Service.outbound" "SendToDID" [("messagepickup.Service.inboxLock", true)]]
    [mkAcq "messagepickup.Service.inboxLock" true false []];
  mkMeth "messagepickup.Service.putInbox" false
    [mkAcc "messagepickup.Service.msgStore" false []]
    []
    [mkSCall "messagepickup.Service.msgStore" "Put" []]
    [];
  mkMeth "messagepickup.Service.setBatchCh" false
    [mkAcc "messagepickup.Service.batchMap" true [("messagepickup.Service.batchMapLock", true)]]
    []
    []
    [mkAcq "messagepickup.Service.batchMapLock" true false []];
  mkMeth "messagepickup.Service.setStatusCh" false
    [mkAcc "messagepickup.Service.statusMap" true [("messagepickup.Service.statusMapLock", true)]]
    []
    []
    [mkAcq "messagepickup.Service.statusMapLock" true false []];
  mkMeth "messagepickup.inbox.DecodeMessages" true
    [mkAcc "messagepickup.inbox.Messages" false []]
    []
    []
    [];
  mkMeth "messagepickup.inbox.EncodeMessages" true
    [mkAcc "messagepickup.inbox.Messages" true []; mkAcc "messagepickup.inbox.MessageCount" true []; mkAcc "messagepickup.inbox.TotalSize" true []]
    []
    []
    [];
  mkMeth "service.Action.ActionEvent" true
    [mkAcc "service.Action.event" false [("service.Action.mu", false)]]
    []
    []
    [mkAcq "service.Action.mu" false false []];
  mkMeth "service.Action.RegisterActionEvent" true
    [mkAcc "service.Action.event" false [("service.Action.mu", true)]; mkAcc "service.Action.event" true [("service.Action.mu", true)]]
    []
    []
    [mkAcq "service.Action.mu" true false []];
  mkMeth "service.Action.UnregisterActionEvent" true
    [mkAcc "service.Action.event" false [("service.Action.mu", true)]; mkAcc "service.Action.event" true [("service.Action.mu", true)]]
    []
    []
    [mkAcq "service.Action.mu" true false []];
  mkMeth "service.Message.MsgEvents" true
    [mkAcc "service.Message.events" false [("service.Message.mu", false)]]
    []
    []
    [mkAcq "service.Message.mu" false false []];
  mkMeth "service.Message.RegisterMsgEvent" true
    [mkAcc "service.Message.events" true [("service.Message.mu", true)]; mkAcc "service.Message.events" false [("service.Message.mu", true)]]
    []
    []
    [mkAcq "service.Message.mu" true false []];
  mkMeth "service.Message.UnregisterMsgEvent" true
    [mkAcc "service.Message.events" false [("service.Message.mu", true)]; mkAcc "service.Message.events" true [("service.Message.mu", true)]]
    []
    []
    [mkAcq "service.Message.mu" true false []];
  mkMeth "wallet.ContentType.IsValid" true
    []
    []
    []
    [];
  mkMeth "wallet.ContentType.Name" true
    []
    []
    []
    [];
  mkMeth "wallet.contentStore.Close" true
    [mkAcc "wallet.contentStore.close" false [("wallet.contentStore.lock", true)]; mkAcc "wallet.contentStore.open" true [("wallet.contentStore.lock", true)]; mkAcc "wallet.contentStore.close" true [("wallet.contentStore.lock", true)]]
    [mkCall "wallet.storeManager" [("wallet.contentStore.lock", true)]]
    []
    [mkAcq "wallet.contentStore.lock" true false []];
  mkMeth "wallet.contentStore.Get" true
    [mkAcc "wallet.contentStore.open" false [("wallet.contentStore.lock", false)]]
    [mkCall "wallet.getContentKeyPrefix" [("wallet.contentStore.lock", false)]]
    []
    [mkAcq "wallet.contentStore.lock" false false []];
  mkMeth "wallet.contentStore.GetAll" true
    [mkAcc "wallet.contentStore.open" false [("wallet.contentStore.lock", false)]]
    [mkCall "wallet.removeKeyPrefix" [("wallet.contentStore.lock", false)]]
    []
    [mkAcq "wallet.contentStore.lock" false false []];
  mkMeth "wallet.contentStore.GetAllByCollection" true
    [mkAcc "wallet.contentStore.open" false [("wallet.contentStore.lock", false)]]
    [mkCall "wallet.removeCollectionMappingKeyPrefix" [("wallet.contentStore.lock", false)]; mkCall "wallet.getContentKeyPrefix" [("wallet.contentStore.lock", false)]]
    []
    [mkAcq "wallet.contentStore.lock" false false []];
  mkMeth "wallet.contentStore.Open" true
    []
    [mkCall "wallet.storeManager" []; mkCall "wallet.contentStore.updateStoreHandles" [("wallet.contentStore.lock", true)]]
    [mkSCall "wallet.contentStore.provider" "OpenStore" []]
    [mkAcq "wallet.contentStore.lock" true false []];
  mkMeth "wallet.contentStore.Remove" true
    [mkAcc "wallet.contentStore.open" false [("wallet.contentStore.lock", false)]]
    [mkCall "wallet.getCollectionMappingKeyPrefix" [("wallet.contentStore.lock", false)]; mkCall "wallet.getContentKeyPrefix" [("wallet.contentStore.lock", false)]]
    []
    [mkAcq "wallet.contentStore.lock" false false []];
  mkMeth "wallet.contentStore.Save" true
    []
    [mkCall "wallet.contentStore.checkDataModel" []; mkCall "wallet.getContentID" []; mkCall "wallet.contentStore.mapCollection" []; mkCall "wallet.contentStore.safeSave" []; mkCall "wallet.getContentKeyPrefix" []; mkCall "wallet.contentStore.mapCollection" []; mkCall "wallet.contentStore.safeSave" []; mkCall "wallet.getContentKeyPrefix" []; mkCall "wallet.contentStore.checkDataModel" []; mkCall "wallet.saveKey" []]
    []
    [];
  mkMeth "wallet.contentStore.checkDataModel" false
    []
    []
    []
    [];
  mkMeth "wallet.contentStore.mapCollection" false
    [mkAcc "wallet.contentStore.open" false [("wallet.contentStore.lock", false)]]
    [mkCall "wallet.getContentKeyPrefix" [("wallet.contentStore.lock", false)]; mkCall "wallet.getCollectionMappingKeyPrefix" [("wallet.contentStore.lock", false)]]
    []
    [mkAcq "wallet.contentStore.lock" false false []];
  mkMeth "wallet.contentStore.safeSave" false
    [mkAcc "wallet.contentStore.open" false [("wallet.contentStore.lock", false)]]
    []
    []
    [mkAcq "wallet.contentStore.lock" false false []];
  mkMeth "wallet.contentStore.updateStoreHandles" false
    [mkAcc "wallet.contentStore.open" true []; mkAcc "wallet.contentStore.close" true []]
    [mkCall "wallet.sessionManager" []]
    []
    [];
  mkMeth "wallet.getCollectionMappingKeyPrefix" false
    []
    []
    []
    [];
  mkMeth "wallet.getContentID" false
    []
    [mkCall "wallet.getJWTContentID" []]
    []
    [];
  mkMeth "wallet.getContentKeyPrefix" false
    []
    []
    []
    [];
  mkMeth "wallet.getJWTContentID" false
    []
    [mkCall "wallet.unQuote" []]
    []
    [];
  mkMeth "wallet.newContentBasedVDR" false
    []
    []
    []
    [];
  mkMeth "wallet.newContentStore" false
    []
    []
    []
    [];
  mkMeth "wallet.removeCollectionMappingKeyPrefix" false
    []
    []
    []
    [];
  mkMeth "wallet.removeKeyPrefix" false
    []
    []
    []
    [];
  mkMeth "wallet.saveKey" false
    []
    []
    []
    [];
  mkMeth "wallet.sessionManager" false
    []
    []
    []
    [];
  mkMeth "wallet.storeManager" false
    []
    []
    []
    [];
  mkMeth "wallet.unQuote" false
    []
    []
    []
    [];
  mkMeth "wallet.walletSessionManager.closeSession" false
    []
    []
    [mkSCall "wallet.walletSessionManager.gstore" "GetALL" [("wallet.walletSessionManager.mu", true)]; mkSCall "wallet.walletSessionManager.gstore" "Remove" [("wallet.walletSessionManager.mu", true)]]
    [mkAcq "wallet.walletSessionManager.mu" true false []];
  mkMeth "wallet.walletSessionManager.createSession" false
    []
    [mkCall "wallet.walletSessionManager.generateToken" [("wallet.walletSessionManager.mu", true)]]
    [mkSCall "wallet.walletSessionManager.gstore" "GetALL" [("wallet.walletSessionManager.mu", true)]; mkSCall "wallet.walletSessionManager.gstore" "Has" [("wallet.walletSessionManager.mu", true)]; mkSCall "wallet.walletSessionManager.gstore" "SetWithExpire" [("wallet.walletSessionManager.mu", true)]]
    [mkAcq "wallet.walletSessionManager.mu" true false []];
  mkMeth "wallet.walletSessionManager.generateToken" false
    []
    []
    []
    [];
  mkMeth "wallet.walletSessionManager.getSession" false
    []
    []
    [mkSCall "wallet.walletSessionManager.gstore" "Get" []; mkSCall "wallet.walletSessionManager.gstore" "SetWithExpire" []]
    [];
  mkMeth "wallet.walletSessionManager.ownedByOther" false
    []
    []
    [mkSCall "wallet.walletSessionManager.gstore" "Get" []]
    [];
  mkMeth "wallet.walletStoreManager.delete" false
    []
    []
    [mkSCall "wallet.walletStoreManager.gstore" "Remove" []]
    [];
  mkMeth "wallet.walletStoreManager.get" false
    []
    []
    [mkSCall "wallet.walletStoreManager.gstore" "Get" []]
    [];
  mkMeth "wallet.walletStoreManager.persist" false
    []
    []
    [mkSCall "wallet.walletStoreManager.gstore" "SetWithExpire" []]
    [];
  mkMeth "wallet.walletVDR.Resolve" true
    []
    []
    [mkSCall "wallet.walletVDR.contents" "Get" []]
    [];
  mkMeth "wallet.wrapSessionError" false
    []
    []
    []
    [];
  mkMeth "ws.checkKeyAgreementIDs" false
    []
    [mkCall "ws.didCommV1PeerDoc" []; mkCall "ws.didCommV2PeerDoc" []; mkCall "ws.docKeyAgreementIDs" []]
    []
    [];
  mkMeth "ws.connPool.add" false
    [mkAcc "ws.connPool.connMap" true [("ws.connPool.RWMutex", true)]]
    []
    []
    [mkAcq "ws.connPool.RWMutex" true false []];
  mkMeth "ws.connPool.addKey" false
    []
    [mkCall "ws.connPool.add" []; mkCall "ws.checkKeyAgreementIDs" []; mkCall "ws.connPool.add" []]
    []
    [];
  mkMeth "ws.connPool.close" false
    []
    [mkCall "ws.connPool.remove" []]
    []
    [];
  mkMeth "ws.connPool.fetch" false
    [mkAcc "ws.connPool.connMap" false [("ws.connPool.RWMutex", false)]]
    []
    []
    [mkAcq "ws.connPool.RWMutex" false false []];
  mkMeth "ws.connPool.listener" false
    []
    [mkCall "ws.connPool.close" []; mkCall "ws.connPool.addKey" []]
    []
    [];
  mkMeth "ws.connPool.remove" false
    [mkAcc "ws.connPool.connMap" true [("ws.connPool.RWMutex", true)]]
    []
    []
    [mkAcq "ws.connPool.RWMutex" true false []];
  mkMeth "ws.didCommV1PeerDoc" false
    []
    []
    []
    [];
  mkMeth "ws.didCommV2PeerDoc" false
    []
    []
    []
    [];
  mkMeth "ws.docKeyAgreementIDs" false
    []
    []
    []
    [];
  mkMeth "ws.getConnPool" false
    []
    []
    []
    []
].

(* channel sends as found (before edbed14 / 947cb2a): plain sends *)
Definition chan_sends : list (string * string * bool) := [
  ("mediator.Service.handleKeylistUpdateResponse", "keylistUpdateCh", false);
  ("messagepickup.Service.handleStatus", "statusCh", false);
  ("messagepickup.Service.handleBatch", "batchCh", false)
].
