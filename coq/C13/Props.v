(* C13 — property theorems only. *)
From Coq Require Import List NArith ZArith Bool.
Import ListNotations.
From VF Require Import common.Lin C13.Model C13.Proofs C13.Corr.
Local Open Scope N_scope.

(* Every component whose operations are each ONE atomic step of a sequential machine (one critical section of one
   mutex around every access to the shared state — the obligation [lock_table_ok] checks that on the source) is
   linearizable: for EVERY number of goroutines, EVERY list of operations per goroutine, EVERY schedule (also unfair
   and unfinished ones), from EVERY initial state, the recorded invoke/return trace has a sequential order, legal for
   the machine, that contains every returned operation with the result it returned and respects real time. *)
Theorem atomic_component_linearizable :
  forall (S op out : Type) (sstep : S -> op -> S * out) (s0 : S) (threads : list (list op)) (sched : list nat),
    lin_strong S op out sstep s0 (tr (exec (atomic_prog sstep) (start s0 threads) sched)).
Proof. exact atomic_lin. Qed.
Print Assumptions atomic_component_linearizable.
