(* C13 — property theorems only. *)
From Coq Require Import List NArith ZArith Bool String.
Import ListNotations.
From VF Require Import C11.Proofs C11.ProofsR C11.ProofsS.
From VF Require Import common.Lin C13.Model C13.Proofs C13.Corr C13.Table C13.ProofsC C13.ProofsD C13.Deadlock.
From VF Require Import C13.Rendezvous C13.ProofsRv C13.Layers.
From VF Require C13.TableAsIs.
Local Open Scope N_scope.

(* FULL STATEMENT, for the modelled layer.  Every component whose operations are each ONE atomic step of a sequential
   machine (one critical section of one mutex around every access to the shared state — that this is how the source
   is written is obligation [lock_table_ok]/[atomic_regions_ok] below, recomputed from /repo on every run) is
   linearizable: for EVERY number of goroutines, EVERY list of operations per goroutine, EVERY schedule (unfair and
   unfinished ones included), from EVERY initial state, the invoke/return trace has a sequential order that is legal
   for the machine, contains every operation that returned with the result it returned, contains only invoked
   operations with their own arguments, once each, and puts an operation that returned before another was invoked
   first. *)
Theorem atomic_component_linearizable :
  forall (S op out : Type) (sstep : S -> op -> S * out) (s0 : S) (threads : list (list op)) (sched : list nat),
    lin_strong S op out sstep s0 (tr (exec (atomic_prog sstep) (start s0 threads) sched)).
Proof. exact atomic_lin. Qed.
Print Assumptions atomic_component_linearizable.

(* ... instantiated, component by component, with the sequential machines the correspondence replays *)
Theorem store_stack_linearizable : forall (s : stack) threads sched,
  lin_strong _ _ _ (step (prov_of s)) (init (prov_of s))
    (tr (exec (atomic_prog (step (prov_of s))) (start (init (prov_of s)) threads) sched)).
Proof. intros. apply atomic_lin. Qed.
Print Assumptions store_stack_linearizable.

Theorem key_manager_linearizable : forall threads sched,
  lin_strong _ _ _ kms_step [] (tr (exec (atomic_prog kms_step) (start [] threads) sched)).
Proof. intros. apply atomic_lin. Qed.
Print Assumptions key_manager_linearizable.

Theorem session_manager_linearizable : forall threads sched,
  lin_strong _ _ _ sess_step [] (tr (exec (atomic_prog sess_step) (start [] threads) sched)).
Proof. intros. apply atomic_lin. Qed.
Print Assumptions session_manager_linearizable.

Theorem action_registry_linearizable : forall threads sched,
  lin_strong _ _ _ reg_step 0 (tr (exec (atomic_prog reg_step) (start 0 threads) sched)).
Proof. intros. apply atomic_lin. Qed.
Print Assumptions action_registry_linearizable.

(* provider level (OpenStore / SetStoreConfig / GetStoreConfig / GetOpenStores / Close / Store.Close and operations through
   the handles), w.r.t. C11's provider-level CONTRACT machine: concurrent OpenStore calls of one name yield handles onto
   ONE store (a write through one is read through the other), for any goroutines and schedule — when every provider
   operation is one region of the provider mutex (lock_table_ok, check_then_act_regions_ok) *)
Theorem provider_linearizable : forall persist threads sched,
  lin_strong _ _ _ (pspec_step persist) [] (tr (exec (atomic_prog (pspec_step persist)) (start [] threads) sched)).
Proof. intros. apply atomic_lin. Qed.
Print Assumptions provider_linearizable.

(* the Message registry: every delivery sees the subscribers of one moment (the list it iterates is the registry's
   content at its linearization point): no subscriber is skipped or served twice because of a concurrent Unregister *)
Theorem message_registry_linearizable : forall threads sched,
  lin_strong _ _ _ msg_step [] (tr (exec (atomic_prog msg_step) (start [] threads) sched)).
Proof. intros. apply atomic_lin. Qed.
Print Assumptions message_registry_linearizable.

(* ... and in the specification, as long as no channel is registered while it is registered, the registry never
   holds a channel twice and a delivery serves every subscriber exactly once *)
Theorem delivery_serves_each_subscriber_once : forall (s : list N) (o : mop),
  NoDup s -> (forall ch, o = MReg ch -> ~ In ch s) ->
  NoDup (fst (msg_step s o)) /\ (forall l, snd (msg_step s o) = MList l -> NoDup l).
Proof. exact msg_step_nodup. Qed.
Print Assumptions delivery_serves_each_subscriber_once.

(* the websocket connection pool of an agent (add / fetch / remove under the pool's RWMutex) *)
Theorem ws_pool_linearizable : forall threads sched,
  lin_strong _ _ _ pool_step [] (tr (exec (atomic_prog pool_step) (start [] threads) sched)).
Proof. intros. apply atomic_lin. Qed.
Print Assumptions ws_pool_linearizable.

Theorem inbox_linearizable : forall threads sched,
  lin_strong _ _ _ inbox_step [] (tr (exec (atomic_prog inbox_step) (start [] threads) sched)).
Proof. intros. apply atomic_lin. Qed.
Print Assumptions inbox_linearizable.

(* ... and w.r.t. the DOCUMENTED key-value store: a stack of wrappers of ANY depth over the in-memory provider, used by
   any number of goroutines under any schedule, is linearizable w.r.t. the CONTRACT machine [spec_step] (the store of
   spi/storage's documentation: latest value and tags, deleted keys not found, queries = entries satisfying every
   criterion, batches in order, atomically) — composition of the interleaving theorem with C11's simulations.
   Guards as in C11: batches carry no ':' tags (caching/batching stacks); also single-criterion queries when a
   formatting layer is present; the C11 guard [wfk_op] for random-key formatting layers. *)
Theorem mem_stack_linearizable_contract : forall s threads sched, mem_stack s = true ->
  (forall t, In t threads -> forallb wf_op t = true) ->
  lin_strong store op out (spec_step false) []
    (tr (exec (atomic_prog (step (prov_of s))) (start (init (prov_of s)) threads) sched)).
Proof. intros s threads sched Hs Hg.
  apply (contract_lin wf_op false (prov_of s) (stack_rel s)); [apply stack_sim|apply stack_rel_init|]; assumption. Qed.
Print Assumptions mem_stack_linearizable_contract.

Theorem plain_stack_linearizable_contract : forall s threads sched, plain_stack s = true ->
  (forall t, In t threads -> forallb wf1_op t = true) ->
  lin_strong store op out (spec_step false) []
    (tr (exec (atomic_prog (step (prov_of s))) (start (init (prov_of s)) threads) sched)).
Proof. intros s threads sched Hs Hg.
  apply (contract_lin wf1_op false (prov_of s) (stack_rel s)); [apply plain_stack_sim|apply plain_stack_rel_init|]; assumption. Qed.
Print Assumptions plain_stack_linearizable_contract.

Theorem rand_stack_linearizable_contract : forall s threads sched, rand_stack s = true ->
  (forall t, In t threads -> forallb wfk_op t = true) ->
  lin_strong store op out (spec_step false) []
    (tr (exec (atomic_prog (step (prov_of s))) (start (init (prov_of s)) threads) sched)).
Proof. intros s threads sched Hs Hg.
  apply (contract_lin wfk_op false (prov_of s) (rstack_rel s)); [apply rand_stack_sim|apply rand_stack_rel_init|]; assumption. Qed.
Print Assumptions rand_stack_linearizable_contract.

Example contract_nonvacuous :
  let s := SCached (SBatched 2 (SCached SMem)) in
  mem_stack s = true /\ forallb wf_op [Put 1 1 [(1, 1)]; Batch [(1, 2, []); (2, 2, [])]; GetBulk [1; 2]; Query [(1, 0); (2, 0)]] = true.
Proof. vm_compute. split; reflexivity. Qed.

(* ---------- the source follows the discipline the model assumes: over the table regenerated from /repo ---------- *)
(* THE obligations that break when an edit removes or narrows a lock. *)
Theorem lock_table_ok : covers = true.
Proof. vm_compute. reflexivity. Qed.
Print Assumptions lock_table_ok.

Theorem atomic_regions_ok : atomic_ok = true.
Proof. vm_compute. reflexivity. Qed.
Print Assumptions atomic_regions_ok.

(* check-then-act: an entry point that reads and writes one shared field (look a name up in the open-store map and
   insert when absent; test the registered channel and set it; ...) does both inside ONE acquisition of the mutex *)
Theorem check_then_act_regions_ok : rmw_ok = true.
Proof. vm_compute. reflexivity. Qed.
Print Assumptions check_then_act_regions_ok.

(* the handlers of the request/response rendezvous send inside a select with a time-out clause (Rendezvous.v's
   [bounded = true] is the protocol the source implements) *)
Theorem rendezvous_sends_bounded_ok : rendezvous_sends_bounded = true.
Proof. vm_compute. reflexivity. Qed.
Print Assumptions rendezvous_sends_bounded_ok.

(* ... and the requesters register their channel before the request is sent (Rendezvous.v's requester: QStart -> QRegd -> send) *)
Theorem rendezvous_requesters_register_first_ok : requesters_register_first = true.
Proof. vm_compute. reflexivity. Qed.
Print Assumptions rendezvous_requesters_register_first_ok.

Theorem lock_order_acyclic : lock_order_ok = true.
Proof. vm_compute. reflexivity. Qed.
Print Assumptions lock_order_acyclic.

(* ---------- no deadlock ---------- *)
(* the action sequences of all entry points (every acquisition with the mutexes held at that point, as extracted from
   /repo) acquire in strictly increasing rank (rank = longest "held -> acquired" chain) and release everything;
   "close" callbacks from a store to its provider are made with no mutex held *)
Theorem lock_order_ranked : footprints_ordered = true /\ callbacks_unlocked = true.
Proof. vm_compute. split; reflexivity. Qed.
Print Assumptions lock_order_ranked.

(* DEADLOCK FREEDOM for the mutexes of a package instance, mutex acquisition made explicit: ANY number of goroutines,
   each calling ANY sequence of entry points of the table, under ANY schedule: in every reachable configuration in
   which some goroutine is unfinished, some goroutine can move (an Acquire blocks while any goroutine holds the
   mutex; Go mutexes are not re-entrant). *)
Theorem no_deadlock : forall (gs : list (list Gen_C13.meth)) (sched : list nat),
  (forall g m, In g gs -> In m g -> In m entries) ->
  let ts := lexec string String.eqb (map (mkL string []) (map (flat_map footprint) gs)) sched in
  existsb (unfinished string) ts = true -> existsb (enabled string String.eqb ts) ts = true.
Proof. intros gs sched Hg. apply table_no_deadlock; [|exact Hg]. vm_compute. reflexivity. Qed.
Print Assumptions no_deadlock.

(* ---------- lock order ACROSS the layers of a stack (C13/Layers.v) ---------- *)
(* every method's critical sections and its calls through fields (with the mutexes held at the call), over the table
   regenerated from /repo, follow the in-package order *)
Theorem layer_footprints_ordered_ok : layer_footprints_ordered = true.
Proof. vm_compute. reflexivity. Qed.
Print Assumptions layer_footprints_ordered_ok.

(* DEADLOCK FREEDOM ACROSS LAYERS: for EVERY stack of packages below the entry points (any packages of the table, ANY
   depth), with every call through a field expanded into the footprints of all methods of that name of the package
   below (recursively, mutexes tagged with the depth of their layer), ANY number of goroutines calling ANY sequences of
   methods under ANY schedule never reach a configuration in which every unfinished goroutine is blocked *)
Theorem stack_no_deadlock : forall (below : list string) (gs : list (list Gen_C13.meth)) (sched : list nat),
  (forall g m, In g gs -> In m g -> In m Gen_C13.table) ->
  let ts := lexec dlock dleqb (map (mkL dlock []) (map (flat_map (fun m => expand below 0 (dfoot m))) gs)) sched in
  existsb (unfinished dlock) ts = true -> existsb (enabled dlock dleqb ts) ts = true.
Proof. intros below gs sched Hg. apply stack_table_no_deadlock; [|exact Hg]. vm_compute. reflexivity. Qed.
Print Assumptions stack_no_deadlock.

(* non-vacuity: cachedstore.store.Put over batchedstore over formattedstore over mem: the expansion takes the mutexes of
   all four layers, nested (depth 0 held while depth 1.. are taken) *)
Example stack_nonvacuous :
  let put := match find_meth "cachedstore.store.Put" Gen_C13.table with Some m => m | None => Gen_C13.mkMeth "" true [] [] [] [] end in
  let p := expand ["batchedstore"; "formattedstore"; "mem"]%string 0 (dfoot put) in
  existsb (fun a => match a with Acq _ (3%nat, "mem.memStore.RWMutex"%string) => true | _ => false end) p = true /\
  existsb (fun a => match a with Acq _ (1%nat, "batchedstore.store.RWMutex"%string) => true | _ => false end) p = true /\
  runb dlock dleqb drank [] p = Some [] /\
  (* a goroutine that holds the cachedstore mutex blocks a second one at its first acquisition; the first can move *)
  (let ts := lexec dlock dleqb (map (mkL dlock []) [p; p]) [0; 1; 1]%nat in map (enabled dlock dleqb ts) ts = [true; false]).
Proof. vm_compute. repeat split; reflexivity. Qed.

(* the general statement: any goroutines that acquire in strictly increasing rank and end with nothing held *)
Theorem ordered_locking_never_deadlocks :
  forall (lock : Type) (leqb : lock -> lock -> bool), (forall a b, leqb a b = true <-> a = b) ->
  forall (rank : lock -> nat) (progs : list (list (act lock))) (sched : list nat),
  (forall p, In p progs -> runb lock leqb rank [] p = Some []) ->
  let ts := lexec lock leqb (map (mkL lock []) progs) sched in
  existsb (unfinished lock) ts = true -> existsb (enabled lock leqb ts) ts = true.
Proof. exact no_deadlock_reachable. Qed.
Print Assumptions ordered_locking_never_deadlocks.

(* non-vacuity: two goroutines taking the two nested formattedstore mutexes; one holds the provider lock, the other is
   blocked on it; the first can move *)
Definition nested_prog : list (act string) :=
  [Acq string "formattedstore.FormattedProvider.lock"; Acq string "formattedstore.formatStore.lock";
   Rel string "formattedstore.formatStore.lock"; Rel string "formattedstore.FormattedProvider.lock"]%string.
Example deadlock_nonvacuous :
  (runb string String.eqb lock_rank [] nested_prog = Some [])
  /\ (let ts := lexec string String.eqb (map (mkL string []) [nested_prog; nested_prog]) [0; 1; 1]%nat in
   map (enabled string String.eqb ts) ts = [true; false]).
Proof. vm_compute. split; reflexivity. Qed.

(* the tree as found (frozen table of 34f49d8): the same checks name the defects the -race harness confirmed *)
Theorem lock_table_asis_refuted :
  TableAsIs.uncovered = ["formattedstore.FormattedProvider.openStores"; "leveldb.Provider.dbs"; "mem.Provider.dbs"; "mem.memStore.config"]%string /\
  TableAsIs.not_atomic =
    ["mem.memStore.Query"; "cachedstore.store.Put"; "cachedstore.store.Get"; "cachedstore.store.GetTags";
     "cachedstore.store.GetBulk"; "cachedstore.store.Query"; "cachedstore.store.Delete"; "cachedstore.store.Batch";
     "cachedstore.store.Flush"; "batchedstore.store.Get"; "batchedstore.store.GetTags"; "batchedstore.store.GetBulk";
     "batchedstore.store.Query"; "batchedstore.store.Batch"; "localkms.LocalKMS.writeToStore"; "ws.getConnPool"; "did.Store.SaveDID";
     "wallet.walletSessionManager.getSession"; "wallet.contentStore.safeSave"; "leveldb.Provider.OpenStore"]%string /\
  TableAsIs.split_rmw = [("batchedstore.store.Batch", "batchedstore.store.currentBatch");
                         ("leveldb.Provider.OpenStore", "leveldb.Provider.dbs")]%string /\
  TableAsIs.unbounded_handlers = ["messagepickup.Service.handleStatus"; "messagepickup.Service.handleBatch";
                                  "mediator.Service.handleKeylistUpdateResponse"]%string.
Proof. vm_compute. repeat split; reflexivity. Qed.
Print Assumptions lock_table_asis_refuted.

(* ---------- the multi-step programs of the code AS FOUND: refuted by a schedule ---------- *)
(* cachedstore without a store lock: Put(1,1) between its two store calls, Put(1,5) whole; afterwards Get answers
   from the cache (1) and GetBulk from the main store (5), for good: no order of the four operations explains it;
   the same schedule on the one-step program (after fix 97d284c) has one. *)
Definition c_threads : list (list op) := [[Put 1 1 []]; [Put 1 5 []]; [Get 1; GetBulk [1]]].
Definition c_sched : list nat := [0;0;1;1;1;1;0;0;2;2;2;2;2;2;2;2]%nat.
Theorem cached_asis_refuted :
  let P := cached true (mem true) in
  no_linearization (step P) out_eqb (init P)
    (hist_of (tr (exec (cached_asis_prog (mem true)) (start (init P) c_threads) c_sched)) 4) = true /\
  some_linearization (step P) out_eqb (init P)
    (hist_of (tr (exec (atomic_prog (step P)) (start (init P) c_threads) c_sched)) 4) = true.
Proof. vm_compute. split; reflexivity. Qed.
Print Assumptions cached_asis_refuted.

(* batchedstore Batch enqueued (and, limit 1, flushed) element by element: GetBulk sees the first element only *)
Definition b_threads : list (list op) := [[Batch [(1,2,[]);(2,2,[])]]; [GetBulk [1;2]]].
Definition b_sched : list nat := [0;0;1;1;1;0;0;0]%nat.
Theorem batched_batch_asis_refuted :
  let P := batched 1 (mem true) in
  no_linearization (step P) out_eqb (init P)
    (hist_of (tr (exec (batched_asis_prog 1 (mem true)) (start (init P) b_threads) b_sched)) 2) = true /\
  some_linearization (step P) out_eqb (init P)
    (hist_of (tr (exec (atomic_prog (step P)) (start (init P) b_threads) b_sched)) 2) = true.
Proof. vm_compute. split; reflexivity. Qed.
Print Assumptions batched_batch_asis_refuted.

(* mem Query, one read-locked scan per criterion: a Put between the scans makes "b && a" return an entry that
   carried b only before and a only after *)
Definition m_threads : list (list op) := [[Put 2 1 [(2,2)]; Query [(2,0);(1,0)]]; [Put 2 2 [(1,1)]]].
Definition m_sched : list nat := [0;0;0;0;0;1;1;1;0;0;0]%nat.
Theorem mem_query_asis_refuted :
  no_linearization (mem_step true) out_eqb []
    (hist_of (tr (exec mem_asis_prog (start [] m_threads) m_sched)) 3) = true /\
  some_linearization (mem_step true) out_eqb []
    (hist_of (tr (exec (atomic_prog (mem_step true)) (start [] m_threads) m_sched)) 3) = true.
Proof. vm_compute. split; reflexivity. Qed.
Print Assumptions mem_query_asis_refuted.

(* localkms import with a requested id: Get then Put with nothing held: both imports of id 1 succeed *)
Definition k_threads : list (list kop) := [[KImport 1 1]; [KImport 1 2]].
Definition k_sched : list nat := [0;0;1;1;1;1;0;0]%nat.
Theorem kms_import_asis_refuted :
  no_linearization kms_step kout_eqb []
    (hist_of (tr (exec kms_asis_prog (start [] k_threads) k_sched)) 2) = true /\
  some_linearization kms_step kout_eqb []
    (hist_of (tr (exec (atomic_prog kms_step) (start [] k_threads) k_sched)) 2) = true.
Proof. vm_compute. split; reflexivity. Qed.
Print Assumptions kms_import_asis_refuted.

(* ... and "no order" is literal: EVERY list of operation ids, of any length, is rejected by the certificate checker
   for these four histories (the checker accepts only duplicate-free orders of ids of the history that contain every
   completed operation, hence only the n! enumerated ones: ProofsD.valid_in_orders) *)
Theorem asis_refuted_for_every_order :
  (forall w, valid_linearization (step (cached true (mem true))) out_eqb (init (cached true (mem true)))
     (hist_of (tr (exec (cached_asis_prog (mem true)) (start (init (cached true (mem true))) c_threads) c_sched)) 4) w = false) /\
  (forall w, valid_linearization (step (batched 1 (mem true))) out_eqb (init (batched 1 (mem true)))
     (hist_of (tr (exec (batched_asis_prog 1 (mem true)) (start (init (batched 1 (mem true))) b_threads) b_sched)) 2) w = false) /\
  (forall w, valid_linearization (mem_step true) out_eqb []
     (hist_of (tr (exec mem_asis_prog (start [] m_threads) m_sched)) 3) w = false) /\
  (forall w, valid_linearization kms_step kout_eqb []
     (hist_of (tr (exec kms_asis_prog (start [] k_threads) k_sched)) 2) w = false).
Proof. repeat split; apply no_linearization_forall; vm_compute; reflexivity. Qed.
Print Assumptions asis_refuted_for_every_order.

(* ---------- the request/response rendezvous of the message-pickup service (StatusRequest / BatchPickup against the
   handlers of inbound Status / Batch messages; C13/Rendezvous.v), ANY number of response handlers, ANY schedule ---------- *)
(* both variants: at most one response is taken, the requester returns exactly that one, and it is a response that
   was handled (nothing is invented, nothing is taken twice, nothing is taken after the requester has left) *)
Theorem rendezvous_delivery_exact : forall (bounded : bool) (msgs : list N) (sched : list (nat * bool)),
  let c := rexec bounded (rinit msgs) sched in
  match got (rq c) with
  | None => deliveries c = 0%nat
  | Some m => deliveries c = 1%nat /\ exists i, nth_error (rrs c) i = Some (RFin true) /\ nth_error msgs i = Some m
  end.
Proof. exact delivery_exact. Qed.
Print Assumptions rendezvous_delivery_exact.

(* the repaired protocol (fix edbed14: the handler's send is a select with a time-out): in EVERY configuration every
   thread that has not returned can take a step, every effective step takes work away and no step adds any: whatever
   the schedule, no goroutine stays blocked for good *)
Theorem rendezvous_never_blocked_for_good :
  (forall c t, runfinished c t = true -> renabled true c t = true) /\
  (forall b c t, renabled b c t = true -> exists alt, (rwork (rstep b c (t, alt)) < rwork c)%nat) /\
  (forall b c e, rstep b c e <> c -> (rwork (rstep b c e) < rwork c)%nat) /\
  (forall b c e, (rwork (rstep b c e) <= rwork c)%nat).
Proof. exact (conj bounded_never_stuck (conj enabled_step_decreases (conj effective_step_decreases step_work_le))). Qed.
Print Assumptions rendezvous_never_blocked_for_good.

(* the protocol as found (plain send on the unbuffered channel): two responses for one request; the requester takes
   the first and returns; the handler of the second has found the channel and stays at its send under EVERY
   continuation of the schedule *)
Definition rv_sched : list (nat * bool) := [(0, false); (1, false); (2, false); (0, false); (1, false); (0, false)]%nat.
Theorem rendezvous_asis_refuted :
  let c := rexec false (rinit [1; 2]) rv_sched in
  rq c = QDone (Some 1) /\ runfinished c 2 = true /\ renabled false c 2 = false /\
  forall sched, rq (rexec false c sched) = QDone (Some 1) /\ nth_error (rrs (rexec false c sched)) 1 = Some (RHave 2).
Proof. cbv zeta. split; [vm_compute; reflexivity|]. split; [vm_compute; reflexivity|]. split; [vm_compute; reflexivity|].
  apply asis_blocked_forever; vm_compute; reflexivity. Qed.
Print Assumptions rendezvous_asis_refuted.

(* non-vacuity: the same schedule on the repaired protocol: the second handler is at its send, can give up, and does *)
Example rendezvous_nonvacuous :
  let c := rexec true (rinit [1; 2]) rv_sched in
  rq c = QDone (Some 1) /\ renabled true c 2 = true /\ rrs (rstep true c (2%nat, true)) = [RFin true; RFin false] /\
  rv_check [1; 2] rv_sched (Some 1) [RvDelivered; RvBlocked true] = true /\
  rv_check [1; 2] rv_sched (Some 1) [RvDelivered; RvBlocked false] = false.
Proof. vm_compute. repeat split; reflexivity. Qed.

(* ---------- non-vacuity ---------- *)
(* a run of the one-step cachedstore with three goroutines in which operations overlap and the linearization order
   differs from the invocation order; the certificate check accepts exactly the order of the linearization points *)
Example atomic_nonvacuous :
  let P := cached true (mem true) in
  let c := exec (atomic_prog (step P)) (start (init P) c_threads) [0;1;1;2;1;0;0;2;2;2;2;2]%nat in
  lins op out (tr c) = [1; 0; 2; 3]%nat /\
  valid_linearization (step P) out_eqb (init P) (hist_of (tr c) 4) [1; 0; 2; 3]%nat = true /\
  valid_linearization (step P) out_eqb (init P) (hist_of (tr c) 4) [0; 1; 2; 3]%nat = false.
Proof. vm_compute. repeat split. Qed.

(* most field selections of the anchored files are resolved by the type checker, none differently from the syntactic rules
   (the translator stops when they disagree) *)
Example resolution_nonvacuous : match Gen_C13.resolution_stats with [typed; syntactic] => (typed >= 600)%nat /\ (syntactic <= 60)%nat | _ => False end.
Proof. vm_compute. split; repeat constructor. Qed.

Example table_nonvacuous :
  (List.length Gen_C13.table >= 100)%nat /\ (List.length shared_fields >= 12)%nat /\
  (List.length modelled_atomic = 50)%nat /\ (List.length all_locks >= 15)%nat.
Proof. vm_compute. repeat split; repeat constructor. Qed.
