(* C13 — property theorems only. *)
From Coq Require Import List NArith ZArith Bool String.
Import ListNotations.
From VF Require Import common.Lin C13.Model C13.Proofs C13.Corr C13.Table.
From VF Require C13.TableAsIs.
Local Open Scope N_scope.

(* FULL STATEMENT, for the modelled layer.  Every component whose operations are each ONE atomic step of a sequential
   machine (one critical section of one mutex around every access to the shared state — that this is how the source
   is written is obligation [lock_table_ok]/[atomic_regions_ok] below, recomputed from /repo on every run) is
   linearizable: for EVERY number of goroutines, EVERY list of operations per goroutine, EVERY schedule (unfair and
   unfinished ones included), from EVERY initial state, the invoke/return trace has a sequential order that is legal
   for the machine, contains every operation that returned with the result it returned, contains only invoked
   operations with their own arguments, once each, and puts an operation that returned before another was invoked
   first. *)
Theorem atomic_component_linearizable :
  forall (S op out : Type) (sstep : S -> op -> S * out) (s0 : S) (threads : list (list op)) (sched : list nat),
    lin_strong S op out sstep s0 (tr (exec (atomic_prog sstep) (start s0 threads) sched)).
Proof. exact atomic_lin. Qed.
Print Assumptions atomic_component_linearizable.

(* ... instantiated, component by component, with the sequential machines the correspondence replays *)
Theorem store_stack_linearizable : forall (s : stack) threads sched,
  lin_strong _ _ _ (step (prov_of s)) (init (prov_of s))
    (tr (exec (atomic_prog (step (prov_of s))) (start (init (prov_of s)) threads) sched)).
Proof. intros. apply atomic_lin. Qed.
Print Assumptions store_stack_linearizable.

Theorem key_manager_linearizable : forall threads sched,
  lin_strong _ _ _ kms_step [] (tr (exec (atomic_prog kms_step) (start [] threads) sched)).
Proof. intros. apply atomic_lin. Qed.
Print Assumptions key_manager_linearizable.

Theorem session_manager_linearizable : forall threads sched,
  lin_strong _ _ _ sess_step [] (tr (exec (atomic_prog sess_step) (start [] threads) sched)).
Proof. intros. apply atomic_lin. Qed.
Print Assumptions session_manager_linearizable.

Theorem action_registry_linearizable : forall threads sched,
  lin_strong _ _ _ reg_step 0 (tr (exec (atomic_prog reg_step) (start 0 threads) sched)).
Proof. intros. apply atomic_lin. Qed.
Print Assumptions action_registry_linearizable.

Theorem inbox_linearizable : forall threads sched,
  lin_strong _ _ _ inbox_step [] (tr (exec (atomic_prog inbox_step) (start [] threads) sched)).
Proof. intros. apply atomic_lin. Qed.
Print Assumptions inbox_linearizable.

(* ---------- the source follows the discipline the model assumes: over the table regenerated from /repo ---------- *)
(* THE obligations that break when an edit removes or narrows a lock. *)
Theorem lock_table_ok : covers = true.
Proof. vm_compute. reflexivity. Qed.
Print Assumptions lock_table_ok.

Theorem atomic_regions_ok : atomic_ok = true.
Proof. vm_compute. reflexivity. Qed.
Print Assumptions atomic_regions_ok.

Theorem lock_order_acyclic : lock_order_ok = true.
Proof. vm_compute. reflexivity. Qed.
Print Assumptions lock_order_acyclic.

(* the tree as found (frozen table of 34f49d8): the same checks name the defects the -race harness confirmed *)
Theorem lock_table_asis_refuted :
  TableAsIs.uncovered = ["formattedstore.FormattedProvider.openStores"; "mem.Provider.dbs"; "mem.memStore.config"]%string /\
  TableAsIs.not_atomic =
    ["mem.memStore.Query"; "cachedstore.store.Put"; "cachedstore.store.Get"; "cachedstore.store.GetTags";
     "cachedstore.store.GetBulk"; "cachedstore.store.Query"; "cachedstore.store.Delete"; "cachedstore.store.Batch";
     "cachedstore.store.Flush"; "batchedstore.store.Get"; "batchedstore.store.GetTags"; "batchedstore.store.GetBulk";
     "batchedstore.store.Query"; "batchedstore.store.Batch"; "localkms.LocalKMS.writeToStore"; "ws.getConnPool"]%string.
Proof. vm_compute. split; reflexivity. Qed.
Print Assumptions lock_table_asis_refuted.

(* ---------- the multi-step programs of the code AS FOUND: refuted by a schedule ---------- *)
(* cachedstore without a store lock: Put(1,1) between its two store calls, Put(1,5) whole; afterwards Get answers
   from the cache (1) and GetBulk from the main store (5), for good: no order of the four operations explains it;
   the same schedule on the one-step program (after fix 97d284c) has one. *)
Definition c_threads : list (list op) := [[Put 1 1 []]; [Put 1 5 []]; [Get 1; GetBulk [1]]].
Definition c_sched : list nat := [0;0;1;1;1;1;0;0;2;2;2;2;2;2;2;2]%nat.
Theorem cached_asis_refuted :
  let P := cached true (mem true) in
  no_linearization (step P) out_eqb (init P)
    (hist_of (tr (exec (cached_asis_prog (mem true)) (start (init P) c_threads) c_sched)) 4) = true /\
  some_linearization (step P) out_eqb (init P)
    (hist_of (tr (exec (atomic_prog (step P)) (start (init P) c_threads) c_sched)) 4) = true.
Proof. vm_compute. split; reflexivity. Qed.
Print Assumptions cached_asis_refuted.

(* batchedstore Batch enqueued (and, limit 1, flushed) element by element: GetBulk sees the first element only *)
Definition b_threads : list (list op) := [[Batch [(1,2,[]);(2,2,[])]]; [GetBulk [1;2]]].
Definition b_sched : list nat := [0;0;1;1;1;0;0;0]%nat.
Theorem batched_batch_asis_refuted :
  let P := batched 1 (mem true) in
  no_linearization (step P) out_eqb (init P)
    (hist_of (tr (exec (batched_asis_prog 1 (mem true)) (start (init P) b_threads) b_sched)) 2) = true /\
  some_linearization (step P) out_eqb (init P)
    (hist_of (tr (exec (atomic_prog (step P)) (start (init P) b_threads) b_sched)) 2) = true.
Proof. vm_compute. split; reflexivity. Qed.
Print Assumptions batched_batch_asis_refuted.

(* mem Query, one read-locked scan per criterion: a Put between the scans makes "b && a" return an entry that
   carried b only before and a only after *)
Definition m_threads : list (list op) := [[Put 2 1 [(2,2)]; Query [(2,0);(1,0)]]; [Put 2 2 [(1,1)]]].
Definition m_sched : list nat := [0;0;0;0;0;1;1;1;0;0;0]%nat.
Theorem mem_query_asis_refuted :
  no_linearization (mem_step true) out_eqb []
    (hist_of (tr (exec mem_asis_prog (start [] m_threads) m_sched)) 3) = true /\
  some_linearization (mem_step true) out_eqb []
    (hist_of (tr (exec (atomic_prog (mem_step true)) (start [] m_threads) m_sched)) 3) = true.
Proof. vm_compute. split; reflexivity. Qed.
Print Assumptions mem_query_asis_refuted.

(* localkms import with a requested id: Get then Put with nothing held: both imports of id 1 succeed *)
Definition k_threads : list (list kop) := [[KImport 1 1]; [KImport 1 2]].
Definition k_sched : list nat := [0;0;1;1;1;1;0;0]%nat.
Theorem kms_import_asis_refuted :
  no_linearization kms_step kout_eqb []
    (hist_of (tr (exec kms_asis_prog (start [] k_threads) k_sched)) 2) = true /\
  some_linearization kms_step kout_eqb []
    (hist_of (tr (exec (atomic_prog kms_step) (start [] k_threads) k_sched)) 2) = true.
Proof. vm_compute. split; reflexivity. Qed.
Print Assumptions kms_import_asis_refuted.

(* ---------- non-vacuity ---------- *)
(* a run of the one-step cachedstore with three goroutines in which operations overlap and the linearization order
   differs from the invocation order; the certificate check accepts exactly the order of the linearization points *)
Example atomic_nonvacuous :
  let P := cached true (mem true) in
  let c := exec (atomic_prog (step P)) (start (init P) c_threads) [0;1;1;2;1;0;0;2;2;2;2;2]%nat in
  lins op out (tr c) = [1; 0; 2; 3]%nat /\
  valid_linearization (step P) out_eqb (init P) (hist_of (tr c) 4) [1; 0; 2; 3]%nat = true /\
  valid_linearization (step P) out_eqb (init P) (hist_of (tr c) 4) [0; 1; 2; 3]%nat = false.
Proof. vm_compute. repeat split. Qed.

Example table_nonvacuous :
  (List.length Gen_C13.table >= 100)%nat /\ (List.length shared_fields >= 12)%nat /\
  (List.length modelled_atomic = 38)%nat /\ (List.length all_locks >= 15)%nat.
Proof. vm_compute. repeat split; repeat constructor. Qed.
