(* C13 — shared services under concurrent use: executable models.  NO proofs here.

   (1) A small-step interleaving semantics: a configuration = shared state + per-goroutine (running operation,
       remaining operations); one scheduler step lets ONE goroutine perform ONE atomic action: invoke its next
       operation, perform the next atomic step of the running operation on the shared state, or return.
       An operation is a tree of atomic steps ([thr]); the step at which it takes effect declares its result and is
       recorded as the linearization point (event [Lin], common/Lin.v).
   (2) Components.  A region of code whose every access to the shared state is under ONE mutex is ONE atomic step
       (justification: lock coverage, checked on the source by the generated table Gen_C13 — C13/Table.v).
       [atomic_prog sstep]: every operation is one atomic step of a sequential machine [sstep] (mem store under its
       RWMutex; cachedstore after the fix: under the store mutex; batchedstore Put/Delete/Batch/Flush under the store
       mutex; message-pickup inbox operations under inboxLock; wallet session manager under mu; Action/Message
       registries under mu; localkms key-store writes after the fix: under the write mutex).
       As found (kept as variants, refuted in Props.v): cachedstore without a store lock (Put = main.Put ; cache.Put,
       Get = cache.Get ; main.Get ; main.GetTags ; cache.Put), batchedstore Batch = one locked step PER ELEMENT,
       mem Query = one read-locked scan PER CRITERION, localkms import with a requested id = Get ; Put unlocked.
   (3) Sequential specifications of the non-store components (the stores use C11's [prov]s and [spec_step]). *)
From Coq Require Import List Arith Bool NArith ZArith.
Import ListNotations.
From VF Require Import common.Lin.
From VF Require Export C11.Model.

Section Conc.
  Variables (S op out : Type).

  (* a running operation; a step may commit (= linearization point) with the result the operation will return *)
  Inductive thr := Done (r : out) | Step (f : S -> S * option out * thr).
  Variable prog : op -> thr.

  Definition event := ev op out.
  Record thread := mkT { cur : option (nat * op * thr); todo : list op }.
  Record cfg := mkC { sh : S; thrs : nat -> thread; next : nat; tr : list event; lg : list (nat * op * out) }.

  Definition upd (f : nat -> thread) (n : nat) (t : thread) : nat -> thread :=
    fun m => if Nat.eqb m n then t else f m.

  (* goroutine n performs one atomic action *)
  Definition sched_step (c : cfg) (n : nat) : cfg :=
    let t := thrs c n in
    match cur t with
    | None =>
        match todo t with
        | [] => c
        | o :: r => mkC (sh c) (upd (thrs c) n (mkT (Some (next c, o, prog o)) r)) (Datatypes.S (next c))
                        (tr c ++ [Inv op out (next c) o]) (lg c)
        end
    | Some (i, o, Done r) => mkC (sh c) (upd (thrs c) n (mkT None (todo t))) (next c) (tr c ++ [Ret op out i r]) (lg c)
    | Some (i, o, Step f) =>
        let '(s', cm, k) := f (sh c) in
        mkC s' (upd (thrs c) n (mkT (Some (i, o, k)) (todo t))) (next c)
            (match cm with Some _ => tr c ++ [Lin op out i] | None => tr c end)
            (match cm with Some r => lg c ++ [(i, o, r)] | None => lg c end)
    end.
  Definition exec (c : cfg) (sched : list nat) : cfg := fold_left sched_step sched c.
  Definition start (s0 : S) (threads : list (list op)) : cfg :=
    mkC s0 (fun n => mkT None (nth n threads [])) 0 [] [].

  (* every operation = ONE atomic step of a sequential machine *)
  Variable sstep : S -> op -> S * out.
  Definition atomic_prog (o : op) : thr :=
    Step (fun s => let '(s', r) := sstep s o in (s', Some r, Done r)).
End Conc.
Arguments Done {S out} r.
Arguments Step {S out} f.
Arguments sh {S op out} c.
Arguments tr {S op out} c.
Arguments lg {S op out} c.
Arguments next {S op out} c.
Arguments thrs {S op out} c.
Arguments exec {S op out} prog c sched.
Arguments start {S op out} s0 threads.
Arguments atomic_prog {S op out} sstep o.

(* ---------- histories as the harness records them, and the certificate check ---------- *)
(* one operation of a recorded history: its id is its position; [h_out = None]: still pending when the run ended;
   time stamps are the harness's monotonic clock at invocation / after return *)
Record hrec (op out : Type) := mkH { h_op : op; h_out : option out; h_inv : N; h_ret : N }.
Arguments mkH {op out}.
Arguments h_op {op out}.
Arguments h_out {op out}.
Arguments h_inv {op out}.
Arguments h_ret {op out}.

Section Valid.
  Variables (S op out : Type).
  Variable sstep : S -> op -> S * out.
  Variable out_eqb : out -> out -> bool.

  Fixpoint nodupb (l : list nat) : bool :=
    match l with [] => true | x :: r => negb (existsb (Nat.eqb x) r) && nodupb r end.

  (* replay in witness order: results equal, and no operation is placed after one that was invoked only after it
     had returned (running maximum of the invocation times of the operations placed so far) *)
  Fixpoint replay (h : list (hrec op out)) (s : S) (maxinv : N) (order : list nat) : bool :=
    match order with
    | [] => true
    | i :: r =>
        match nth_error h i with
        | None => false
        | Some e =>
            let '(s', y) := sstep s (h_op e) in
            match h_out e with
            | Some x => out_eqb x y && N.leb maxinv (h_ret e)
            | None => true
            end && replay h s' (N.max maxinv (h_inv e)) r
        end
    end.

  Fixpoint completed_in (h : list (hrec op out)) (i : nat) (order : list nat) : bool :=
    match h with
    | [] => true
    | e :: r => match h_out e with Some _ => existsb (Nat.eqb i) order | None => true end
                && completed_in r (Datatypes.S i) order
    end.

  (* [order] is a linearization of [h] from state [s0] *)
  Definition valid_linearization (s0 : S) (h : list (hrec op out)) (order : list nat) : bool :=
    nodupb order && completed_in h 0 order && replay h s0 0%N order.
End Valid.
Arguments valid_linearization {S op out} sstep out_eqb s0 h order.

(* ---------- the storage wrappers AS FOUND, as multi-step programs over C11's provider models ---------- *)
Local Open Scope N_scope.

(* cachedstore without a store lock: shared state = (main, cache), both atomic stores of their own *)
Section CachedAsIs.
  Variable P : prov.
  Definition cst := (St P * store)%type.
  Definition c_main (o : op) (k : out -> thr cst out) : thr cst out :=
    Step (fun s : cst => let '(m1, r) := step P (fst s) o in ((m1, snd s), None, k r)).
  Definition c_cache (o : op) (k : out -> thr cst out) : thr cst out :=
    Step (fun s : cst => let '(c1, r) := mem_step true (snd s) o in ((fst s, c1), None, k r)).
  Definition cached_asis_prog (o : op) : thr cst out :=
    match o with
    | Put k v t =>
        if existsb bad_tag t then Done OErr else
        c_main o (fun r => if is_done r then c_cache o (fun rc => Done (if is_done rc then ODone else OErr))
                           else Done (err_of r))
    | Get k =>
        c_cache o (fun rc => match rc with
          | OVal v => Done (OVal v)
          | ONotFound =>
              c_main o (fun r => match r with
                | OVal v => c_main (GetTags k) (fun rt => match rt with
                    | OTags t => c_cache (Put k v t) (fun rp => Done (if is_done rp then OVal v else OErr))
                    | _ => Done (err_of rt) end)
                | _ => Done (err_of r) end)
          | _ => Done OErr end)
    | GetTags k =>
        c_cache o (fun rc => match rc with
          | OTags t => Done (OTags t)
          | ONotFound => c_main o (fun r => Done (match r with OTags t => OTags t | _ => err_of r end))
          | _ => Done OErr end)
    | GetBulk _ => c_main o (fun r => Done (match r with OBulk v => OBulk v | _ => err_of r end))
    | Query _ => c_main o (fun r => Done (match r with OQuery v => OQuery v | _ => err_of r end))
    | Delete _ | Batch _ | Flush =>
        c_main o (fun r => if is_done r then c_cache o (fun rc => Done (if is_done rc then ODone else OErr))
                           else Done (err_of r))
    | Reopen => Step (fun s : cst => let '(m1, r) := step P (fst s) o in ((m1, []), None, Done (if is_done r then ODone else err_of r)))
    end.
End CachedAsIs.

(* batchedstore Batch as found: one locked enqueue(+flush) per element *)
Section BatchedAsIs.
  Variable limit : Z.
  Variable P : prov.
  Fixpoint batch_elems (b : list bop) : thr (bstate P) out :=
    match b with
    | [] => Done ODone
    | x :: r => Step (fun s => let '(s1, y) := benqueue limit P s x in
                               (s1, None, if is_done y then batch_elems r else Done y))
    end.
  Definition batched_asis_prog (o : op) : thr (bstate P) out :=
    match o with
    | Batch b => if is_nil b || has_empty_key (map bop_key b) then Done OErr else batch_elems b
    | _ => atomic_prog (batched_step limit P) o
    end.
End BatchedAsIs.

(* mem Query as found (after the C11 fix of the criterion map): the read lock is taken per criterion, so a
   conjunction scans the store once per criterion; an entry is returned when every scan matched its KEY; the entry
   shown is the one of the last scan that matched *)
Definition memq_scan (c : crit) (s : store) : list (key * entry) := qeval [c] s.
Fixpoint memq_steps (q : list crit) (acc : option (list (key * entry))) : thr store out :=
  match q with
  | [] => Done (match acc with Some l => OQuery l | None => OErr end)
  | c :: r => Step (fun s =>
      let hit := memq_scan c s in
      let acc' := match acc with
                  | None => hit
                  | Some l => filter (fun ke => existsb (fun ke' => N.eqb (fst ke) (fst ke')) l) hit
                  end in
      (s, None, memq_steps r (Some acc')))
  end.
Definition mem_asis_prog (o : op) : thr store out :=
  match o with
  | Query (c1 :: c2 :: r) => memq_steps (c1 :: c2 :: r) None
  | _ => atomic_prog (mem_step true) o
  end.

(* ---------- sequential specifications of the other shared services ---------- *)
(* key manager over its key store: ids are numbers; Create draws a fresh id (the harness maps ids by first
   appearance); ImportId fails when the id exists; Get; the stored key material is identified by a number *)
Inductive kop := KCreate (material : N) | KImport (id : N) (material : N) | KGet (id : N).
Inductive kout := KId (id : N) | KErr | KNotFound | KMat (material : N).
Definition kstate := list (N * N).
Fixpoint klookup (s : kstate) (i : N) : option N :=
  match s with [] => None | (j, m) :: r => if N.eqb i j then Some m else klookup r i end.
Definition kms_step (s : kstate) (o : kop) : kstate * kout :=
  match o with
  | KCreate m => let i := 1000 + N.of_nat (length s) in ((i, m) :: s, KId i)
  | KImport i m => match klookup s i with Some _ => (s, KErr) | None => ((i, m) :: s, KId i) end
  | KGet i => (s, match klookup s i with Some m => KMat m | None => KNotFound end)
  end.
(* import with a requested id as found: verifyRequestedID (store Get) then store Put, nothing held in between *)
Definition kms_asis_prog (o : kop) : thr kstate kout :=
  match o with
  | KImport i m =>
      Step (fun s => (s, None, match klookup s i with
                               | Some _ => Done KErr
                               | None => Step (fun s' => ((i, m) :: s', None, Done (KId i)))
                               end))
  | _ => atomic_prog kms_step o
  end.

(* wallet session manager: one live session per user *)
Inductive sop := SCreate (user tok : N)    (* tok: the harness's number for the token this call returns, if it returns one *)
  | SClose (user : N)
  | SGet (tok : N).                          (* getSession with that token *)
Inductive sout := SToken | SAlready | SClosed (b : bool) | SLive (b : bool).
Definition sess_step (s : list (N * N)) (o : sop) : list (N * N) * sout :=
  match o with
  | SCreate u t => if existsb (fun x => N.eqb (fst x) u) s then (s, SAlready) else ((u, t) :: s, SToken)
  | SClose u => if existsb (fun x => N.eqb (fst x) u) s
                then (filter (fun x => negb (N.eqb (fst x) u)) s, SClosed true) else (s, SClosed false)
  | SGet t => (s, SLive (existsb (fun x => N.eqb (snd x) t) s))
  end.

(* service.Action registry: at most one registered channel *)
Inductive rop := RReg (ch : N) | RUnreg (ch : N) | RGet.
Inductive rout := ROk | RErr | RChan (ch : N).        (* RChan 0 = nil *)
Definition reg_step (s : N) (o : rop) : N * rout :=
  match o with
  | RReg ch => if N.eqb ch 0 then (s, RErr) else if N.eqb s 0 then (ch, ROk) else (s, RErr)
  | RUnreg ch => if N.eqb ch 0 then (s, RErr) else if N.eqb s ch then (0, ROk) else (s, RErr)
  | RGet => (s, RChan s)
  end.

(* service.Message registry (embedded in every protocol service): any number of subscriber channels, in registration
   order; a delivery (what a service does with a state message: take MsgEvents() and send to each) sees the
   subscribers of ONE moment — snapshot semantics; Unregister removes every occurrence of the channel *)
Inductive mop := MReg (ch : N) | MUnreg (ch : N) | MDeliver.
Inductive mout := MOk | MList (chs : list N).
Definition msg_step (s : list N) (o : mop) : list N * mout :=
  match o with
  | MReg ch => (s ++ [ch], MOk)
  | MUnreg ch => (filter (fun x => negb (N.eqb x ch)) s, MOk)
  | MDeliver => (s, MList s)
  end.

(* websocket connection pool of one agent (pkg/didcomm/transport/ws connPool): verification key -> connection; the
   harness stores one (unused) connection object, so a fetch tells presence *)
Inductive wop := WAdd (k : N) | WRemove (k : N) | WFetch (k : N).
Inductive wout := WOk | WPresent (b : bool).
Definition pool_step (s : list N) (o : wop) : list N * wout :=
  match o with
  | WAdd k => (k :: filter (fun x => negb (N.eqb x k)) s, WOk)
  | WRemove k => (filter (fun x => negb (N.eqb x k)) s, WOk)
  | WFetch k => (s, WPresent (existsb (N.eqb k) s))
  end.

(* mediator inbox (message pickup): add, status, pickup n — per recipient; fault-free part of C15's model *)
Inductive iop := IAdd (d m : N) | IStatus (d : N) | IPickup (d : N) (n : nat)
  | IPickupFail (d : N) (n : nat).   (* batch pickup whose outbound send fails: the batch is shown to the dispatcher, the inbox keeps it *)
Inductive iout := IAdded | ICount (n : nat) | IBatch (ms : list N) | IBatchFail (ms : list N) | IErr.   (* IErr: no inbox document yet: nothing is sent *)
Definition istate := list (N * list N).
Fixpoint iget (s : istate) (d : N) : option (list N) :=
  match s with [] => None | (d', l) :: r => if N.eqb d d' then Some l else iget r d end.
Definition inbox_step (s : istate) (o : iop) : istate * iout :=
  match o with
  | IAdd d m => ((d, match iget s d with Some l => l | None => [] end ++ [m]) :: s, IAdded)
  | IStatus d => (s, match iget s d with Some l => ICount (length l) | None => IErr end)
  | IPickup d n => match iget s d with
                   | Some l => ((d, skipn n l) :: s, IBatch (firstn n l))
                   | None => (s, IErr)
                   end
  | IPickupFail d n => (s, match iget s d with Some l => IBatchFail (firstn n l) | None => IErr end)
  end.

(* ---------- from a trace of the interleaving semantics to a recorded history (ids = positions 0..n-1; the clock is
   the position of the event in the trace) ---------- *)
Section HistOf.
  Variables (op out : Type).
  Fixpoint find_inv (t : list (ev op out)) (i : nat) (pos : N) : option (op * N) :=
    match t with
    | [] => None
    | Inv _ _ j o :: r => if Nat.eqb i j then Some (o, pos) else find_inv r i (pos + 1)
    | _ :: r => find_inv r i (pos + 1)
    end.
  Fixpoint find_ret (t : list (ev op out)) (i : nat) (pos : N) : option (out * N) :=
    match t with
    | [] => None
    | Ret _ _ j x :: r => if Nat.eqb i j then Some (x, pos) else find_ret r i (pos + 1)
    | _ :: r => find_ret r i (pos + 1)
    end.
  Fixpoint hist_from (t : list (ev op out)) (i n : nat) : list (hrec op out) :=
    match n with
    | O => []
    | Datatypes.S n' =>
        match find_inv t i 0 with
        | None => []
        | Some (o, pi) =>
            match find_ret t i 0 with
            | Some (x, pr) => mkH o (Some x) pi pr
            | None => mkH o None pi 0
            end :: hist_from t (Datatypes.S i) n'
        end
    end.
  Definition hist_of (t : list (ev op out)) (n : nat) : list (hrec op out) := hist_from t 0 n.
End HistOf.
Arguments hist_of {op out} t n.

(* all orders of the ids 0..n-1 *)
Fixpoint ins_all (x : nat) (l : list nat) : list (list nat) :=
  match l with
  | [] => [[x]]
  | y :: r => (x :: l) :: map (cons y) (ins_all x r)
  end.
Fixpoint orders (n : nat) : list (list nat) :=
  match n with
  | O => [[]]
  | Datatypes.S k => flat_map (ins_all k) (orders k)
  end.

(* no order of the n (completed) operations of the history is a valid linearization *)
Definition no_linearization {S op out} (sstep : S -> op -> S * out) (out_eqb : out -> out -> bool) (s0 : S)
    (h : list (hrec op out)) : bool :=
  forallb (fun w => negb (valid_linearization sstep out_eqb s0 h w)) (orders (List.length h)).
Definition some_linearization {S op out} (sstep : S -> op -> S * out) (out_eqb : out -> out -> bool) (s0 : S)
    (h : list (hrec op out)) : bool :=
  existsb (fun w => valid_linearization sstep out_eqb s0 h w) (orders (List.length h)).
