(* C13 — lemmas: every interleaving of a component whose operations are single atomic steps is linearizable. *)
From Coq Require Import List Arith Bool Lia.
Import ListNotations.
From VF Require Import common.Lin C13.Model.

Section AtomicLin.
  Variables (S op out : Type).
  Variable sstep : S -> op -> S * out.
  Notation event := (ev op out).
  Notation Inv := (Inv op out).
  Notation Lin := (Lin op out).
  Notation Ret := (Ret op out).
  Notation lins := (lins op out).
  Notation prog := (atomic_prog sstep).

  Definition eid (x : nat * op * out) : nat := fst (fst x).

  (* a sequential run of the specification that returns the logged results *)
  Fixpoint seq_run (s : S) (l : list (nat * op * out)) : Prop :=
    match l with
    | [] => True
    | (_, o, r) :: rest => r = snd (sstep s o) /\ seq_run (fst (sstep s o)) rest
    end.
  Fixpoint final (s : S) (l : list (nat * op * out)) : S :=
    match l with [] => s | (_, o, _) :: rest => final (fst (sstep s o)) rest end.

  (* THE PROPERTY for one recorded trace: there is a sequential order [l] of (some of) the invoked operations, each
     with its own argument, containing every operation that returned, with the result it returned, legal for the
     sequential specification, and respecting real time: an operation that returned before another one was invoked
     comes first. *)
  Definition lin_strong (s0 : S) (t : list event) : Prop :=
    exists l : list (nat * op * out),
      seq_run s0 l /\ NoDup (map eid l) /\
      (forall i o r, In (i, o, r) l -> In (Inv i o) t) /\
      (forall i r, In (Ret i r) t -> exists o, In (i, o, r) l) /\
      (forall i j r o, before (Ret i r) (Inv j o) t -> In j (map eid l) -> before i j (map eid l)).

  Lemma seq_run_app s a b : seq_run s a -> seq_run (final s a) b -> seq_run s (a ++ b).
  Proof. revert s. induction a as [|[[i o] r] a IH]; intros s Ha Hb; cbn in *; [assumption|].
    destruct Ha as [H1 H2]. split; [assumption|]. apply IH; assumption. Qed.
  Lemma final_app s a b : final s (a ++ b) = final (final s a) b.
  Proof. revert s. induction a as [|[[i o] r] a IH]; intros s; cbn; [reflexivity|apply IH]. Qed.

  Lemma in_lins i t : In i (lins t) <-> In (Lin i) t.
  Proof. induction t as [|e t IH]; cbn; [tauto|].
    destruct e as [j o|j|j r]; cbn; rewrite IH; intuition congruence. Qed.

  Lemma before_app_l {A} (x y : A) t u : before x y t -> before x y (t ++ u).
  Proof. intros (a & b & c & ->). exists a, b, (c ++ u). repeat (rewrite <- app_assoc; cbn). reflexivity. Qed.
  Lemma before_snoc {A} (x y : A) t : In x t -> before x y (t ++ [y]).
  Proof. intros H. apply in_split in H as (a & b & ->). exists a, b, []. rewrite <- app_assoc. reflexivity. Qed.
  Lemma NoDup_snoc {A} (l : list A) x : NoDup l -> ~ In x l -> NoDup (l ++ [x]).
  Proof. induction l as [|y l IH]; intros Hn Hx; cbn; [constructor; [intros []|constructor]|].
    inversion Hn; subst. constructor.
    - intros Hi. apply in_app_or in Hi as [Hi|[Hi|[]]]; [contradiction|]. subst. apply Hx. left; reflexivity.
    - apply IH; [assumption|]. intros Hi. apply Hx. right; assumption. Qed.
  Lemma rev_case' {A} (l : list A) : l = [] \/ exists l' z, l = l' ++ [z].
  Proof. induction l using rev_ind; [left; reflexivity|right; eauto]. Qed.
  Lemma before_snoc_inv {A} (x y e : A) t : before x y (t ++ [e]) -> before x y t \/ (y = e /\ In x t).
  Proof. intros (a & b & c & E). destruct (rev_case' c) as [->|(c' & z & ->)].
    - right. assert (E' : t ++ [e] = (a ++ x :: b) ++ [y]) by (rewrite E, <- app_assoc; reflexivity).
      apply app_inj_tail in E' as [-> ->]. split; [reflexivity|]. apply in_or_app; right; left; reflexivity.
    - left. assert (E' : t ++ [e] = (a ++ x :: b ++ y :: c') ++ [z]).
      { rewrite E. repeat (rewrite <- app_assoc; cbn). reflexivity. }
      apply app_inj_tail in E' as [-> _]. exists a, b, c'. reflexivity. Qed.

  Definition ev_id (e : event) : nat := match e with Lin.Inv _ _ i _ | Lin.Lin _ _ i | Lin.Ret _ _ i _ => i end.

  Record inv (s0 : S) (c : cfg S op out) : Prop := {
    i_ids : forall e, In e (tr c) -> ev_id e < next c;
    i_run : seq_run s0 (lg c);
    i_fin : final s0 (lg c) = sh c;
    i_lins : map eid (lg c) = lins (tr c);
    i_lginv : forall i o r, In (i, o, r) (lg c) -> In (Inv i o) (tr c);
    i_ret : forall i r, In (Ret i r) (tr c) -> exists o, In (i, o, r) (lg c);
    i_nodup : NoDup (lins (tr c));
    i_rt : forall i j r o, before (Ret i r) (Inv j o) (tr c) -> In j (lins (tr c)) -> before i j (lins (tr c));
    i_cur : forall n i o k, cur S op out (thrs c n) = Some (i, o, k) ->
              i < next c /\ In (Inv i o) (tr c) /\
              ((k = prog o /\ ~ In i (lins (tr c))) \/ (exists r, k = Done r /\ In (i, o, r) (lg c)));
    i_dist : forall n m i o k o' k', cur S op out (thrs c n) = Some (i, o, k) ->
              cur S op out (thrs c m) = Some (i, o', k') -> n = m
  }.

  Lemma inv_start s0 threads : inv s0 (start s0 threads).
  Proof. constructor; cbn; try tauto; try reflexivity; try (intros; discriminate); try (constructor; fail).
    all: try (intros i j r o (a & b & c & E); destruct a; discriminate). Qed.

  Lemma lins_snoc t e : lins (t ++ [e]) = lins t ++ match e with Lin.Lin _ _ i => [i] | _ => [] end.
  Proof. rewrite lins_app. destruct e; reflexivity. Qed.

  Lemma upd_same f n t : upd S op out f n t n = t.
  Proof. unfold upd. rewrite Nat.eqb_refl. reflexivity. Qed.
  Lemma upd_other f n t m : m <> n -> upd S op out f n t m = f m.
  Proof. intros H. unfold upd. destruct (Nat.eqb_spec m n); [contradiction|reflexivity]. Qed.

  Lemma inv_step s0 c n : inv s0 c -> inv s0 (sched_step S op out prog c n).
  Proof.
    intros H. unfold sched_step.
    destruct (cur S op out (thrs c n)) as [[[i o] k]|] eqn:Ec.
    - destruct (i_cur _ _ H n i o k Ec) as (Hlt & Hin & Hk).
      destruct Hk as [[-> Hnl]|(r & -> & Hlg)].
      + (* the atomic step: the linearization point *)
        unfold atomic_prog. destruct (sstep (sh c) o) as [s' r] eqn:Es.
        constructor; cbn [sh thrs next tr lg].
        * intros e He. apply in_app_or in He as [He|[<-|[]]]; [apply (i_ids _ _ H); assumption|exact Hlt].
        * apply seq_run_app; [apply (i_run _ _ H)|]. rewrite (i_fin _ _ H). cbn. rewrite Es. cbn. auto.
        * rewrite final_app, (i_fin _ _ H). cbn. rewrite Es. reflexivity.
        * rewrite map_app, lins_snoc, (i_lins _ _ H). reflexivity.
        * intros i' o' r' Hi. apply in_app_or in Hi as [Hi|[Hi|[]]].
          -- apply in_or_app; left. apply (i_lginv _ _ H _ _ _ Hi).
          -- inversion Hi; subst. apply in_or_app; left. assumption.
        * intros i' r' Hi. apply in_app_or in Hi as [Hi|[Hi|[]]]; [|discriminate].
          destruct (i_ret _ _ H _ _ Hi) as (o' & Ho'). exists o'. apply in_or_app; left; assumption.
        * rewrite lins_snoc. apply NoDup_snoc; [apply (i_nodup _ _ H)|exact Hnl].
        * intros a j ra oj Hb Hj. rewrite lins_snoc in *.
          apply before_snoc_inv in Hb as [Hb|[Hb _]]; [|discriminate].
          apply in_app_or in Hj as [Hj|[<-|[]]].
          -- apply before_app_l. apply (i_rt _ _ H _ _ _ _ Hb Hj).
          -- apply before_snoc. rewrite <- (i_lins _ _ H).
             assert (Hr : In (Ret a ra) (tr c)).
             { destruct Hb as (x & y & z & ->). apply in_or_app; right; left; reflexivity. }
             destruct (i_ret _ _ H _ _ Hr) as (oa & Hoa). apply in_map_iff. exists (a, oa, ra). split; [reflexivity|assumption].
        * intros m i' o' k' Hc. destruct (Nat.eq_dec m n) as [->|Hne].
          -- rewrite upd_same in Hc. cbn in Hc. inversion Hc; subst. split; [assumption|]. split; [apply in_or_app; left; assumption|].
             right. exists r. split; [reflexivity|apply in_or_app; right; left; reflexivity].
          -- rewrite upd_other in Hc by assumption.
             destruct (i_cur _ _ H m i' o' k' Hc) as (Hlt' & Hin' & Hk'). split; [assumption|]. split; [apply in_or_app; left; assumption|].
             destruct Hk' as [[-> Hnl']|(r' & -> & Hlg')].
             ++ left. split; [reflexivity|]. rewrite lins_snoc. intros Hi. apply in_app_or in Hi as [Hi|[Hi|[]]]; [contradiction|].
                subst i'. apply Hne. symmetry. eapply (i_dist _ _ H); eassumption.
             ++ right. exists r'. split; [reflexivity|apply in_or_app; left; assumption].
        * intros m1 m2 i' o1 k1 o2 k2 H1 H2.
          destruct (Nat.eq_dec m1 n) as [->|N1]; destruct (Nat.eq_dec m2 n) as [->|N2]; [reflexivity| | |].
          -- rewrite upd_same in H1. rewrite upd_other in H2 by assumption. cbn in H1. inversion H1; subst. symmetry. eapply (i_dist _ _ H); eassumption.
          -- rewrite upd_same in H2. rewrite upd_other in H1 by assumption. cbn in H2. inversion H2; subst. eapply (i_dist _ _ H); eassumption.
          -- rewrite upd_other in H1, H2 by assumption. eapply (i_dist _ _ H); eassumption.
      + (* return *)
        constructor; cbn [sh thrs next tr lg].
        * intros e He. apply in_app_or in He as [He|[<-|[]]]; [apply (i_ids _ _ H); assumption|exact Hlt].
        * apply (i_run _ _ H).
        * apply (i_fin _ _ H).
        * rewrite lins_snoc, app_nil_r. apply (i_lins _ _ H).
        * intros i' o' r' Hi. apply in_or_app; left. apply (i_lginv _ _ H _ _ _ Hi).
        * intros i' r' Hi. apply in_app_or in Hi as [Hi|[Hi|[]]]; [apply (i_ret _ _ H _ _ Hi)|].
          inversion Hi; subst. exists o. assumption.
        * rewrite lins_snoc, app_nil_r. apply (i_nodup _ _ H).
        * intros a j ra oj Hb Hj. rewrite lins_snoc, app_nil_r in *.
          apply before_snoc_inv in Hb as [Hb|[Hb _]]; [|discriminate]. apply (i_rt _ _ H _ _ _ _ Hb Hj).
        * intros m i' o' k' Hc. destruct (Nat.eq_dec m n) as [->|Hne].
          -- rewrite upd_same in Hc. discriminate.
          -- rewrite upd_other in Hc by assumption. rewrite lins_snoc, app_nil_r.
             destruct (i_cur _ _ H m i' o' k' Hc) as (Hlt' & Hin' & Hk'). split; [assumption|]. split; [apply in_or_app; left; assumption|assumption].
        * intros m1 m2 i' o1 k1 o2 k2 H1 H2.
          destruct (Nat.eq_dec m1 n) as [->|N1]; [rewrite upd_same in H1; discriminate|].
          destruct (Nat.eq_dec m2 n) as [->|N2]; [rewrite upd_same in H2; discriminate|].
          rewrite upd_other in H1, H2 by assumption. eapply (i_dist _ _ H); eassumption.
    - (* invoke the next operation *)
      destruct (todo S op out (thrs c n)) as [|o rest] eqn:Et; [assumption|].
      assert (Hfresh : ~ In (next c) (lins (tr c))).
      { intros Hi. apply in_lins in Hi. apply (i_ids _ _ H) in Hi. cbn in Hi. lia. }
      constructor; cbn [sh thrs next tr lg].
      * intros e He. apply in_app_or in He as [He|[<-|[]]]; [apply (i_ids _ _ H) in He; lia|cbn; lia].
      * apply (i_run _ _ H).
      * apply (i_fin _ _ H).
      * rewrite lins_snoc, app_nil_r. apply (i_lins _ _ H).
      * intros i' o' r' Hi. apply in_or_app; left. apply (i_lginv _ _ H _ _ _ Hi).
      * intros i' r' Hi. apply in_app_or in Hi as [Hi|[Hi|[]]]; [apply (i_ret _ _ H _ _ Hi)|discriminate].
      * rewrite lins_snoc, app_nil_r. apply (i_nodup _ _ H).
      * intros a j ra oj Hb Hj. rewrite lins_snoc, app_nil_r in *.
        apply before_snoc_inv in Hb as [Hb|[Hb _]]; [apply (i_rt _ _ H _ _ _ _ Hb Hj)|].
        inversion Hb; subst. contradiction.
      * intros m i' o' k' Hc. rewrite lins_snoc, app_nil_r. destruct (Nat.eq_dec m n) as [->|Hne].
        -- rewrite upd_same in Hc. cbn in Hc. inversion Hc; subst. split; [lia|]. split; [apply in_or_app; right; left; reflexivity|].
           left. split; [reflexivity|assumption].
        -- rewrite upd_other in Hc by assumption.
           destruct (i_cur _ _ H m i' o' k' Hc) as (Hlt' & Hin' & Hk'). split; [lia|]. split; [apply in_or_app; left; assumption|assumption].
      * intros m1 m2 i' o1 k1 o2 k2 H1 H2.
        destruct (Nat.eq_dec m1 n) as [->|N1]; destruct (Nat.eq_dec m2 n) as [->|N2]; [reflexivity| | |].
        -- rewrite upd_same in H1. rewrite upd_other in H2 by assumption. cbn in H1. inversion H1; subst.
           destruct (i_cur _ _ H _ _ _ _ H2) as (Hlt' & _). lia.
        -- rewrite upd_same in H2. rewrite upd_other in H1 by assumption. cbn in H2. inversion H2; subst.
           destruct (i_cur _ _ H _ _ _ _ H1) as (Hlt' & _). lia.
        -- rewrite upd_other in H1, H2 by assumption. eapply (i_dist _ _ H); eassumption.
  Qed.

  Lemma inv_exec s0 sched : forall c, inv s0 c -> inv s0 (exec prog c sched).
  Proof. induction sched as [|n r IH]; intros c H; cbn; [assumption|]. apply IH. apply inv_step. assumption. Qed.

  Lemma inv_lin s0 c : inv s0 c -> lin_strong s0 (tr c).
  Proof. intros H. exists (lg c). split; [apply (i_run _ _ H)|]. split; [rewrite (i_lins _ _ H); apply (i_nodup _ _ H)|].
    split; [apply (i_lginv _ _ H)|]. split; [apply (i_ret _ _ H)|].
    rewrite (i_lins _ _ H). apply (i_rt _ _ H). Qed.

  Lemma atomic_lin s0 threads sched : lin_strong s0 (tr (exec prog (start s0 threads) sched)).
  Proof. apply inv_lin. apply inv_exec. apply inv_start. Qed.
End AtomicLin.
