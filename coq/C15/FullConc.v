(* C15 — what an accepted correspondence record of the document-level model establishes. *)
From Coq Require Import List NArith ZArith Bool Arith Lia Permutation.
Import ListNotations.
From VF Require Import C15.Full C15.FullProofs C15.Corr.

Lemma nlist_eqb_eq a : forall b, nlist_eqb a b = true -> a = b.
Proof.
  induction a as [|x r IH]; intros [|y t] H; cbn in H; try discriminate; [reflexivity|].
  apply andb_true_iff in H as [Hx Hr]. apply N.eqb_eq in Hx. subst. f_equal. apply IH, Hr.
Qed.

Lemma optn_eqb_eq a b : optn_eqb a b = true -> a = b.
Proof. destruct a, b; cbn; intro H; try discriminate; [apply N.eqb_eq in H; now subst|reflexivity]. Qed.

Lemma fout_eqb_eq a b : fout_eqb a b = true -> a = b.
Proof.
  destruct a, b; cbn; intro H; try discriminate; try reflexivity.
  - repeat (apply andb_true_iff in H as [H ?]).
    apply Bool.eqb_prop in H.
    repeat match goal with X : N.eqb _ _ = true |- _ => apply N.eqb_eq in X end.
    match goal with X : optn_eqb _ _ = true |- _ => apply optn_eqb_eq in X end.
    match goal with X : Z.eqb _ _ = true |- _ => apply Z.eqb_eq in X end. now subst.
  - repeat (apply andb_true_iff in H as [H ?]).
    apply Bool.eqb_prop in H.
    repeat match goal with X : N.eqb _ _ = true |- _ => apply N.eqb_eq in X end.
    match goal with X : nlist_eqb _ _ = true |- _ => apply nlist_eqb_eq in X end. now subst.
Qed.

(* an accepted sequential record: the observed outputs are the model's *)
Lemma fcheck_from_outs tab strict ops : forall s obs,
  fcheck_from tab strict s ops obs = true -> map fst obs = snd (frun s ops).
Proof.
  induction ops as [|o r IH]; intros s [|[x sn] t] H; cbn in H; try discriminate; [reflexivity|].
  cbn [frun]. destruct (fstep s o) as [s1 y].
  apply andb_true_iff in H as [H Hr]. apply andb_true_iff in H as [H _]. apply andb_true_iff in H as [Hx _].
  apply fout_eqb_eq in Hx. subst x. specialize (IH s1 t Hr).
  destruct (frun s1 r) as [s2 xs]. cbn in *. now rewrite IH.
Qed.

Lemma fstate_after_run ops : forall s, fstate_after s ops = fst (frun s ops).
Proof.
  induction ops as [|o r IH]; intro s; cbn [fstate_after frun]; [reflexivity|].
  destruct (fstep s o) as [s1 y]. cbn [fst]. rewrite IH. destruct (frun s1 r). reflexivity.
Qed.

Lemma inserts_perm {A} (x : A) l : forall p, In p (inserts x l) -> Permutation p (x :: l).
Proof.
  induction l as [|y r IH]; intros p H; cbn in H.
  - destruct H as [<-|[]]. apply Permutation_refl.
  - destruct H as [<-|H]; [apply Permutation_refl|].
    apply in_map_iff in H as [q [<- Hq]]. specialize (IH q Hq).
    eapply Permutation_trans; [apply perm_skip, IH|apply perm_swap].
Qed.

Lemma perms_perm {A} (l : list A) : forall p, In p (perms l) -> Permutation p l.
Proof.
  induction l as [|x r IH]; intros p H; cbn in H.
  - destruct H as [<-|[]]. constructor.
  - apply in_flat_map in H as [q [Hq Hp]]. apply inserts_perm in Hp.
    eapply Permutation_trans; [exact Hp|apply perm_skip, IH, Hq].
Qed.

Definition par_op (t : fop * fout * snap) : fop := fst (fst t).
Definition par_out (t : fop * fout * snap) : fout := snd (fst t).

Lemma lin_outs_run l : forall s b s2,
  lin_outs s l = (b, s2) -> b = true -> snd (frun s (map par_op l)) = map par_out l.
Proof.
  induction l as [|[[o x] sn] r IH]; intros s b s2 H Hb; cbn [map lin_outs frun] in *; [reflexivity|].
  unfold par_op at 1, par_out at 1. cbn [fst snd].
  destruct (fstep s o) as [s1 y]. destruct (lin_outs s1 r) as [b' s2'] eqn:E.
  injection H as Hb1 Hs. rewrite <- Hb1 in Hb. apply andb_true_iff in Hb as [Hx Hb']. apply fout_eqb_eq in Hx. subst x.
  specialize (IH s1 b' s2' E Hb'). destruct (frun s1 (map par_op r)) as [s3 xs]. cbn [snd] in *. now rewrite IH.
Qed.

Lemma overlapn_is_sequential k :
  check_concn k = true ->
  exists p, Permutation p (kn_par k) /\
            snd (frun [] (kn_pre k ++ map par_op p)) = map fst (kn_pre_obs k) ++ map par_out p.
Proof.
  intro H. unfold check_concn in H. apply andb_true_iff in H as [Hp He].
  apply fcheck_from_outs in Hp. apply existsb_exists in He as [p [Hin Hl]].
  exists p. split; [apply perms_perm, Hin|].
  unfold linn in Hl. destruct (lin_outs (fstate_after [] (kn_pre k)) p) as [b s2] eqn:E.
  apply andb_true_iff in Hl as [Hb _]. pose proof (lin_outs_run _ _ _ _ E Hb) as Ho.
  rewrite fstate_after_run in Ho. rewrite frun_app.
  destruct (frun [] (kn_pre k)) as [s1 xa]. cbn [fst snd] in *.
  destruct (frun s1 (map par_op p)) as [s3 xb]. cbn [snd] in *. now rewrite Hp, Ho.
Qed.

Lemma check_fcase_outs c :
  check_fcase c = true ->
  map fst (fc_obs c) = snd (frun (init_store (fc_tab c) (fc_init c)) (fc_ops c)).
Proof. unfold check_fcase. apply fcheck_from_outs. Qed.
