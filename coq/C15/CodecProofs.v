(* C15 — lemmas about the inbox document codec (Codec.v). *)
From Coq Require Import List String ZArith NArith Bool Lia.
Import ListNotations.
From VF Require Import common.Json C15.Full C15.Codec.
Open Scope string_scope.

Lemma decode_msg_encode c : decode_msg (encode_msg c) = Some c.
Proof.
  destruct c as [i t b]. unfold encode_msg. cbn [cm_id cm_time cm_b64].
  destruct (String.eqb b "") eqn:E.
  - apply String.eqb_eq in E. subst. reflexivity.
  - reflexivity.
Qed.

Lemma decode_all_encode l : decode_all (map encode_msg l) = Some l.
Proof.
  induction l as [|c r IH]; [reflexivity|].
  cbn [map decode_all]. rewrite decode_msg_encode, IH. reflexivity.
Qed.

(* decode (encode l) = l for every list of messages (and for the nil slice) *)
Lemma decode_msgs_encode o : decode_msgs (encode_msgs o) = Some o.
Proof. destruct o as [l|]; cbn [encode_msgs decode_msgs]; [rewrite decode_all_encode|]; reflexivity. Qed.

Lemma decode_top_encode t : decode_top (encode_top t) = Some (Some t).
Proof.
  destruct t as [d c a dl r tot raw]. unfold encode_top. cbn [ct_did ct_count ct_added ct_delivered ct_removed ct_total ct_raw].
  destruct (Z.eqb tot 0) eqn:E.
  - apply Z.eqb_eq in E. subst. reflexivity.
  - reflexivity.
Qed.

(* a decoded array is never shorter than the stored one: every element was decoded, in order *)
Lemma decode_all_complete l : forall cs,
  decode_all l = Some cs -> Forall2 (fun j c => decode_msg j = Some c) l cs.
Proof.
  induction l as [|j r IH]; intros cs H; cbn [decode_all] in H.
  - inversion H. constructor.
  - destruct (decode_msg j) as [c|] eqn:Ej; [|discriminate].
    destruct (decode_all r) as [cs'|]; [|discriminate]. inversion H; subst. constructor; [exact Ej|apply IH; reflexivity].
Qed.

Lemma decode_all_length l cs : decode_all l = Some cs -> List.length cs = List.length l.
Proof. intro H. apply decode_all_complete in H. induction H; cbn; [reflexivity|now f_equal]. Qed.

(* one element that does not decode makes the whole array undecodable: rejected, not truncated *)
Lemma decode_all_rejects l j : In j l -> decode_msg j = None -> decode_all l = None.
Proof.
  induction l as [|x r IH]; intros Hin Hj; [contradiction|].
  cbn [decode_all]. destruct Hin as [->|Hin].
  - rewrite Hj. reflexivity.
  - rewrite (IH Hin Hj). destruct (decode_msg x); reflexivity.
Qed.

Lemma abs_field_rejects tab l j : In j l -> decode_msg j = None -> abs_field tab (JArr l) = MBad.
Proof. intros Hin Hj. unfold abs_field. cbn [decode_msgs]. rewrite (decode_all_rejects _ _ Hin Hj). reflexivity. Qed.

Lemma msgs_of_length tab cs : forall ms, msgs_of tab cs = Some ms -> List.length ms = List.length cs.
Proof.
  induction cs as [|c r IH]; intros ms H; cbn [msgs_of] in H; [inversion H; reflexivity|].
  destruct (tab_find tab (cm_b64 c)); [|discriminate]. destruct (msgs_of tab r) as [ms'|]; [|discriminate].
  inversion H; subst. cbn. f_equal. apply IH. reflexivity.
Qed.

(* what a document means once decoded: as many messages as array elements *)
Lemma abs_field_list tab l ms : abs_field tab (JArr l) = MList ms -> List.length ms = List.length l.
Proof.
  unfold abs_field. cbn [decode_msgs]. destruct (decode_all l) as [cs|] eqn:E; [|discriminate].
  destruct (msgs_of tab cs) as [ms'|] eqn:E2; [|discriminate]. intro H. inversion H; subst.
  rewrite (msgs_of_length _ _ _ E2). apply decode_all_length, E.
Qed.

(* the abstraction of an encoded document is the document *)
Lemma abs_tree_encode tab t o :
  ct_raw t = encode_msgs o ->
  abs_tree tab (Some (encode_top t)) =
  DDoc (ct_count t) (match o with
                     | None => MNull
                     | Some cs => match msgs_of tab cs with Some ms => MList ms | None => MBad end
                     end).
Proof.
  intro Hr. unfold abs_tree. rewrite decode_top_encode. unfold abs_field. rewrite Hr, decode_msgs_encode.
  destruct o; reflexivity.
Qed.

Lemma decode_msgs_rejects l j : In j l -> decode_msg j = None -> decode_msgs (JArr l) = None.
Proof. intros Hin Hj. cbn [decode_msgs]. now rewrite (decode_all_rejects l j Hin Hj). Qed.
