(* C15 — property theorems about the document-level inbox model (Full.v), the codec of the stored
   document (Codec.v) and the acceptance conditions of the correspondence (Corr.v).  Only `exact <lemma>`
   (or a closed computation for a refutation witness); Print Assumptions follows each. *)
From Coq Require Import List String NArith ZArith Bool Permutation.
Import ListNotations.
From VF Require Import common.Json C15.Full C15.FullProofs C15.FullOnce C15.Codec C15.CodecProofs C15.Corr C15.FullConc.
Local Open Scope list_scope.
Local Open Scope N_scope.

(* EXACTLY ONCE, IN ORDER, NOTHING LOST — any store content to start from (also undecodable documents), any
   history of add / status-request / batch-pickup / noop / status / batch / restart over any recipients,
   ANY SET of failing store reads and writes and failing sends in every operation, as long as no operation is
   the lossy double fault `loses` (see loss_guard_exact):
     (batches handed over successfully FOR DESTINATION d) ++ (held for d) = (held before) ++ (accepted for d). *)
Theorem conservation_any_faults_partial : forall (ops : list fop) (s0 : fstore) (d : did),
  run_loses s0 ops = false ->
  let '(s, outs) := frun s0 ops in
  fdelivered d outs ++ held s d = held s0 d ++ faccepted d ops outs.
Proof. exact frun_conserve. Qed.
Print Assumptions conservation_any_faults_partial.

(* the guard excludes a step only where the code really loses: there the non-empty batch is gone from the
   inbox although the dispatcher refused it *)
Theorem loss_guard_exact : forall s o,
  loses s o = true ->
  exists me d rid n F batch,
    o = FPickup me d rid n F /\ batch <> [] /\
    snd (fstep s o) = XBatch false d me rid batch /\
    held s d = batch ++ held (fst (fstep s o)) d.
Proof. exact loses_exact. Qed.
Print Assumptions loss_guard_exact.

(* the full statement without the guard is false: send failure + failing restoring Put *)
Theorem conservation_any_faults_refuted :
  exists ops d, let '(s, outs) := frun [] ops in
                fdelivered d outs ++ held s d <> faccepted d ops outs.
Proof.
  exists [FAdd 1 7 nofault; FAdd 1 8 nofault;
          FPickup 9 1 5 1%Z {| f_get := []; f_put := [1%nat]; f_send := true |}], 1.
  vm_compute. discriminate.
Qed.
Print Assumptions conservation_any_faults_refuted.

(* THE PROPERTY'S QUANTIFIER ("every single failure"), at full strength: at most one fault per operation *)
Theorem conservation_single_faults : forall (ops : list fop) (s0 : fstore) (d : did),
  Forall (fun o => (nfaults (op_faults o) <= 1)%nat) ops ->
  let '(s, outs) := frun s0 ops in
  fdelivered d outs ++ held s d = held s0 d ++ faccepted d ops outs.
Proof. exact frun_conserve_single. Qed.
Print Assumptions conservation_single_faults.

(* any number of faults, provided no pickup has both a failing send and a failing second Put *)
Theorem conservation_many_faults : forall (ops : list fop) (s0 : fstore) (d : did),
  Forall (fun o => restore_double o = false) ops ->
  let '(s, outs) := frun s0 ops in
  fdelivered d outs ++ held s d = held s0 d ++ faccepted d ops outs.
Proof. exact frun_conserve_many. Qed.
Print Assumptions conservation_many_faults.

(* EXACTLY ONCE, spelled out: when the accepted messages are pairwise different, nothing is delivered twice, nothing
   delivered is still held, and a message is accepted iff it is delivered or held *)
Theorem exactly_once_delivery : forall ops s0 d,
  run_loses s0 ops = false -> held s0 d = [] ->
  NoDup (faccepted d ops (snd (frun s0 ops))) ->
  NoDup (fdelivered d (snd (frun s0 ops))) /\
  (forall m, In m (fdelivered d (snd (frun s0 ops))) -> ~ In m (held (fst (frun s0 ops)) d)) /\
  (forall m, In m (faccepted d ops (snd (frun s0 ops))) <->
             In m (fdelivered d (snd (frun s0 ops))) \/ In m (held (fst (frun s0 ops)) d)).
Proof. exact exactly_once. Qed.
Print Assumptions exactly_once_delivery.

(* IN ORDER, spelled out: what has been delivered is at every moment a prefix of what was accepted *)
Theorem delivered_in_acceptance_order : forall ops s0 d,
  run_loses s0 ops = false -> held s0 d = [] ->
  exists rest, faccepted d ops (snd (frun s0 ops)) = fdelivered d (snd (frun s0 ops)) ++ rest.
Proof. exact delivered_is_prefix. Qed.
Print Assumptions delivered_in_acceptance_order.

(* the service only ever writes documents whose message_count is the number of messages (from the empty store
   and from any well-formed one, under any faults, across restarts) ... *)
Theorem stored_count_invariant : forall ops s, wf s -> wf (fst (frun s ops)).
Proof. exact frun_wf. Qed.
Print Assumptions stored_count_invariant.

(* ... hence the count a status reports — taken from the document's own member, not from the messages — is the
   number held; the answer goes to the requester, from the mediator's DID of that connection, with the request's
   @id and the request's thread id as pthid *)
Theorem status_count_and_attribution : forall s me d rid thid F s' ok to from id pth c,
  wf s -> fstep s (FStatus me d rid thid F) = (s', XStatus ok to from id pth c) ->
  c = Z.of_nat (List.length (held s d)) /\ s' = s /\ to = d /\ from = me /\ id = rid /\ pth = thid /\ ok = negb (f_send F).
Proof. exact fstatus_exact. Qed.
Print Assumptions status_count_and_attribution.

(* a batch goes to the DID that asked, under the request's @id, and is the first max(0,min(n,held)) held messages *)
Theorem batch_attribution : forall s o s' ok to from id ms,
  fstep s o = (s', XBatch ok to from id ms) ->
  exists n F, o = FPickup from to id n F /\ ok = negb (f_send F) /\
              ms = firstn (fend (List.length (held s to)) n) (held s to).
Proof. exact fbatch_attribution. Qed.
Print Assumptions batch_attribution.

(* inboxes are independent: an operation leaves every other recipient's stored document alone ... *)
Theorem documents_independent : forall s o d,
  d <> fop_did o -> doc_of (fst (fstep s o)) d = doc_of s d.
Proof. exact fstep_independent. Qed.
Print Assumptions documents_independent.

(* ... and operations about different recipients commute: same outputs, same documents, in either order *)
Theorem different_recipients_commute : forall s a b,
  fop_did a <> fop_did b ->
  let '(s1, xa) := fstep s a in let '(s2, xb) := fstep s1 b in
  let '(t1, yb) := fstep s b in let '(t2, ya) := fstep t1 a in
  xa = ya /\ xb = yb /\ same_docs s2 t2.
Proof. exact fstep_commute. Qed.
Print Assumptions different_recipients_commute.

(* a stored value that does not decode is rejected and left untouched: never truncated, never overwritten *)
Theorem corrupt_document_rejected_untouched : forall s o d x,
  fop_did o = d -> doc_of s d = Some x ->
  x = DGarbage \/ (exists c, x = DDoc c MBad) ->
  fst (fstep s o) = s /\
  match o with FAdd _ _ _ | FPickup _ _ _ _ _ => snd (fstep s o) = XErr | _ => True end.
Proof. exact corrupt_rejected. Qed.
Print Assumptions corrupt_document_rejected_untouched.

(* a restart (new service instance over the same store) and the inbound noop / status / batch handlers are
   invisible: same outputs before and after, same final store *)
Theorem restart_and_inert_handlers_transparent : forall a b s o,
  o = FRestart \/ (exists k d, o = FInert k d) ->
  frun s (a ++ o :: b) =
  let '(s1, xa) := frun s a in let '(s2, xb) := frun s1 b in (s2, xa ++ XNone :: xb).
Proof. exact restart_transparent. Qed.
Print Assumptions restart_and_inert_handlers_transparent.

Theorem full_never_panics : forall ops s, existsb is_xpanic (snd (frun s ops)) = false.
Proof. exact frun_no_panic. Qed.
Print Assumptions full_never_panics.

(* ---- the codec of the stored document ---- *)
(* decode (encode l) = l for every list of stored messages (and for the nil slice, stored as null) *)
Theorem messages_roundtrip : forall o : option (list cmsg), decode_msgs (encode_msgs o) = Some o.
Proof. exact decode_msgs_encode. Qed.
Print Assumptions messages_roundtrip.

Theorem document_roundtrip : forall t : ctop, decode_top (encode_top t) = Some (Some t).
Proof. exact decode_top_encode. Qed.
Print Assumptions document_roundtrip.

(* rejected, not truncated: one undecodable element makes DecodeMessages fail as a whole; and whatever it
   accepts has exactly as many messages as the stored array has elements, each the decoding of its element *)
Theorem corrupt_messages_rejected_not_truncated : forall l j,
  In j l -> decode_msg j = None -> decode_msgs (JArr l) = None.
Proof. exact decode_msgs_rejects. Qed.
Print Assumptions corrupt_messages_rejected_not_truncated.

Theorem decoded_messages_complete : forall l cs,
  decode_all l = Some cs -> Forall2 (fun j c => decode_msg j = Some c) l cs.
Proof. exact decode_all_complete. Qed.
Print Assumptions decoded_messages_complete.

(* the meaning (for the inbox model) of a document the model's encoder produced is that document *)
Theorem abstraction_of_encoded_document : forall tab t o,
  ct_raw t = encode_msgs o ->
  abs_tree tab (Some (encode_top t)) =
  DDoc (ct_count t) (match o with
                     | None => MNull
                     | Some cs => match msgs_of tab cs with Some ms => MList ms | None => MBad end
                     end).
Proof. exact abs_tree_encode. Qed.
Print Assumptions abstraction_of_encoded_document.

(* ---- what acceptance by the correspondence means ---- *)
Theorem accepted_record_is_model_run : forall c : fcase,
  check_fcase c = true ->
  map fst (fc_obs c) = snd (frun (init_store (fc_tab c) (fc_init c)) (fc_ops c)).
Proof. exact check_fcase_outs. Qed.
Print Assumptions accepted_record_is_model_run.

(* forced overlaps of n (the harness: three) operations: an accepted record is the model's run of ONE of the n!
   sequential orders, so the conservation theorems speak about what the real service was seen to do *)
Theorem overlap_of_n_is_sequential : forall k : concn,
  check_concn k = true ->
  exists p, Permutation p (kn_par k) /\
            snd (frun [] (kn_pre k ++ map par_op p)) = map fst (kn_pre_obs k) ++ map par_out p.
Proof. exact overlapn_is_sequential. Qed.
Print Assumptions overlap_of_n_is_sequential.

(* ---- non-vacuity ---- *)
Example full_nonvacuous :
  let F2 := {| f_get := []; f_put := [0%nat; 1%nat]; f_send := false |} in
  let FS := {| f_get := [1%nat]; f_put := []; f_send := true |} in
  let ops := [FAdd 1 7 nofault; FAdd 2 9 nofault; FAdd 1 8 F2; FAdd 1 10 nofault; FRestart;
              FPickup 50 1 3 1%Z FS; FPickup 50 1 4 1%Z nofault; FInert 0 1;
              FStatus 50 1 5 (Some 77) nofault; FPickup 51 2 6 100%Z nofault] in
  run_loses [] ops = false /\
  let '(s, outs) := frun [] ops in
  fdelivered 1 outs = [7] /\ held s 1 = [10] /\ fdelivered 2 outs = [9] /\
  nth 8%nat outs XErr = XStatus true 1 50 5 (Some 77) 1%Z /\ nth 5%nat outs XErr = XBatch false 1 50 3 [7].
Proof. vm_compute. repeat split. Qed.

Example loses_nonvacuous :
  loses [(1, DDoc 2 (MList [7; 8]))] (FPickup 9 1 5 1%Z {| f_get := []; f_put := [1%nat]; f_send := true |}) = true /\
  loses [(1, DDoc 2 (MList [7; 8]))] (FPickup 9 1 5 0%Z {| f_get := []; f_put := [1%nat]; f_send := true |}) = false.
Proof. split; reflexivity. Qed.

Example codec_nonvacuous :
  let c := {| cm_id := "u1"; cm_time := "t1"; cm_b64 := "bTc=" |} in
  let t := {| ct_did := "did:example:r1"; ct_count := 1; ct_added := "z"; ct_delivered := "t2"; ct_removed := "t2";
              ct_total := 44; ct_raw := encode_msgs (Some [c]) |} in
  abs_tree [("bTc=", 7)] (Some (encode_top t)) = DDoc 1 (MList [7]) /\ reencodes (encode_top t) = true /\
  abs_tree [] (Some (JObj [("messages", JArr [JNum 3])])) = DDoc 0 MBad /\
  abs_tree [] (Some (JArr [])) = DGarbage /\ abs_tree [] (Some JNull) = DNull.
Proof. vm_compute. repeat split. Qed.
