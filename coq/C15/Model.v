(* C15 — mediator inbox (pkg/didcomm/protocol/messagepickup/service.go): executable model.
   No proofs here: this file must keep running when a proof breaks.

   One operation of the model = one call of AddMessage / handleStatusRequest / handleBatchPickup,
   expanded into the code's exact order of effects on the store and on the outbound dispatcher,
   with at most one injected fault (a failing store Get, a failing k-th store Put, a failing send). *)
From Coq Require Import List NArith ZArith Bool.
Import ListNotations.

Definition did := N.
Definition msg := N.

Inductive fault := NoFault | FGet | FPut (k : nat) | FSend.

Inductive pop :=
| Add (d : did) (m : msg) (f : fault)
| Status (d : did) (thread : bool) (f : fault)      (* thread = request carries ~thread *)
| Pickup (d : did) (n : Z) (f : fault).

Inductive pout :=
| OAdded                         (* AddMessage returned nil: the message is now held *)
| OErr                           (* an error came back, nothing was handed to the dispatcher *)
| OStatus (count : nat)          (* status handed to the dispatcher, send succeeded *)
| OStatusFail (count : nat)      (* status handed to the dispatcher, send failed *)
| OBatch (ms : list msg)         (* batch handed to the dispatcher, send succeeded: delivered *)
| OBatchFail (ms : list msg)     (* batch handed to the dispatcher, send failed: NOT delivered *)
| OPanic.                        (* the handler goroutine panicked: the agent dies *)

(* the code as found (AsIs) and after the three fix: commits (Fixed) *)
Inductive variant := AsIs | Fixed.

(* store: recipient DID -> inbox document (None = no document yet) *)
Definition pstate := list (did * list msg).

Fixpoint inbox_opt (s : pstate) (d : did) : option (list msg) :=
  match s with
  | [] => None
  | (d', l) :: r => if N.eqb d d' then Some l else inbox_opt r d
  end.

Definition inbox (s : pstate) (d : did) : list msg :=
  match inbox_opt s d with Some l => l | None => [] end.

Definition set_inbox (s : pstate) (d : did) (l : list msg) : pstate := (d, l) :: s.

Definition fails_put (f : fault) (k : nat) : bool :=
  match f with FPut k' => Nat.eqb k k' | _ => false end.
Definition fails_get (f : fault) : bool := match f with FGet => true | _ => false end.
Definition fails_send (f : fault) : bool := match f with FSend => true | _ => false end.

(* Go: end := len(msgs); if n < end { end = n }; [Fixed: if end < 0 { end = 0 }] *)
Definition batch_end (v : variant) (len : nat) (n : Z) : option nat :=
  if Z.ltb n (Z.of_nat len) then
    if Z.ltb n 0 then match v with AsIs => None | Fixed => Some 0 end
    else Some (Z.to_nat n)
  else Some len.

Definition step (v : variant) (s : pstate) (o : pop) : pstate * pout :=
  match o with
  | Add d m f =>
      (* createInbox: Get; if not found, Put an empty inbox *)
      if fails_get f then (s, OErr) else
      match inbox_opt s d with
      | None =>
          if fails_put f 0 then (s, OErr) else
          let s1 := set_inbox s d [] in
          if fails_put f 1 then (s1, OErr) else (set_inbox s1 d [m], OAdded)
      | Some l =>
          if fails_put f 0 then (s, OErr) else (set_inbox s d (l ++ [m]), OAdded)
      end
  | Status d thread f =>
      if fails_get f then (s, OErr) else
      match inbox_opt s d with
      | None => (s, OErr)
      | Some l =>
          if negb thread && match v with AsIs => true | Fixed => false end then (s, OPanic)
          else if fails_send f then (s, OStatusFail (length l)) else (s, OStatus (length l))
      end
  | Pickup d n f =>
      if fails_get f then (s, OErr) else
      match inbox_opt s d with
      | None => (s, OErr)
      | Some l =>
          match batch_end v (length l) n with
          | None => (s, OPanic)
          | Some e =>
              if fails_put f 0 then (s, OErr) else
              let s1 := set_inbox s d (skipn e l) in
              if fails_send f then
                match v with
                | AsIs => (s1, OBatchFail (firstn e l))
                | Fixed =>
                    (* restore the inbox (a failing restore Put would be a second fault in one call:
                       outside "every single failure"; fails_send f excludes fails_put f _) *)
                    (set_inbox s1 d l, OBatchFail (firstn e l))
                end
              else (s1, OBatch (firstn e l))
          end
      end
  end.

Fixpoint run (v : variant) (s : pstate) (ops : list pop) : pstate * list pout :=
  match ops with
  | [] => (s, [])
  | o :: r => let '(s1, x) := step v s o in let '(s2, xs) := run v s1 r in (s2, x :: xs)
  end.

(* what the property talks about *)
Definition op_did (o : pop) : did :=
  match o with Add d _ _ | Status d _ _ | Pickup d _ _ => d end.

(* messages accepted for d by this (op, out) pair / delivered to d by this pair *)
Definition accepted1 (d : did) (o : pop) (x : pout) : list msg :=
  match o, x with
  | Add d' m _, OAdded => if N.eqb d d' then [m] else []
  | _, _ => []
  end.
Definition delivered1 (d : did) (o : pop) (x : pout) : list msg :=
  match o, x with
  | Pickup d' _ _, OBatch ms => if N.eqb d d' then ms else []
  | _, _ => []
  end.

Fixpoint accepted (d : did) (ops : list pop) (outs : list pout) : list msg :=
  match ops, outs with
  | o :: r, x :: xs => accepted1 d o x ++ accepted d r xs
  | _, _ => []
  end.
Fixpoint delivered (d : did) (ops : list pop) (outs : list pout) : list msg :=
  match ops, outs with
  | o :: r, x :: xs => delivered1 d o x ++ delivered d r xs
  | _, _ => []
  end.

Definition is_panic (x : pout) : bool := match x with OPanic => true | _ => false end.

(* boolean statement of the property on one history (used by the violation search) *)
Fixpoint list_eqb (a b : list N) : bool :=
  match a, b with
  | [], [] => true
  | x :: r, y :: t => N.eqb x y && list_eqb r t
  | _, _ => false
  end.

Definition conserves (v : variant) (dids : list did) (ops : list pop) : bool :=
  let '(s, outs) := run v [] ops in
  forallb (fun d => list_eqb (delivered d ops outs ++ inbox s d) (accepted d ops outs)) dids
  && negb (existsb is_panic outs).
