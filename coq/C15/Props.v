(* C15 — property theorems only.  Every proof is `exact <lemma>` (or a closed computation for a
   refutation witness); Print Assumptions follows each. *)
From Coq Require Import List NArith ZArith Bool.
Import ListNotations.
From VF Require Import C15.Model C15.Proofs C15.Corr C15.ProofsConc.
Local Open Scope N_scope.

(* FULL STATEMENT (repaired code).  For every history of add / status / pickup operations of any
   length, over any recipients, any batch sizes (0, negative, larger than the inbox), with any single
   fault (store read, k-th store write, outbound send) injected into any subset of the operations:
   for every recipient d,
       (messages delivered to d, in delivery order) ++ (messages still held for d, in stored order)
     = (messages accepted for d, in acceptance order).
   Equality of LISTS gives at once: order preserved, each message exactly once, none lost, none invented. *)
Theorem conservation : forall (ops : list pop) (d : did),
  let '(s, outs) := run Fixed [] ops in
  delivered d ops outs ++ inbox s d = accepted d ops outs.
Proof. intros ops d. exact (run_conserve ops [] d). Qed.
Print Assumptions conservation.

(* the same from any pre-existing store content *)
Theorem conservation_from_any_state : forall (ops : list pop) (s0 : pstate) (d : did),
  let '(s, outs) := run Fixed s0 ops in
  delivered d ops outs ++ inbox s d = inbox s0 d ++ accepted d ops outs.
Proof. exact run_conserve. Qed.
Print Assumptions conservation_from_any_state.

(* the reported count always equals the number still held (in every state, hence every reachable one) *)
Theorem status_count_exact : forall v s d t f s' n,
  step v s (Status d t f) = (s', OStatus n) \/ step v s (Status d t f) = (s', OStatusFail n) ->
  n = length (inbox s d) /\ s' = s.
Proof. exact status_exact. Qed.
Print Assumptions status_count_exact.

(* a failed delivery or a storage error does not lose anything *)
Theorem failed_pickup_keeps_inbox : forall s d n f,
  (forall ms, snd (step Fixed s (Pickup d n f)) <> OBatch ms) ->
  inbox (fst (step Fixed s (Pickup d n f))) d = inbox s d.
Proof. exact pickup_undelivered_keeps. Qed.
Print Assumptions failed_pickup_keeps_inbox.

(* a delivered batch is the first max(0, min(n, held)) messages in stored order *)
Theorem batch_is_prefix : forall s d n f s' ms,
  step Fixed s (Pickup d n f) = (s', OBatch ms) ->
  exists e, ms = firstn e (inbox s d) /\ inbox s' d = skipn e (inbox s d) /\
            e = Z.to_nat (Z.max 0 (Z.min n (Z.of_nat (length (inbox s d))))).
Proof. exact pickup_batch_prefix. Qed.
Print Assumptions batch_is_prefix.

(* recipients are independent *)
Theorem independent : forall v s o d,
  d <> op_did o -> inbox_opt (fst (step v s o)) d = inbox_opt s d.
Proof. exact step_independent. Qed.
Print Assumptions independent.

(* no operation sequence makes a handler panic *)
Theorem never_panics : forall ops s, existsb is_panic (snd (run Fixed s ops)) = false.
Proof. exact run_no_panic. Qed.
Print Assumptions never_panics.

(* FORCED OVERLAPS.  The harness parks one operation inside a store call (or inside its outbound send) and
   starts a second one meanwhile; Corr.check_conc accepts the record only if what the real service was seen
   to do equals one of the two sequential orders of the model.  This theorem says what that acceptance
   means: the observed outputs of the whole history (prefix, then the two overlapped operations) ARE the
   model's outputs for one sequential order — so `conservation` above speaks about them. *)
Theorem overlap_is_sequential : forall k : conc,
  check_conc k = true ->
  snd (run Fixed [] (k_pre k ++ [k_a k; k_b k])) = map fst (k_pre_obs k) ++ [k_xa k; k_xb k] \/
  snd (run Fixed [] (k_pre k ++ [k_b k; k_a k])) = map fst (k_pre_obs k) ++ [k_xb k; k_xa k].
Proof. exact overlap_is_sequential. Qed.
Print Assumptions overlap_is_sequential.

(* HISTORICAL REFUTATIONS: the code as found (before the fix: commits) violates the property.
   The witnesses are kept in corpus/C15 and replayed on the implementation on every run. *)
Theorem conservation_asis_refuted :
  exists ops, conserves AsIs [1%N] ops = false /\ conserves Fixed [1%N] ops = true.
Proof. exists [Add 1 7 NoFault; Add 1 8 NoFault; Pickup 1 1%Z FSend]. split; vm_compute; reflexivity. Qed.
Print Assumptions conservation_asis_refuted.

Theorem never_panics_asis_refuted :
  existsb is_panic (snd (run AsIs [] [Add 1 7 NoFault; Pickup 1 (-1)%Z NoFault])) = true /\
  existsb is_panic (snd (run AsIs [] [Add 1 7 NoFault; Status 1 false NoFault])) = true.
Proof. split; vm_compute; reflexivity. Qed.
Print Assumptions never_panics_asis_refuted.

(* non-vacuity: a concrete history with deliveries, a failed send, a storage fault and two recipients *)
Example conservation_nonvacuous :
  let ops := [Add 1 7 NoFault; Add 2 9 NoFault; Add 1 8 (FPut 0%nat); Add 1 10 NoFault;
              Pickup 1 1%Z FSend; Pickup 1 1%Z NoFault; Status 1 true NoFault; Pickup 2 100%Z NoFault] in
  let '(s, outs) := run Fixed [] ops in
  delivered 1 ops outs = [7%N] /\ inbox s 1 = [10%N] /\ delivered 2 ops outs = [9%N] /\
  nth 6%nat outs OErr = OStatus 1%nat.
Proof. vm_compute. repeat split. Qed.
