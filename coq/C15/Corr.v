(* C15 — correspondence: the harness records, for the same op list, what the real service did. *)
From Coq Require Import List NArith ZArith Bool.
Import ListNotations.
From VF Require Export C15.Model.

Definition pout_eqb (a b : pout) : bool :=
  match a, b with
  | OAdded, OAdded | OErr, OErr | OPanic, OPanic => true
  | OStatus n, OStatus m | OStatusFail n, OStatusFail m => Nat.eqb n m
  | OBatch l, OBatch l' | OBatchFail l, OBatchFail l' => list_eqb l l'
  | _, _ => false
  end.

Definition snap_eqb (a b : option (list msg)) : bool :=
  match a, b with
  | None, None => true
  | Some l, Some l' => list_eqb l l'
  | _, _ => false
  end.

(* a case: ops, and per op (observed output, inbox document of the op's recipient read back afterwards) *)
Record case := { c_ops : list pop; c_obs : list (pout * option (list msg)) }.

Fixpoint check_from (s : pstate) (ops : list pop) (obs : list (pout * option (list msg))) : bool :=
  match ops, obs with
  | [], [] => true
  | o :: r, (x, snap) :: t =>
      let '(s1, y) := step Fixed s o in
      if is_panic y then pout_eqb x y && match t with [] => true | _ => false end  (* the agent is dead *)
      else pout_eqb x y && snap_eqb snap (inbox_opt s1 (op_did o)) && check_from s1 r t
  | _, _ => false
  end.

Definition check_case (c : case) : bool := check_from [] (c_ops c) (c_obs c).

(* Two operations forced to overlap (the harness parks the first one inside a store call or inside the
   outbound send and starts the second): after a sequential prefix, the observed outputs and the final
   inbox documents must be those of one of the two sequential orders of the model — the atomicity the
   model assumes of the handlers (one at a time under inboxLock), checked on the real service. *)
Record conc := { k_pre : list pop; k_pre_obs : list (pout * option (list msg));
                 k_a : pop; k_b : pop; k_xa : pout; k_xb : pout;
                 k_snap_a : option (list msg); k_snap_b : option (list msg) }.

Fixpoint state_after (s : pstate) (ops : list pop) : pstate :=
  match ops with [] => s | o :: r => state_after (fst (step Fixed s o)) r end.

Definition lin2 (s : pstate) (a b : pop) (xa xb : pout) (sa sb : option (list msg)) : bool :=
  let '(s1, ya) := step Fixed s a in
  let '(s2, yb) := step Fixed s1 b in
  pout_eqb xa ya && pout_eqb xb yb && snap_eqb sa (inbox_opt s2 (op_did a)) && snap_eqb sb (inbox_opt s2 (op_did b)).

Definition check_conc (k : conc) : bool :=
  check_from [] (k_pre k) (k_pre_obs k) &&
  let s := state_after [] (k_pre k) in
  (lin2 s (k_a k) (k_b k) (k_xa k) (k_xb k) (k_snap_a k) (k_snap_b k)
   || lin2 s (k_b k) (k_a k) (k_xb k) (k_xa k) (k_snap_b k) (k_snap_a k)).

Inductive xcase := Seq (c : case) | Conc (k : conc).
Definition check_xcase (x : xcase) : bool :=
  match x with Seq c => check_case c | Conc k => check_conc k end.

Fixpoint mismatches_from (i : nat) (cs : list xcase) : list nat :=
  match cs with
  | [] => []
  | c :: r => if check_xcase c then mismatches_from (S i) r else i :: mismatches_from (S i) r
  end.
Definition mismatches := mismatches_from 0.
