(* C15 — correspondence: the harness records, for the same op list, what the real service did. *)
From Coq Require Import List NArith ZArith Bool.
Import ListNotations.
From VF Require Export C15.Model.

Definition pout_eqb (a b : pout) : bool :=
  match a, b with
  | OAdded, OAdded | OErr, OErr | OPanic, OPanic => true
  | OStatus n, OStatus m | OStatusFail n, OStatusFail m => Nat.eqb n m
  | OBatch l, OBatch l' | OBatchFail l, OBatchFail l' => list_eqb l l'
  | _, _ => false
  end.

Definition snap_eqb (a b : option (list msg)) : bool :=
  match a, b with
  | None, None => true
  | Some l, Some l' => list_eqb l l'
  | _, _ => false
  end.

(* a case: ops, and per op (observed output, inbox document of the op's recipient read back afterwards) *)
Record case := { c_ops : list pop; c_obs : list (pout * option (list msg)) }.

Fixpoint check_from (s : pstate) (ops : list pop) (obs : list (pout * option (list msg))) : bool :=
  match ops, obs with
  | [], [] => true
  | o :: r, (x, snap) :: t =>
      let '(s1, y) := step Fixed s o in
      if is_panic y then pout_eqb x y && match t with [] => true | _ => false end  (* the agent is dead *)
      else pout_eqb x y && snap_eqb snap (inbox_opt s1 (op_did o)) && check_from s1 r t
  | _, _ => false
  end.

Definition check_case (c : case) : bool := check_from [] (c_ops c) (c_obs c).

Fixpoint mismatches_from (i : nat) (cs : list case) : list nat :=
  match cs with
  | [] => []
  | c :: r => if check_case c then mismatches_from (S i) r else i :: mismatches_from (S i) r
  end.
Definition mismatches := mismatches_from 0.
