(* C15 — correspondence: the harness records, for the same op list, what the real service did. *)
From Coq Require Import List NArith ZArith Bool String.
Import ListNotations.
From VF Require Export C15.Model.
From VF Require Export common.Json C15.Full C15.Codec.

Definition pout_eqb (a b : pout) : bool :=
  match a, b with
  | OAdded, OAdded | OErr, OErr | OPanic, OPanic => true
  | OStatus n, OStatus m | OStatusFail n, OStatusFail m => Nat.eqb n m
  | OBatch l, OBatch l' | OBatchFail l, OBatchFail l' => list_eqb l l'
  | _, _ => false
  end.

Definition snap_eqb (a b : option (list msg)) : bool :=
  match a, b with
  | None, None => true
  | Some l, Some l' => list_eqb l l'
  | _, _ => false
  end.

(* a case: ops, and per op (observed output, inbox document of the op's recipient read back afterwards) *)
Record case := { c_ops : list pop; c_obs : list (pout * option (list msg)) }.

Fixpoint check_from (s : pstate) (ops : list pop) (obs : list (pout * option (list msg))) : bool :=
  match ops, obs with
  | [], [] => true
  | o :: r, (x, snap) :: t =>
      let '(s1, y) := step Fixed s o in
      if is_panic y then pout_eqb x y && match t with [] => true | _ => false end  (* the agent is dead *)
      else pout_eqb x y && snap_eqb snap (inbox_opt s1 (op_did o)) && check_from s1 r t
  | _, _ => false
  end.

Definition check_case (c : case) : bool := check_from [] (c_ops c) (c_obs c).

(* Two operations forced to overlap (the harness parks the first one inside a store call or inside the
   outbound send and starts the second): after a sequential prefix, the observed outputs and the final
   inbox documents must be those of one of the two sequential orders of the model — the atomicity the
   model assumes of the handlers (one at a time under inboxLock), checked on the real service. *)
Record conc := { k_pre : list pop; k_pre_obs : list (pout * option (list msg));
                 k_a : pop; k_b : pop; k_xa : pout; k_xb : pout;
                 k_snap_a : option (list msg); k_snap_b : option (list msg) }.

Fixpoint state_after (s : pstate) (ops : list pop) : pstate :=
  match ops with [] => s | o :: r => state_after (fst (step Fixed s o)) r end.

Definition lin2 (s : pstate) (a b : pop) (xa xb : pout) (sa sb : option (list msg)) : bool :=
  let '(s1, ya) := step Fixed s a in
  let '(s2, yb) := step Fixed s1 b in
  pout_eqb xa ya && pout_eqb xb yb && snap_eqb sa (inbox_opt s2 (op_did a)) && snap_eqb sb (inbox_opt s2 (op_did b)).

Definition check_conc (k : conc) : bool :=
  check_from [] (k_pre k) (k_pre_obs k) &&
  let s := state_after [] (k_pre k) in
  (lin2 s (k_a k) (k_b k) (k_xa k) (k_xb k) (k_snap_a k) (k_snap_b k)
   || lin2 s (k_b k) (k_a k) (k_xb k) (k_xa k) (k_snap_b k) (k_snap_a k)).

(* ---------- wave 5: the document-level model (Full.v) and the codec (Codec.v) ---------- *)

Fixpoint nlist_eqb (a b : list N) : bool :=
  match a, b with [], [] => true | x :: r, y :: t => N.eqb x y && nlist_eqb r t | _, _ => false end.
Definition optn_eqb (a b : option N) : bool :=
  match a, b with None, None => true | Some x, Some y => N.eqb x y | _, _ => false end.

Definition mfield_eqb (a b : mfield) : bool :=
  match a, b with MNull, MNull | MBad, MBad => true | MList x, MList y => nlist_eqb x y | _, _ => false end.
Definition sdoc_eqb (a b : sdoc) : bool :=
  match a, b with
  | DGarbage, DGarbage | DNull, DNull => true
  | DDoc c f, DDoc c' f' => Z.eqb c c' && mfield_eqb f f'
  | _, _ => false
  end.

Definition fout_eqb (a b : fout) : bool :=
  match a, b with
  | XAdded, XAdded | XErr, XErr | XNone, XNone | XPanic, XPanic => true
  | XStatus ok to from id pth c, XStatus ok' to' from' id' pth' c' =>
      Bool.eqb ok ok' && N.eqb to to' && N.eqb from from' && N.eqb id id' && optn_eqb pth pth' && Z.eqb c c'
  | XBatch ok to from id ms, XBatch ok' to' from' id' ms' =>
      Bool.eqb ok ok' && N.eqb to to' && N.eqb from from' && N.eqb id id' && nlist_eqb ms ms'
  | _, _ => false
  end.

(* what the harness read back from the raw store: nothing / a document it classified itself (bulk cases) /
   the JSON tree of the stored bytes, None when they are not JSON (codec cases: Coq does the classification) *)
Inductive snap := SNo | SDoc (x : sdoc) | STree (t : option json).

Definition snap_doc (tab : list (string * msg)) (sn : snap) : option sdoc :=
  match sn with SNo => None | SDoc x => Some x | STree t => Some (abs_tree tab t) end.

Definition osdoc_eqb (a b : option sdoc) : bool :=
  match a, b with None, None => true | Some x, Some y => sdoc_eqb x y | _, _ => false end.

(* a document the service wrote itself must be reproduced by the encoder of the model, member by member *)
Definition snap_reencodes (sn : snap) : bool :=
  match sn with STree (Some j) => reencodes j | STree None => false | _ => true end.

Record fcase := { fc_tab : list (string * msg);           (* base64 text of each payload handed to AddMessage -> its number *)
                  fc_init : list (did * snap);             (* documents planted in the store before the history *)
                  fc_ops : list fop;
                  fc_obs : list (fout * snap) }.

Fixpoint init_store (tab : list (string * msg)) (init : list (did * snap)) : fstore :=
  match init with
  | [] => []
  | (d, sn) :: r => match snap_doc tab sn with Some x => put_doc (init_store tab r) d x | None => init_store tab r end
  end.

Fixpoint fcheck_from (tab : list (string * msg)) (strict : bool) (s : fstore) (ops : list fop) (obs : list (fout * snap)) : bool :=
  match ops, obs with
  | [], [] => true
  | o :: r, (x, sn) :: t =>
      let '(s1, y) := fstep s o in
      fout_eqb x y && osdoc_eqb (snap_doc tab sn) (doc_of s1 (fop_did o))
      && (negb strict || snap_reencodes sn) && fcheck_from tab strict s1 r t
  | _, _ => false
  end.

Definition check_fcase (c : fcase) : bool :=
  fcheck_from (fc_tab c) (match fc_init c with [] => true | _ => false end)
              (init_store (fc_tab c) (fc_init c)) (fc_ops c) (fc_obs c).

(* n operations forced to overlap (wave 5: three): some sequential order of them explains every output and
   the documents read back at the end *)
Fixpoint inserts {A} (x : A) (l : list A) : list (list A) :=
  match l with [] => [[x]] | y :: r => (x :: y :: r) :: map (cons y) (inserts x r) end.
Fixpoint perms {A} (l : list A) : list (list A) :=
  match l with [] => [[]] | x :: r => flat_map (inserts x) (perms r) end.

Fixpoint fstate_after (s : fstore) (ops : list fop) : fstore :=
  match ops with [] => s | o :: r => fstate_after (fst (fstep s o)) r end.

Fixpoint lin_outs (s : fstore) (l : list (fop * fout * snap)) : bool * fstore :=
  match l with
  | [] => (true, s)
  | (o, x, _) :: r => let '(s1, y) := fstep s o in let '(b, s2) := lin_outs s1 r in (fout_eqb x y && b, s2)
  end.

Definition linn (s : fstore) (l : list (fop * fout * snap)) : bool :=
  let '(b, s2) := lin_outs s l in
  b && forallb (fun t => match t with (o, _, sn) => osdoc_eqb (snap_doc [] sn) (doc_of s2 (fop_did o)) end) l.

Record concn := { kn_pre : list fop; kn_pre_obs : list (fout * snap); kn_par : list (fop * fout * snap) }.

Definition check_concn (k : concn) : bool :=
  fcheck_from [] false [] (kn_pre k) (kn_pre_obs k) &&
  existsb (linn (fstate_after [] (kn_pre k))) (perms (kn_par k)).

Inductive xcase := Seq (c : case) | Conc (k : conc) | FSeq (c : fcase) | ConcN (k : concn).
Definition check_xcase (x : xcase) : bool :=
  match x with Seq c => check_case c | Conc k => check_conc k | FSeq c => check_fcase c | ConcN k => check_concn k end.

Fixpoint mismatches_from (i : nat) (cs : list xcase) : list nat :=
  match cs with
  | [] => []
  | c :: r => if check_xcase c then mismatches_from (S i) r else i :: mismatches_from (S i) r
  end.
Definition mismatches := mismatches_from 0.
