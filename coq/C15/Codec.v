(* C15 — the codec of the stored inbox document (pkg/didcomm/protocol/messagepickup/service.go: type inbox,
   getInbox/putInbox, DecodeMessages/EncodeMessages; models.go: type Message), on JSON trees.  No proofs here.

   The harness turns the REAL stored bytes into a tree with a generic, order-preserving JSON reader that knows
   nothing about inboxes; everything specific — which members exist, their types, which documents are rejected
   at which stage, what a document means for the inbox model — is decided here, in Coq.

   Limits (stated in checks/C15.json): member names are matched exactly (encoding/json also accepts other
   letter cases and takes the LAST of duplicate members), numbers are integers, a null array element and
   time-stamp syntax are not modelled; the harness generates none of these. *)
From Coq Require Import List String ZArith NArith Bool.
Import ListNotations.
From VF Require Import common.Json C15.Full.
Open Scope string_scope.

(* one stored message: models.go type Message {id, added_time, msg(base64 text, omitted when empty)} *)
Record cmsg := { cm_id : string; cm_time : string; cm_b64 : string }.
(* the document without its messages decoded: getInbox keeps `messages` raw *)
Record ctop := { ct_did : string; ct_count : Z; ct_added : string; ct_delivered : string; ct_removed : string;
                 ct_total : Z; ct_raw : json }.

Definition get_str (m : list (string * json)) (k : string) : option string :=
  match lookup m k with None | Some JNull => Some "" | Some (JStr s) => Some s | Some _ => None end.
Definition get_num (m : list (string * json)) (k : string) : option Z :=
  match lookup m k with None | Some JNull => Some 0%Z | Some (JNum z) => Some z | Some _ => None end.
Definition get_raw (m : list (string * json)) (k : string) : json :=
  match lookup m k with None => JNull | Some j => j end.

(* json.Unmarshal(bytes, &inbox): Some None = the JSON value null (nothing is set, no error) *)
Definition decode_top (j : json) : option (option ctop) :=
  match j with
  | JNull => Some None
  | JObj m =>
      match get_str m "DID", get_num m "message_count", get_str m "last_added_time",
            get_str m "last_delivered_time", get_str m "last_removed_time", get_num m "total_size" with
      | Some d, Some c, Some a, Some dl, Some r, Some t =>
          Some (Some {| ct_did := d; ct_count := c; ct_added := a; ct_delivered := dl; ct_removed := r;
                        ct_total := t; ct_raw := get_raw m "messages" |})
      | _, _, _, _, _, _ => None
      end
  | _ => None
  end.

Definition decode_msg (j : json) : option cmsg :=
  match j with
  | JObj m =>
      match get_str m "id", get_str m "added_time", get_str m "msg" with
      | Some i, Some t, Some b => Some {| cm_id := i; cm_time := t; cm_b64 := b |}
      | _, _, _ => None
      end
  | _ => None
  end.

Fixpoint decode_all (l : list json) : option (list cmsg) :=
  match l with
  | [] => Some []
  | j :: r => match decode_msg j, decode_all r with Some c, Some cs => Some (c :: cs) | _, _ => None end
  end.

(* DecodeMessages: Some None = null (a nil slice) *)
Definition decode_msgs (raw : json) : option (option (list cmsg)) :=
  match raw with
  | JNull => Some None
  | JArr l => match decode_all l with Some cs => Some (Some cs) | None => None end
  | _ => None
  end.

(* json.Marshal *)
Definition encode_msg (c : cmsg) : json :=
  JObj ([("id", JStr (cm_id c)); ("added_time", JStr (cm_time c))] ++
        (if String.eqb (cm_b64 c) "" then [] else [("msg", JStr (cm_b64 c))])).
Definition encode_msgs (o : option (list cmsg)) : json :=
  match o with None => JNull | Some l => JArr (map encode_msg l) end.
Definition encode_top (t : ctop) : json :=
  JObj ([("DID", JStr (ct_did t)); ("message_count", JNum (ct_count t)); ("last_added_time", JStr (ct_added t));
         ("last_delivered_time", JStr (ct_delivered t)); ("last_removed_time", JStr (ct_removed t))] ++
        (if Z.eqb (ct_total t) 0 then [] else [("total_size", JNum (ct_total t))]) ++
        [("messages", ct_raw t)]).

(* --- what a stored value means for the inbox model --- *)
(* the harness names every payload it hands to AddMessage by a number; tab = base64 text -> number (an INPUT-side table) *)
Fixpoint tab_find (tab : list (string * msg)) (b : string) : option msg :=
  match tab with [] => None | (k, m) :: r => if String.eqb b k then Some m else tab_find r b end.

Fixpoint msgs_of (tab : list (string * msg)) (cs : list cmsg) : option (list msg) :=
  match cs with
  | [] => Some []
  | c :: r => match tab_find tab (cm_b64 c), msgs_of tab r with Some m, Some ms => Some (m :: ms) | _, _ => None end
  end.

Definition abs_field (tab : list (string * msg)) (raw : json) : mfield :=
  match decode_msgs raw with
  | None => MBad
  | Some None => MNull
  | Some (Some cs) => match msgs_of tab cs with Some ms => MList ms | None => MBad end
  end.

(* None = the stored bytes are not JSON at all *)
Definition abs_tree (tab : list (string * msg)) (t : option json) : sdoc :=
  match t with
  | None => DGarbage
  | Some j =>
      match decode_top j with
      | None => DGarbage
      | Some None => DNull
      | Some (Some top) => DDoc (ct_count top) (abs_field tab (ct_raw top))
      end
  end.

(* structural equality of trees (for: the encoder reproduces the real document member by member, in order) *)
Fixpoint json_eqb (a b : json) : bool :=
  match a, b with
  | JNull, JNull => true
  | JBool x, JBool y => Bool.eqb x y
  | JNum x, JNum y => Z.eqb x y
  | JStr x, JStr y => String.eqb x y
  | JArr x, JArr y =>
      (fix go (x y : list json) : bool :=
         match x, y with [], [] => true | p :: r, q :: t => json_eqb p q && go r t | _, _ => false end) x y
  | JObj x, JObj y =>
      (fix go (x y : list (string * json)) : bool :=
         match x, y with
         | [], [] => true
         | (k, p) :: r, (k', q) :: t => String.eqb k k' && json_eqb p q && go r t
         | _, _ => false
         end) x y
  | _, _ => false
  end.

(* a real document written by the service: decoding it and encoding the result gives the same tree back,
   and total_size / message_count are what EncodeMessages computes (count = number of messages) *)
Definition reencodes (j : json) : bool :=
  match decode_top j with
  | Some (Some top) =>
      match decode_msgs (ct_raw top) with
      | Some o =>
          json_eqb (encode_top {| ct_did := ct_did top; ct_count := ct_count top; ct_added := ct_added top;
                                  ct_delivered := ct_delivered top; ct_removed := ct_removed top;
                                  ct_total := ct_total top; ct_raw := encode_msgs o |}) j
          && Z.eqb (ct_count top) (match o with None => 0%Z | Some l => Z.of_nat (List.length l) end)
      | None => false
      end
  | _ => false
  end.
