(* C15 — lemmas about the document-level inbox model (Full.v). *)
From Coq Require Import List NArith ZArith Bool Arith Lia.
Import ListNotations.
From VF Require Import C15.Full.

Lemma doc_put_same s d x : doc_of (put_doc s d x) d = Some x.
Proof. unfold put_doc; cbn. rewrite N.eqb_refl. reflexivity. Qed.
Lemma doc_put_other s d d' x : d' <> d -> doc_of (put_doc s d x) d' = doc_of s d'.
Proof. intro H. unfold put_doc; cbn. destruct (N.eqb_spec d' d); [contradiction|reflexivity]. Qed.

Lemma held_put_list s d c l : held (put_doc s d (DDoc c (MList l))) d = l.
Proof. unfold held. rewrite doc_put_same. reflexivity. Qed.
Lemma held_put_other s d d' x : d' <> d -> held (put_doc s d x) d' = held s d'.
Proof. intro H. unfold held. rewrite doc_put_other by assumption. reflexivity. Qed.

(* what the decoded list is, in terms of `held` *)
Lemma held_of_field s d x c f l :
  doc_of s d = Some x -> load x = Some (c, f) -> field_msgs f = Some l -> held s d = l.
Proof.
  intros Hd Hl Hf. unfold held. rewrite Hd.
  destruct x as [| |c' f']; cbn in Hl; try discriminate.
  - inversion Hl; subst. cbn in Hf. inversion Hf. reflexivity.
  - inversion Hl; subst. destruct f; cbn in Hf; try discriminate; inversion Hf; reflexivity.
Qed.

Lemma held_put_rest s d c f e l :
  field_msgs f = Some l -> held (put_doc s d (DDoc c (rest_field f e))) d = skipn e l.
Proof.
  intro Hf. unfold held. rewrite doc_put_same.
  destruct f; cbn in *; try discriminate; inversion Hf; subst; [now rewrite skipn_nil|reflexivity].
Qed.

Lemma held_put_field s d c f l :
  field_msgs f = Some l -> held (put_doc s d (DDoc c f)) d = l.
Proof.
  intro Hf. unfold held. rewrite doc_put_same.
  destruct f; cbn in *; try discriminate; inversion Hf; subst; reflexivity.
Qed.

(* --- independence --- *)
Lemma fstep_independent s o d : d <> fop_did o -> doc_of (fst (fstep s o)) d = doc_of s d.
Proof.
  intro Hd. destruct o as [d0 m F|me d0 rid thid F|me d0 rid n F|k d0|]; cbn [fop_did] in Hd; cbn [fstep]; try reflexivity.
  - destruct (gfail F 0); [reflexivity|]. destruct (doc_of s d0) as [x|].
    + destruct (load x) as [[c f]|]; [|reflexivity]. destruct (field_msgs f); [|reflexivity].
      destruct (pfail F 0); cbn [fst]; [reflexivity|]. now apply doc_put_other.
    + destruct (pfail F 0); cbn [fst]; [reflexivity|].
      destruct (pfail F 1); cbn [fst]; rewrite ?doc_put_other by assumption; reflexivity.
  - destruct (gfail F 0); [reflexivity|]. destruct (doc_of s d0) as [x|]; [|reflexivity].
    destruct (load x) as [[c f]|]; reflexivity.
  - destruct (gfail F 0); [reflexivity|]. destruct (doc_of s d0) as [x|]; [|reflexivity].
    destruct (load x) as [[c f]|]; [|reflexivity]. destruct (field_msgs f); [|reflexivity].
    destruct (pfail F 0); [reflexivity|].
    destruct (f_send F); [destruct (pfail F 1)|]; cbn [fst]; rewrite ?doc_put_other by assumption; reflexivity.
Qed.

(* --- one step conserves the messages of every recipient unless it is the lossy double fault --- *)
Lemma fstep_conserve s o d :
  loses s o = false ->
  let '(s', x) := fstep s o in
  fdelivered1 d x ++ held s' d = held s d ++ faccepted1 d o x.
Proof.
  intro Hl. destruct o as [d0 m F|me d0 rid thid F|me d0 rid n F|k d0|]; cbn [fstep];
    try (cbn; rewrite app_nil_r; reflexivity).
  - destruct (gfail F 0); [cbn; rewrite app_nil_r; reflexivity|].
    destruct (doc_of s d0) as [x|] eqn:Hd.
    + destruct (load x) as [[c f]|] eqn:Hx; [|cbn; rewrite app_nil_r; reflexivity].
      destruct (field_msgs f) as [l|] eqn:Hf; [|cbn; rewrite app_nil_r; reflexivity].
      destruct (pfail F 0); [cbn; rewrite app_nil_r; reflexivity|].
      cbn [fdelivered1 faccepted1 app].
      destruct (N.eqb_spec d d0) as [->|Hne].
      * rewrite held_put_list, (held_of_field _ _ _ _ _ _ Hd Hx Hf). reflexivity.
      * rewrite held_put_other by assumption. now rewrite app_nil_r.
    + assert (Hh : held s d0 = []) by (unfold held; now rewrite Hd).
      destruct (pfail F 0); [cbn; rewrite app_nil_r; reflexivity|].
      destruct (pfail F 1); cbn [fdelivered1 faccepted1 app].
      * rewrite app_nil_r. destruct (N.eq_dec d d0) as [->|Hne].
        -- unfold held at 1. rewrite doc_put_same. now rewrite Hh.
        -- now rewrite held_put_other.
      * destruct (N.eqb_spec d d0) as [->|Hne].
        -- rewrite held_put_list, Hh. reflexivity.
        -- rewrite !held_put_other by assumption. now rewrite app_nil_r.
  - destruct (gfail F 0); [cbn; rewrite app_nil_r; reflexivity|].
    destruct (doc_of s d0) as [x|]; [|cbn; rewrite app_nil_r; reflexivity].
    destruct (load x) as [[c f]|]; cbn; rewrite app_nil_r; reflexivity.
  - cbn [loses] in Hl.
    destruct (gfail F 0); [cbn; rewrite app_nil_r; reflexivity|]. cbn [negb andb] in Hl.
    destruct (doc_of s d0) as [x|] eqn:Hd; [|cbn; rewrite app_nil_r; reflexivity].
    destruct (load x) as [[c f]|] eqn:Hx; [|cbn; rewrite app_nil_r; reflexivity].
    destruct (field_msgs f) as [l|] eqn:Hf; [|cbn; rewrite app_nil_r; reflexivity].
    destruct (pfail F 0); [cbn; rewrite app_nil_r; reflexivity|]. cbn [negb andb] in Hl.
    pose proof (held_of_field _ _ _ _ _ _ Hd Hx Hf) as Hh.
    destruct (f_send F); cbn [andb] in Hl.
    + destruct (pfail F 1); cbn [andb] in Hl; cbn [fdelivered1 faccepted1 app]; rewrite app_nil_r.
      * (* restore failed: only harmless when the batch is empty *)
        apply negb_false_iff, Nat.eqb_eq in Hl. rewrite Hl. cbn [skipn].
        destruct (N.eq_dec d d0) as [->|Hne].
        -- rewrite (held_put_rest _ _ _ _ 0 _ Hf). cbn [skipn]. now rewrite Hh.
        -- now rewrite held_put_other.
      * destruct (N.eq_dec d d0) as [->|Hne].
        -- rewrite (held_put_field _ _ _ _ _ Hf). now rewrite Hh.
        -- now rewrite !held_put_other.
    + cbn [fdelivered1 faccepted1 app]. rewrite app_nil_r.
      destruct (N.eqb_spec d d0) as [->|Hne].
      * rewrite (held_put_rest _ _ _ _ _ _ Hf), Hh. apply firstn_skipn.
      * now rewrite held_put_other.
Qed.

Lemma frun_conserve ops : forall s d,
  run_loses s ops = false ->
  let '(s', outs) := frun s ops in
  fdelivered d outs ++ held s' d = held s d ++ faccepted d ops outs.
Proof.
  induction ops as [|o r IH]; intros s d Hl; cbn [frun].
  - cbn. now rewrite app_nil_r.
  - cbn [run_loses] in Hl. apply orb_false_iff in Hl as [Hl1 Hl2].
    pose proof (fstep_conserve s o d Hl1) as H1. destruct (fstep s o) as [s1 x]. cbn [fst] in Hl2.
    specialize (IH s1 d Hl2). destruct (frun s1 r) as [s2 xs].
    cbn [fdelivered faccepted]. rewrite <- app_assoc, IH, !app_assoc, H1. reflexivity.
Qed.

(* --- the guard is exact: where it excludes a step, the step really loses the batch --- *)
Lemma loses_exact s o :
  loses s o = true ->
  exists me d rid n F batch,
    o = FPickup me d rid n F /\ batch <> [] /\
    snd (fstep s o) = XBatch false d me rid batch /\
    held s d = batch ++ held (fst (fstep s o)) d.
Proof.
  destruct o as [d0 m F|me d0 rid thid F|me d0 rid n F|k d0|]; cbn [loses]; try discriminate.
  intro H. cbn [fstep].
  destruct (gfail F 0); [discriminate|]. cbn [negb andb] in H.
  destruct (doc_of s d0) as [x|] eqn:Hd; [|discriminate].
  destruct (load x) as [[c f]|] eqn:Hx; [|discriminate].
  destruct (field_msgs f) as [l|] eqn:Hf; [|discriminate].
  destruct (pfail F 0); [discriminate|]. cbn [negb andb] in H.
  destruct (f_send F); [|discriminate]. destruct (pfail F 1); [|discriminate]. cbn [andb] in H.
  apply negb_true_iff, Nat.eqb_neq in H.
  pose proof (held_of_field _ _ _ _ _ _ Hd Hx Hf) as Hh.
  exists me, d0, rid, n, F, (firstn (fend (length l) n) l). cbn [fst snd].
  repeat split.
  - intro E. apply (f_equal (@length msg)) in E. rewrite firstn_length in E. cbn in E.
    assert (fend (length l) n <= length l)%nat by (unfold fend; lia). lia.
  - rewrite (held_put_rest _ _ _ _ _ _ Hf), Hh. symmetry. apply firstn_skipn.
Qed.

(* --- syntactic conditions under which nothing is lost --- *)
Lemma loses_needs_double s o : restore_double o = false -> loses s o = false.
Proof.
  destruct o as [d0 m F|me d0 rid thid F|me d0 rid n F|k d0|]; cbn [restore_double loses]; try reflexivity.
  intro H. destruct (gfail F 0); [reflexivity|]. destruct (doc_of s d0) as [x|]; [|reflexivity].
  destruct (load x) as [[c f]|]; [|reflexivity]. destruct (field_msgs f); [|reflexivity].
  destruct (pfail F 0); [reflexivity|]. cbn [negb andb].
  destruct (f_send F); [|reflexivity]. cbn [andb] in *. rewrite H. reflexivity.
Qed.

Lemma mem_nat_in k l : mem_nat k l = true -> (1 <= length l)%nat.
Proof. destruct l; cbn; [discriminate|lia]. Qed.

Lemma single_fault_no_double o : (nfaults (op_faults o) <= 1)%nat -> restore_double o = false.
Proof.
  destruct o as [d0 m F|me d0 rid thid F|me d0 rid n F|k d0|]; cbn [restore_double op_faults]; try reflexivity.
  unfold nfaults, pfail. intro H. destruct (f_send F); [|reflexivity]. cbn [andb].
  destruct (mem_nat 1 (f_put F)) eqn:E; [|reflexivity]. apply mem_nat_in in E. lia.
Qed.

Lemma run_loses_forall s ops :
  Forall (fun o => restore_double o = false) ops -> run_loses s ops = false.
Proof.
  revert s. induction ops as [|o r IH]; intros s H; cbn [run_loses]; [reflexivity|].
  inversion H as [|? ? Ho Hr]; subst. rewrite (loses_needs_double _ _ Ho). cbn [orb]. apply IH, Hr.
Qed.

(* --- the service writes only well-formed documents: message_count = number of messages --- *)
Lemma wf_put s d x : wf s -> wf_doc x -> wf (put_doc s d x).
Proof.
  intros Hs Hx d' y. unfold put_doc; cbn. destruct (N.eqb d' d); [intro E; inversion E; subst; exact Hx|apply Hs].
Qed.

Lemma wf_rest f e l : field_msgs f = Some l -> wf_doc (DDoc (Z.of_nat (length (skipn e l))) (rest_field f e)).
Proof.
  destruct f; cbn; intro H; inversion H; subst; [now rewrite skipn_nil|reflexivity].
Qed.
Lemma wf_field f l : field_msgs f = Some l -> wf_doc (DDoc (Z.of_nat (length l)) f).
Proof. destruct f; cbn; intro H; inversion H; subst; reflexivity. Qed.

Lemma fstep_wf s o : wf s -> wf (fst (fstep s o)).
Proof.
  intro Hs. destruct o as [d0 m F|me d0 rid thid F|me d0 rid n F|k d0|]; cbn [fstep]; try exact Hs.
  - destruct (gfail F 0); [exact Hs|]. destruct (doc_of s d0) as [x|].
    + destruct (load x) as [[c f]|]; [|exact Hs]. destruct (field_msgs f) as [l|]; [|exact Hs].
      destruct (pfail F 0); [exact Hs|]. cbn [fst]. apply wf_put; [exact Hs|reflexivity].
    + destruct (pfail F 0); [exact Hs|].
      destruct (pfail F 1); cbn [fst]; repeat apply wf_put; try exact Hs; reflexivity.
  - destruct (gfail F 0); [exact Hs|]. destruct (doc_of s d0) as [x|]; [|exact Hs].
    destruct (load x) as [[c f]|]; exact Hs.
  - destruct (gfail F 0); [exact Hs|]. destruct (doc_of s d0) as [x|]; [|exact Hs].
    destruct (load x) as [[c f]|]; [|exact Hs]. destruct (field_msgs f) as [l|] eqn:Hf; [|exact Hs].
    destruct (pfail F 0); [exact Hs|].
    destruct (f_send F); [destruct (pfail F 1)|]; cbn [fst]; repeat apply wf_put; try exact Hs;
      try (apply wf_rest; exact Hf); apply wf_field; exact Hf.
Qed.

Lemma frun_wf ops : forall s, wf s -> wf (fst (frun s ops)).
Proof.
  induction ops as [|o r IH]; intros s Hs; cbn [frun]; [exact Hs|].
  pose proof (fstep_wf s o Hs) as H1. destruct (fstep s o) as [s1 x]. cbn [fst] in H1.
  specialize (IH s1 H1). destruct (frun s1 r) as [s2 xs]. exact IH.
Qed.

Lemma wf_empty : wf [].
Proof. intros d x H. discriminate. Qed.

(* on a well-formed store a status reports exactly the number of messages held, whatever faults *)
Lemma fstatus_exact s me d rid thid F s' ok to from id pth c :
  wf s -> fstep s (FStatus me d rid thid F) = (s', XStatus ok to from id pth c) ->
  c = Z.of_nat (length (held s d)) /\ s' = s /\ to = d /\ from = me /\ id = rid /\ pth = thid /\ ok = negb (f_send F).
Proof.
  intro Hs. cbn [fstep]. destruct (gfail F 0); [discriminate|].
  destruct (doc_of s d) as [x|] eqn:Hd; [|discriminate].
  specialize (Hs d x Hd). destruct x as [| |c0 f]; cbn in Hs; try contradiction.
  cbn [load]. intro H. inversion H; subst. unfold held. rewrite Hd.
  destruct f; try contradiction; subst; repeat split; reflexivity.
Qed.

(* a batch goes to the requester, carries the request's id, and is a prefix of what is held for the requester *)
Lemma fbatch_attribution s o s' ok to from id ms :
  fstep s o = (s', XBatch ok to from id ms) ->
  exists n F, o = FPickup from to id n F /\ ok = negb (f_send F) /\
              ms = firstn (fend (length (held s to)) n) (held s to).
Proof.
  destruct o as [d0 m F|me d0 rid thid F|me d0 rid n F|k d0|]; cbn [fstep]; try discriminate.
  - destruct (gfail F 0); [discriminate|]. destruct (doc_of s d0) as [x|].
    + destruct (load x) as [[c f]|]; [|discriminate]. destruct (field_msgs f); [|discriminate].
      destruct (pfail F 0); discriminate.
    + destruct (pfail F 0); [discriminate|]. destruct (pfail F 1); discriminate.
  - destruct (gfail F 0); [discriminate|]. destruct (doc_of s d0) as [x|]; [|discriminate].
    destruct (load x) as [[c f]|]; discriminate.
  - destruct (gfail F 0); [discriminate|]. destruct (doc_of s d0) as [x|] eqn:Hd; [|discriminate].
    destruct (load x) as [[c f]|] eqn:Hx; [|discriminate]. destruct (field_msgs f) as [l|] eqn:Hf; [|discriminate].
    pose proof (held_of_field _ _ _ _ _ _ Hd Hx Hf) as Hh.
    destruct (pfail F 0); [discriminate|].
    destruct (f_send F) eqn:Hsend; [destruct (pfail F 1)|]; intro H; inversion H; subst;
      exists n, F; rewrite Hsend; repeat split; reflexivity.
Qed.

(* a document that does not decode is rejected and left exactly as it is: no operation truncates or rewrites it *)
Lemma corrupt_rejected s o d x :
  fop_did o = d -> doc_of s d = Some x ->
  x = DGarbage \/ (exists c, x = DDoc c MBad) ->
  fst (fstep s o) = s /\
  match o with FAdd _ _ _ | FPickup _ _ _ _ _ => snd (fstep s o) = XErr | _ => True end.
Proof.
  intros Ho Hd Hx.
  destruct o as [d0 m F|me d0 rid thid F|me d0 rid n F|k d0|]; cbn [fop_did] in Ho; subst; cbn [fstep fst snd];
    try (split; [reflexivity|exact I]).
  - destruct (gfail F 0); [split; reflexivity|]. rewrite Hd.
    destruct Hx as [->|[c ->]]; cbn; split; reflexivity.
  - destruct (gfail F 0); [split; [reflexivity|exact I]|]. rewrite Hd.
    destruct Hx as [->|[c ->]]; cbn; split; try reflexivity; exact I.
  - destruct (gfail F 0); [split; reflexivity|]. rewrite Hd.
    destruct Hx as [->|[c ->]]; cbn; split; reflexivity.
Qed.

(* restart and the three inert handlers change nothing and send nothing *)
Lemma frun_app a : forall s b,
  frun s (a ++ b) = let '(s1, xa) := frun s a in let '(s2, xb) := frun s1 b in (s2, xa ++ xb).
Proof.
  induction a as [|o r IH]; intros s b; cbn [app frun].
  - destruct (frun s b); reflexivity.
  - destruct (fstep s o) as [s1 y]. rewrite IH. destruct (frun s1 r) as [s2 xs].
    destruct (frun s2 b) as [s3 ys]. reflexivity.
Qed.

Lemma restart_transparent a b s o :
  o = FRestart \/ (exists k d, o = FInert k d) ->
  frun s (a ++ o :: b) =
  let '(s1, xa) := frun s a in let '(s2, xb) := frun s1 b in (s2, xa ++ XNone :: xb).
Proof.
  intro Ho. rewrite frun_app. destruct (frun s a) as [s1 xa]. cbn [frun].
  assert (E : fstep s1 o = (s1, XNone)) by (destruct Ho as [->|[k [d ->]]]; reflexivity).
  rewrite E. destruct (frun s1 b) as [s2 xb]. reflexivity.
Qed.

Lemma fstep_no_panic s o : snd (fstep s o) <> XPanic.
Proof.
  destruct o as [d0 m F|me d0 rid thid F|me d0 rid n F|k d0|]; cbn [fstep]; try discriminate.
  - destruct (gfail F 0); [discriminate|]. destruct (doc_of s d0) as [x|].
    + destruct (load x) as [[c f]|]; [|discriminate]. destruct (field_msgs f); [|discriminate].
      destruct (pfail F 0); discriminate.
    + destruct (pfail F 0); [discriminate|]. destruct (pfail F 1); discriminate.
  - destruct (gfail F 0); [discriminate|]. destruct (doc_of s d0) as [x|]; [|discriminate].
    destruct (load x) as [[c f]|]; discriminate.
  - destruct (gfail F 0); [discriminate|]. destruct (doc_of s d0) as [x|]; [|discriminate].
    destruct (load x) as [[c f]|]; [|discriminate]. destruct (field_msgs f); [|discriminate].
    destruct (pfail F 0); [discriminate|]. destruct (f_send F); [destruct (pfail F 1)|]; discriminate.
Qed.

Lemma frun_no_panic ops : forall s, existsb is_xpanic (snd (frun s ops)) = false.
Proof.
  induction ops as [|o r IH]; intro s; cbn [frun]; [reflexivity|].
  pose proof (fstep_no_panic s o) as Hp. destruct (fstep s o) as [s1 x]. specialize (IH s1).
  destruct (frun s1 r) as [s2 xs]. cbn in *. rewrite IH. destruct x; try reflexivity. now contradiction Hp.
Qed.

(* --- operations about different recipients commute --- *)
Definition same_docs (a b : fstore) : Prop := forall d, doc_of a d = doc_of b d.

Lemma fstep_same_docs a b o :
  same_docs a b -> snd (fstep a o) = snd (fstep b o) /\ same_docs (fst (fstep a o)) (fst (fstep b o)).
Proof.
  intro E. destruct o as [d0 m F|me d0 rid thid F|me d0 rid n F|k d0|]; cbn [fstep]; try (split; [reflexivity|exact E]).
  - destruct (gfail F 0); [split; [reflexivity|exact E]|]. rewrite (E d0). destruct (doc_of b d0) as [x|].
    + destruct (load x) as [[c f]|]; [|split; [reflexivity|exact E]].
      destruct (field_msgs f); [|split; [reflexivity|exact E]].
      destruct (pfail F 0); [split; [reflexivity|exact E]|]. split; [reflexivity|].
      intro d. cbn. destruct (N.eqb d d0); [reflexivity|apply E].
    + destruct (pfail F 0); [split; [reflexivity|exact E]|].
      destruct (pfail F 1); (split; [reflexivity|]); intro d; cbn; destruct (N.eqb d d0); try reflexivity; apply E.
  - destruct (gfail F 0); [split; [reflexivity|exact E]|]. rewrite (E d0). destruct (doc_of b d0) as [x|]; [|split; [reflexivity|exact E]].
    destruct (load x) as [[c f]|]; split; try reflexivity; exact E.
  - destruct (gfail F 0); [split; [reflexivity|exact E]|]. rewrite (E d0).
    destruct (doc_of b d0) as [x|]; [|split; [reflexivity|exact E]].
    destruct (load x) as [[c f]|]; [|split; [reflexivity|exact E]].
    destruct (field_msgs f); [|split; [reflexivity|exact E]].
    destruct (pfail F 0); [split; [reflexivity|exact E]|].
    destruct (f_send F); [destruct (pfail F 1)|]; (split; [reflexivity|]); intro d; cbn;
      destruct (N.eqb d d0); try reflexivity; apply E.
Qed.

(* the output and the new document of the op's own recipient depend only on that recipient's document *)
Lemma fstep_local a b o :
  doc_of a (fop_did o) = doc_of b (fop_did o) ->
  snd (fstep a o) = snd (fstep b o) /\
  doc_of (fst (fstep a o)) (fop_did o) = doc_of (fst (fstep b o)) (fop_did o).
Proof.
  intro E. destruct o as [d0 m F|me d0 rid thid F|me d0 rid n F|k d0|]; cbn [fop_did] in E; cbn [fstep fop_did];
    try (split; [reflexivity|exact E]).
  - destruct (gfail F 0); [split; [reflexivity|exact E]|]. rewrite E. destruct (doc_of b d0) as [x|] eqn:Hb.
    + destruct (load x) as [[c f]|]; [|cbn [fst snd]; split; [reflexivity|rewrite Hb; exact E]].
      destruct (field_msgs f); [|cbn [fst snd]; split; [reflexivity|rewrite Hb; exact E]].
      destruct (pfail F 0); [cbn [fst snd]; split; [reflexivity|rewrite Hb; exact E]|]. cbn [fst snd].
      rewrite !doc_put_same. split; reflexivity.
    + destruct (pfail F 0); [cbn [fst snd]; split; [reflexivity|rewrite Hb; exact E]|].
      destruct (pfail F 1); cbn [fst snd]; rewrite !doc_put_same; split; reflexivity.
  - destruct (gfail F 0); [split; [reflexivity|exact E]|]. rewrite E.
    destruct (doc_of b d0) as [x|] eqn:Hb; [|cbn [fst snd]; split; [reflexivity|rewrite Hb; exact E]].
    destruct (load x) as [[c f]|]; cbn [fst snd]; (split; [reflexivity|]); rewrite Hb; exact E.
  - destruct (gfail F 0); [split; [reflexivity|exact E]|]. rewrite E.
    destruct (doc_of b d0) as [x|] eqn:Hb; [|cbn [fst snd]; split; [reflexivity|rewrite Hb; exact E]].
    destruct (load x) as [[c f]|]; [|cbn [fst snd]; split; [reflexivity|rewrite Hb; exact E]].
    destruct (field_msgs f); [|cbn [fst snd]; split; [reflexivity|rewrite Hb; exact E]].
    destruct (pfail F 0); [cbn [fst snd]; split; [reflexivity|rewrite Hb; exact E]|].
    destruct (f_send F); [destruct (pfail F 1)|]; cbn [fst snd]; rewrite !doc_put_same; split; reflexivity.
Qed.

Lemma fstep_commute s a b :
  fop_did a <> fop_did b ->
  let '(s1, xa) := fstep s a in let '(s2, xb) := fstep s1 b in
  let '(t1, yb) := fstep s b in let '(t2, ya) := fstep t1 a in
  xa = ya /\ xb = yb /\ same_docs s2 t2.
Proof.
  intro Hne.
  pose proof (fstep_independent s a (fop_did b) (not_eq_sym Hne)) as Ia.
  pose proof (fstep_independent s b (fop_did a) Hne) as Ib.
  destruct (fstep s a) as [s1 xa] eqn:Ea. destruct (fstep s b) as [t1 yb] eqn:Eb. cbn [fst] in Ia, Ib.
  pose proof (fstep_local s1 s b Ia) as [Ob Db]. pose proof (fstep_local t1 s a Ib) as [Oa Da].
  rewrite Ea in Oa, Da. rewrite Eb in Ob, Db. cbn [fst snd] in *.
  pose proof (fstep_independent s1 b) as I1. pose proof (fstep_independent t1 a) as I2.
  destruct (fstep s1 b) as [s2 xb]. destruct (fstep t1 a) as [t2 ya]. cbn [fst snd] in *.
  split; [now symmetry|]. split; [assumption|].
  intro d. destruct (N.eq_dec d (fop_did b)) as [->|Nb].
  - rewrite Db. rewrite (I2 _ (not_eq_sym Hne)). reflexivity.
  - rewrite (I1 d Nb). destruct (N.eq_dec d (fop_did a)) as [->|Na].
    + rewrite Da. pose proof (fstep_independent s a) as _.
      (* doc of a's recipient after a on s = s1's *)
      assert (doc_of s1 (fop_did a) = doc_of (fst (fstep s a)) (fop_did a)) by (rewrite Ea; reflexivity).
      rewrite H. reflexivity.
    + rewrite (I2 d Na).
      assert (H1 : doc_of s1 d = doc_of s d) by (pose proof (fstep_independent s a d Na) as X; rewrite Ea in X; exact X).
      assert (H2 : doc_of t1 d = doc_of s d) by (pose proof (fstep_independent s b d Nb) as X; rewrite Eb in X; exact X).
      now rewrite H1, H2.
Qed.

Lemma frun_conserve_many ops s0 d :
  Forall (fun o => restore_double o = false) ops ->
  let '(s, outs) := frun s0 ops in
  fdelivered d outs ++ held s d = held s0 d ++ faccepted d ops outs.
Proof. intro H. apply frun_conserve, run_loses_forall, H. Qed.

Lemma frun_conserve_single ops s0 d :
  Forall (fun o => (nfaults (op_faults o) <= 1)%nat) ops ->
  let '(s, outs) := frun s0 ops in
  fdelivered d outs ++ held s d = held s0 d ++ faccepted d ops outs.
Proof.
  intro H. apply frun_conserve_many. eapply Forall_impl; [|exact H]. exact single_fault_no_double.
Qed.
