(* C15 — exactly-once and order, spelled out from the list equality of conservation. *)
From Coq Require Import List NArith ZArith Bool Arith Lia.
Import ListNotations.
From VF Require Import C15.Full C15.FullProofs.

(* if the accepted messages are pairwise different (the harness numbers them; the service gives each a fresh uuid),
   nothing is delivered twice, nothing delivered is still held, and everything accepted is delivered or held *)
Lemma nodup_app_l {A} (a b : list A) : NoDup (a ++ b) -> NoDup a.
Proof.
  induction a as [|x r IH]; cbn; intro H; [constructor|].
  inversion H as [|? ? Hx Hr]; subst. constructor; [|apply IH, Hr].
  intro Hin. apply Hx, in_or_app. now left.
Qed.

Lemma exactly_once ops s0 d :
  run_loses s0 ops = false -> held s0 d = [] ->
  NoDup (faccepted d ops (snd (frun s0 ops))) ->
  NoDup (fdelivered d (snd (frun s0 ops))) /\
  (forall m, In m (fdelivered d (snd (frun s0 ops))) -> ~ In m (held (fst (frun s0 ops)) d)) /\
  (forall m, In m (faccepted d ops (snd (frun s0 ops))) <->
             In m (fdelivered d (snd (frun s0 ops))) \/ In m (held (fst (frun s0 ops)) d)).
Proof.
  intros Hl H0 Hn. pose proof (frun_conserve ops s0 d Hl) as H.
  destruct (frun s0 ops) as [s outs]. cbn [fst snd] in *. rewrite H0 in H. cbn [app] in H.
  rewrite <- H in Hn. split; [|split].
  - eapply nodup_app_l, Hn.
  - intros m Hd Hh. clear H. induction (fdelivered d outs) as [|x r IH]; [contradiction|].
    cbn in Hn. inversion Hn as [|? ? Hx Hr]; subst. destruct Hd as [->|Hd].
    + apply Hx, in_or_app. now right.
    + apply IH; assumption.
  - intro m. rewrite <- H. apply in_app_iff.
Qed.

(* order: what was delivered so far is always a prefix of what was accepted *)
Lemma delivered_is_prefix ops s0 d :
  run_loses s0 ops = false -> held s0 d = [] ->
  exists rest, faccepted d ops (snd (frun s0 ops)) = fdelivered d (snd (frun s0 ops)) ++ rest.
Proof.
  intros Hl H0. pose proof (frun_conserve ops s0 d Hl) as H.
  destruct (frun s0 ops) as [s outs]. cbn [fst snd] in *. rewrite H0 in H. cbn [app] in H. exists (held s d). now rewrite <- H.
Qed.
