(* C15 — the inbox at the level of the stored DOCUMENT (wave 5).  No proofs here.

   Model.v abstracts the stored inbox to a message list and allows one fault per operation.  This model
   keeps what pkg/didcomm/protocol/messagepickup/service.go really keeps and does:
   - the stored document: `message_count` (a number of its own, reported by status WITHOUT looking at
     the messages) and the raw `messages` member (null / array / something that does not decode), or
     bytes that do not unmarshal at all, or the JSON value `null` (which json.Unmarshal accepts as "no change");
   - every inbound handler of the service (status-request, batch-pickup, and the three that must leave the
     inbox alone: noop, status, batch) with the attribution of the answer: destination DID, own DID,
     `@id` of the request, `~thread.pthid` = the request's thread id;
   - ANY set of failing store calls (k-th Get, k-th Put of the operation) together with a failing send;
   - a restart (new service instance over the same store) as an operation.
   Codec.v gives the abstraction from the JSON tree of the real stored bytes to `sdoc`. *)
From Coq Require Import List NArith ZArith Bool.
Import ListNotations.

Definition did := N.
Definition msg := N.

(* the `messages` member: null (also: absent) / an array of message objects / anything DecodeMessages rejects *)
Inductive mfield := MNull | MList (l : list msg) | MBad.
(* the stored value: bytes json.Unmarshal rejects for the inbox struct / the JSON value null / a document *)
Inductive sdoc := DGarbage | DNull | DDoc (count : Z) (ms : mfield).

Record faults := { f_get : list nat; f_put : list nat; f_send : bool }.
Definition nofault : faults := {| f_get := []; f_put := []; f_send := false |}.

Fixpoint mem_nat (k : nat) (l : list nat) : bool :=
  match l with [] => false | x :: r => Nat.eqb k x || mem_nat k r end.
Definition gfail (F : faults) (k : nat) : bool := mem_nat k (f_get F).
Definition pfail (F : faults) (k : nat) : bool := mem_nat k (f_put F).

Inductive fop :=
| FAdd (d : did) (m : msg) (F : faults)                              (* AddMessage / the mediator's forward fall-back *)
| FStatus (me d : did) (rid : N) (thid : option N) (F : faults)      (* status-request from d to me *)
| FPickup (me d : did) (rid : N) (n : Z) (F : faults)                (* batch-pickup *)
| FInert (k : N) (d : did)                                           (* inbound noop (0) / status (1) / batch (2) from d *)
| FRestart.                                                          (* new service instance over the same store *)

Inductive fout :=
| XAdded | XErr | XNone | XPanic
| XStatus (ok : bool) (to from : did) (id : N) (pthid : option N) (count : Z)
| XBatch (ok : bool) (to from : did) (id : N) (ms : list msg).

Definition fstore := list (did * sdoc).

Fixpoint doc_of (s : fstore) (d : did) : option sdoc :=
  match s with [] => None | (d', x) :: r => if N.eqb d d' then Some x else doc_of r d end.
Definition put_doc (s : fstore) (d : did) (x : sdoc) : fstore := (d, x) :: s.

(* getInbox: what json.Unmarshal of the stored bytes leaves in the inbox struct *)
Definition load (x : sdoc) : option (Z * mfield) :=
  match x with DGarbage => None | DNull => Some (0%Z, MNull) | DDoc c f => Some (c, f) end.
(* DecodeMessages *)
Definition field_msgs (f : mfield) : option (list msg) :=
  match f with MNull => Some [] | MList l => Some l | MBad => None end.
(* EncodeMessages(msgs[e:]): a nil slice stays nil (null), a non-nil one becomes an array *)
Definition rest_field (f : mfield) (e : nat) : mfield :=
  match f with MList l => MList (skipn e l) | x => x end.

(* Go: end := len(msgs); if n < end { end = n }; if end < 0 { end = 0 } *)
Definition fend (len : nat) (n : Z) : nat := Z.to_nat (Z.max 0 (Z.min n (Z.of_nat len))).

Definition fstep (s : fstore) (o : fop) : fstore * fout :=
  match o with
  | FAdd d m F =>
      if gfail F 0 then (s, XErr) else
      match doc_of s d with
      | None =>
          (* createInbox: Put {DID, message_count 0, messages null} *)
          if pfail F 0 then (s, XErr) else
          let s1 := put_doc s d (DDoc 0 MNull) in
          if pfail F 1 then (s1, XErr) else (put_doc s1 d (DDoc 1 (MList [m])), XAdded)
      | Some x =>
          match load x with
          | None => (s, XErr)
          | Some (_, f) =>
              match field_msgs f with
              | None => (s, XErr)
              | Some l =>
                  if pfail F 0 then (s, XErr)
                  else (put_doc s d (DDoc (Z.of_nat (length (l ++ [m]))) (MList (l ++ [m]))), XAdded)
              end
          end
      end
  | FStatus me d rid thid F =>
      if gfail F 0 then (s, XErr) else
      match doc_of s d with
      | None => (s, XErr)
      | Some x =>
          match load x with
          | None => (s, XErr)
          | Some (c, _) => (s, XStatus (negb (f_send F)) d me rid thid c)
          end
      end
  | FPickup me d rid n F =>
      if gfail F 0 then (s, XErr) else
      match doc_of s d with
      | None => (s, XErr)
      | Some x =>
          match load x with
          | None => (s, XErr)
          | Some (_, f) =>
              match field_msgs f with
              | None => (s, XErr)
              | Some l =>
                  let e := fend (length l) n in
                  if pfail F 0 then (s, XErr) else
                  let s1 := put_doc s d (DDoc (Z.of_nat (length (skipn e l))) (rest_field f e)) in
                  if f_send F then
                    (* restore: EncodeMessages(held); Put — its failure is only logged *)
                    if pfail F 1 then (s1, XBatch false d me rid (firstn e l))
                    else (put_doc s1 d (DDoc (Z.of_nat (length l)) f), XBatch false d me rid (firstn e l))
                  else (s1, XBatch true d me rid (firstn e l))
              end
          end
      end
  | FInert _ _ => (s, XNone)
  | FRestart => (s, XNone)
  end.

Fixpoint frun (s : fstore) (ops : list fop) : fstore * list fout :=
  match ops with
  | [] => (s, [])
  | o :: r => let '(s1, x) := fstep s o in let '(s2, xs) := frun s1 r in (s2, x :: xs)
  end.

(* the messages held for d *)
Definition held (s : fstore) (d : did) : list msg :=
  match doc_of s d with Some (DDoc _ (MList l)) => l | _ => [] end.

(* the recipient an operation is about (restart: none; 0 is no recipient of any history) *)
Definition fop_did (o : fop) : did :=
  match o with FAdd d _ _ | FStatus _ d _ _ _ | FPickup _ d _ _ _ | FInert _ d => d | FRestart => 0%N end.

Definition faccepted1 (d : did) (o : fop) (x : fout) : list msg :=
  match o, x with FAdd d' m _, XAdded => if N.eqb d d' then [m] else [] | _, _ => [] end.
(* delivered TO d: by the destination the batch was handed to the dispatcher for, not by who asked *)
Definition fdelivered1 (d : did) (x : fout) : list msg :=
  match x with XBatch true to _ _ ms => if N.eqb d to then ms else [] | _ => [] end.

Fixpoint faccepted (d : did) (ops : list fop) (outs : list fout) : list msg :=
  match ops, outs with o :: r, x :: xs => faccepted1 d o x ++ faccepted d r xs | _, _ => [] end.
Fixpoint fdelivered (d : did) (outs : list fout) : list msg :=
  match outs with x :: xs => fdelivered1 d x ++ fdelivered d xs | [] => [] end.

(* the one way the repaired code still loses messages: a non-empty batch whose send fails AND whose
   restoring Put fails as well (two faults in one operation; the code only logs the second) *)
Definition loses (s : fstore) (o : fop) : bool :=
  match o with
  | FPickup _ d _ n F =>
      negb (gfail F 0) &&
      match doc_of s d with
      | Some x =>
          match load x with
          | Some (_, f) =>
              match field_msgs f with
              | Some l => negb (pfail F 0) && f_send F && pfail F 1 && negb (Nat.eqb (fend (length l) n) 0)
              | None => false
              end
          | None => false
          end
      | None => false
      end
  | _ => false
  end.

Fixpoint run_loses (s : fstore) (ops : list fop) : bool :=
  match ops with [] => false | o :: r => loses s o || run_loses (fst (fstep s o)) r end.

Definition op_faults (o : fop) : faults :=
  match o with FAdd _ _ F | FStatus _ _ _ _ F | FPickup _ _ _ _ F => F | _ => nofault end.
Definition nfaults (F : faults) : nat := length (f_get F) + length (f_put F) + (if f_send F then 1 else 0).
(* the double fault as a condition on the operation alone *)
Definition restore_double (o : fop) : bool :=
  match o with FPickup _ _ _ _ F => f_send F && pfail F 1 | _ => false end.

(* a document the service itself could have written *)
Definition wf_doc (x : sdoc) : Prop :=
  match x with
  | DDoc c MNull => c = 0%Z
  | DDoc c (MList l) => c = Z.of_nat (length l)
  | _ => False
  end.
Definition wf (s : fstore) : Prop := forall d x, doc_of s d = Some x -> wf_doc x.

Definition is_xpanic (x : fout) : bool := match x with XPanic => true | _ => false end.
