(* C15 — what the correspondence on forced overlaps establishes: when `check_conc` accepts the record of
   two overlapped operations, the observed outputs ARE the model's outputs of one sequential order of the
   whole history, so `conservation` applies to what the real service was seen to do. *)
From Coq Require Import List NArith ZArith Bool Arith Lia.
Import ListNotations.
From VF Require Import C15.Model C15.Proofs C15.Corr.
Local Open Scope N_scope.

Lemma list_eqb_eq a : forall b, list_eqb a b = true -> a = b.
Proof.
  induction a as [|x r IH]; intros [|y t] H; cbn in H; try discriminate; [reflexivity|].
  apply andb_true_iff in H as [Hx Hr]. apply N.eqb_eq in Hx. subst. f_equal. apply IH, Hr.
Qed.

Lemma pout_eqb_eq a b : pout_eqb a b = true -> a = b.
Proof.
  destruct a, b; cbn; intro H; try discriminate; try reflexivity;
    try (apply Nat.eqb_eq in H; subst; reflexivity);
    try (apply list_eqb_eq in H; subst; reflexivity).
Qed.

(* check_from on the repaired model: the observed outputs are the model's *)
Lemma check_from_outs ops : forall s obs,
  check_from s ops obs = true -> map fst obs = snd (run Fixed s ops).
Proof.
  induction ops as [|o r IH]; intros s [|[x snap] t] H; cbn in H; try discriminate; [reflexivity|].
  cbn [run]. destruct (step Fixed s o) as [s1 y] eqn:Hs.
  assert (Hnp : is_panic y = false).
  { pose proof (step_no_panic s o) as Hn. rewrite Hs in Hn. cbn in Hn. destruct y; try reflexivity. congruence. }
  rewrite Hnp in H. apply andb_true_iff in H as [H Hr]. apply andb_true_iff in H as [Hx _].
  apply pout_eqb_eq in Hx. subst x.
  specialize (IH s1 t Hr). destruct (run Fixed s1 r) as [s2 xs] eqn:Hrun. cbn in *. now rewrite IH.
Qed.

Lemma state_after_run ops : forall s, state_after s ops = fst (run Fixed s ops).
Proof.
  induction ops as [|o r IH]; intro s; cbn [state_after run]; [reflexivity|].
  destruct (step Fixed s o) as [s1 y]. cbn [fst]. rewrite IH. destruct (run Fixed s1 r). reflexivity.
Qed.

Lemma run_app v a : forall s b,
  run v s (a ++ b) = let '(s1, xa) := run v s a in let '(s2, xb) := run v s1 b in (s2, xa ++ xb).
Proof.
  induction a as [|o r IH]; intros s b; cbn [app run].
  - destruct (run v s b); reflexivity.
  - destruct (step v s o) as [s1 y]. rewrite IH. destruct (run v s1 r) as [s2 xs].
    destruct (run v s2 b) as [s3 ys]. reflexivity.
Qed.

Lemma lin2_outs s a b xa xb sa sb :
  lin2 s a b xa xb sa sb = true -> snd (run Fixed s [a; b]) = [xa; xb].
Proof.
  unfold lin2. cbn [run]. destruct (step Fixed s a) as [s1 ya]. destruct (step Fixed s1 b) as [s2 yb].
  intro H. repeat (apply andb_true_iff in H as [H ?]).
  match goal with Ha : pout_eqb xb yb = true |- _ => apply pout_eqb_eq in Ha; subst end.
  apply pout_eqb_eq in H; subst. reflexivity.
Qed.

(* the statement used in Props *)
Lemma overlap_is_sequential k :
  check_conc k = true ->
  snd (run Fixed [] (k_pre k ++ [k_a k; k_b k])) = map fst (k_pre_obs k) ++ [k_xa k; k_xb k] \/
  snd (run Fixed [] (k_pre k ++ [k_b k; k_a k])) = map fst (k_pre_obs k) ++ [k_xb k; k_xa k].
Proof.
  intro H. unfold check_conc in H. apply andb_true_iff in H as [Hp Hl].
  apply check_from_outs in Hp. apply orb_true_iff in Hl as [Hl|Hl]; apply lin2_outs in Hl;
    rewrite state_after_run in Hl; [left|right]; rewrite run_app;
    destruct (run Fixed [] (k_pre k)) as [s1 xa]; cbn [fst snd] in *;
    match goal with |- context [run Fixed s1 ?l] => destruct (run Fixed s1 l) as [s2 xb] end;
    cbn [snd] in *; now rewrite Hp, Hl.
Qed.
