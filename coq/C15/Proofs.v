(* C15 — lemmas about the inbox model. *)
From Coq Require Import List NArith ZArith Bool Lia.
Import ListNotations.
From VF Require Import C15.Model.

Lemma inbox_opt_set_same s d l : inbox_opt (set_inbox s d l) d = Some l.
Proof. unfold set_inbox; cbn. rewrite N.eqb_refl. reflexivity. Qed.

Lemma inbox_opt_set_other s d d' l : d' <> d -> inbox_opt (set_inbox s d l) d' = inbox_opt s d'.
Proof. intros H. unfold set_inbox; cbn. destruct (N.eqb_spec d' d); [contradiction|reflexivity]. Qed.

Lemma inbox_set_same s d l : inbox (set_inbox s d l) d = l.
Proof. unfold inbox. rewrite inbox_opt_set_same. reflexivity. Qed.

Lemma inbox_set_other s d d' l : d' <> d -> inbox (set_inbox s d l) d' = inbox s d'.
Proof. intros H. unfold inbox. rewrite inbox_opt_set_other by assumption. reflexivity. Qed.

Lemma inbox_of_opt s d l : inbox_opt s d = Some l -> inbox s d = l.
Proof. unfold inbox. intros ->. reflexivity. Qed.
Lemma inbox_of_none s d : inbox_opt s d = None -> inbox s d = [].
Proof. unfold inbox. intros ->. reflexivity. Qed.

(* operations on one recipient never touch another recipient's inbox document *)
Lemma step_independent v s o d :
  d <> op_did o -> inbox_opt (fst (step v s o)) d = inbox_opt s d.
Proof.
  intros Hd. destruct o as [d0 m f|d0 t f|d0 n f]; cbn [op_did] in Hd; cbn [step].
  - destruct (fails_get f); [reflexivity|].
    destruct (inbox_opt s d0) as [l|].
    + destruct (fails_put f 0); cbn [fst]; [reflexivity|]. apply inbox_opt_set_other; assumption.
    + destruct (fails_put f 0); cbn [fst]; [reflexivity|].
      destruct (fails_put f 1); cbn [fst]; rewrite ?inbox_opt_set_other by assumption; reflexivity.
  - destruct (fails_get f); [reflexivity|].
    destruct (inbox_opt s d0) as [l|]; [|reflexivity].
    destruct (negb t && _); [reflexivity|]. destruct (fails_send f); reflexivity.
  - destruct (fails_get f); [reflexivity|].
    destruct (inbox_opt s d0) as [l|]; [|reflexivity].
    destruct (batch_end v (length l) n) as [e|]; [|reflexivity].
    destruct (fails_put f 0); [reflexivity|].
    destruct (fails_send f); [destruct v|]; cbn [fst]; rewrite ?inbox_opt_set_other by assumption; reflexivity.
Qed.

(* one step of the repaired code conserves messages, for every recipient *)
Lemma step_conserve s o d :
  let '(s', x) := step Fixed s o in
  delivered1 d o x ++ inbox s' d = inbox s d ++ accepted1 d o x.
Proof.
  destruct o as [d0 m f|d0 t f|d0 n f]; cbn [step].
  - destruct (fails_get f); [cbn; rewrite app_nil_r; reflexivity|].
    destruct (inbox_opt s d0) as [l|] eqn:Hl.
    + destruct (fails_put f 0); cbn [delivered1 accepted1 app]; [rewrite app_nil_r; reflexivity|].
      destruct (N.eqb_spec d d0) as [->|Hne].
      * rewrite inbox_set_same, (inbox_of_opt _ _ _ Hl). reflexivity.
      * rewrite inbox_set_other by assumption. rewrite app_nil_r. reflexivity.
    + destruct (fails_put f 0); cbn [delivered1 accepted1 app]; [rewrite app_nil_r; reflexivity|].
      destruct (fails_put f 1); cbn [delivered1 accepted1 app].
      * rewrite app_nil_r. destruct (N.eq_dec d d0) as [->|Hne].
        -- rewrite inbox_set_same, (inbox_of_none _ _ Hl). reflexivity.
        -- rewrite inbox_set_other by assumption. reflexivity.
      * destruct (N.eqb_spec d d0) as [->|Hne].
        -- rewrite inbox_set_same, (inbox_of_none _ _ Hl). reflexivity.
        -- rewrite !inbox_set_other by assumption. rewrite app_nil_r. reflexivity.
  - destruct (fails_get f); [cbn; rewrite app_nil_r; reflexivity|].
    destruct (inbox_opt s d0) as [l|]; [|cbn; rewrite app_nil_r; reflexivity].
    cbn [negb andb]. rewrite andb_false_r.
    destruct (fails_send f); cbn; rewrite app_nil_r; reflexivity.
  - destruct (fails_get f); [cbn; rewrite app_nil_r; reflexivity|].
    destruct (inbox_opt s d0) as [l|] eqn:Hl; [|cbn; rewrite app_nil_r; reflexivity].
    destruct (batch_end Fixed (length l) n) as [e|] eqn:He; [|cbn; rewrite app_nil_r; reflexivity].
    destruct (fails_put f 0); [cbn; rewrite app_nil_r; reflexivity|].
    destruct (fails_send f); cbn [delivered1 accepted1 app].
    + rewrite app_nil_r. destruct (N.eq_dec d d0) as [->|Hne].
      * rewrite inbox_set_same, (inbox_of_opt _ _ _ Hl). reflexivity.
      * rewrite !inbox_set_other by assumption. reflexivity.
    + rewrite app_nil_r. destruct (N.eqb_spec d d0) as [->|Hne].
      * rewrite inbox_set_same, (inbox_of_opt _ _ _ Hl). apply firstn_skipn.
      * rewrite inbox_set_other by assumption. reflexivity.
Qed.

(* whole histories, from ANY store state *)
Lemma run_conserve ops : forall s d,
  let '(s', outs) := run Fixed s ops in
  delivered d ops outs ++ inbox s' d = inbox s d ++ accepted d ops outs.
Proof.
  induction ops as [|o r IH]; intros s d; cbn [run].
  - cbn. rewrite app_nil_r. reflexivity.
  - pose proof (step_conserve s o d) as H1. destruct (step Fixed s o) as [s1 x].
    specialize (IH s1 d). destruct (run Fixed s1 r) as [s2 xs].
    cbn [delivered accepted]. rewrite <- app_assoc, IH, !app_assoc, H1. reflexivity.
Qed.

Lemma run_length v ops : forall s, length (snd (run v s ops)) = length ops.
Proof.
  induction ops as [|o r IH]; intros s; cbn [run]; [reflexivity|].
  destruct (step v s o) as [s1 x]. specialize (IH s1). destruct (run v s1 r) as [s2 xs].
  cbn in *. rewrite IH. reflexivity.
Qed.

(* the repaired handlers never panic *)
Lemma step_no_panic s o : snd (step Fixed s o) <> OPanic.
Proof.
  destruct o as [d m f|d t f|d n f]; cbn [step].
  - destruct (fails_get f); [discriminate|]. destruct (inbox_opt s d).
    + destruct (fails_put f 0); discriminate.
    + destruct (fails_put f 0); [discriminate|]. destruct (fails_put f 1); discriminate.
  - destruct (fails_get f); [discriminate|]. destruct (inbox_opt s d); [|discriminate].
    rewrite andb_false_r. destruct (fails_send f); discriminate.
  - destruct (fails_get f); [discriminate|]. destruct (inbox_opt s d) as [l|]; [|discriminate].
    assert (He : exists e, batch_end Fixed (length l) n = Some e).
    { unfold batch_end. destruct (Z.ltb n (Z.of_nat (length l))); [destruct (Z.ltb n 0)|]; eauto. }
    destruct He as [e ->]. destruct (fails_put f 0); [discriminate|].
    destruct (fails_send f); discriminate.
Qed.

Lemma run_no_panic ops : forall s, existsb is_panic (snd (run Fixed s ops)) = false.
Proof.
  induction ops as [|o r IH]; intros s; cbn [run]; [reflexivity|].
  pose proof (step_no_panic s o) as Hp. destruct (step Fixed s o) as [s1 x].
  specialize (IH s1). destruct (run Fixed s1 r) as [s2 xs]. cbn in *.
  rewrite IH. destruct x; try reflexivity. contradiction Hp; reflexivity.
Qed.

(* a status always reports the number of messages held at that moment and changes nothing *)
Lemma status_exact v s d t f s' n :
  step v s (Status d t f) = (s', OStatus n) \/ step v s (Status d t f) = (s', OStatusFail n) ->
  n = length (inbox s d) /\ s' = s.
Proof.
  cbn [step]. destruct (fails_get f); [intros [H|H]; discriminate|].
  destruct (inbox_opt s d) as [l|] eqn:Hl; [|intros [H|H]; discriminate].
  rewrite (inbox_of_opt _ _ _ Hl).
  destruct (negb t && _); [intros [H|H]; discriminate|].
  destruct (fails_send f); intros [H|H]; inversion H; subst; split; reflexivity.
Qed.

(* a pickup that does not deliver leaves the inbox as it was (failed send, storage error) *)
Lemma pickup_undelivered_keeps s d n f :
  (forall ms, snd (step Fixed s (Pickup d n f)) <> OBatch ms) ->
  inbox (fst (step Fixed s (Pickup d n f))) d = inbox s d.
Proof.
  cbn [step]. destruct (fails_get f); [reflexivity|].
  destruct (inbox_opt s d) as [l|] eqn:Hl; [|reflexivity].
  destruct (batch_end Fixed (length l) n) as [e|]; [|reflexivity].
  destruct (fails_put f 0); [reflexivity|].
  destruct (fails_send f); cbn [fst snd].
  - intros _. rewrite inbox_set_same, (inbox_of_opt _ _ _ Hl). reflexivity.
  - intros H. exfalso. apply (H (firstn e l)). reflexivity.
Qed.

(* a delivered batch is exactly the first min(n, held) messages, in stored order *)
Lemma pickup_batch_prefix s d n f s' ms :
  step Fixed s (Pickup d n f) = (s', OBatch ms) ->
  exists e, ms = firstn e (inbox s d) /\ inbox s' d = skipn e (inbox s d) /\
            e = Z.to_nat (Z.max 0 (Z.min n (Z.of_nat (length (inbox s d))))).
Proof.
  cbn [step]. destruct (fails_get f); [discriminate|].
  destruct (inbox_opt s d) as [l|] eqn:Hl; [|discriminate].
  rewrite (inbox_of_opt _ _ _ Hl).
  destruct (batch_end Fixed (length l) n) as [e|] eqn:He; [|discriminate].
  destruct (fails_put f 0); [discriminate|].
  destruct (fails_send f); [discriminate|].
  intros H; inversion H; subst. exists e. rewrite inbox_set_same.
  repeat split. unfold batch_end in He.
  destruct (Z.ltb_spec n (Z.of_nat (length l))); [destruct (Z.ltb_spec n 0)|]; inversion He; subst; lia.
Qed.
