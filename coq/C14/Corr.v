(* C14 — correspondence.  Wrap cases: the real outbound dispatcher (real packager, sender's own KMS) sent a message
   to a destination with routing keys; the bytes given to the transport were handed, level by level, to every
   party's own packager; the harness recorded what each party obtained.  Route cases: a history of keylist updates
   and forwards on the real mediator service, with what it handed to its outbound dispatcher / pickup service. *)
From Coq Require Import List NArith Bool.
Import ListNotations.
From VF Require Export C14.Model C14.Opaque.
Local Open Scope N_scope.

(* what a party obtained from the bytes of one level *)
Inductive pobs :=
| OFwd (v2 : bool) (to : tref)          (* a forward (no sender key) *)
| OFwdFrom (v2 : bool) (to : tref) (from : N)   (* a forward that names a sender key: never expected *)
| OMsg (p from to : N)                  (* the user message with id p (999999: other bytes), FromKey, ToKey *)
| ORej.

Definition pobs_eqb (a b : pobs) : bool :=
  match a, b with
  | OFwd v t, OFwd v' t' => Bool.eqb v v' && tref_eqb t t'
  | OFwdFrom v t f, OFwdFrom v' t' f' => Bool.eqb v v' && tref_eqb t t' && (f =? f')
  | OMsg p f t, OMsg p' f' t' => (p =? p') && (f =? f') && (t =? t')
  | ORej, ORej => true
  | _, _ => false
  end.

Definition proj_peel (r : res (plain * option N * N)) : pobs :=
  match r with
  | Ok (PFwd v to _, None, _) => OFwd v to
  | Ok (PFwd v to _, Some f, _) => OFwdFrom v to f
  | Ok (PMsg p, from, to) => OMsg p (match from with Some s => s | None => 0 end) to
  | _ => ORej
  end.

(* a send through SendToDID: the connection record read from the store before the call (None: no record), the
   dispatcher's default profiles, whether the message is DIDComm v2, the record read from the store after the call;
   w_accept is then the accept list of the resolved DID document *)
Record todid := { td_found : option connrec; td_defaults : list mtp; td_v2msg : bool; td_after : option connrec }.

Record wcase := { w_todid : option todid; w_primary : packer; w_accept : list mtp; w_default : mtp; w_auth : bool; w_kt : ktype; w_enc : encalg; w_style : kstyle;
                  w_spar : list N; w_payload : N; w_sender : N; w_rcpts : list N;
                  w_routing : list hop; w_sent : bool;
                  w_levels : list (list (list N * pobs)) }.

Definition rnd0 := mkrnd 100000 200000 300000.

(* the envelope the first party that obtained a forward passes on *)
Fixpoint next_wire (ls : list layer) (parties : list (list N * pobs)) (w : wire) : option wire :=
  match parties with
  | [] => None
  | (p, _) :: r => match peel ls p w with
                   | Ok (PFwd _ _ inner, _, _) => Some inner
                   | _ => next_wire ls r w
                   end
  end.

Fixpoint check_levels (ls : list layer) (w : wire) (levels : list (list (list N * pobs))) : bool :=
  match levels with
  | [] => false
  | lv :: rest =>
      forallb (fun po => pobs_eqb (snd po) (proj_peel (peel ls (fst po) w))) lv &&
      match next_wire ls lv w, rest with
      | Some w', _ :: _ => check_levels ls w' rest
      | None, [] => true
      | _, _ => false
      end
  end.

Definition mtp_eqb (a b : mtp) : bool :=
  match a, b with
  | M_V1Plain, M_V1Plain | M_RFC19, M_RFC19 | M_AIP2RFC19, M_AIP2RFC19 | M_AIP1, M_AIP1 | M_Indy, M_Indy
  | M_V1Enc, M_V1Enc | M_V2EncV1Plain, M_V2EncV1Plain | M_AIP2RFC587, M_AIP2RFC587 | M_V2Enc, M_V2Enc
  | M_V2Plain, M_V2Plain | M_DIDCommV2, M_DIDCommV2 | M_Other, M_Other => true
  | _, _ => false
  end.
Fixpoint mtps_eqb (a b : list mtp) : bool :=
  match a, b with
  | [], [] => true
  | x :: r, y :: t => mtp_eqb x y && mtps_eqb r t
  | _, _ => false
  end.
Definition connrec_eqb (a b : connrec) : bool :=
  mtps_eqb (cn_profiles a) (cn_profiles b) && Bool.eqb (cn_peer_initial a) (cn_peer_initial b).

(* the accept list, the default and the packing mode of the Send the case amounts to; for SendToDID also: the record
   in the store after the call is the one the model says *)
Definition eff_accept (c : wcase) : list mtp :=
  match w_todid c with
  | None => w_accept c
  | Some t => todid_accept [] (w_accept c) (conn_for (td_found t) (td_defaults t) (td_v2msg t))
  end.
Definition eff_default (c : wcase) : mtp :=
  match w_todid c with None => w_default c | Some t => hd M_Other (td_defaults t) end.
Definition eff_auth (c : wcase) : bool :=
  match w_todid c with
  | None => w_auth c
  | Some t => w_auth c && todid_auth (conn_for (td_found t) (td_defaults t) (td_v2msg t)) (media_type (eff_accept c) (eff_default c))
  end.
Definition todid_store_ok (c : wcase) : bool :=
  match w_todid c with
  | None => true
  | Some t => match td_after t with
              | Some r => connrec_eqb r (conn_for (td_found t) (td_defaults t) (td_v2msg t))
              | None => false
              end
  end.

(* hop opacity on this case (C14/Opaque.v): the hypotheses of hop_opacity_dolev_yao hold for the coalition of every
   key pair that is not a recipient's against the payload's name and the recipients' CEK seed ([coalition_ok], sound by
   Props.send_ok_b_is_sound), and the whole view — recipients' envelope, every layer, every forward plaintext, written
   as terms — is safe for that coalition ([coalition_safe]; Props.coalition_cannot_derive) *)
Definition opaque_case (c : wcase) (cf : cfg) (pf : profile) (ls : list layer) : bool :=
  coalition_ok FFixed cf pf (w_spar c) (w_sender c) (w_payload c) (w_rcpts c) (w_routing c) rnd0 &&
  match pack cf (w_spar c) (pay_id (w_payload c)) (w_sender c) (w_rcpts c) rnd0 with
  | Ok w0 => coalition_safe cf (w_sender c) (w_payload c) (w_rcpts c) rnd0 w0 ls
  | _ => false
  end.

(* the packer configuration, the profile family and the model's Send for the case: a selected media type the packager
   has a packer for -> [wrap]; none -> the primary packer of the sender's packager, [wrap_primary] *)
Definition run_case (c : wcase) : cfg * profile * res (wire * list layer) :=
  match family (media_type (eff_accept c) (eff_default c)) with
  | Some pf =>
      let cf := cfg_of pf (eff_auth c) (w_kt c) (w_enc c) (w_style c) in
      (cf, pf, wrap FFixed cf pf (w_spar c) (w_payload c) (w_sender c) (w_rcpts c) (w_routing c) rnd0)
  | None =>
      (mkcfg (w_primary c) (w_kt c) (w_enc c) (w_style c), primary_profile (w_primary c),
       wrap_primary FFixed (w_primary c) (w_kt c) (w_enc c) (w_style c) (w_spar c) (w_payload c)
                    (if eff_auth c then w_sender c else 0) (w_rcpts c) (w_routing c) rnd0)
  end.

Definition check_wcase (c : wcase) : bool :=
  todid_store_ok c &&
  let '(cf, pf, r) := run_case c in
  match r with
  | Ok (outer, ls) => w_sent c && check_levels ls outer (w_levels c) && opaque_case c cf pf ls
  | _ => negb (w_sent c)
  end.

(* route histories *)
Definition act_eqb (a b : act) : bool :=
  match a, b with AAdd, AAdd | ARemove, ARemove | AOther, AOther => true | _, _ => false end.
Definition ures_eqb (a b : ures) : bool :=
  match a, b with RSuccess, RSuccess | RServerError, RServerError => true | _, _ => false end.
Fixpoint entries_eqb (a b : list (rkey * act * ures)) : bool :=
  match a, b with
  | [], [] => true
  | (k, x, r) :: t, (k', x', r') :: t' => rkey_eqb k k' && act_eqb x x' && ures_eqb r r' && entries_eqb t t'
  | _, _ => false
  end.
Definition rout_eqb (a b : rout) : bool :=
  match a, b with
  | OResp c es s, OResp c' es' s' => (c =? c') && entries_eqb es es' && Bool.eqb s s'
  | ORelay d m, ORelay d' m' | OHeld d m, OHeld d' m' => (d =? d') && (m =? m')
  | ODrop, ODrop | ORestarted, ORestarted => true
  | OBatch c ms, OBatch c' ms' => (c =? c') && skey_eqb ms ms'
  | ONoInbox c, ONoInbox c' => c =? c'
  | _, _ => false
  end.
Fixpoint routs_eqb (a b : list rout) : bool :=
  match a, b with
  | [], [] => true
  | x :: r, y :: t => rout_eqb x y && routs_eqb r t
  | _, _ => false
  end.

Record rcase := { r_ops : list rop; r_obs : list rout }.
Definition check_rcase (c : rcase) : bool := routs_eqb (r_obs c) (snd (rrun ms0 (r_ops c))).

Inductive case := CW (c : wcase) | CR (c : rcase).
Definition check_case (c : case) : bool :=
  match c with CW w => check_wcase w | CR r => check_rcase r end.

Fixpoint mismatches_from (i : nat) (cs : list case) : list nat :=
  match cs with
  | [] => []
  | c :: r => if check_case c then mismatches_from (S i) r else i :: mismatches_from (S i) r
  end.
Definition mismatches := mismatches_from 0.
