(* C14 — property theorems only.  [wrap]/[peel]/[peel_chain] (Part A) and [rstep]/[rrun] (Part B) are the executable
   model of C14/Model.v, the same functions the correspondence C14/Corr.v runs against the real outbound
   dispatcher, packagers and mediator service; [pack]/[unpack_pkgr] are C01's. *)
From Coq Require Import List NArith Bool.
Import ListNotations.
From VF Require Import C01.Model C01.Proofs C14.Model C14.Proofs C14.Opaque C14.OpaqueProofs C14.Tables gen.Gen_C14.
Local Open Scope N_scope.

(* ------------------------------------------------------------------------------------------------------------
   FULL STATEMENT, part 1 (unwrapping in order delivers exactly the original message; each hop sees the next key).
   For every packer configuration, profile, payload, sender, recipient list, and every list of routing keys of
   ANY length: if the dispatcher's Send succeeded (outer = the bytes given to the transport), and the mediators
   unwrap in order (parties = holders of routing keys n, n-1, .., 1), then hop i obtains an anonymous forward whose
   'to' is exactly the key of hop i-1 (the recipient's first key for the last mediator) in the form the profile
   prescribes, the envelope leaving the last mediator is exactly the envelope the sender packed for the recipients,
   and every holder of a recipient key unpacks from it exactly the original payload with the true sender key. *)
Theorem peel_all : forall c pf spar payload sender rcpts routing rn outer ls parties,
  wrap FFixed c pf spar payload sender rcpts routing rn = Ok (outer, ls) ->
  Forall2 (fun p h => In (h_key h) p) parties (rev routing) ->
  exists r0 w0, hd_error rcpts = Some r0 /\ pack c spar (pay_id payload) sender rcpts rn = Ok w0 /\
    peel_chain ls parties outer
      = Ok (map (to_ref (style_of c) pf) (rev (removelast (r0 :: map h_key routing))), w0) /\
    forall party, (exists k, In k rcpts /\ In k party) ->
      exists k, In k rcpts /\ In k party /\
        peel ls party w0 = Ok (PMsg payload, expect_from (packer_of c) sender, k).
Proof.
  intros c pf spar payload sender rcpts routing rn outer ls parties Hw HF.
  unfold wrap in Hw. destruct rcpts as [|r0 rs]; [discriminate|].
  destruct (pack c spar (pay_id payload) sender (r0 :: rs) rn) as [w0| | |] eqn:Hp; cbn [bind] in Hw; try discriminate.
  exists r0, w0. split; [reflexivity|]. split; [reflexivity|]. split.
  - rewrite <- tos_of_explicit.
    apply (nest_peel c pf routing 0 r0 w0 rn outer ls ls Hw (nest_self _ _ _ _ _ _ _ _ _ _ Hw) parties HF).
  - intros party Hex. destruct (roundtrip_lemma _ _ _ _ _ _ _ party Hp Hex) as [k [H1 [H2 [_ Hu]]]].
    exists k. split; [assumption|]. split; [assumption|].
    unfold peel. rewrite Hu. cbn [bind]. rewrite lookup_pay. reflexivity.
Qed.
Print Assumptions peel_all.

(* A media type profile the packager has no packer for ("application/didcomm-enc-env", an unknown default): every pack
   goes to the framework's primary packer.  With an anoncrypt primary packer the send IS [wrap] with that packer; with
   an authcrypt one a routed send fails closed (a forward has no sender key), an unrouted one is [wrap]; whenever the
   send succeeds, the statement of peel_all holds for it. *)
Theorem primary_packer_send : forall v prim kt e st spar payload sender rcpts routing rn,
  (is_auth prim = false \/ routing = [] ->
     wrap_primary v prim kt e st spar payload sender rcpts routing rn
       = wrap v (mkcfg prim kt e st) (primary_profile prim) spar payload sender rcpts routing rn) /\
  (is_auth prim = true -> routing <> [] ->
     forall x, wrap_primary v prim kt e st spar payload sender rcpts routing rn <> Ok x).
Proof.
  intros v prim kt e st spar payload sender rcpts routing rn. unfold wrap_primary. split.
  - intros [H| ->]; [rewrite H; reflexivity|]. destruct (is_auth prim); reflexivity.
  - intros H Hr x. rewrite H. destruct routing as [|h r]; [congruence|]. destruct rcpts as [|r0 rs]; [discriminate|].
    destruct (pack (mkcfg prim kt e st) spar (pay_id payload) sender (r0 :: rs) rn); cbn [bind]; discriminate.
Qed.
Print Assumptions primary_packer_send.

Theorem peel_all_primary : forall prim kt e st spar payload sender rcpts routing rn outer ls parties,
  let c := mkcfg prim kt e st in let pf := primary_profile prim in
  wrap_primary FFixed prim kt e st spar payload sender rcpts routing rn = Ok (outer, ls) ->
  Forall2 (fun p h => In (h_key h) p) parties (rev routing) ->
  exists r0 w0, hd_error rcpts = Some r0 /\ pack c spar (pay_id payload) sender rcpts rn = Ok w0 /\
    peel_chain ls parties outer
      = Ok (map (to_ref (style_of c) pf) (rev (removelast (r0 :: map h_key routing))), w0) /\
    forall party, (exists k, In k rcpts /\ In k party) ->
      exists k, In k rcpts /\ In k party /\
        peel ls party w0 = Ok (PMsg payload, expect_from (packer_of c) sender, k).
Proof.
  intros prim kt e st spar payload sender rcpts routing rn outer ls parties c pf Hw HF.
  destruct (primary_packer_send FFixed prim kt e st spar payload sender rcpts routing rn) as [H1 H2].
  destruct (is_auth prim) eqn:Ea.
  - destruct routing as [|h r].
    + rewrite (H1 (or_intror eq_refl)) in Hw. exact (peel_all c pf spar payload sender rcpts [] rn outer ls parties Hw HF).
    + exfalso. apply (H2 eq_refl (fun E => ltac:(discriminate E)) _ Hw).
  - rewrite (H1 (or_introl eq_refl)) in Hw. exact (peel_all c pf spar payload sender rcpts routing rn outer ls parties Hw HF).
Qed.
Print Assumptions peel_all_primary.

(* FULL STATEMENT, part 2 (opaque to mediators).  Whatever variant of the embedding, every layer the dispatcher
   created opens for a holder of the single key it is addressed to — yielding an anonymous forward (no sender key) —
   and for NOBODY else: every other party (other mediators, the final recipient, outsiders) gets the
   not-a-recipient error. *)
Theorem layer_opens_only_for_addressed : forall v c pf spar payload sender rcpts routing rn outer ls l party,
  wrap v c pf spar payload sender rcpts routing rn = Ok (outer, ls) -> In l ls ->
  (In (ly_key l) party -> peel ls party (ly_wire l) = Ok (ly_plain l, None, ly_key l)) /\
  (~ In (ly_key l) party ->
     peel ls party (ly_wire l) = Err ENotFound /\ unpack_pkgr Fixed party (ly_wire l) = Err ENotFound).
Proof.
  intros v c pf spar payload sender rcpts routing rn outer ls l party Hw Hl.
  unfold wrap in Hw. destruct rcpts as [|r0 rs]; [discriminate|].
  destruct (pack c spar (pay_id payload) sender (r0 :: rs) rn) as [w0| | |]; cbn [bind] in Hw; try discriminate.
  destruct (nest_layers _ _ _ _ _ _ _ _ _ _ Hw l Hl) as [j [kt [rn' [Hid Hp]]]].
  pose proof (nest_self _ _ _ _ _ _ _ _ _ _ Hw l Hl) as Hlk. rewrite Hid in Hlk. rewrite <- lookup_fwd in Hlk.
  split; intros H.
  - eapply peel_layer_open; eassumption.
  - eapply peel_layer_closed; eassumption.
Qed.
Print Assumptions layer_opens_only_for_addressed.

(* what a mediator learns: its layer's plaintext is the forward type, the key of the NEXT hop, and the envelope of
   the next hop — a function of those two only; the layers are addressed to the routing keys in order, the outermost
   is what the transport gets; the innermost carries the envelope packed for the recipients, which (C01) nobody
   without a recipient key opens. *)
Theorem hop_view : forall v c pf spar payload sender rcpts routing rn outer ls,
  wrap v c pf spar payload sender rcpts routing rn = Ok (outer, ls) ->
  exists r0 w0, hd_error rcpts = Some r0 /\ pack c spar (pay_id payload) sender rcpts rn = Ok w0 /\
    chained v (style_of c) pf r0 w0 ls outer /\ map ly_key ls = map h_key routing /\
    forall party, (forall k, In k rcpts -> ~ In k party) -> unpack_pkgr Fixed party w0 = Err ENotFound.
Proof.
  intros v c pf spar payload sender rcpts routing rn outer ls Hw.
  unfold wrap in Hw. destruct rcpts as [|r0 rs]; [discriminate|].
  destruct (pack c spar (pay_id payload) sender (r0 :: rs) rn) as [w0| | |] eqn:Hp; cbn [bind] in Hw; try discriminate.
  exists r0, w0. split; [reflexivity|]. split; [reflexivity|].
  destruct (nest_chained _ _ _ _ _ _ _ _ _ _ Hw) as [Hc Hm]. split; [exact Hc|]. split; [exact Hm|].
  intros party Hno. exact (proj2 (only_recipients_lemma _ _ _ _ _ _ _ party Hp Hno)).
Qed.
Print Assumptions hop_view.

(* Send fails exactly when one of the packs fails (C01's pack-side rejections); with no routing keys the
   transport gets the packed envelope itself *)
Theorem no_routing_keys_is_plain_pack : forall v c pf spar payload sender rcpts rn,
  rcpts <> [] ->
  wrap v c pf spar payload sender rcpts [] rn =
    bind (pack c spar (pay_id payload) sender rcpts rn) (fun w0 => Ok (w0, [])).
Proof. intros v c pf spar payload sender [|r0 rs] rn H; [congruence|]. reflexivity. Qed.
Print Assumptions no_routing_keys_is_plain_pack.

(* HISTORICAL REFUTATION (before fix: 77f86fc).  With the embedding as found — through model.Envelope — a message
   for two recipient keys sent over one mediator cannot be unpacked by the recipient; the repaired code delivers. *)
Theorem peel_all_asis_refuted :
  exists c pf spar payload sender rcpts routing rn,
    (exists outer ls w', wrap FAsIs c pf spar payload sender rcpts routing rn = Ok (outer, ls) /\
       peel_chain ls [[9]] outer = Ok ([TDidKey 5], w') /\ peel ls [5] w' = Err ENotFound) /\
    (exists outer ls w', wrap FFixed c pf spar payload sender rcpts routing rn = Ok (outer, ls) /\
       peel_chain ls [[9]] outer = Ok ([TDidKey 5], w') /\ peel ls [5] w' = Ok (PMsg payload, None, 5)).
Proof.
  exists (mkcfg JweAnon X25519 XC20P DidKey), PV2, [1], 77, 0, [5; 6], [mkhop 9 X25519], (mkrnd 100 200 300).
  split; eexists; eexists; eexists; (split; [vm_compute; reflexivity|]); split; vm_compute; reflexivity.
Qed.
Print Assumptions peel_all_asis_refuted.

(* ------------------------------------------------------------------------------------------------------------
   FULL STATEMENT, part 2, as a Dolev-Yao statement (C14/Opaque.v).  The attacker holds the private halves of the
   key pairs [own] — all mediators of all chains, outsiders, any keys at all — can produce every name that is not
   [secret], and has EVERYTHING that is on the wire during any number of routed sends, in any order: for each send
   the envelope packed for the recipients, every forward layer and every forward plaintext (type, 'to', wrapped
   envelope) written as terms ([knowledge]; chains of any length, both embedding variants, all four packers).  He
   splits tuples, opens a ciphertext / key wrap whose key he can derive, computes DH a b when he owns a or b, and
   builds tuples, ciphertexts, key wraps and KDF outputs.  If every send is fit to be seen ([send_ok]: each pack —
   the recipients' envelope and each forward layer — is either PROTECTED: no recipient key and no ephemeral key
   of that pack is his, its CEK seed is a secret name (legacy authcrypt: nor the sender's key, the box key being
   DH(sender, recipient)); or EXPOSED: its plaintext's name and its CEK seed are not claimed secret; and the names
   that stand in the clear — header constants, key names, IVs, recipient indices — are not secret names), then NO
   secret name is derivable: in particular the payload of every protected send, whatever mediators' keys he holds. *)
Theorem hop_opacity_dolev_yao : forall own secret sends n,
  Forall (send_ok own secret) sends -> secret n = true -> ~ dy own secret (knowledge sends) (Bytes n).
Proof. exact secret_names_not_derivable. Qed.
Print Assumptions hop_opacity_dolev_yao.

(* the invariant behind it: from knowledge that is [safe] only safe terms are derivable — for ANY knowledge *)
Theorem derivable_from_safe_is_safe : forall own secret K,
  all_safe own secret K = true -> forall t, dy own secret K t -> safe own secret t = true.
Proof. exact dy_safe. Qed.
Print Assumptions derivable_from_safe_is_safe.

(* one pack of C01's model, any packer, any number of recipients: fit to be seen *)
Theorem pack_is_safe : forall own secret c spar payload sender rcpts rn w,
  pack c spar payload sender rcpts rn = Ok w -> pack_ok own secret (packer_of c) payload sender rcpts rn ->
  safe own secret (t_wire w) = true.
Proof.
  intros own secret c spar payload sender rcpts rn w Hp Hok.
  exact (pack_safe own secret (proj1 (proj1 Hok)) c spar payload sender rcpts rn w Hp Hok).
Qed.
Print Assumptions pack_is_safe.

(* the instance the correspondence evaluates on every real case: the coalition of EVERY key pair that is not a
   recipient's (all mediators, all outsiders, the sender unless the packer is legacy authcrypt) against the payload's
   name and the CEK seed of the recipients' envelope; where [coalition_safe] computes to true — it must on every case
   the real dispatcher produced — neither is derivable from the whole view *)
Theorem coalition_cannot_derive : forall c sender payload rcpts rn w0 ls n,
  coalition_safe c sender payload rcpts rn w0 ls = true -> co_secret payload rn n = true ->
  ~ dy (co_own (match packer_of c with LegAuth => true | _ => false end) sender rcpts (rn_eph rn)) (co_secret payload rn)
       (view w0 ls) (Bytes n).
Proof. exact coalition_safe_sound. Qed.
Print Assumptions coalition_cannot_derive.

(* ... and the same with the HYPOTHESES of hop_opacity_dolev_yao evaluated as booleans ([send_ok_b], sound): on every
   real case the correspondence requires [coalition_ok] = true *)
Theorem coalition_cannot_derive_from_send : forall v c pf spar sender payload rcpts routing rn n,
  coalition_ok v c pf spar sender payload rcpts routing rn = true -> co_secret payload rn n = true ->
  ~ dy (co_own (match packer_of c with LegAuth => true | _ => false end) sender rcpts (rn_eph rn)) (co_secret payload rn)
       (send_view (mksend v c pf spar payload sender rcpts routing rn)) (Bytes n).
Proof. exact coalition_ok_sound. Qed.
Print Assumptions coalition_cannot_derive_from_send.

Theorem send_ok_b_is_sound : forall own secret s, send_ok_b own secret s = true -> send_ok own secret s.
Proof. exact send_ok_b_sound. Qed.
Print Assumptions send_ok_b_is_sound.

(* ------------------------------------------------------------------------------------------------------------
   FULL STATEMENT, part 3 (the mediator relays to the registrant and to nobody else).  [registrant h k] is computed
   from the history alone: the client of the most recent successful "add" of k (a failed store write registers
   nothing, "remove" is answered server_error and removes nothing).  In the state reached by ANY history of keylist
   updates (any clients, any number of entries, any single failing store write, any response-send outcome) and
   forwards, pickups and restarts of the mediator (the stores persist), a forward for key k is relayed to the registrant of k, or — when the outbound transport fails — held
   for pickup by that same agent; when nobody registered k nothing is handed to anybody. *)
Theorem forward_goes_to_registrant : forall hist to m ok,
  snd (rstep (fst (rrun ms0 hist)) (RForward to m ok false false)) =
     match registrant hist to with
     | Some d => if ok then ORelay d m else OHeld d m
     | None => ODrop
     end.
Proof.
  intros hist to m ok. unfold rstep, rrun. apply (forward_step data_key). intros k.
  apply (rrun_get data_key data_key_eqb k hist ms0).
Qed.
Print Assumptions forward_goes_to_registrant.

(* the same for whole histories, as the boolean the violation search evaluates: every forward of the history has
   exactly one delivery — to the registrant at that moment, of exactly the forwarded message — or none when there is
   no registrant or the store read fails; keylist updates deliver nothing.  The keys of a history are ANY notations:
   related ones included (the same bytes under another multicodec, EC points sharing X, the base58 notation of a
   did:key's bytes, other strings). *)
Theorem route_exact : forall ops, route_exact_b ops = true.
Proof. intros ops. apply (route_exact_gen data_key data_key_eqb). intros k. reflexivity. Qed.
Print Assumptions route_exact.

(* what makes it true: the code's dataKey ("route-" + the whole string) sends two notations to the same store key
   only when they are the same notation ... *)
Theorem data_key_distinguishes_notations : forall a b, data_key a = data_key b -> a = b.
Proof. exact data_key_injective. Qed.
Print Assumptions data_key_distinguishes_notations.

(* ... and the property holds for EVERY store-key function with that property, *)
Theorem route_exact_for_any_distinguishing_key_function : forall dk,
  (forall a b, skey_eqb (dk a) (dk b) = rkey_eqb a b) -> forall ops, route_exact_g dk ops = true.
Proof. intros dk H ops. apply (route_exact_gen dk H). intros k. reflexivity. Qed.
Print Assumptions route_exact_for_any_distinguishing_key_function.

(* ... while a normalising one — a did:key stored under the base58 of its X bytes, multicodec and Y dropped (what
   kmsdidkey.GetBase58PubKeyFromDIDKey returns) — is REFUTED: client 2 registers the X25519 did:key over the bytes of
   client 1's Ed25519 did:key (or the point (x, -y)) and receives client 1's messages.  The code as found does not
   normalise; the witness stays in corpus/C14 (related-keys.json). *)
Theorem route_exact_normalising_key_function_refuted :
  exists ops, route_exact_g data_key_xonly ops = false /\ route_exact_b ops = true.
Proof.
  exists [RUpdate 1 [(AAdd, RDidKey 237 1 0)] None true; RUpdate 2 [(AAdd, RDidKey 236 1 0)] None true;
          RForward (RDidKey 237 1 0) 7 true false false].
  split; vm_compute; reflexivity.
Qed.
Print Assumptions route_exact_normalising_key_function_refuted.

(* no operation hands a message to two agents *)
Theorem at_most_one_delivery : forall s o, (length (deliveries (snd (rstep s o))) <= 1)%nat.
Proof.
  intros s o. unfold rstep. destruct o as [client ups f ok|to m ok fget fres|c n|]; cbn [rstep_g].
  - destruct (apply_updates_g data_key (routes s) client ups f 0). cbn. auto.
  - destruct fget; [cbn; auto|]. destruct (route_get (routes s) (data_key to)); [|cbn; auto].
    destruct fres; [cbn; auto|]. destruct ok; cbn; auto.
  - destruct (inbox_opt (inboxes s) c); cbn; auto.
  - cbn. auto.
Qed.
Print Assumptions at_most_one_delivery.

(* a keylist update changes the route of the keys it successfully adds and of no other key *)
Theorem update_touches_only_its_keys : forall s client ups f ok k,
  (forall a, ~ In (a, k) ups) ->
  route_get (routes (fst (rstep s (RUpdate client ups f ok)))) (data_key k) = route_get (routes s) (data_key k).
Proof.
  intros s client ups f ok k Hno. unfold rstep. rewrite (rstep_get data_key data_key_eqb). cbn [registrant_from].
  generalize 0%nat. generalize (route_get (routes s) (data_key k)). induction ups as [|[a k'] ups IH]; intros cur i; [reflexivity|].
  assert (Hk : rkey_eqb k k' = false).
  { destruct (rkey_eqb k k') eqn:E; [|reflexivity]. apply rkey_eqb_eq in E. subst. exfalso. apply (Hno a). left; reflexivity. }
  assert (Hno' : forall a0, ~ In (a0, k) ups) by (intros a0 Hi; apply (Hno a0); right; exact Hi).
  destruct a; cbn [reg_updates]; [destruct (fails_put f i); [|rewrite Hk]| |]; apply (IH Hno').
Qed.
Print Assumptions update_touches_only_its_keys.

(* OBSERVATION (not claimed as a violation, DESIGN 7 C14): a later registration of an already registered key by
   another client takes the route over; "remove" does not remove. *)
Theorem takeover_and_remove_observed :
  snd (rrun ms0 [RUpdate 1 [(AAdd, RB58 5)] None true; RForward (RB58 5) 7 true false false;
                RUpdate 2 [(AAdd, RB58 5)] None true; RForward (RB58 5) 8 true false false;
                RUpdate 2 [(ARemove, RB58 5)] None true; RForward (RB58 5) 9 false false false])
  = [OResp 1 [(RB58 5, AAdd, RSuccess)] true; ORelay 1 7;
     OResp 2 [(RB58 5, AAdd, RSuccess)] true; ORelay 2 8;
     OResp 2 [(RB58 5, ARemove, RServerError)] true; OHeld 2 9].
Proof. vm_compute. reflexivity. Qed.
Print Assumptions takeover_and_remove_observed.

(* OBSERVATION: when the store read fails or the registrant's DID does not resolve (VDR error), the message is
   dropped — neither relayed nor held (mediator/service_test.go pins the "get destination" error).  The full
   statements above are therefore about forwards whose store read and DID resolution succeed. *)
Theorem fault_drops_observed : forall s to m ok,
  snd (rstep s (RForward to m ok true false)) = ODrop /\ snd (rstep s (RForward to m ok false true)) = ODrop /\
  fst (rstep s (RForward to m ok false true)) = s.
Proof.
  intros s to m ok. unfold rstep. cbn [rstep_g]. repeat split; destruct (route_get (routes s) (data_key to)); reflexivity.
Qed.
Print Assumptions fault_drops_observed.

(* ------------------------------------------------------------------------------------------------------------
   FULL STATEMENT, part 4 (held for pickup by that agent).  For every history (keylist updates, forwards with any
   faults, pickups of any batch size by any clients, restarts) and every client d: what d obtained from the pickup
   service, followed by what is still held for d, is exactly — as lists: order, multiplicity — what the mediator
   held for d; and by route_exact it held a message for d only when d was the registrant of the addressed key.  So
   a held message comes out in a batch to its registrant and to nobody else. *)
Theorem held_messages_go_to_their_registrant : forall ops d,
  let '(s, outs) := rrun ms0 ops in
  picked_up d outs ++ inbox s d = held_for d outs.
Proof. intros ops d. exact (run_conserve data_key d ops ms0). Qed.
Print Assumptions held_messages_go_to_their_registrant.

(* a pickup hands the requesting client a prefix of its own inbox and touches nobody else's *)
Theorem pickup_touches_own_inbox_only : forall s c n,
  (snd (rstep s (RPickup c n)) = ONoInbox c \/ snd (rstep s (RPickup c n)) = OBatch c (firstn n (inbox s c))) /\
  forall d, d <> c -> inbox (fst (rstep s (RPickup c n))) d = inbox s d.
Proof.
  intros s c n. unfold rstep. cbn [rstep_g]. unfold inbox. destruct (inbox_opt (inboxes s) c) as [l|] eqn:E; cbn [snd fst].
  - split; [right; reflexivity|]. intros d Hd. cbn [inboxes inbox_opt].
    destruct (d =? c) eqn:E2; [apply N.eqb_eq in E2; contradiction|reflexivity].
  - split; [left; reflexivity|]. intros; reflexivity.
Qed.
Print Assumptions pickup_touches_own_inbox_only.

(* a restart of the mediator (new service instance, same stores) changes neither routes nor inboxes *)
Theorem restart_keeps_routes_and_inboxes : forall s, rstep s RRestart = (s, ORestarted).
Proof. reflexivity. Qed.
Print Assumptions restart_keeps_routes_and_inboxes.

(* ------------------------------------------------------------------------------------------------------------
   END TO END: one mediator.  The recipient (client d) registered the key string the profile makes the dispatcher
   address; the mediator unwraps the transport bytes, looks the 'to' up and relays the inner envelope to d, who
   unpacks exactly the original payload. *)
Definition tref_id (t : tref) : rkey :=
  match t with TDidKey k => RDidKey 0 k 0 | TB58 k => RB58 k | TDoc k => RStr k end.

Theorem routed_end_to_end : forall c pf spar payload sender rcpts r0 hopk rn outer ls hist d med rcp m,
  wrap FFixed c pf spar payload sender rcpts [hopk] rn = Ok (outer, ls) ->
  hd_error rcpts = Some r0 -> In (h_key hopk) med -> In r0 rcp ->
  registrant hist (tref_id (to_ref (style_of c) pf r0)) = Some d ->
  exists to inner k,
    peel ls med outer = Ok (PFwd (is_v2 pf) to inner, None, h_key hopk) /\
    snd (rstep (fst (rrun ms0 hist)) (RForward (tref_id to) m true false false)) = ORelay d m /\
    In k rcpts /\ In k rcp /\ peel ls rcp inner = Ok (PMsg payload, expect_from (packer_of c) sender, k).
Proof.
  intros c pf spar payload sender rcpts r0 hopk rn outer ls hist d med rcp m Hw Hhd Hmed Hrcp Hreg.
  destruct (peel_all c pf spar payload sender rcpts [hopk] rn outer ls [med] Hw) as [r0' [w0 [Hhd' [Hp [Hc Hfin]]]]].
  { cbn [rev app]. constructor; [exact Hmed|constructor]. }
  rewrite Hhd in Hhd'. inversion Hhd'; subst r0'.
  cbn [map removelast rev app peel_chain] in Hc.
  destruct (peel ls med outer) as [[[pl from] to']| | |] eqn:Epl; cbn [bind] in Hc; try discriminate.
  destruct pl as [|v2 t inner]; try discriminate. destruct from; try discriminate.
  cbn [peel_chain bind] in Hc. inversion Hc; subst t inner.
  destruct (Hfin rcp) as [k [Hk1 [Hk2 Hk3]]].
  { exists r0. split; [|exact Hrcp]. destruct rcpts; inversion Hhd; subst. left; reflexivity. }
  exists (to_ref (style_of c) pf r0), w0, k.
  pose proof (layer_opens_only_for_addressed FFixed c pf spar payload sender rcpts [hopk] rn outer ls) as Hlay.
  destruct (hop_view _ _ _ _ _ _ _ _ _ _ _ Hw) as [r0' [w0' [Hhd'' [Hp' [Hch [Hkeys _]]]]]].
  rewrite Hhd in Hhd''. inversion Hhd''; subst r0'. rewrite Hp in Hp'. inversion Hp'; subst w0'.
  destruct ls as [|l [|l2 ls]]; cbn [map] in Hkeys; try discriminate. inversion Hkeys as [Hkey].
  cbn [chained] in Hch. destruct Hch as [Hpl Hout]. subst outer.
  destruct (Hlay l med Hw (or_introl eq_refl)) as [Hopen _]. rewrite Hkey in Hopen. specialize (Hopen Hmed).
  rewrite Hopen in Epl. inversion Epl; subst. rewrite Hpl. cbn [embed].
  split; [rewrite Hkey; reflexivity|]. split; [|split; [exact Hk1|split; [exact Hk2|exact Hk3]]].
  rewrite forward_goes_to_registrant. rewrite Hreg. reflexivity.
Qed.
Print Assumptions routed_end_to_end.

(* ------------------------------------------------------------------------------------------------------------
   media type selection (the profile [wrap] is run with in the correspondence comes from these functions): a
   destination that accepts any DIDComm v2 media type gets JWE packing and v2 forwards, wherever the type stands in
   its list; the selected type is one the destination lists, or the sender's default *)
Theorem v2_accept_wins : forall accept dflt,
  (exists m, In m accept /\ tier_of m = TTop) -> family (media_type accept dflt) = Some PV2.
Proof.
  intros accept dflt H. unfold media_type. destruct (pick_top accept None H) as [m' [-> Ht]].
  destruct m'; try discriminate; reflexivity.
Qed.
Print Assumptions v2_accept_wins.

Theorem selected_is_listed_or_default : forall accept dflt,
  media_type accept dflt = dflt \/ In (media_type accept dflt) accept.
Proof.
  intros accept dflt. unfold media_type. destruct (pick None accept) as [m|] eqn:E; [|left; reflexivity].
  destruct (pick_in _ _ _ E) as [H|H]; [discriminate|right; exact H].
Qed.
Print Assumptions selected_is_listed_or_default.

(* the tables of the model ARE the tables of the source: Gen_C14.v is regenerated on every run from the switch
   statements of outbound.go mediaTypeProfile / createForwardMessage / packForward and packager.go getCTYAndPacker /
   isMediaTypeForLegacyPacker (harness/c14gen, go/ast); for EVERY media type the model's priority tier, packer family,
   forward version and 'to' form are what the source's clauses say *)
Theorem media_type_tables_match_source : forall m,
  tier_of m = src_tier m /\ family m = src_family m /\ src_consistent m = true /\ v1_only m = src_v1_only m.
Proof. intros m. destruct m; vm_compute; repeat split. Qed.
Print Assumptions media_type_tables_match_source.

(* ------------------------------------------------------------------------------------------------------------
   SendToDID: the connection record of (myDID, theirDID) decides.  [conn_for] / [todid_accept] / [todid_auth] are the
   functions the correspondence runs on every send through SendToDID, with the record read from the real store before
   and after the call. *)

(* history: whatever the first send found, every later send to the same pair finds the record the first one left and
   behaves the same — same accept list, same packing mode *)
Theorem todid_later_sends_agree_with_the_first : forall found defaults v2msg v2msg' ep doc m,
  let r := conn_for found defaults v2msg in
  conn_for (Some r) defaults v2msg' = r /\
  todid_accept ep doc (conn_for (Some r) defaults v2msg') = todid_accept ep doc r /\
  todid_auth (conn_for (Some r) defaults v2msg') m = todid_auth r m.
Proof. intros. repeat split. Qed.
Print Assumptions todid_later_sends_agree_with_the_first.

(* the selected media type is one of: the endpoint's accept list, the record's profiles, the document's accept list,
   the dispatcher's default — and the document's list is consulted only when the record carries none *)
Theorem todid_selected_from : forall ep doc r dflt,
  let m := media_type (todid_accept ep doc r) dflt in
  m = dflt \/ In m ep \/ (ep = [] /\ In m (cn_profiles r)) \/ (ep = [] /\ cn_profiles r = [] /\ In m doc).
Proof.
  intros ep doc r dflt m. subst m. unfold todid_accept. destruct ep as [|e ep].
  - destruct (cn_profiles r) as [|p ps] eqn:E.
    + destruct (selected_is_listed_or_default doc dflt) as [H|H]; [left; exact H|right; right; right; repeat split; exact H].
    + destruct (selected_is_listed_or_default (p :: ps) dflt) as [H|H]; [left; exact H|right; right; left; split; [reflexivity|exact H]].
  - destruct (selected_is_listed_or_default (e :: ep) dflt) as [H|H]; [left; exact H|right; left; exact H].
Qed.
Print Assumptions todid_selected_from.

(* a record with profiles overrides the document: OBSERVATION (not claimed as a violation) — a first v1 send to a DID
   never met before creates the record from the SENDER's defaults, so the destination document's accept list is not
   consulted for that pair from then on *)
Theorem todid_new_connection_uses_sender_defaults : forall defaults doc d ds,
  defaults = d :: ds -> todid_accept [] doc (conn_for None defaults false) = defaults.
Proof. intros defaults doc d ds ->. reflexivity. Qed.
Print Assumptions todid_new_connection_uses_sender_defaults.

(* the sender key is dropped (anoncrypt) only when the record says the own peer DID travels with the message and the
   selected profile is not one of the four v1 profiles SendToDID names *)
Theorem todid_anoncrypt_only_when_sharing_peer_did : forall r m,
  todid_auth r m = false <-> cn_peer_initial r = true /\ v1_only m = false.
Proof.
  intros r m. unfold todid_auth. destruct (cn_peer_initial r), (v1_only m); cbn; split; intros H; try discriminate; try (split; reflexivity);
    destruct H; discriminate.
Qed.
Print Assumptions todid_anoncrypt_only_when_sharing_peer_did.

Example media_type_nonvacuous :
  media_type [M_Other; M_RFC19; M_AIP2RFC587; M_Indy; M_V2EncV1Plain] M_DIDCommV2 = M_V2EncV1Plain /\
  media_type [M_Indy; M_RFC19] M_DIDCommV2 = M_Indy /\ media_type [M_Other] M_AIP1 = M_AIP1 /\
  media_type [M_AIP2RFC587; M_V2Plain; M_DIDCommV2] M_Indy = M_V2Plain.
Proof. repeat split. Qed.

(* ------------------------------------------------------------------------------------------------------------
   non-vacuity *)
Example peel_all_nonvacuous :
  (* authcrypt JWE for three recipient keys (two parties), four routing keys of mixed types, v2 forwards *)
  match wrap FFixed (mkcfg JweAuth P256 A256CBC512 DidKey) PV2 [1; 2] 77 1 [5; 6; 7]
             [mkhop 11 P256; mkhop 12 X25519; mkhop 13 P384; mkhop 14 P256] (mkrnd 100 200 300) with
  | Ok (outer, ls) =>
      length ls = 4%nat /\
      (exists w0, peel_chain ls [[14]; [13; 40]; [12]; [11]] outer = Ok ([TDidKey 13; TDidKey 12; TDidKey 11; TDidKey 5], w0) /\
                  peel ls [6; 7] w0 = Ok (PMsg 77, Some 1, 6) /\ peel ls [11; 12; 13; 14; 1; 2] w0 = Err ENotFound) /\
      peel ls [13] outer = Err ENotFound /\ peel ls [5; 6; 7] outer = Err ENotFound /\
      peel_chain ls [[14]; [12]] outer = Err ENotFound
  | _ => False
  end.
Proof. vm_compute. split; [reflexivity|]. split; [eexists; repeat split|repeat split]. Qed.

Example peel_all_nonvacuous_legacy :
  (* legacy authcrypt under the IndyAgent profile: did:key destinations are named in base58 in 'to' *)
  match wrap FFixed (mkcfg LegAuth Ed25519 XC20P DidKey) PIndy [1] 3 1 [5] [mkhop 11 Ed25519; mkhop 12 Ed25519] (mkrnd 100 200 300) with
  | Ok (outer, ls) =>
      exists w0, peel_chain ls [[12]; [11]] outer = Ok ([TB58 11; TB58 5], w0) /\ peel ls [5] w0 = Ok (PMsg 3, Some 1, 5)
  | _ => False
  end.
Proof. vm_compute. eexists. split; reflexivity. Qed.

Example route_exact_nonvacuous :
  (* related keys: an Ed25519 and an X25519 did:key over the same bytes, their base58 notation, the points (x, y)
     and (x, -y), a key with a fragment appended: each routed to its own registrant; held messages picked up by the
     registrant only, across a restart *)
  let ed := RDidKey 237 1 0 in let x := RDidKey 236 1 0 in let b := RB58 1 in
  let p := RDidKey 4608 2 2 in let p' := RDidKey 4608 2 3 in
  let ops := [RUpdate 1 [(AAdd, ed); (AAdd, p)] (Some 1%nat) true; RUpdate 2 [(AAdd, x); (AAdd, p'); (AOther, ed)] None false;
              RUpdate 3 [(AAdd, b)] None true;
              RForward ed 7 true false false; RForward x 8 false false false; RForward b 9 true false false;
              RForward p 1 true false false; RForward p' 2 false false false; RForward (RStr 1) 3 true false false;
              RForward ed 4 true true false; RForward ed 5 false false true; RRestart;
              RPickup 1 10; RPickup 3 10; RPickup 2 1; RForward x 6 false false false; RPickup 2 10] in
  let '(s, outs) := rrun ms0 ops in
  outs = [OResp 1 [(ed, AAdd, RSuccess); (p, AAdd, RServerError)] true;
          OResp 2 [(x, AAdd, RSuccess); (p', AAdd, RSuccess)] false; OResp 3 [(b, AAdd, RSuccess)] true;
          ORelay 1 7; OHeld 2 8; ORelay 3 9; ODrop; OHeld 2 2; ODrop; ODrop; ODrop; ORestarted;
          ONoInbox 1; ONoInbox 3; OBatch 2 [8]; OHeld 2 6; OBatch 2 [2; 6]] /\
  registrant (firstn 3 ops) x = Some 2 /\ registrant (firstn 3 ops) p = None /\ inbox s 2 = [].
Proof. vm_compute. repeat split. Qed.

(* ------------------------------------------------------------------------------------------------------------
   non-vacuity of the Dolev-Yao statement *)
Definition ex_secret (n : N) : bool := (n =? 1000156) || (n =? 200) || (n =? 5200).
Definition ex_own (k : N) : bool := mem k [11; 12; 13; 40; 41; 7].
(* two interleaved sends of one sender: an authcrypt JWE for keys 5, 6 over the mediators 11, 12, 13 (protected, secret
   payload 500077) and an anoncrypt for key 7 — which the attacker HOLDS — over mediator 12 (exposed, public payload);
   the attacker holds all three mediators' keys *)
Definition ex_sends : list send :=
  [mksend FFixed (mkcfg JweAuth P256 A256CBC512 DidKey) PV2 [1; 2] 500077 1 [5; 6]
          [mkhop 11 P256; mkhop 12 X25519; mkhop 13 P384] (mkrnd 100 200 300);
   mksend FFixed (mkcfg JweAnon X25519 XC20P DidKey) PV2 [1; 2] 3 0 [7] [mkhop 12 X25519] (mkrnd 5100 5201 5300)].

Example hop_opacity_dolev_yao_nonvacuous :
  Forall (send_ok ex_own ex_secret) ex_sends /\ ex_secret (pay_id 500077) = true /\
  ex_own 11 = true /\ ex_own 12 = true /\ ex_own 13 = true /\ ex_own 7 = true /\
  (length (knowledge ex_sends) = 10)%nat /\
  ~ dy ex_own ex_secret (knowledge ex_sends) (Bytes (pay_id 500077)).
Proof.
  assert (H : Forall (send_ok ex_own ex_secret) ex_sends).
  { constructor; [|constructor; [|constructor]]; apply send_ok_b_sound; vm_compute; reflexivity. }
  split; [exact H|]. repeat (split; [vm_compute; reflexivity|]).
  apply (hop_opacity_dolev_yao _ _ _ _ H). reflexivity.
Qed.

(* the attacker is not a straw man: holding recipient key 7 he derives the payload of the exposed send (were its name
   secret); with a mediator's key he derives the forward his layer carries and, from it, the next envelope *)
Example attacker_opens_what_his_keys_open :
  let K := knowledge ex_sends in
  dy ex_own (fun n => n =? pay_id 3) K (Bytes (pay_id 3)) /\
  (forall n, In n consts -> (fun n => n =? pay_id 3) n = false).
Proof.
  cbv zeta. split.
  2:{ intros n H. unfold consts in H. repeat (destruct H as [<-|H]; [reflexivity|]). destruct H. }
  set (sec := fun n => n =? pay_id 3).
  (* the recipients' envelope of the second send is the 6th term of the knowledge *)
  assert (Hw : exists prot wk aad iv ct tag, In (Tup [prot; Tup [Tup [Tup []; wk]]; aad; iv; ct; tag]) (knowledge ex_sends) /\
             wk = Wrap (kek_es ES_XC20PKW (dh 5100 7) (apu_es (Pub 5100)) (Tup [])) (cek_of (mkrnd 5100 5201 5300)) /\
             exists a, ct = AEnc (cek_of (mkrnd 5100 5201 5300)) a (Bytes (pay_id 3))).
  { vm_compute. do 6 eexists. split; [do 7 right; left; reflexivity|]. split; [reflexivity|eexists; reflexivity]. }
  destruct Hw as [prot [wk [aad [iv [ct [tag [Hin [-> [a ->]]]]]]]]].
  pose proof (DyKnown ex_own sec _ _ Hin) as D0.
  assert (Dwk : dy ex_own sec (knowledge ex_sends) (Wrap (kek_es ES_XC20PKW (dh 5100 7) (apu_es (Pub 5100)) (Tup [])) (cek_of (mkrnd 5100 5201 5300)))).
  { eapply DyProj; [eapply DyProj; [eapply DyProj; [exact D0|right; left; reflexivity]|left; reflexivity]|right; left; reflexivity]. }
  assert (Dkek : dy ex_own sec (knowledge ex_sends) (kek_es ES_XC20PKW (dh 5100 7) (apu_es (Pub 5100)) (Tup []))).
  { unfold kek_es. apply DyKdf. intros t Ht. repeat destruct Ht as [<-|Ht]; try (destruct Ht).
    - apply DyName. reflexivity.
    - apply DyName. reflexivity.
    - vm_compute. apply DyDH. reflexivity.
    - apply DyTup. intros t Ht. repeat destruct Ht as [<-|Ht]; try (destruct Ht); [apply DyName; reflexivity|apply DyPub].
    - apply DyTup. intros t [].
  }
  pose proof (DyUnwrap _ _ _ _ _ Dwk Dkek) as Dcek.
  eapply DyDec; [|exact Dcek]. eapply DyProj; [exact D0|do 4 right; left; reflexivity].
Qed.
