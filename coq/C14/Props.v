(* C14 — property theorems (thin first stage). *)
From Coq Require Import List NArith Bool.
Import ListNotations.
From VF Require Import C14.Model.
Local Open Scope N_scope.

Theorem route_takeover_observed :
  snd (rrun [] [RUpdate 1 [(AAdd, 5)] None true; RUpdate 2 [(AAdd, 5)] None true; RForward 5 7 true false])
  = [OResp 1 [(5, AAdd, RSuccess)] true; OResp 2 [(5, AAdd, RSuccess)] true; ORelay 2 7].
Proof. vm_compute. reflexivity. Qed.
Print Assumptions route_takeover_observed.
