(* C14 — lemmas for the Dolev-Yao statement of hop opacity. *)
From Coq Require Import List NArith Bool Lia ZifyN ZifyNat ZifyBool.
Import ListNotations.
From VF Require Import C01.Model C14.Model C14.Proofs C14.Opaque.
Local Open Scope N_scope.

Section Attacker.
Variable own : N -> bool.
Variable secret : N -> bool.
Notation safe := (safe own secret).
Notation all_safe := (all_safe own secret).
Notation dy := (dy own secret).

Lemma safe_Tup l : safe (Tup l) = all_safe l.
Proof. cbn. induction l as [|x r IH]; cbn; [reflexivity | rewrite IH; reflexivity]. Qed.
Lemma safe_Kdf l : safe (Kdf l) = all_safe l.
Proof. cbn. induction l as [|x r IH]; cbn; [reflexivity | rewrite IH; reflexivity]. Qed.
Lemma all_fix l : (fix all (l : list term) : bool := match l with [] => true | x :: r => safe x && all r end) l = all_safe l.
Proof. exact (safe_Tup l). Qed.
Lemma all_safe_in l : all_safe l = true <-> (forall t, In t l -> safe t = true).
Proof. unfold Opaque.all_safe. apply forallb_forall. Qed.
Lemma all_safe_cons x l : all_safe (x :: l) = safe x && all_safe l.
Proof. reflexivity. Qed.
Lemma all_safe_app a b : all_safe (a ++ b) = all_safe a && all_safe b.
Proof. unfold Opaque.all_safe. apply forallb_app. Qed.
Lemma safe_AEnc k a m : safe (AEnc k a m) = safe a && (negb (safe k) || safe m).
Proof. reflexivity. Qed.
Lemma safe_Wrap k c : safe (Wrap k c) = negb (safe k) || safe c.
Proof. reflexivity. Qed.
Lemma safe_Bytes n : safe (Bytes n) = negb (secret n).
Proof. reflexivity. Qed.
Lemma safe_dh a b : safe (dh a b) = own a || own b.
Proof. unfold dh. destruct (a <=? b); cbn; [reflexivity|apply orb_comm]. Qed.

(* THE secrecy lemma: from safe knowledge only safe terms are derivable *)
Lemma dy_safe K : all_safe K = true -> forall t, dy K t -> safe t = true.
Proof.
  intros HK t D. induction D as [t Hin|n Hn|n|k|a b Hab|l t D IH Hin|k a m D1 IH1 D2 IH2|k a m D IH|k c D1 IH1 D2 IH2
                                 |l Hl IH|k a m D1 IH1 D2 IH2 D3 IH3|k c D1 IH1 D2 IH2|l Hl IH].
  - apply (proj1 (all_safe_in K) HK). assumption.
  - cbn. rewrite Hn. reflexivity.
  - reflexivity.
  - reflexivity.
  - exact Hab.
  - rewrite safe_Tup in IH. apply (proj1 (all_safe_in l) IH). assumption.
  - rewrite safe_AEnc in IH1. apply andb_true_iff in IH1 as [_ H]. rewrite IH2 in H. exact H.
  - rewrite safe_AEnc in IH. apply andb_true_iff in IH as [H _]. exact H.
  - rewrite safe_Wrap in IH1. rewrite IH2 in IH1. exact IH1.
  - rewrite safe_Tup. apply all_safe_in. assumption.
  - rewrite safe_AEnc. rewrite IH2, IH3. apply orb_true_r.
  - rewrite safe_Wrap. rewrite IH2. apply orb_true_r.
  - rewrite safe_Kdf. apply all_safe_in. assumption.
Qed.

Lemma secret_not_dy K n : all_safe K = true -> secret n = true -> ~ dy K (Bytes n).
Proof. intros HK S D. apply (dy_safe K HK) in D. cbn in D. rewrite S in D. discriminate. Qed.


(* ---------- one pack ---------- *)
Hypothesis Hc : forall n, In n consts -> secret n = false.

Lemma Hcb n : existsb (N.eqb n) consts = true -> secret n = false.
Proof. intros H. apply existsb_exists in H as [x [Hin E]]. apply N.eqb_eq in E. subst x. apply Hc. exact Hin. Qed.

Ltac pubc := repeat match goal with |- context [secret ?n] =>
  let H := fresh in assert (H : secret n = false) by (apply Hcb; reflexivity); rewrite H; clear H end.

Lemma safe_enc e : safe (t_enc e) = true.
Proof. destruct e; cbn; pubc; reflexivity. Qed.
Lemma safe_alg_es kt : safe (t_alg (es_alg kt)) = true.
Proof. destruct kt; cbn; pubc; reflexivity. Qed.
Lemma safe_alg_pu kt e a : pu_alg kt e = Some a -> safe (t_alg a) = true.
Proof. destruct kt, e; cbn; intros H; inversion H; subst; cbn; pubc; reflexivity. Qed.
Lemma safe_kref st k : secret k = false -> safe (t_kref (kref_for st k)) = true.
Proof. intros H. destruct st; cbn; pubc; rewrite H; reflexivity. Qed.
Lemma safe_cek rn : safe (cek_of rn) = negb (secret (rn_cek rn)).
Proof. cbn. pubc. cbn. apply andb_true_r. Qed.

Lemma safe_krefs st : forall l, (forall k, In k l -> secret k = false) ->
  all_safe (map t_kref (map (kref_for st) l)) = true.
Proof.
  induction l as [|k l IH]; intros H; [reflexivity|]. cbn [map]. rewrite all_safe_cons.
  rewrite safe_kref by (apply H; left; reflexivity). rewrite IH by (intros k' Hk; apply H; right; exact Hk). reflexivity.
Qed.

(* the mode of one pack, as the facts the proofs use *)
Definition mode (auth_leg : bool) (payload sender : N) (rcpts : list N) (rn : rnd) (i0 : N) : Prop :=
  (secret (rn_cek rn) = true /\ (forall r, In r rcpts -> own r = false) /\
   (forall j, i0 <= j < i0 + N.of_nat (length rcpts) -> own (rn_eph rn + j) = false) /\
   (auth_leg = true -> own sender = false)) \/
  (secret payload = false /\ secret (rn_cek rn) = false).

Lemma mode_tail al payload sender r rcpts rn i :
  mode al payload sender (r :: rcpts) rn i -> mode al payload sender rcpts rn (i + 1).
Proof.
  intros [[H1 [H2 [H3 H4]]]|H]; [left|right; exact H]. split; [exact H1|]. split; [intros r' Hr; apply H2; right; exact Hr|].
  split; [|exact H4]. intros j Hj. apply H3. cbn [length]. lia.
Qed.

Lemma mode_head al payload sender r rcpts rn i :
  mode al payload sender (r :: rcpts) rn i ->
  (secret (rn_cek rn) = true /\ own r = false /\ own (rn_eph rn + i) = false /\ (al = true -> own sender = false)) \/
  (secret payload = false /\ secret (rn_cek rn) = false).
Proof.
  intros [[H1 [H2 [H3 H4]]]|H]; [left|right; exact H]. split; [exact H1|]. split; [apply H2; left; reflexivity|].
  split; [|exact H4]. apply H3. cbn [length]. lia.
Qed.

Ltac fin := repeat match goal with |- context [own ?x] => destruct (own x) end; reflexivity.

Lemma es_recs_safe a st rn payload sender : safe (t_alg a) = true -> forall rcpts i,
  (forall r, In r rcpts -> secret r = false) -> mode false payload sender rcpts rn i ->
  all_safe (map t_rcp (es_recs_from i a st rn rcpts)) = true.
Proof.
  intros Ha. induction rcpts as [|r rcpts IH]; intros i Hn Hm; [reflexivity|].
  cbn [es_recs_from map]. rewrite all_safe_cons. rewrite (IH (i + 1)); [|intros r' Hr; apply Hn; right; exact Hr|exact (mode_tail _ _ _ _ _ _ _ Hm)].
  rewrite andb_true_r. cbn -[dh t_alg t_kref kref_for cek_of]. rewrite Ha, safe_cek, safe_dh, safe_kref by (apply Hn; left; reflexivity). pubc.
  destruct (mode_head _ _ _ _ _ _ _ Hm) as [[H1 [H2 [H3 _]]]|[_ H1]]; rewrite H1; [rewrite H2, H3|]; cbn; fin.
Qed.

Lemma leg_anon_recs_safe rn payload sender : forall rcpts i,
  (forall r, In r rcpts -> secret r = false) -> mode false payload sender rcpts rn i ->
  all_safe (map t_lrcp (leg_anon_recs i rn rcpts)) = true.
Proof.
  induction rcpts as [|r rcpts IH]; intros i Hn Hm; [reflexivity|].
  cbn [leg_anon_recs map]. rewrite all_safe_cons. rewrite (IH (i + 1)); [|intros r' Hr; apply Hn; right; exact Hr|exact (mode_tail _ _ _ _ _ _ _ Hm)].
  rewrite andb_true_r. cbn -[dh cek_of]. rewrite safe_cek, safe_dh, (Hn r) by (left; reflexivity). pubc.
  destruct (mode_head _ _ _ _ _ _ _ Hm) as [[H1 [H2 [H3 _]]]|[_ H1]]; rewrite H1; [rewrite H2, H3|]; cbn; fin.
Qed.

Lemma leg_auth_recs_safe rn payload sender : secret sender = false -> secret (rn_iv rn) = false -> forall rcpts i,
  (forall r, In r rcpts -> secret r = false) -> (forall j, i <= j < i + N.of_nat (length rcpts) -> secret j = false) ->
  mode true payload sender rcpts rn i ->
  all_safe (map t_lrcp (leg_auth_recs i sender rn rcpts)) = true.
Proof.
  intros Hs Hiv. induction rcpts as [|r rcpts IH]; intros i Hn Hi Hm; [reflexivity|].
  cbn [leg_auth_recs map]. rewrite all_safe_cons.
  rewrite (IH (i + 1)); [|intros r' Hr; apply Hn; right; exact Hr|intros j Hj; apply Hi; cbn [length]; lia|exact (mode_tail _ _ _ _ _ _ _ Hm)].
  rewrite andb_true_r. cbn -[dh cek_of]. rewrite safe_cek, !safe_dh, (Hn r), Hiv, (Hi i) by (try (left; reflexivity); cbn [length]; lia). pubc.
  destruct (mode_head _ _ _ _ _ _ _ Hm) as [[H1 [H2 [H3 H4]]]|[_ H1]]; rewrite H1; [rewrite H2, H3, (H4 eq_refl)|]; cbn; fin.
Qed.

Lemma mode_single al payload sender r rn :
  mode al payload sender [r] rn 0 ->
  (secret (rn_cek rn) = true /\ own r = false /\ own (rn_eph rn) = false /\ (al = true -> own sender = false)) \/
  (secret payload = false /\ secret (rn_cek rn) = false).
Proof. intros H. apply mode_head in H. rewrite N.add_0_r in H. exact H. Qed.

Lemma jwe_anon_safe c payload sender rcpts rn :
  rcpts <> [] -> secret (rn_iv rn) = false -> (forall r, In r rcpts -> secret r = false) ->
  mode false payload sender rcpts rn 0 ->
  safe (t_jwe (pack_jwe_anon c payload rcpts rn)) = true.
Proof.
  intros Hne Hiv Hn Hm. unfold pack_jwe_anon.
  assert (Hmulti : safe (t_jwe (let prot := mkphdr (Some (enc_of c)) None None None None None None 0 in
      let aad := c_aad (t_phdr prot) (Tup []) in let ct := c_enc (cek_of rn) aad (iv_of rn) (Bytes payload) in
      mkjwe (Some prot) (es_recs_from 0 (es_alg (kt_of c)) (style_of c) rn rcpts) (Tup []) (iv_of rn) ct (c_tag ct))) = true).
  { cbn -[dh t_enc t_alg t_kref kref_for cek_of es_recs_from map]. rewrite all_fix.
    rewrite (es_recs_safe _ _ _ payload sender (safe_alg_es _) rcpts 0 Hn Hm). rewrite safe_enc, safe_cek, Hiv. pubc.
    destruct Hm as [[H1 _]|[H2 H1]]; rewrite H1; [|rewrite H2]; reflexivity. }
  destruct rcpts as [|r [|r2 rs]]; [congruence| |exact Hmulti].
  cbn -[dh t_enc t_alg t_kref kref_for cek_of]. rewrite safe_enc, safe_alg_es, safe_cek, safe_dh, Hiv, safe_kref by (apply Hn; left; reflexivity). pubc.
  destruct (mode_single _ _ _ _ _ Hm) as [[H1 [H2 [H3 _]]]|[H2 H1]]; rewrite H1; [rewrite H2, H3|rewrite H2]; cbn; fin.
Qed.

Lemma auth_recs_safe a st rn sender apu apv tag single : forall rcpts,
  (forall r, In r rcpts -> secret r = false) ->
  (safe (cek_of rn) = true \/ (forall r, In r rcpts -> own r = false) /\ own (rn_eph rn) = false) ->
  all_safe (map t_rcp (map (fun r => mkrcp (if single : bool then None else Some (mkrhdr (Some (kref_for st r)) None None None None))
     (Wrap (kek_1pu a (dh (rn_eph rn) r) (dh sender r) apu apv tag) (cek_of rn))) rcpts)) = true.
Proof.
  induction rcpts as [|r rcpts IH]; intros Hn Hm; [reflexivity|].
  cbn [map]. rewrite all_safe_cons. rewrite IH; [|intros r' Hr; apply Hn; right; exact Hr|
    destruct Hm as [Hm|[Hm1 Hm2]]; [left; exact Hm|right; split; [intros r' Hr; apply Hm1; right; exact Hr|exact Hm2]]].
  rewrite andb_true_r. unfold t_rcp at 1. cbn [r_hdr r_ek]. rewrite safe_Tup, !all_safe_cons, safe_Wrap. unfold kek_1pu. rewrite safe_Kdf, !all_safe_cons, !safe_dh.
  assert (Hh : safe (t_opt t_rhdr (if single then None else Some (mkrhdr (Some (kref_for st r)) None None None None))) = true).
  { destruct single; cbn -[t_kref kref_for]; [reflexivity|]. rewrite safe_kref by (apply Hn; left; reflexivity). reflexivity. }
  rewrite Hh. destruct Hm as [Hm|[Hm1 Hm2]].
  - rewrite Hm. rewrite orb_true_r. reflexivity.
  - rewrite (Hm1 r) by (left; reflexivity). rewrite Hm2. cbn. rewrite !andb_false_r. reflexivity.
Qed.

Lemma jwe_auth_safe c a payload sender rcpts rn :
  pu_alg (kt_of c) (enc_of c) = Some a ->
  rcpts <> [] -> secret (rn_iv rn) = false -> secret sender = false -> (forall r, In r rcpts -> secret r = false) ->
  mode false payload sender rcpts rn 0 ->
  safe (t_jwe (pack_jwe_auth c a payload sender rcpts rn)) = true.
Proof.
  intros Ha Hne Hiv Hs Hn Hm. unfold pack_jwe_auth.
  assert (Hmode : safe (cek_of rn) = true \/ (forall r, In r rcpts -> own r = false) /\ own (rn_eph rn) = false).
  { destruct Hm as [[_ [H2 [H3 _]]]|[_ H1]]; [right|left; rewrite safe_cek, H1; reflexivity].
    split; [exact H2|]. rewrite <- (N.add_0_r (rn_eph rn)). apply H3. destruct rcpts; [congruence|cbn [length]; lia]. }
  cbn -[dh t_enc t_alg t_kref kref_for cek_of map apv_1pu]. rewrite all_fix.
  rewrite (auth_recs_safe a (style_of c) rn sender _ _ _ _ rcpts Hn Hmode).
  assert (Hapv : safe (apv_1pu (map (kref_for (style_of c)) rcpts)) = true).
  { unfold apv_1pu. rewrite safe_Kdf, !all_safe_cons, safe_Tup, (safe_krefs _ _ Hn). cbn. pubc. reflexivity. }
  assert (Hkid : safe (t_opt t_kref match rcpts with [r] => Some (kref_for (style_of c) r) | _ => None end) = true).
  { destruct rcpts as [|r [|r2 rs]]; try reflexivity. cbn -[t_kref kref_for]. rewrite safe_kref by (apply Hn; left; reflexivity). reflexivity. }
  cbn -[dh t_enc t_alg t_kref kref_for cek_of map apv_1pu] in Hkid.
  rewrite Hapv, safe_enc, (safe_alg_pu _ _ _ Ha), safe_cek, Hiv, safe_kref by exact Hs. pubc.
  destruct rcpts as [|r [|r2 rs]]; [congruence| |].
  - cbn -[t_kref kref_for]. rewrite safe_kref by (apply Hn; left; reflexivity).
    destruct Hm as [[H1 _]|[H2 H1]]; rewrite H1; [|rewrite H2]; reflexivity.
  - cbn. destruct Hm as [[H1 _]|[H2 H1]]; rewrite H1; [|rewrite H2]; reflexivity.
Qed.

Lemma leg_safe auth payload sender rcpts rn :
  secret (rn_iv rn) = false -> secret sender = false -> (forall r, In r rcpts -> secret r = false) ->
  (forall j, j < N.of_nat (length rcpts) -> secret j = false) ->
  mode auth payload sender rcpts rn 0 ->
  safe (t_lenv (pack_leg auth payload sender rcpts rn)) = true.
Proof.
  intros Hiv Hs Hn Hi Hm. unfold pack_leg.
  assert (Hrecs : all_safe (map t_lrcp (if auth then leg_auth_recs 0 sender rn rcpts else leg_anon_recs 0 rn rcpts)) = true).
  { destruct auth.
    - apply (leg_auth_recs_safe rn payload sender Hs Hiv rcpts 0 Hn); [intros j Hj; apply Hi; lia|exact Hm].
    - apply (leg_anon_recs_safe rn payload sender rcpts 0 Hn). destruct Hm as [[H1 [H2 [H3 _]]]|H]; [left|right; exact H].
      repeat split; try assumption. discriminate. }
  destruct auth; cbn -[cek_of map leg_auth_recs leg_anon_recs]; rewrite !all_fix, Hrecs, safe_cek, Hiv; pubc;
  (destruct Hm as [[H1 _]|[H2 H1]]; rewrite H1; [|rewrite H2]; reflexivity).
Qed.

Lemma pack_safe c spar payload sender rcpts rn w :
  pack c spar payload sender rcpts rn = Ok w ->
  pack_ok own secret (packer_of c) payload sender rcpts rn -> safe (t_wire w) = true.
Proof.
  intros Hp [[_ [Hs [Hn [Hiv Hi]]]] Hmd]. unfold pack in Hp.
  destruct (rejects c spar payload sender rcpts) eqn:Er; [discriminate|].
  assert (Hne : rcpts <> []) by (intros ->; cbn in Er; discriminate).
  assert (Hm : mode (match packer_of c with LegAuth => true | _ => false end) payload sender rcpts rn 0).
  { destruct Hmd as [[H1 [H2 [H3 H4]]]|H]; [left|right; exact H]. split; [exact H4|]. split; [exact H1|]. split.
    - intros j Hj. apply H2. lia.
    - intros E. apply H3. destruct (packer_of c); try discriminate; reflexivity. }
  destruct (packer_of c) eqn:Ep.
  - destruct (pu_alg (kt_of c) (enc_of c)) as [a|] eqn:Ea; [|discriminate]. inversion Hp; subst w.
    apply (jwe_auth_safe c a payload sender rcpts rn Ea Hne Hiv Hs Hn Hm).
  - inversion Hp; subst w. apply (jwe_anon_safe c payload sender rcpts rn Hne Hiv Hn Hm).
  - inversion Hp; subst w. apply (leg_safe true payload sender rcpts rn Hiv Hs Hn Hi Hm).
  - inversion Hp; subst w. apply (leg_safe false payload sender rcpts rn Hiv Hs Hn Hi Hm).
Qed.

(* the envelope as embedded in a forward (both variants) *)
Lemma embed_safe v w : safe (t_wire w) = true -> safe (t_wire (embed v w)) = true.
Proof.
  intros H. destruct v, w as [j|l|]; cbn [embed]; try exact H. destruct (is_compact j); [exact H|].
  cbn [t_wire] in *. unfold t_jwe in *. cbn [j_prot j_recs j_aad j_iv j_ct j_tag map] in *.
  rewrite safe_Tup, !all_safe_cons in *. rewrite safe_Tup in *.
  rewrite !andb_true_iff in *. intuition (try reflexivity).
Qed.

Lemma tref_safe st pf k : secret k = false -> safe (t_tref (to_ref st pf k)) = true.
Proof. intros H. unfold to_ref. destruct st, pf; cbn; pubc; rewrite H; reflexivity. Qed.

Lemma nest_view_safe v c pf : forall rest i cur msg rn outer ls,
  nest v c pf i cur rest msg rn = Ok (outer, ls) ->
  safe (t_wire msg) = true -> secret cur = false ->
  layers_ok own secret (if is_legacy (packer_of c) then LegAnon else JweAnon) i rest rn ->
  (forall h, In h rest -> secret (h_key h) = false) ->
  all_safe (map (fun l => t_wire (ly_wire l)) ls) = true /\ all_safe (map (fun l => t_plain (ly_plain l)) ls) = true.
Proof.
  induction rest as [|nxt rest IH]; intros i cur msg rn outer ls H Hmsg Hcur Hl Hk.
  - cbn in H. inversion H; subst. split; reflexivity.
  - destruct (nest_cons _ _ _ _ _ _ _ _ _ _ _ H) as [w [ls' [Hp [Hn ->]]]]. destruct Hl as [Hl1 Hl2].
    assert (Hw : safe (t_wire w) = true) by (apply (pack_safe _ _ _ _ _ _ _ Hp); exact Hl1).
    destruct (IH _ _ _ _ _ _ Hn Hw (Hk nxt (or_introl eq_refl)) Hl2 (fun h Hh => Hk h (or_intror Hh))) as [IH1 IH2].
    cbn [map ly_wire ly_plain]. rewrite !all_safe_cons, IH1, IH2, Hw, !andb_true_r. split; [reflexivity|].
    cbn [t_plain]. rewrite safe_Tup, !all_safe_cons, (tref_safe _ _ _ Hcur), (embed_safe _ _ Hmsg).
    destruct (is_v2 pf); cbn; pubc; reflexivity.
Qed.

End Attacker.

(* ---------- whole sends ---------- *)
Lemma send_view_safe own secret s : send_ok own secret s -> all_safe own secret (send_view s) = true.
Proof.
  intros [Hp [Hl [Hr Hk]]]. unfold send_view, wrap.
  destruct (s_rcpts s) as [|r0 rs] eqn:Er.
  { destruct (pack (s_cfg s) (s_spar s) (pay_id (s_payload s)) (s_sender s) [] (s_rn s)); reflexivity. }
  destruct (pack (s_cfg s) (s_spar s) (pay_id (s_payload s)) (s_sender s) (r0 :: rs) (s_rn s)) as [w0| | |] eqn:Epk; try reflexivity.
  cbn [bind]. destruct (nest (s_v s) (s_cfg s) (s_pf s) 0 r0 (s_routing s) w0 (s_rn s)) as [[outer ls]| | |] eqn:En; try reflexivity.
  assert (Hc : forall n, In n consts -> secret n = false) by (destruct Hp as [[Hc _] _]; exact Hc).
  assert (Hw0 : safe own secret (t_wire w0) = true) by (apply (pack_safe own secret Hc _ _ _ _ _ _ _ Epk); exact Hp).
  destruct (nest_view_safe own secret Hc _ _ _ _ _ _ _ _ _ _ En Hw0 (Hr r0 (or_introl eq_refl)) Hl Hk) as [H1 H2].
  unfold view. rewrite all_safe_cons, all_safe_app, Hw0, H1, H2. reflexivity.
Qed.

Lemma knowledge_safe own secret sends :
  Forall (send_ok own secret) sends -> all_safe own secret (knowledge sends) = true.
Proof.
  induction 1 as [|s sends Hs _ IH]; [reflexivity|]. unfold knowledge in *. cbn [flat_map].
  rewrite all_safe_app, (send_view_safe _ _ _ Hs), IH. reflexivity.
Qed.

Lemma secret_names_not_derivable own secret sends n :
  Forall (send_ok own secret) sends -> secret n = true -> ~ dy own secret (knowledge sends) (Bytes n).
Proof. intros H. apply secret_not_dy. apply knowledge_safe. exact H. Qed.

(* ---------- the boolean conditions are sound ---------- *)
Section Bool.
Variable own : N -> bool.
Variable secret : N -> bool.

Lemma pubs_sound l : pubs secret l = true -> forall n, In n l -> secret n = false.
Proof.
  unfold pubs. intros H n Hn. rewrite forallb_forall in H. specialize (H n Hn). destruct (secret n); [discriminate|reflexivity].
Qed.

Lemma idxs_in n i : i < N.of_nat n -> In i (idxs n).
Proof.
  intros H. unfold idxs. apply in_map_iff. exists (N.to_nat i). split; [apply N2Nat.id|]. apply in_seq. lia.
Qed.

Lemma pack_ok_b_sound p payload sender rcpts rn :
  pack_ok_b own secret p payload sender rcpts rn = true -> pack_ok own secret p payload sender rcpts rn.
Proof.
  unfold pack_ok_b, names_public_b, protected_b, exposed_b. rewrite !andb_true_iff, orb_true_iff, !andb_true_iff, !negb_true_iff.
  intros [[[[[H1 H2] H3] H4] H5] H6]. split.
  - split; [exact (pubs_sound _ H1)|]. split; [exact H2|]. split; [exact (pubs_sound _ H3)|]. split; [exact H4|].
    intros i Hi. apply (pubs_sound _ H5). apply idxs_in. exact Hi.
  - destruct H6 as [[[[P1 P2] P3] P4]|[E1 E2]]; [left|right; split; assumption].
    rewrite forallb_forall in P1, P2. split; [intros r Hr; apply negb_true_iff; apply P1; exact Hr|].
    split; [intros i Hi; apply negb_true_iff; apply P2; apply idxs_in; exact Hi|]. split; [|exact P4].
    intros ->. apply negb_true_iff. exact P3.
Qed.

Lemma layers_ok_b_sound p : forall routing i rn,
  layers_ok_b own secret p i routing rn = true -> layers_ok own secret p i routing rn.
Proof.
  induction routing as [|h r IH]; intros i rn H; [exact I|]. cbn [layers_ok_b layers_ok] in *.
  apply andb_true_iff in H as [H1 H2]. split; [apply pack_ok_b_sound; exact H1|apply IH; exact H2].
Qed.

Lemma send_ok_b_sound s : send_ok_b own secret s = true -> send_ok own secret s.
Proof.
  unfold send_ok_b, send_ok. rewrite !andb_true_iff. intros [[[H1 H2] H3] H4].
  split; [apply pack_ok_b_sound; exact H1|]. split; [apply layers_ok_b_sound; exact H2|]. split; [exact (pubs_sound _ H3)|].
  intros h Hh. apply (pubs_sound _ H4). apply in_map. exact Hh.
Qed.
End Bool.

(* the executable instance of the correspondence is an instance of the safety invariant *)
Lemma coalition_safe_sound c sender payload rcpts rn w0 ls n :
  coalition_safe c sender payload rcpts rn w0 ls = true -> co_secret payload rn n = true ->
  ~ dy (co_own (match packer_of c with LegAuth => true | _ => false end) sender rcpts (rn_eph rn)) (co_secret payload rn)
       (view w0 ls) (Bytes n).
Proof. intros H. apply secret_not_dy. exact H. Qed.

Lemma coalition_ok_sound v c pf spar sender payload rcpts routing rn n :
  coalition_ok v c pf spar sender payload rcpts routing rn = true -> co_secret payload rn n = true ->
  ~ dy (co_own (match packer_of c with LegAuth => true | _ => false end) sender rcpts (rn_eph rn)) (co_secret payload rn)
       (send_view (mksend v c pf spar payload sender rcpts routing rn)) (Bytes n).
Proof.
  intros H Hn. apply secret_not_dy; [|exact Hn]. apply send_view_safe. apply send_ok_b_sound. exact H.
Qed.
