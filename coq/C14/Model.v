(* C14 — routed messages: executable model (no proofs in this file).

   Part A (pkg/didcomm/dispatcher/outbound/outbound.go Send / createForwardMessage / createPackedNestedForwards /
   packForward): the message is packed for the recipient keys by the packager (C01's [pack], reused as is), then
   wrapped: fwdKeys = recipientKeys[0] :: routingKeys; for i = 0 .. n-1 a forward {type, to = fwdKeys[i], msg}
   is anoncrypted for the single key fwdKeys[i+1].  Unwrapping is C01's packager-level [unpack_pkgr] followed by the
   forward decoding the mediator does (DIDCommMsgMap.Decode into model.Forward).

   The JSON text a packer encrypts is named by a number (as in C01: [Bytes n]); the table that says which text a
   number stands for is part of the model: even numbers are user payloads, odd numbers the forward messages the
   dispatcher created ([dict], returned by [wrap]).  What IS modelled exactly: which key each layer is encrypted
   for, which key each layer names in 'to' and in which form (did:key -> base58 for the "IndyAgent" profile),
   the forward type (v1/v2), that forward layers never carry a sender key, how the wrapped envelope is embedded
   (as found: through model.Envelope, which keeps only protected/iv/ciphertext/tag), the order of the layers.

   Part B (pkg/didcomm/protocol/mediator/service.go handleKeylistUpdate / handleForward): the route store
   "route-"+key |-> DID of the registrant, keylist updates (add: Put, may fail; remove: answered server_error,
   nothing removed; other actions: skipped), forwards (Get; unknown key: error, nothing sent; relay through the
   outbound dispatcher; when that fails: AddMessage to the registrant's pickup inbox). *)
From Coq Require Import List NArith Bool.
Import ListNotations.
From VF Require Export C01.Model.
Local Open Scope N_scope.

(* ================= Part A: nested forwards ================= *)

(* media type profile families (outbound.go createForwardMessage + packager.go getCTYAndPacker) *)
Inductive profile :=
| PIndy      (* "IndyAgent": legacy packers, forward 1.0, did:key 'to' converted to base58 *)
| PLegacy    (* "JWM/1.0", "didcomm/aip1", "didcomm/aip2;env=rfc19": legacy packers, forward 1.0 *)
| PJweV1     (* "application/json;flavor=didcomm-msg": JWE packers, forward 1.0 *)
| PV2.       (* "didcomm/v2", "didcomm/aip2;env=rfc587", "application/didcomm-encrypted+json"(;cty=...): JWE, forward 2.0 *)

Definition is_v2 (p : profile) : bool := match p with PV2 => true | _ => false end.
Definition legacy_prof (p : profile) : bool := match p with PIndy | PLegacy => true | _ => false end.

(* ---- media type profile of a destination (outbound.go mediaTypeProfile) and the packer family the packager
   selects for it (packager.go getCTYAndPacker) ---- *)
Inductive mtp :=
| M_V1Plain        (* application/json;flavor=didcomm-msg *)
| M_RFC19          (* JWM/1.0 *)
| M_AIP2RFC19      (* didcomm/aip2;env=rfc19 *)
| M_AIP1           (* didcomm/aip1 *)
| M_Indy           (* IndyAgent *)
| M_V1Enc          (* application/didcomm-enc-env: middle priority in the dispatcher; the packager has no packer for
                      it and falls back to the framework's primary packer — a configuration matter outside this model
                      (family = None); it takes part in the selection *)
| M_V2EncV1Plain   (* application/didcomm-encrypted+json;cty=application/json;flavor=didcomm-msg *)
| M_AIP2RFC587     (* didcomm/aip2;env=rfc587 *)
| M_V2Enc          (* application/didcomm-encrypted+json *)
| M_V2Plain        (* application/didcomm-plain+json *)
| M_DIDCommV2      (* didcomm/v2 *)
| M_Other.         (* a string the dispatcher does not know *)

Inductive tier := TLow | TMid | TTop | TNone.
Definition tier_of (m : mtp) : tier :=
  match m with
  | M_V1Plain | M_RFC19 | M_AIP2RFC19 | M_AIP1 | M_Indy => TLow
  | M_V1Enc | M_V2EncV1Plain | M_AIP2RFC587 => TMid
  | M_V2Enc | M_V2Plain | M_DIDCommV2 => TTop
  | M_Other => TNone
  end.

(* the loop over the accept list: a low-priority type is kept only when nothing was chosen yet, a middle one
   overrides, a v2 one is returned at once *)
Fixpoint pick (mt : option mtp) (accept : list mtp) : option mtp :=
  match accept with
  | [] => mt
  | m :: r =>
      match tier_of m with
      | TLow => pick (match mt with None => Some m | Some _ => mt end) r
      | TMid => pick (Some m) r
      | TTop => Some m
      | TNone => pick mt r
      end
  end.
Definition media_type (accept : list mtp) (dflt : mtp) : mtp :=
  match pick None accept with Some m => m | None => dflt end.

(* ---- SendToDID (outbound.go): the connection record of (myDID, theirDID) is looked up, or created, before the
   destination is built; what it says replaces what the resolved DID document says ---- *)
Record connrec := mkconn { cn_profiles : list mtp; cn_peer_initial : bool }.
(* getOrCreateConnection: the record found, else a new one carrying the dispatcher's default profiles for a DIDComm v1
   message and none for a v2 message (there they go into the record's endpoint, which SendToDID does not read) *)
Definition conn_for (found : option connrec) (defaults : list mtp) (v2msg : bool) : connrec :=
  match found with Some r => r | None => mkconn (if v2msg then [] else defaults) false end.
(* the accept list mediaTypeProfile sees: a DIDComm V2 endpoint's own accept list first; else the record's profiles,
   when it has any, INSTEAD of the DID document's *)
Definition todid_accept (ep_accept doc_accept : list mtp) (r : connrec) : list mtp :=
  match ep_accept with
  | _ :: _ => ep_accept
  | [] => match cn_profiles r with _ :: _ => cn_profiles r | [] => doc_accept end
  end.
(* the profiles for which SendToDID insists on the sender key even when the own peer DID travels with the message *)
Definition v1_only (m : mtp) : bool :=
  match m with M_V1Plain | M_V1Enc | M_RFC19 | M_AIP2RFC19 => true | _ => false end.
(* authcrypt with the first key of the own document, unless the record says the own peer DID is being shared *)
Definition todid_auth (r : connrec) (selected : mtp) : bool := negb (cn_peer_initial r && negb (v1_only selected)).

(* createForwardMessage's forward type and getCTYAndPacker's packer family *)
Definition family (m : mtp) : option profile :=
  match m with
  | M_Indy => Some PIndy
  | M_RFC19 | M_AIP2RFC19 | M_AIP1 => Some PLegacy
  | M_V1Plain => Some PJweV1
  | M_V2EncV1Plain | M_AIP2RFC587 | M_V2Enc | M_V2Plain | M_DIDCommV2 => Some PV2
  | M_V1Enc | M_Other => None
  end.
Definition cfg_of (pf : profile) (auth : bool) (kt : ktype) (e : encalg) (st : kstyle) : cfg :=
  mkcfg (match legacy_prof pf, auth with
         | true, true => LegAuth | true, false => LegAnon | false, true => JweAuth | false, false => JweAnon
         end) kt e st.

(* the string a forward names its next hop with *)
Inductive tref := TDidKey (k : N) | TB58 (k : N) | TDoc (k : N).
Definition tref_eqb (a b : tref) : bool :=
  match a, b with
  | TDidKey x, TDidKey y | TB58 x, TB58 y | TDoc x, TDoc y => x =? y
  | _, _ => false
  end.

(* key string of the destination (style) -> 'to' of the forward (packForward: did:key -> base58 under IndyAgent) *)
Definition to_ref (st : kstyle) (p : profile) (k : N) : tref :=
  match st with
  | DidKey => match p with PIndy => TB58 k | _ => TDidKey k end
  | DidDoc | DidDocMulti => TDoc k
  | _ => TB58 k        (* raw (base58) key strings *)
  end.

(* FAsIs: packForward re-serializes the wrapped envelope through model.Envelope {protected, iv, ciphertext, tag}
   whenever it is a JSON object; FFixed (fix: 77f86fc): embedded unchanged. *)
Inductive fvariant := FAsIs | FFixed.

(* single recipient JWE = compact serialization: not a JSON object, embedded as a base64 string in both variants *)
Definition is_compact (j : jwe) : bool :=
  match j_recs j with
  | [rc] => match r_hdr rc with None => true | Some _ => false end
  | _ => false
  end.

Definition embed (v : fvariant) (w : wire) : wire :=
  match v, w with
  | FAsIs, WJwe j => if is_compact j then w else WJwe (mkjwe (j_prot j) [] (Tup []) (j_iv j) (j_ct j) (j_tag j))
  | _, _ => w
  end.

(* plaintexts *)
Inductive plain := PMsg (p : N) | PFwd (v2 : bool) (to : tref) (inner : wire).
Definition pay_id (p : N) : N := 2 * p + 2.
Definition fwd_id (i : N) : N := 2 * i + 1.

Record hop := mkhop { h_key : N; h_kt : ktype }.

(* one layer: the number naming its plaintext, the plaintext, the key it is encrypted for, the envelope *)
Record layer := mklayer { ly_id : N; ly_plain : plain; ly_key : N; ly_wire : wire }.

Definition lcfg (c : cfg) (kt : ktype) : cfg :=
  mkcfg (if is_legacy (packer_of c) then LegAnon else JweAnon) kt (enc_of c) (style_of c).

Definition rnd_at (rn : rnd) (i : N) : rnd :=
  mkrnd (rn_eph rn + 1000 * i) (rn_cek rn + 1000 * i) (rn_iv rn + 1000 * i).

(* createPackedNestedForwards: [cur] is fwdKeys[i], [rest] = fwdKeys[i+1..] *)
Fixpoint nest (v : fvariant) (c : cfg) (pf : profile) (i : N) (cur : N) (rest : list hop) (msg : wire) (rn : rnd)
  : res (wire * list layer) :=
  match rest with
  | [] => Ok (msg, [])
  | nxt :: rest' =>
      let pl := PFwd (is_v2 pf) (to_ref (style_of c) pf cur) (embed v msg) in
      bind (pack (lcfg c (h_kt nxt)) [] (fwd_id i) 0 [h_key nxt] (rnd_at rn (i + 1))) (fun w =>
      bind (nest v c pf (i + 1) (h_key nxt) rest' w rn) (fun '(outer, ls) =>
      Ok (outer, mklayer (fwd_id i) pl (h_key nxt) w :: ls)))
  end.

(* Dispatcher.Send: result = bytes handed to the transport, the layers created on the way *)
Definition wrap (v : fvariant) (c : cfg) (pf : profile) (spar : list N) (payload sender : N) (rcpts : list N)
                (routing : list hop) (rn : rnd) : res (wire * list layer) :=
  match rcpts with
  | [] => Err ERejected
  | r0 :: _ =>
      bind (pack c spar (pay_id payload) sender rcpts rn) (fun w0 => nest v c pf 0 r0 routing w0 rn)
  end.

(* A media type profile the packager has no packer for ("application/didcomm-enc-env", any unknown string that was
   the sender's default): packager.getCTYAndPacker hands EVERY pack — the payload's and each forward's — to the
   framework's primary packer [prim], whatever the sender key.  The forwards are 1.0 forwards, 'to' is not rewritten.
   An anoncrypt primary packer ignores the sender key: the send is [wrap] with that packer.  An authcrypt primary
   packer needs a sender key: a forward has none, so a destination with routing keys cannot be sent to (fail closed);
   without routing keys it is [wrap] with that packer. *)
Definition primary_profile (prim : packer) : profile := if is_legacy prim then PLegacy else PJweV1.
Definition wrap_primary (v : fvariant) (prim : packer) (kt : ktype) (e : encalg) (st : kstyle) (spar : list N)
                        (payload sender : N) (rcpts : list N) (routing : list hop) (rn : rnd) : res (wire * list layer) :=
  let c := mkcfg prim kt e st in
  if is_auth prim then
    match routing with
    | [] => wrap v c (primary_profile prim) spar payload sender rcpts [] rn
    | _ :: _ => match rcpts with
                | [] => Err ERejected
                | _ => bind (pack c spar (pay_id payload) sender rcpts rn) (fun _ => Err ERejected)
                end
    end
  else wrap v c (primary_profile prim) spar payload sender rcpts routing rn.

(* which text a number stands for *)
Fixpoint fwd_lookup (ls : list layer) (n : N) : option plain :=
  match ls with
  | [] => None
  | l :: r => if ly_id l =? n then Some (ly_plain l) else fwd_lookup r n
  end.
Definition lookup (ls : list layer) (n : N) : option plain :=
  if N.even n then (if n =? 0 then None else Some (PMsg (n / 2 - 1))) else fwd_lookup ls n.

(* a party receives bytes: packager UnpackMessage, then the plaintext is read *)
Definition peel (ls : list layer) (party : list N) (w : wire) : res (plain * option N * N) :=
  bind (unpack_pkgr Fixed party w) (fun '(m, from, to) =>
    match m with
    | Bytes n => match lookup ls n with Some p => Ok (p, from, to) | None => Err EInvalid end
    | _ => Err EInvalid
    end).

(* the mediators unwrap in order: each must find an anonymous forward; returns the 'to' values seen and the
   envelope that leaves the last mediator *)
Fixpoint peel_chain (ls : list layer) (parties : list (list N)) (w : wire) : res (list tref * wire) :=
  match parties with
  | [] => Ok ([], w)
  | p :: ps =>
      bind (peel ls p w) (fun '(pl, from, _) =>
        match pl, from with
        | PFwd _ to inner, None => bind (peel_chain ls ps inner) (fun '(tos, w') => Ok (to :: tos, w'))
        | _, _ => Err EInvalid
        end)
  end.

(* ================= Part B: the mediator's route table ================= *)

Inductive act := AAdd | ARemove | AOther.
Inductive ures := RSuccess | RServerError.

(* A recipient key as the messages name it.  What "the same key" means is the CODE's notion: handleKeylistUpdate
   and handleForward both use dataKey(id) = "route-" + id on the whole string, so two notations are the same key
   exactly when they are the same string.  The notations are kept structured so that related-but-different keys
   are first-class: did:key = multibase(multicodec ++ key bytes): the same bytes under another multicodec (an
   Ed25519 and an X25519 key over the same 32 bytes), two EC points sharing X (y names the other coordinate / the
   sign byte of the compressed point), the raw base58 notation of the same bytes (legacy agents), and every other
   string (DID URLs, a key with a '#fragment' appended, case variants, prefixes), named by a number. *)
Inductive rkey :=
| RDidKey (codec x y : N)
| RB58 (x : N)
| RStr (n : N).

Definition rkey_eqb (a b : rkey) : bool :=
  match a, b with
  | RDidKey c x y, RDidKey c' x' y' => (c =? c') && (x =? x') && (y =? y')
  | RB58 x, RB58 x' => x =? x'
  | RStr n, RStr n' => n =? n'
  | _, _ => false
  end.

(* store keys: strings as lists of numbers *)
Fixpoint skey_eqb (a b : list N) : bool :=
  match a, b with
  | [], [] => true
  | x :: r, y :: t => (x =? y) && skey_eqb r t
  | _, _ => false
  end.

(* dataKey as found: the prefix "route-" (0) and the notation, whole *)
Definition data_key (k : rkey) : list N :=
  0 :: match k with
       | RDidKey c x y => [1; c; x; y]
       | RB58 x => [2; x]
       | RStr n => [3; n]
       end.

(* a normalising dataKey (NOT the code's; kept as the refuted alternative): a did:key is stored under the base58 of
   its X bytes, as kmsdidkey.GetBase58PubKeyFromDIDKey computes it — multicodec and Y are dropped *)
Definition data_key_xonly (k : rkey) : list N :=
  match k with
  | RDidKey _ x _ => data_key (RB58 x)
  | _ => data_key k
  end.

Inductive rop :=
| RUpdate (client : N) (ups : list (act * rkey)) (fput : option nat) (send_ok : bool)
    (* fput = Some k: the k-th store Put of this call fails *)
| RForward (to : rkey) (m : N) (send_ok : bool) (fget : bool) (fres : bool)
    (* send_ok: the outbound transport accepts the relay; fget: the store Get fails; fres: the registrant's DID does
       not resolve (VDR error in service.GetDestination) *)
| RPickup (client : N) (n : nat)
    (* the client asks the (real) message pickup service of the mediator for a batch of at most n held messages *)
| RRestart.
    (* the mediator process is replaced by a new service instance over the same stores *)

Inductive rout :=
| OResp (client : N) (entries : list (rkey * act * ures)) (sent : bool)   (* keylist-update-response handed to SendToDID *)
| ORelay (did : N) (m : N)      (* relayed: outbound Forward to the destination of [did] succeeded *)
| OHeld (did : N) (m : N)       (* Forward failed: AddMessage (m, did) on the pickup service *)
| ODrop                         (* error, nothing handed to anybody *)
| OBatch (client : N) (ms : list N)   (* batch handed to SendToDID for [client] *)
| ONoInbox (client : N)         (* pickup by a client nothing was ever held for: error, nothing sent *)
| ORestarted.

Definition rstate := list (list N * N).   (* store key -> registrant DID; Put overwrites: newest first *)

(* the mediator's persistent state: the route store and the pickup service's inboxes (DID -> held messages, in
   order; no entry = no inbox document yet) *)
Record mstate := mkms { routes : rstate; inboxes : list (N * list N) }.
Definition ms0 := mkms [] [].

Fixpoint inbox_opt (l : list (N * list N)) (d : N) : option (list N) :=
  match l with
  | [] => None
  | (d', ms) :: r => if d =? d' then Some ms else inbox_opt r d
  end.
Definition inbox (s : mstate) (d : N) : list N := match inbox_opt (inboxes s) d with Some l => l | None => [] end.

Fixpoint route_get (s : rstate) (k : list N) : option N :=
  match s with
  | [] => None
  | (k', d) :: r => if skey_eqb k k' then Some d else route_get r k
  end.

Definition fails_put (f : option nat) (i : nat) : bool :=
  match f with Some k => Nat.eqb k i | None => false end.

Section Store.
(* the function from a key notation to the store key *)
Variable dk : rkey -> list N.

(* the loop of handleKeylistUpdate; i counts the Puts of this call *)
Fixpoint apply_updates_g (s : rstate) (client : N) (ups : list (act * rkey)) (f : option nat) (i : nat)
  : rstate * list (rkey * act * ures) :=
  match ups with
  | [] => (s, [])
  | (AAdd, k) :: r =>
      if fails_put f i then
        let '(s', es) := apply_updates_g s client r f (S i) in (s', (k, AAdd, RServerError) :: es)
      else
        let '(s', es) := apply_updates_g ((dk k, client) :: s) client r f (S i) in (s', (k, AAdd, RSuccess) :: es)
  | (ARemove, k) :: r =>
      let '(s', es) := apply_updates_g s client r f i in (s', (k, ARemove, RServerError) :: es)
  | (AOther, _) :: r => apply_updates_g s client r f i
  end.

Definition rstep_g (s : mstate) (o : rop) : mstate * rout :=
  match o with
  | RUpdate client ups f ok =>
      let '(r', es) := apply_updates_g (routes s) client ups f 0 in (mkms r' (inboxes s), OResp client es ok)
  | RForward to m ok fget fres =>
      if fget then (s, ODrop) else
      match route_get (routes s) (dk to) with
      | None => (s, ODrop)
      | Some d =>
          if fres then (s, ODrop)
          else if ok then (s, ORelay d m)
          else (mkms (routes s) ((d, inbox s d ++ [m]) :: inboxes s), OHeld d m)
      end
  | RPickup client n =>
      match inbox_opt (inboxes s) client with
      | None => (s, ONoInbox client)
      | Some l => (mkms (routes s) ((client, skipn n l) :: inboxes s), OBatch client (firstn n l))
      end
  | RRestart => (s, ORestarted)
  end.

Fixpoint rrun_g (s : mstate) (ops : list rop) : mstate * list rout :=
  match ops with
  | [] => (s, [])
  | o :: r => let '(s1, x) := rstep_g s o in let '(s2, xs) := rrun_g s1 r in (s2, x :: xs)
  end.
End Store.

(* the code *)
Definition apply_updates := apply_updates_g data_key.
Definition rstep := rstep_g data_key.
Definition rrun := rrun_g data_key.

(* ---- what the property talks about, computed from the history alone (not from the store): keys are compared as
   the notations they are ---- *)

(* registrant of key k after this keylist update, given the registrant before *)
Fixpoint reg_updates (cur : option N) (client : N) (ups : list (act * rkey)) (f : option nat) (i : nat) (k : rkey) : option N :=
  match ups with
  | [] => cur
  | (AAdd, k') :: r =>
      if fails_put f i then reg_updates cur client r f (S i) k
      else reg_updates (if rkey_eqb k k' then Some client else cur) client r f (S i) k
  | (ARemove, _) :: r => reg_updates cur client r f i k
  | (AOther, _) :: r => reg_updates cur client r f i k
  end.

(* the agent whose (most recent) successful registration of k precedes the end of the history *)
Fixpoint registrant_from (cur : option N) (h : list rop) (k : rkey) : option N :=
  match h with
  | [] => cur
  | RUpdate client ups f _ :: r => registrant_from (reg_updates cur client ups f 0 k) r k
  | RForward _ _ _ _ _ :: r => registrant_from cur r k
  | RPickup _ _ :: r => registrant_from cur r k
  | RRestart :: r => registrant_from cur r k
  end.
Definition registrant := registrant_from None.

(* deliveries of one output: (agent, message) *)
Definition deliveries (x : rout) : list (N * N) :=
  match x with ORelay d m | OHeld d m => [(d, m)] | _ => [] end.

(* what a client got out of the pickup service / what was put in for it, over a history *)
Fixpoint picked_up (d : N) (outs : list rout) : list N :=
  match outs with
  | [] => []
  | OBatch c ms :: r => (if d =? c then ms else []) ++ picked_up d r
  | _ :: r => picked_up d r
  end.
Fixpoint held_for (d : N) (outs : list rout) : list N :=
  match outs with
  | [] => []
  | OHeld c m :: r => (if d =? c then [m] else []) ++ held_for d r
  | _ :: r => held_for d r
  end.

(* boolean statement on one history: every forward is delivered to exactly the registrant of its key, or to nobody
   when there is none / the store read fails *)
Fixpoint route_exact_from (cur_hist : list rop) (ops : list rop) (outs : list rout) : bool :=
  match ops, outs with
  | [], [] => true
  | o :: r, x :: xs =>
      (match o with
       | RForward to m ok fget fres =>
           match (if fget || fres then None else registrant cur_hist to), deliveries x with
           | Some d, [(d', m')] => (d =? d') && (m =? m')
           | None, [] => true
           | _, _ => false
           end
       | _ => match deliveries x with [] => true | _ => false end
       end) && route_exact_from (cur_hist ++ [o]) r xs
  | _, _ => false
  end.
Definition route_exact_g (dk : rkey -> list N) (ops : list rop) : bool := route_exact_from [] ops (snd (rrun_g dk ms0 ops)).
Definition route_exact_b := route_exact_g data_key.
