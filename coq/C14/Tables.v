(* C14 — the media type tables as the SOURCE has them (coq/gen/Gen_C14.v, regenerated from /repo by harness/c14gen on
   every run), read back as functions; Props.media_type_tables_match_source states that the model's tier_of / family
   (Model.v) are these functions.  Definitions only. *)
From Coq Require Import List Bool.
Import ListNotations.
From VF Require Import C14.Model gen.Gen_C14.

Definition mtp_eqb (a b : mtp) : bool :=
  match a, b with
  | M_V1Plain, M_V1Plain | M_RFC19, M_RFC19 | M_AIP2RFC19, M_AIP2RFC19 | M_AIP1, M_AIP1 | M_Indy, M_Indy
  | M_V1Enc, M_V1Enc | M_V2EncV1Plain, M_V2EncV1Plain | M_AIP2RFC587, M_AIP2RFC587 | M_V2Enc, M_V2Enc
  | M_V2Plain, M_V2Plain | M_DIDCommV2, M_DIDCommV2 | M_Other, M_Other => true
  | _, _ => false
  end.
Definition mtp_mem (m : mtp) (l : list mtp) : bool := existsb (mtp_eqb m) l.

(* mediaTypeProfile's switch: a type in no clause is skipped *)
Definition src_tier (m : mtp) : tier :=
  match find (fun p => mtp_eqb (fst p) m) gen_tiers with Some (_, t) => t | None => TNone end.

(* getCTYAndPacker's switch (legacy / JWE packers; a type in no clause: the framework's primary packer, outside the
   model), createForwardMessage's switch (forward 2.0) and packForward's did:key -> base58 condition *)
Definition src_family (m : mtp) : option profile :=
  match find (fun p => mtp_eqb (fst p) m) gen_packers with
  | None => None
  | Some (_, true) => Some (if mtp_mem m gen_b58_to then PIndy else PLegacy)
  | Some (_, false) => Some (if mtp_mem m gen_v2_forward then PV2 else PJweV1)
  end.

(* consistency of the source's own tables: a legacy packer never with forward 2.0, base58 'to' only with a legacy
   packer, isMediaTypeForLegacyPacker = the legacy packers' profiles, every packed profile has a priority *)
Definition src_consistent (m : mtp) : bool :=
  match find (fun p => mtp_eqb (fst p) m) gen_packers with
  | Some (_, true) => negb (mtp_mem m gen_v2_forward) && mtp_mem m gen_legacy_keys
  | Some (_, false) => negb (mtp_mem m gen_b58_to) && negb (mtp_mem m gen_legacy_keys)
  | None => negb (mtp_mem m gen_v2_forward) && negb (mtp_mem m gen_b58_to) && negb (mtp_mem m gen_legacy_keys)
  end.

(* SendToDID's switch after the media type selection *)
Definition src_v1_only (m : mtp) : bool := mtp_mem m gen_todid_keeps_sender.
