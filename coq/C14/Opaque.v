(* C14 — hop opacity as a Dolev-Yao statement: definitions only (no proofs in this file).

   The envelopes of C01's model are records whose cryptographic members are terms of common/Sym.v.  [t_wire] writes
   a whole envelope as ONE term (everything a party that holds the bytes can read off them); [view] is everything
   that exists on the wire during one routed send: the envelope packed for the recipients, every forward layer, and
   every forward PLAINTEXT (type, 'to', wrapped envelope) — i.e. what ALL mediators of the chain see together,
   and more (a mediator sees only its own layer).

   The attacker [dy]: holds the private halves of the key pairs [own] (all mediators' keys, outsiders' keys, …),
   can name every number that is not [secret], knows [K]; splits tuples, opens AEnc/Wrap with a key he can derive,
   computes DH a b when he owns a or b, builds tuples, ciphertexts, key wraps and KDF outputs.  (C05/Derive.v's
   attacker gives DH away, which is right for C05 and wrong here: DH is exactly what a mediator must not have.) *)
From Coq Require Import List NArith Bool.
Import ListNotations.
From VF Require Export C14.Model.
Local Open Scope N_scope.

(* ---------- envelopes as terms ---------- *)
Definition t_oterm (o : option term) : term := odflt (option_map (fun t => Tup [t]) o).
Definition t_rhdr (h : rhdr) : term :=
  Tup [t_opt t_kref (rh_kid h); t_opt t_alg (rh_alg h); t_oterm (rh_epk h); t_oterm (rh_apu h); t_oterm (rh_apv h)].
Definition t_rcp (r : rcp) : term := Tup [t_opt t_rhdr (r_hdr r); r_ek r].
Definition t_jwe (j : jwe) : term :=
  Tup [t_opt t_phdr (j_prot j); Tup (map t_rcp (j_recs j)); j_aad j; j_iv j; j_ct j; j_tag j].
Definition t_lenv (l : lenv) : term := Tup [t_opt t_lphdr (le_prot l); le_iv l; le_ct l; le_tag l].
Definition t_wire (w : wire) : term :=
  match w with WJwe j => t_jwe j | WLeg l => t_lenv l | WBad => Tup [] end.

Definition t_tref (t : tref) : term :=
  match t with TDidKey k => Tup [Bytes 1; Bytes k] | TB58 k => Tup [Bytes 2; Bytes k] | TDoc k => Tup [Bytes 3; Bytes k] end.
(* a forward as its reader has it: type, 'to', the wrapped envelope; a user payload: its name *)
Definition t_plain (p : plain) : term :=
  match p with
  | PMsg n => Bytes (pay_id n)
  | PFwd v2 to inner => Tup [Bytes (if v2 then 2 else 1); t_tref to; t_wire inner]
  end.

(* everything on the wire during one send *)
Definition view (w0 : wire) (ls : list layer) : list term :=
  t_wire w0 :: map (fun l => t_wire (ly_wire l)) ls ++ map (fun l => t_plain (ly_plain l)) ls.

(* one send of the dispatcher *)
Record send := mksend { s_v : fvariant; s_cfg : cfg; s_pf : profile; s_spar : list N; s_payload : N; s_sender : N;
                        s_rcpts : list N; s_routing : list hop; s_rn : rnd }.
Definition send_view (s : send) : list term :=
  match pack (s_cfg s) (s_spar s) (pay_id (s_payload s)) (s_sender s) (s_rcpts s) (s_rn s),
        wrap (s_v s) (s_cfg s) (s_pf s) (s_spar s) (s_payload s) (s_sender s) (s_rcpts s) (s_routing s) (s_rn s) with
  | Ok w0, Ok (_, ls) => view w0 ls
  | _, _ => []
  end.
(* any number of sends, in any order: the attacker has all of it *)
Definition knowledge (sends : list send) : list term := flat_map send_view sends.

(* header constants of C01's term encoding (tags, alg / enc labels, KDF domain separators) *)
Definition consts : list N :=
  [0; 1; 2; 3; 4; 11; 12; 13; 14; 15; 16; 17; 21; 22; 23; 24; 25; 26; 901; 902; 903; 904; 905; 906; 907; 908; 909].

Section Attacker.
Variable own : N -> bool.      (* key pairs whose private half the attacker holds *)
Variable secret : N -> bool.   (* names the attacker cannot produce by himself *)

Inductive dy (K : list term) : term -> Prop :=
| DyKnown t : In t K -> dy K t
| DyName n : secret n = false -> dy K (Bytes n)
| DyJunk n : dy K (Junk n)
| DyPub k : dy K (Pub k)
| DyDH a b : own a || own b = true -> dy K (DH a b)
| DyProj l t : dy K (Tup l) -> In t l -> dy K t
| DyDec k a m : dy K (AEnc k a m) -> dy K k -> dy K m
| DyAad k a m : dy K (AEnc k a m) -> dy K a
| DyUnwrap k c : dy K (Wrap k c) -> dy K k -> dy K c
| DyTup l : (forall t, In t l -> dy K t) -> dy K (Tup l)
| DyEnc k a m : dy K k -> dy K a -> dy K m -> dy K (AEnc k a m)
| DyWrap k c : dy K k -> dy K c -> dy K (Wrap k c)
| DyKdf l : (forall t, In t l -> dy K t) -> dy K (Kdf l).

(* safe t: t may be handed to the attacker without giving him anything he must not have.  A secret name is not
   safe; DH a b is safe exactly when he can compute it; a KDF output is safe only when he could compute it himself;
   a ciphertext / key wrap is safe when its key is unsafe (never derivable) or its content is safe. *)
Fixpoint safe (t : term) : bool :=
  let fix all (l : list term) : bool :=
      match l with [] => true | x :: r => safe x && all r end in
  match t with
  | Bytes n => negb (secret n)
  | Junk _ | Pub _ => true
  | DH a b => own a || own b
  | AEnc k a m => safe a && (negb (safe k) || safe m)
  | Wrap k c => negb (safe k) || safe c
  | Kdf l => all l
  | Tup l => all l
  end.
Definition all_safe (l : list term) : bool := forallb safe l.

(* ---------- when is one pack fit to be seen by the attacker ---------- *)
(* names that appear in the clear in an envelope: header constants, key names, the IV, recipient indices *)
Definition names_public (sender : N) (rcpts : list N) (rn : rnd) : Prop :=
  (forall n, In n consts -> secret n = false) /\ secret sender = false /\ (forall k, In k rcpts -> secret k = false) /\
  secret (rn_iv rn) = false /\ (forall i, i < N.of_nat (length rcpts) -> secret i = false).
(* protected: no recipient key and no ephemeral key of this pack is the attacker's, the CEK seed is secret; legacy
   authcrypt (crypto_box: the key is DH(sender, recipient)) moreover needs the sender's key not to be his *)
Definition protected (p : packer) (sender : N) (rcpts : list N) (rn : rnd) : Prop :=
  (forall r, In r rcpts -> own r = false) /\
  (forall i, i < N.of_nat (length rcpts) -> own (rn_eph rn + i) = false) /\
  (p = LegAuth -> own sender = false) /\
  secret (rn_cek rn) = true.
(* exposed: nothing is claimed about it — plaintext name and CEK seed count as known to the attacker *)
Definition exposed (payload : N) (rn : rnd) : Prop := secret payload = false /\ secret (rn_cek rn) = false.

Definition pack_ok (p : packer) (payload sender : N) (rcpts : list N) (rn : rnd) : Prop :=
  names_public sender rcpts rn /\ (protected p sender rcpts rn \/ exposed payload rn).

(* the forward layers of a send: layer i is packed for the single key of hop i with randomness rnd_at rn (i+1) *)
Fixpoint layers_ok (p : packer) (i : N) (routing : list hop) (rn : rnd) : Prop :=
  match routing with
  | [] => True
  | h :: r => pack_ok p (fwd_id i) 0 [h_key h] (rnd_at rn (i + 1)) /\ layers_ok p (i + 1) r rn
  end.

Definition send_ok (s : send) : Prop :=
  pack_ok (packer_of (s_cfg s)) (pay_id (s_payload s)) (s_sender s) (s_rcpts s) (s_rn s) /\
  layers_ok (if is_legacy (packer_of (s_cfg s)) then LegAnon else JweAnon) 0 (s_routing s) (s_rn s) /\
  (forall k, In k (s_rcpts s) -> secret k = false) /\ (forall h, In h (s_routing s) -> secret (h_key h) = false).

(* ---------- the same conditions as booleans (sound: OpaqueProofs.send_ok_b_sound) ---------- *)
Definition pubs (l : list N) : bool := forallb (fun n => negb (secret n)) l.
Definition idxs (n : nat) : list N := map N.of_nat (seq 0 n).
Definition names_public_b (sender : N) (rcpts : list N) (rn : rnd) : bool :=
  pubs consts && negb (secret sender) && pubs rcpts && negb (secret (rn_iv rn)) && pubs (idxs (length rcpts)).
Definition protected_b (p : packer) (sender : N) (rcpts : list N) (rn : rnd) : bool :=
  forallb (fun r => negb (own r)) rcpts && forallb (fun i => negb (own (rn_eph rn + i))) (idxs (length rcpts)) &&
  (match p with LegAuth => negb (own sender) | _ => true end) && secret (rn_cek rn).
Definition exposed_b (payload : N) (rn : rnd) : bool := negb (secret payload) && negb (secret (rn_cek rn)).
Definition pack_ok_b (p : packer) (payload sender : N) (rcpts : list N) (rn : rnd) : bool :=
  names_public_b sender rcpts rn && (protected_b p sender rcpts rn || exposed_b payload rn).
Fixpoint layers_ok_b (p : packer) (i : N) (routing : list hop) (rn : rnd) : bool :=
  match routing with
  | [] => true
  | h :: r => pack_ok_b p (fwd_id i) 0 [h_key h] (rnd_at rn (i + 1)) && layers_ok_b p (i + 1) r rn
  end.
Definition send_ok_b (s : send) : bool :=
  pack_ok_b (packer_of (s_cfg s)) (pay_id (s_payload s)) (s_sender s) (s_rcpts s) (s_rn s) &&
  layers_ok_b (if is_legacy (packer_of (s_cfg s)) then LegAnon else JweAnon) 0 (s_routing s) (s_rn s) &&
  pubs (s_rcpts s) && pubs (map h_key (s_routing s)).

End Attacker.

(* ---------- the executable instance the correspondence evaluates on every real case ---------- *)
(* the coalition: every key pair that is not a recipient's and not an ephemeral one of this run (all mediators, all
   outsiders, the sender too unless the packer is legacy authcrypt); secret: the payload's name and the CEK seed of
   the envelope packed for the recipients — every forward layer is exposed *)
Definition co_own (legauth : bool) (sender : N) (rcpts : list N) (eph : N) (k : N) : bool :=
  negb (mem k rcpts) && (k <? eph) && negb (legauth && (k =? sender)).
Definition co_secret (payload : N) (rn : rnd) (n : N) : bool := (n =? pay_id payload) || (n =? rn_cek rn).
Definition coalition_ok (v : fvariant) (c : cfg) (pf : profile) (spar : list N) (sender payload : N) (rcpts : list N)
                        (routing : list hop) (rn : rnd) : bool :=
  send_ok_b (co_own (match packer_of c with LegAuth => true | _ => false end) sender rcpts (rn_eph rn))
            (co_secret payload rn) (mksend v c pf spar payload sender rcpts routing rn).
Definition coalition_safe (c : cfg) (sender payload : N) (rcpts : list N) (rn : rnd) (w0 : wire) (ls : list layer) : bool :=
  all_safe (co_own (match packer_of c with LegAuth => true | _ => false end) sender rcpts (rn_eph rn))
           (co_secret payload rn) (view w0 ls).
