(* C14 — lemmas. *)
From Coq Require Import List NArith Bool Lia.
Import ListNotations.
From VF Require Import C01.Model C01.Proofs C14.Model.
Local Open Scope N_scope.

(* ================= numbering of plaintexts ================= *)
Lemma even_fwd_id i : N.even (fwd_id i) = false.
Proof. unfold fwd_id. rewrite N.add_comm. rewrite N.even_add_mul_2. reflexivity. Qed.

Lemma fwd_id_inj i j : fwd_id i = fwd_id j -> i = j.
Proof. unfold fwd_id. lia. Qed.

Lemma lookup_pay ls p : lookup ls (pay_id p) = Some (PMsg p).
Proof.
  unfold lookup, pay_id. replace (2 * p + 2) with (2 + 2 * p) by lia. rewrite N.even_add_mul_2. cbn [N.even].
  destruct (2 + 2 * p =? 0) eqn:E; [apply N.eqb_eq in E; lia|].
  replace (2 + 2 * p) with ((p + 1) * 2) by lia. rewrite N.div_mul by lia. f_equal. f_equal. lia.
Qed.

Lemma lookup_fwd ls i : lookup ls (fwd_id i) = fwd_lookup ls (fwd_id i).
Proof. unfold lookup. rewrite even_fwd_id. reflexivity. Qed.

(* ================= one layer ================= *)
Lemma lcfg_anon c kt : expect_from (packer_of (lcfg c kt)) 0 = None.
Proof. unfold lcfg, expect_from. cbn [packer_of]. destruct (is_legacy (packer_of c)); reflexivity. Qed.

Lemma peel_layer_open ls c kt n k rn w pl party :
  pack (lcfg c kt) [] n 0 [k] rn = Ok w -> lookup ls n = Some pl -> In k party ->
  peel ls party w = Ok (pl, None, k).
Proof.
  intros Hp Hl Hin.
  destruct (roundtrip_lemma _ _ _ _ _ _ _ party Hp) as [k' [Hk1 [_ [_ Hu]]]]; [exists k; split; [left; reflexivity|assumption]|].
  destruct Hk1 as [<-|[]]. unfold peel. rewrite Hu. cbn [bind]. rewrite Hl. rewrite lcfg_anon. reflexivity.
Qed.

Lemma peel_layer_closed ls c kt n k rn w party :
  pack (lcfg c kt) [] n 0 [k] rn = Ok w -> ~ In k party ->
  peel ls party w = Err ENotFound /\ unpack_pkgr Fixed party w = Err ENotFound.
Proof.
  intros Hp Hn.
  destruct (only_recipients_lemma _ _ _ _ _ _ _ party Hp) as [_ Hu]; [intros k' [<-|[]]; assumption|].
  split; [|assumption]. unfold peel. rewrite Hu. reflexivity.
Qed.

(* ================= the layers nest creates ================= *)
Lemma nest_cons v c pf i cur nxt rest msg rn outer ls :
  nest v c pf i cur (nxt :: rest) msg rn = Ok (outer, ls) ->
  exists w ls', pack (lcfg c (h_kt nxt)) [] (fwd_id i) 0 [h_key nxt] (rnd_at rn (i + 1)) = Ok w /\
    nest v c pf (i + 1) (h_key nxt) rest w rn = Ok (outer, ls') /\
    ls = mklayer (fwd_id i) (PFwd (is_v2 pf) (to_ref (style_of c) pf cur) (embed v msg)) (h_key nxt) w :: ls'.
Proof.
  cbn [nest]. destruct (pack (lcfg c (h_kt nxt)) [] (fwd_id i) 0 [h_key nxt] (rnd_at rn (i + 1))) as [w| | |] eqn:Ep; cbn [bind]; try discriminate.
  destruct (nest v c pf (i + 1) (h_key nxt) rest w rn) as [[o l]| | |] eqn:En; cbn [bind]; try discriminate.
  intros H; inversion H; subst. exists w, l. repeat split. exact En.
Qed.

Lemma nest_ids v c pf : forall rest i cur msg rn outer ls,
  nest v c pf i cur rest msg rn = Ok (outer, ls) ->
  forall l, In l ls -> exists j, i <= j /\ ly_id l = fwd_id j.
Proof.
  induction rest as [|nxt rest IH]; intros i cur msg rn outer ls H l Hl.
  - cbn in H. inversion H; subst. destruct Hl.
  - destruct (nest_cons _ _ _ _ _ _ _ _ _ _ _ H) as [w [ls' [_ [Hn ->]]]].
    destruct Hl as [<-|Hl].
    + exists i. split; [lia|reflexivity].
    + destruct (IH _ _ _ _ _ _ Hn l Hl) as [j [Hj He]]. exists j. split; [lia|assumption].
Qed.

Lemma nest_self v c pf : forall rest i cur msg rn outer ls,
  nest v c pf i cur rest msg rn = Ok (outer, ls) ->
  forall l, In l ls -> fwd_lookup ls (ly_id l) = Some (ly_plain l).
Proof.
  induction rest as [|nxt rest IH]; intros i cur msg rn outer ls H l Hl.
  - cbn in H. inversion H; subst. destruct Hl.
  - destruct (nest_cons _ _ _ _ _ _ _ _ _ _ _ H) as [w [ls' [_ [Hn ->]]]].
    destruct Hl as [<-|Hl].
    + cbn [fwd_lookup ly_id ly_plain]. rewrite N.eqb_refl. reflexivity.
    + cbn [fwd_lookup ly_id].
      destruct (nest_ids _ _ _ _ _ _ _ _ _ _ Hn l Hl) as [j [Hj He]]. rewrite He.
      destruct (fwd_id i =? fwd_id j) eqn:E; [apply N.eqb_eq, fwd_id_inj in E; lia|].
      rewrite <- He. eapply IH; eassumption.
Qed.

Lemma nest_layers v c pf : forall rest i cur msg rn outer ls,
  nest v c pf i cur rest msg rn = Ok (outer, ls) ->
  forall l, In l ls -> exists j kt rn', ly_id l = fwd_id j /\
    pack (lcfg c kt) [] (fwd_id j) 0 [ly_key l] rn' = Ok (ly_wire l).
Proof.
  induction rest as [|nxt rest IH]; intros i cur msg rn outer ls H l Hl.
  - cbn in H. inversion H; subst. destruct Hl.
  - destruct (nest_cons _ _ _ _ _ _ _ _ _ _ _ H) as [w [ls' [Hp [Hn ->]]]].
    destruct Hl as [<-|Hl].
    + exists i, (h_kt nxt), (rnd_at rn (i + 1)). split; [reflexivity|exact Hp].
    + eapply IH; eassumption.
Qed.

(* each layer names the key of the layer below and carries the envelope of the layer below, nothing else *)
Fixpoint chained (v : fvariant) (st : kstyle) (pf : profile) (cur : N) (msg : wire) (ls : list layer) (outer : wire) : Prop :=
  match ls with
  | [] => outer = msg
  | l :: r => ly_plain l = PFwd (is_v2 pf) (to_ref st pf cur) (embed v msg) /\ chained v st pf (ly_key l) (ly_wire l) r outer
  end.

Lemma nest_chained v c pf : forall rest i cur msg rn outer ls,
  nest v c pf i cur rest msg rn = Ok (outer, ls) ->
  chained v (style_of c) pf cur msg ls outer /\ map ly_key ls = map h_key rest.
Proof.
  induction rest as [|nxt rest IH]; intros i cur msg rn outer ls H.
  - cbn in H. inversion H; subst. split; reflexivity.
  - destruct (nest_cons _ _ _ _ _ _ _ _ _ _ _ H) as [w [ls' [_ [Hn ->]]]].
    destruct (IH _ _ _ _ _ _ Hn) as [Hc Hm]. cbn [chained ly_plain ly_key ly_wire map]. rewrite Hm. repeat split. exact Hc.
Qed.

(* ================= peeling in order ================= *)
Lemma peel_chain_app ls : forall ps1 ps2 w tos1 w1,
  peel_chain ls ps1 w = Ok (tos1, w1) ->
  peel_chain ls (ps1 ++ ps2) w =
    bind (peel_chain ls ps2 w1) (fun '(tos2, w2) => Ok (tos1 ++ tos2, w2)).
Proof.
  induction ps1 as [|p ps1 IH]; intros ps2 w tos1 w1 H.
  - cbn in H. inversion H; subst. cbn [app]. destruct (peel_chain ls ps2 w1) as [[t w2]| | |]; reflexivity.
  - cbn [app peel_chain] in *. destruct (peel ls p w) as [[[pl from] to]| | |]; cbn [bind] in *; try discriminate.
    destruct pl as [|v2 t inner]; try discriminate. destruct from; try discriminate.
    destruct (peel_chain ls ps1 inner) as [[t1 w1']| | |] eqn:E; cbn [bind] in H; try discriminate.
    inversion H; subst. rewrite (IH ps2 inner t1 w1 E).
    destruct (peel_chain ls ps2 w1) as [[t2 w2]| | |]; reflexivity.
Qed.

Fixpoint tos_of (st : kstyle) (pf : profile) (cur : N) (rest : list hop) : list tref :=
  match rest with
  | [] => []
  | nxt :: rest' => tos_of st pf (h_key nxt) rest' ++ [to_ref st pf cur]
  end.

Lemma tos_of_explicit st pf : forall rest cur,
  tos_of st pf cur rest = map (to_ref st pf) (rev (removelast (cur :: map h_key rest))).
Proof.
  induction rest as [|nxt rest IH]; intros cur; [reflexivity|].
  cbn [tos_of]. rewrite IH.
  change (removelast (cur :: map h_key (nxt :: rest))) with (cur :: removelast (h_key nxt :: map h_key rest)).
  cbn [rev]. rewrite map_app. reflexivity.
Qed.

Lemma nest_peel c pf : forall rest i cur msg rn outer ls LS,
  nest FFixed c pf i cur rest msg rn = Ok (outer, ls) ->
  (forall l, In l ls -> fwd_lookup LS (ly_id l) = Some (ly_plain l)) ->
  forall parties, Forall2 (fun p h => In (h_key h) p) parties (rev rest) ->
  peel_chain LS parties outer = Ok (tos_of (style_of c) pf cur rest, msg).
Proof.
  induction rest as [|nxt rest IH]; intros i cur msg rn outer ls LS H HL parties HF.
  - cbn in H. inversion H; subst. cbn in HF. inversion HF; subst. reflexivity.
  - destruct (nest_cons _ _ _ _ _ _ _ _ _ _ _ H) as [w [ls' [Hp [Hn ->]]]].
    cbn [rev] in HF. apply Forall2_app_inv_r in HF as [ps1 [ps2 [HF1 [HF2 ->]]]].
    inversion HF2 as [|p h ps2' t Hin HF2']; subst. inversion HF2'; subst.
    assert (IH' := IH _ _ _ _ _ _ LS Hn (fun l Hl => HL l (or_intror Hl)) ps1 HF1).
    rewrite (peel_chain_app LS ps1 [p] outer _ _ IH').
    cbn [peel_chain].
    assert (Hlk : lookup LS (fwd_id i) = Some (PFwd (is_v2 pf) (to_ref (style_of c) pf cur) msg)).
    { rewrite lookup_fwd. apply (HL (mklayer (fwd_id i) (PFwd (is_v2 pf) (to_ref (style_of c) pf cur) msg) (h_key nxt) w)).
      left; reflexivity. }
    rewrite (peel_layer_open LS c (h_kt nxt) (fwd_id i) (h_key nxt) _ w _ p Hp Hlk Hin).
    cbn [bind tos_of]. reflexivity.
Qed.

(* ================= the route table ================= *)
Lemma skey_eqb_refl a : skey_eqb a a = true.
Proof. induction a as [|x a IH]; [reflexivity|]. cbn [skey_eqb]. rewrite N.eqb_refl, IH. reflexivity. Qed.

Lemma skey_eqb_eq : forall a b, skey_eqb a b = true <-> a = b.
Proof.
  induction a as [|x a IH]; intros [|y b]; cbn [skey_eqb]; split; intros H; try reflexivity; try discriminate.
  - apply andb_true_iff in H as [H1 H2]. apply N.eqb_eq in H1. apply IH in H2. subst; reflexivity.
  - inversion H; subst. rewrite N.eqb_refl. cbn [andb]. apply IH. reflexivity.
Qed.

Lemma rkey_eqb_eq a b : rkey_eqb a b = true <-> a = b.
Proof.
  destruct a, b; cbn [rkey_eqb]; split; intros H; try discriminate; try (inversion H; subst; rewrite ?N.eqb_refl; reflexivity).
  - apply andb_true_iff in H as [H H3]. apply andb_true_iff in H as [H1 H2].
    apply N.eqb_eq in H1, H2, H3. subst; reflexivity.
  - apply N.eqb_eq in H. subst; reflexivity.
  - apply N.eqb_eq in H. subst; reflexivity.
Qed.

(* the code's dataKey distinguishes exactly the notations *)
Lemma data_key_eqb a b : skey_eqb (data_key a) (data_key b) = rkey_eqb a b.
Proof.
  destruct a as [c x y|x|n], b as [c' x' y'|x'|n']; cbn; try reflexivity.
  - destruct (c =? c'), (x =? x'), (y =? y'); reflexivity.
  - destruct (x =? x'); reflexivity.
  - destruct (n =? n'); reflexivity.
Qed.

Lemma data_key_injective a b : data_key a = data_key b -> a = b.
Proof. intros H. apply rkey_eqb_eq. rewrite <- data_key_eqb. apply skey_eqb_eq. exact H. Qed.

Section Store.
Variable dk : rkey -> list N.
Hypothesis dk_distinguishes : forall a b, skey_eqb (dk a) (dk b) = rkey_eqb a b.

Lemma apply_updates_get k client f : forall ups s i,
  route_get (fst (apply_updates_g dk s client ups f i)) (dk k) = reg_updates (route_get s (dk k)) client ups f i k.
Proof.
  induction ups as [|[a k'] ups IH]; intros s i; [reflexivity|].
  destruct a; cbn [apply_updates_g reg_updates].
  - destruct (fails_put f i).
    + specialize (IH s (S i)). destruct (apply_updates_g dk s client ups f (S i)) as [s' es]. exact IH.
    + specialize (IH ((dk k', client) :: s) (S i)). destruct (apply_updates_g dk ((dk k', client) :: s) client ups f (S i)) as [s' es].
      cbn [fst] in *. rewrite IH. cbn [route_get]. rewrite dk_distinguishes. reflexivity.
  - specialize (IH s i). destruct (apply_updates_g dk s client ups f i) as [s' es]. exact IH.
  - apply IH.
Qed.

Lemma rstep_get s o k :
  route_get (routes (fst (rstep_g dk s o))) (dk k) = registrant_from (route_get (routes s) (dk k)) [o] k.
Proof.
  destruct o as [client ups f ok|to m ok fget fres|c n|]; cbn [rstep_g registrant_from].
  - pose proof (apply_updates_get k client f ups (routes s) 0%nat) as H.
    destruct (apply_updates_g dk (routes s) client ups f 0) as [s' es]. exact H.
  - destruct fget; [reflexivity|]. destruct (route_get (routes s) (dk to)); [|reflexivity].
    destruct fres; [reflexivity|]. destruct ok; reflexivity.
  - destruct (inbox_opt (inboxes s) c); reflexivity.
  - reflexivity.
Qed.

Lemma registrant_from_app k : forall h1 h2 cur,
  registrant_from cur (h1 ++ h2) k = registrant_from (registrant_from cur h1 k) h2 k.
Proof.
  induction h1 as [|o h1 IH]; intros h2 cur; [reflexivity|].
  destruct o; cbn [app registrant_from]; apply IH.
Qed.

Lemma rrun_get k : forall h s,
  route_get (routes (fst (rrun_g dk s h))) (dk k) = registrant_from (route_get (routes s) (dk k)) h k.
Proof.
  induction h as [|o h IH]; intros s; [reflexivity|].
  cbn [rrun_g]. pose proof (rstep_get s o k) as H1. destruct (rstep_g dk s o) as [s1 x]. cbn [fst] in H1.
  specialize (IH s1). destruct (rrun_g dk s1 h) as [s2 xs]. cbn [fst] in *. rewrite IH, H1.
  change (o :: h) with ([o] ++ h). rewrite registrant_from_app. reflexivity.
Qed.

Lemma forward_step s hist to m ok :
  (forall k, route_get (routes s) (dk k) = registrant hist k) ->
  snd (rstep_g dk s (RForward to m ok false false)) =
    match registrant hist to with Some d => if ok then ORelay d m else OHeld d m | None => ODrop end.
Proof. intros Hs. cbn [rstep_g]. rewrite Hs. destruct (registrant hist to); [destruct ok|]; reflexivity. Qed.

Lemma route_exact_gen : forall ops hist s,
  (forall k, route_get (routes s) (dk k) = registrant hist k) ->
  route_exact_from hist ops (snd (rrun_g dk s ops)) = true.
Proof.
  induction ops as [|o ops IH]; intros hist s Hs; [reflexivity|].
  cbn [rrun_g]. pose proof (fun k => rstep_get s o k) as Hg.
  destruct (rstep_g dk s o) as [s1 x] eqn:Es.
  assert (Hs1 : forall k, route_get (routes s1) (dk k) = registrant (hist ++ [o]) k).
  { intros k. specialize (Hg k). cbn [fst] in Hg. rewrite Hg. unfold registrant. rewrite registrant_from_app. rewrite <- Hs. reflexivity. }
  specialize (IH (hist ++ [o]) s1 Hs1). destruct (rrun_g dk s1 ops) as [s2 xs]. cbn [snd route_exact_from] in *.
  rewrite IH, andb_true_r.
  destruct o as [client ups f ok|to m ok fget fres|c n|].
  - cbn [rstep_g] in Es. destruct (apply_updates_g dk (routes s) client ups f 0). inversion Es; subst. reflexivity.
  - cbn [rstep_g] in Es. destruct fget.
    + inversion Es; subst. reflexivity.
    + cbn [orb]. rewrite <- Hs. destruct (route_get (routes s) (dk to)) as [d|].
      * destruct fres; [inversion Es; subst; reflexivity|].
        destruct ok; inversion Es; subst; cbn [deliveries]; rewrite !N.eqb_refl; reflexivity.
      * inversion Es; subst. destruct fres; reflexivity.
  - cbn [rstep_g] in Es. destruct (inbox_opt (inboxes s) c); inversion Es; subst; reflexivity.
  - cbn [rstep_g] in Es. inversion Es; subst. reflexivity.
Qed.

(* what was held for d = what d picked up ++ what is still held for d, as lists *)
Lemma step_conserve s o d :
  let '(s1, x) := rstep_g dk s o in
  picked_up d [x] ++ inbox s1 d = inbox s d ++ held_for d [x].
Proof.
  destruct o as [client ups f ok|to m ok fget fres|c n|]; cbn [rstep_g].
  - destruct (apply_updates_g dk (routes s) client ups f 0) as [r' es]. cbn [picked_up held_for app]. unfold inbox. cbn [inboxes].
    rewrite app_nil_r. reflexivity.
  - destruct fget; [cbn [picked_up held_for app]; rewrite app_nil_r; reflexivity|].
    destruct (route_get (routes s) (dk to)) as [r|]; [|cbn [picked_up held_for app]; rewrite app_nil_r; reflexivity].
    destruct fres; [cbn [picked_up held_for app]; rewrite app_nil_r; reflexivity|].
    destruct ok; [cbn [picked_up held_for app]; rewrite app_nil_r; reflexivity|].
    cbn [picked_up held_for app]. unfold inbox at 1. cbn [inboxes inbox_opt].
    destruct (d =? r) eqn:E.
    + apply N.eqb_eq in E. subst r. rewrite app_nil_r. reflexivity.
    + rewrite app_nil_r. reflexivity.
  - destruct (inbox_opt (inboxes s) c) as [l|] eqn:El; [|cbn [picked_up held_for app]; rewrite app_nil_r; reflexivity].
    cbn [picked_up held_for]. unfold inbox at 1. cbn [inboxes inbox_opt]. rewrite !app_nil_r.
    destruct (d =? c) eqn:E.
    + apply N.eqb_eq in E. subst c. unfold inbox. rewrite El. apply firstn_skipn.
    + reflexivity.
  - cbn [picked_up held_for app]. rewrite app_nil_r. reflexivity.
Qed.

Lemma picked_up_cons d x xs : picked_up d (x :: xs) = picked_up d [x] ++ picked_up d xs.
Proof. destruct x; cbn [picked_up]; rewrite ?app_nil_r; reflexivity. Qed.
Lemma held_for_cons d x xs : held_for d (x :: xs) = held_for d [x] ++ held_for d xs.
Proof. destruct x; cbn [held_for]; rewrite ?app_nil_r; reflexivity. Qed.

Lemma run_conserve d : forall ops s,
  let '(s', outs) := rrun_g dk s ops in
  picked_up d outs ++ inbox s' d = inbox s d ++ held_for d outs.
Proof.
  induction ops as [|o ops IH]; intros s; [cbn; rewrite app_nil_r; reflexivity|].
  cbn [rrun_g]. pose proof (step_conserve s o d) as H1. destruct (rstep_g dk s o) as [s1 x].
  specialize (IH s1). destruct (rrun_g dk s1 ops) as [s2 xs].
  rewrite picked_up_cons, held_for_cons. rewrite <- app_assoc, IH, !app_assoc, H1. reflexivity.
Qed.
End Store.

(* ================= media type selection ================= *)
Lemma pick_top : forall accept mt,
  (exists m, In m accept /\ tier_of m = TTop) -> exists m', pick mt accept = Some m' /\ tier_of m' = TTop.
Proof.
  induction accept as [|a accept IH]; intros mt [m [Hin Ht]]; [destruct Hin|].
  cbn [pick]. destruct (tier_of a) eqn:Ea.
  - destruct Hin as [->|Hin]; [congruence|]. apply IH. exists m; auto.
  - destruct Hin as [->|Hin]; [congruence|]. apply IH. exists m; auto.
  - exists a. auto.
  - destruct Hin as [->|Hin]; [congruence|]. apply IH. exists m; auto.
Qed.

Lemma pick_in : forall accept mt m, pick mt accept = Some m -> mt = Some m \/ In m accept.
Proof.
  induction accept as [|a accept IH]; intros mt m H; [left; exact H|].
  cbn [pick] in H. destruct (tier_of a).
  - destruct (IH _ _ H) as [H1|H1]; [|right; right; exact H1].
    destruct mt; [left; exact H1|inversion H1; right; left; reflexivity].
  - destruct (IH _ _ H) as [H1|H1]; [inversion H1; right; left; reflexivity|right; right; exact H1].
  - inversion H; right; left; reflexivity.
  - destruct (IH _ _ H) as [H1|H1]; [left; exact H1|right; right; exact H1].
Qed.
