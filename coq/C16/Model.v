(* C16 — executable model of the credential / presentation / DID-service / fingerprint codecs.  NO proofs here.
   What the Go code does, on JSON trees (common/Json.v):
     util/json   UnmarshalWithCustomFields / MergeCustomFields           -> split_cf / merge_cf
     verifiable  TypedID, Subject, Issuer (structs of omitempty strings + CustomFields) -> sstruct
                 decodeType/typesToRaw, decodeContext/contextToRaw, parseSubject/subjectToBytes,
                 parseIssuer/Issuer.MarshalJSON, parseTypedID/typedIDsToRaw, parseProof/proofsToRaw,
                 decodeCredentialSchemas, newCredential, Credential.raw, rawCredential.MarshalJSON
                 newPresentation, Presentation.raw
                 newJWTCredClaims / refineFromJWTClaims
     did         populateServices / populateRawServices (custom properties of services)
     fingerprint multicodec varint prefix, KeyFingerprint, PubKeyFromFingerprint, PubKeyFromDIDKey
   Every value that travels through a Go interface{} is a float64 when it is a number: f64j. *)
From Coq Require Import List String Ascii ZArith NArith Bool.
Import ListNotations.
From VF Require Export common.Json gen.Gen_C16.
Open Scope string_scope.
Open Scope list_scope.

Definition obj := list (string * json).

(* ---------- float64 ---------- *)
Definition two53 : Z := 9007199254740992%Z.
(* n/d rounded to nearest, ties to even (n >= 0, d > 0) *)
Definition rne (n d : Z) : Z :=
  let q := (n / d)%Z in let r := (n mod d)%Z in
  if (2 * r <? d)%Z then q else if (d <? 2 * r)%Z then (q + 1)%Z else if Z.even q then q else (q + 1)%Z.
Definition f64abs (a : Z) : Z :=
  if (a <=? two53)%Z then a else let e := (Z.log2 a - 52)%Z in (rne a (2 ^ e) * 2 ^ e)%Z.
Definition f64round (z : Z) : Z := if (z <? 0)%Z then (- f64abs (- z))%Z else f64abs z.

Fixpoint f64j (j : json) : json :=
  match j with
  | JNum z => JNum (f64round z)
  | JArr l => JArr (map f64j l)
  | JObj m => JObj (map (fun kv => (fst kv, f64j (snd kv))) m)
  | _ => j
  end.
Definition f64o (m : obj) : obj := map (fun kv => (fst kv, f64j (snd kv))) m.

(* all numbers of a tree are exactly representable *)
Fixpoint exact (j : json) : bool :=
  match j with
  | JNum z => (Z.abs z <=? two53)%Z
  | JArr l => forallb exact l
  | JObj m => forallb (fun kv => exact (snd kv)) m
  | _ => true
  end.

(* ---------- JSON helpers ---------- *)
Definition keys (m : obj) : list string := map fst m.
Definition mem (k : string) (l : list string) : bool := existsb (String.eqb k) l.
Fixpoint nodupb (l : list string) : bool :=
  match l with [] => true | k :: r => negb (mem k r) && nodupb r end.
(* no object anywhere in the tree has a repeated member name *)
Fixpoint wf (j : json) : bool :=
  match j with
  | JArr l => forallb wf l
  | JObj m => nodupb (map fst m) && forallb (fun kv => wf (snd kv)) m
  | _ => true
  end.
Definition is_null (j : json) : bool := match j with JNull => true | _ => false end.

(* equality of JSON values, objects compared as maps *)
Fixpoint jeq (a b : json) : bool :=
  match a, b with
  | JNull, JNull => true
  | JBool x, JBool y => Bool.eqb x y
  | JNum x, JNum y => Z.eqb x y
  | JStr x, JStr y => String.eqb x y
  | JArr l, JArr l' =>
      (fix go (l l' : list json) : bool :=
         match l, l' with [], [] => true | x :: r, y :: r' => jeq x y && go r r' | _, _ => false end) l l'
  | JObj m, JObj m' =>
      Nat.eqb (List.length m) (List.length m') &&
      (fix go (m : obj) : bool :=
         match m with
         | [] => true
         | kv :: r => match lookup m' (fst kv) with Some v' => jeq (snd kv) v' | None => false end && go r
         end) m
  | _, _ => false
  end.

Fixpoint mapM {A B} (f : A -> option B) (l : list A) : option (list B) :=
  match l with
  | [] => Some []
  | x :: r => match f x, mapM f r with Some y, Some t => Some (y :: t) | _, _ => None end
  end.

Definition opt_member (k : string) (o : option json) : obj := match o with Some v => [(k, v)] | None => [] end.

(* ---------- util/json: the custom-field mechanism ---------- *)
(* UnmarshalWithCustomFields: a member is custom iff its name is not among the members the typed value
   marshals back to ([emitted]); custom values are decoded into interface{} *)
Definition split_cf (emitted : list string) (m : obj) : obj :=
  f64o (filter (fun kv => negb (mem (fst kv) emitted)) m).
(* MergeCustomFields: the typed members, plus the custom ones whose name is not taken *)
Definition merge_cf (kf cf : obj) : obj :=
  kf ++ filter (fun kv => negb (mem (fst kv) (keys kf))) cf.


(* encoding/json matches the members of a JSON object to struct fields by name ignoring case (ASCII letters here),
   and a later member overwrites an earlier one: the value a struct field named [k] ends up with *)
Definition lower_ascii (c : ascii) : ascii :=
  let n := nat_of_ascii c in if Nat.leb 65 n && Nat.leb n 90 then ascii_of_nat (n + 32) else c.
Fixpoint lower (s : string) : string :=
  match s with EmptyString => EmptyString | String c r => String (lower_ascii c) (lower r) end.
Fixpoint lk (m : obj) (k : string) : option json :=
  match m with
  | [] => None
  | (k', v) :: r => match lk r k with Some x => Some x | None => if lower k' =? lower k then Some v else None end
  end.
(* no member name differs from a name in [names] only by case, and none is repeated *)
Definition ci_clean (names : list string) (m : obj) : bool :=
  forallb (fun kv => forallb (fun n => (fst kv =? n) || negb (lower (fst kv) =? lower n)) names) m.

(* a Go string field: JSON string, or null/absent (left at "") ; anything else is a decoding error *)
Definition dec_str (o : option json) : option string :=
  match o with None | Some JNull => Some "" | Some (JStr s) => Some s | _ => None end.

(* ---------- structs whose known members are strings: TypedID, Subject, Issuer ---------- *)
Record sstruct := { s_known : list (string * string * bool); s_cf : obj }.   (* (member, value, omitempty) *)

Fixpoint dec_known (fs : list (string * fkind * bool)) (m : obj) : option (list (string * string * bool)) :=
  match fs with
  | [] => Some []
  | (k, KStr, om) :: r =>
      match dec_str (lk m k), dec_known r m with Some s, Some l => Some ((k, s, om) :: l) | _, _ => None end
  | _ => None     (* a member kind this model does not know: refuse *)
  end.
Definition emit_str (k s : string) (om : bool) : obj := if om && (s =? "") then [] else [(k, JStr s)].
Definition emit_known (kn : list (string * string * bool)) : obj :=
  flat_map (fun x => emit_str (fst (fst x)) (snd (fst x)) (snd x)) kn.
Definition dec_sstruct (fs : list (string * fkind * bool)) (m : obj) : option sstruct :=
  match dec_known fs m with
  | Some kn => Some {| s_known := kn; s_cf := split_cf (keys (emit_known kn)) m |}
  | None => None
  end.
Definition enc_sstruct (s : sstruct) : json := JObj (merge_cf (emit_known (s_known s)) (s_cf s)).
Definition with_id (fs : list (string * fkind * bool)) (id : string) : sstruct :=
  {| s_known := map (fun f => (fst (fst f), if fst (fst f) =? "id" then id else "", snd f)) fs; s_cf := [] |}.
Fixpoint known_get (kn : list (string * string * bool)) (k : string) : string :=
  match kn with [] => "" | (k', s, _) :: r => if k =? k' then s else known_get r k end.
Definition id_of (s : sstruct) : string := known_get (s_known s) "id".
Fixpoint known_set (kn : list (string * string * bool)) (k v : string) : list (string * string * bool) :=
  match kn with [] => [] | (k', s, om) :: r => if k =? k' then (k', v, om) :: r else (k', s, om) :: known_set r k v end.

(* TypedID.UnmarshalJSON (null leaves the zero value) *)
Definition dec_typedid (j : json) : option sstruct :=
  match j with
  | JNull => Some (with_id typedID_fields "")
  | JObj m => dec_sstruct typedID_fields m
  | _ => None
  end.

(* ---------- single-or-array coders ---------- *)
Definition dec_types (o : option json) : option (list string) :=
  match o with
  | Some (JStr s) => Some [s]
  | Some (JArr l) => mapM (fun j => match j with JStr s => Some s | _ => None end) l
  | _ => None
  end.
Definition enc_types (ts : list string) : json :=
  match ts with [s] => JStr s | _ => JArr (map JStr ts) end.

Fixpoint span_str (l : list json) : list string * list json :=
  match l with
  | JStr s :: r => let '(a, b) := span_str r in (s :: a, b)
  | _ => ([], l)
  end.
Definition dec_context (o : option json) : option (list string * list json) :=
  match o with
  | Some (JStr s) => Some ([s], [])
  | Some (JArr l) => let '(a, b) := span_str l in Some (a, map f64j b)
  | _ => None
  end.
Definition enc_context (ss : list string) (cs : list json) : json := JArr (map JStr ss ++ cs).

(* parseTypedID / typedIDsToRaw (termsOfUse, refreshService: json.RawMessage) *)
Definition dec_typedids (o : option json) : option (list sstruct) :=
  match o with
  | None => Some []
  | Some (JArr l) => mapM dec_typedid l
  | Some j => option_map (fun t => [t]) (dec_typedid j)
  end.
Definition enc_list {A} (enc : A -> json) (l : list A) : option json :=
  match l with [] => None | [x] => Some (enc x) | _ => Some (JArr (map enc l)) end.

(* decodeCredentialSchemas (credentialSchema: interface{}) ; raw(): always an array *)
Definition dec_schemas (o : option json) : option (list sstruct) :=
  match o with
  | None | Some JNull => Some []
  | Some (JArr l) => mapM dec_typedid l
  | Some j => option_map (fun t => [t]) (dec_typedid j)
  end.
Definition enc_schemas (l : list sstruct) : option json :=
  match l with [] => None | _ => Some (JArr (map enc_sstruct l)) end.

(* parseProof / proofsToRaw ; Proof is a map (nil for null) *)
Definition dec_proof1 (j : json) : option (option obj) :=
  match j with JNull => Some None | JObj m => Some (Some (f64o m)) | _ => None end.
Definition dec_proofs (o : option json) : option (list (option obj)) :=
  match o with
  | None => Some []
  | Some (JArr l) => mapM dec_proof1 l
  | Some j => option_map (fun p => [p]) (dec_proof1 j)
  end.
Definition enc_proof1 (p : option obj) : json := match p with None => JNull | Some m => JObj m end.

(* the code as found / as repaired by the fix: commits of C16 *)
Inductive variant := AsIs | Fixed.

(* parseSubject / subjectToBytes *)
Inductive subj := SNone | SStr (s : string) | SList (l : list sstruct).
Definition dec_subject1 (j : json) : option sstruct :=
  match j with
  | JStr s => Some (with_id subject_fields s)
  | JNull => Some (with_id subject_fields "")
  | JObj m => dec_sstruct subject_fields m
  | _ => None
  end.
Definition dec_subject (w : variant) (o : option json) : option subj :=
  match o with
  | None => Some SNone
  | Some (JStr s) => Some (SStr s)
  | Some JNull => match w with AsIs => Some (SStr "") | Fixed => Some SNone end   (* fix a925e19 *)
  | Some (JObj m) => option_map (fun s => SList [s]) (dec_sstruct subject_fields m)
  | Some (JArr l) => option_map SList (mapM dec_subject1 l)
  | _ => None
  end.
Definition enc_subject (s : subj) : option json :=
  match s with
  | SNone => None
  | SStr x => Some (JStr x)
  | SList [x] => Some (enc_sstruct x)
  | SList l => Some (JArr (map enc_sstruct l))
  end.

(* parseIssuer / Issuer.MarshalJSON *)
Definition dec_issuer (o : option json) : option sstruct :=
  match o with
  | None => Some (with_id issuer_fields "")
  | Some (JStr s) => Some (with_id issuer_fields s)
  | Some JNull => Some (with_id issuer_fields "")
  | Some (JObj m) =>
      match dec_sstruct issuer_fields m with
      | Some s => if id_of s =? "" then None else Some s
      | None => None
      end
  | _ => None
  end.
Definition enc_issuer (s : sstruct) : json :=
  match s_cf s with [] => JStr (id_of s) | _ => enc_sstruct s end.
(* Credential.raw: the issuer member (fix e7a28b5: none for the zero Issuer; before, "issuer": "" was written) *)
Definition issuer_member (w : variant) (s : sstruct) : obj :=
  match w with
  | AsIs => [("issuer", enc_issuer s)]
  | Fixed => match s_cf s with
             | [] => if id_of s =? "" then [] else [("issuer", enc_issuer s)]
             | _ => [("issuer", enc_issuer s)]
             end
  end.

(* pointer / interface members *)
Definition dec_time (o : option json) : option (option string) :=
  match o with None | Some JNull => Some None | Some (JStr s) => Some (Some s) | _ => None end.
Definition dec_status (o : option json) : option (option sstruct) :=
  match o with
  | None | Some JNull => Some None
  | Some (JObj m) => option_map Some (dec_sstruct typedID_fields m)
  | _ => None
  end.
Definition dec_iface (o : option json) : option json :=
  match o with None | Some JNull => None | Some j => Some (f64j j) end.

(* is the member re-emitted by json.Marshal of the raw struct right after decoding?  (omitempty) *)
Definition emitted_on_parse (m : obj) (f : string * fkind * bool) : bool :=
  let '(k, kind, om) := f in
  match lk m k with
  | None => false
  | Some v =>
      if negb om then true else
      match kind with
      | KStr => match v with JStr s => negb (s =? "") | _ => false end
      | KRaw => true
      | _ => negb (is_null v)
      end
  end.
Definition top_cf (fs : list (string * fkind * bool)) (m : obj) : obj :=
  split_cf (map (fun f => fst (fst f)) (filter (emitted_on_parse m) fs)) m.

(* ---------- credential ---------- *)
Record vc := {
  v_ctx : list string; v_cctx : list json; v_id : string; v_types : list string; v_subject : subj;
  v_issuer : sstruct; v_issued : option string; v_expired : option string; v_proofs : list (option obj);
  v_status : option sstruct; v_schemas : list sstruct; v_evidence : option json;
  v_tou : list sstruct; v_refresh : list sstruct; v_sdalg : string; v_cf : obj }.

Definition bind {A B} (o : option A) (f : A -> option B) : option B := match o with Some x => f x | None => None end.
Notation "x <- e ;; k" := (bind e (fun x => k)) (at level 61, e at next level, right associativity).

(* populateCredential (json.Unmarshal into rawCredential) + newCredential, for a JSON-LD credential.
   The member `jwt` is decoded into rawCredential.JWT and then overwritten by ParseCredential. *)
Definition parse_vc (w : variant) (j : json) : option vc :=
  match j with
  | JObj m =>
      id <- dec_str (lk m "id") ;;
      _jwt <- dec_str (lk m "jwt") ;;
      alg <- dec_str (lk m "_sd_alg") ;;
      issued <- dec_time (lk m "issuanceDate") ;;
      expired <- dec_time (lk m "expirationDate") ;;
      status <- dec_status (lk m "credentialStatus") ;;
      schemas <- dec_schemas (lk m "credentialSchema") ;;
      types <- dec_types (lk m "type") ;;
      issuer <- dec_issuer (lk m "issuer") ;;
      ctx <- dec_context (lk m "@context") ;;
      tou <- dec_typedids (lk m "termsOfUse") ;;
      refresh <- dec_typedids (lk m "refreshService") ;;
      proofs <- dec_proofs (lk m "proof") ;;
      subject <- dec_subject w (lk m "credentialSubject") ;;
      Some {| v_ctx := fst ctx; v_cctx := snd ctx; v_id := id; v_types := types; v_subject := subject;
              v_issuer := issuer; v_issued := issued; v_expired := expired; v_proofs := proofs;
              v_status := status; v_schemas := schemas; v_evidence := dec_iface (lk m "evidence");
              v_tou := tou; v_refresh := refresh; v_sdalg := alg;
              v_cf := top_cf rawCredential_fields m |}
  | _ => None
  end.

(* Credential.raw: the typed members in the order of the raw struct *)
Definition raw_vc (w : variant) (v : vc) : obj :=
  [("@context", enc_context (v_ctx v) (v_cctx v))] ++
  emit_str "id" (v_id v) true ++
  [("type", enc_types (v_types v))] ++
  opt_member "credentialSubject" (enc_subject (v_subject v)) ++
  opt_member "issuanceDate" (option_map JStr (v_issued v)) ++
  opt_member "expirationDate" (option_map JStr (v_expired v)) ++
  opt_member "proof" (enc_list enc_proof1 (v_proofs v)) ++
  opt_member "credentialStatus" (option_map enc_sstruct (v_status v)) ++
  issuer_member w (v_issuer v) ++
  opt_member "credentialSchema" (enc_schemas (v_schemas v)) ++
  opt_member "evidence" (v_evidence v) ++
  opt_member "termsOfUse" (enc_list enc_sstruct (v_tou v)) ++
  opt_member "refreshService" (enc_list enc_sstruct (v_refresh v)) ++
  emit_str "_sd_alg" (v_sdalg v) true.

(* rawCredential.MarshalJSON: merge, through a map[string]interface{} *)
Definition marshal_vc (w : variant) (v : vc) : json := f64j (JObj (merge_cf (raw_vc w v) (v_cf v))).

Definition roundtrip_vc (w : variant) (j : json) : option json := option_map (marshal_vc w) (parse_vc w j).

(* ---------- presentation ---------- *)

(* ---- enclosed credentials ----
   an object is kept as a map; a string is parsed as a credential (ParseCredential): a JWT, or an SD-JWT in combined
   format  jwt~disclosure~...~[holder binding].  Which strings are compact JWS, and whether their payload carries
   _sd_alg, is decided by the jose/jwt code: the environment [env] hands that over (jwt text, has _sd_alg). *)
Inductive cred := CObj (j : json) | CJwt (jwt : string) (ds : list string) (hb : string) (sd : bool).

Definition tilde : ascii := "~"%char.
(* strings.Split(s, "~"): at least one part *)
Fixpoint split_tilde (s : string) : list string :=
  match s with
  | EmptyString => [EmptyString]
  | String c r =>
      if Ascii.eqb c tilde then EmptyString :: split_tilde r
      else match split_tilde r with
           | p :: ps => String c p :: ps
           | [] => [String c EmptyString]
           end
  end.
Fixpoint join_tilde (l : list string) : string :=
  match l with
  | [] => EmptyString
  | [p] => p
  | p :: r => (p ++ String tilde (join_tilde r))%string
  end.
Fixpoint env_get (env : list (string * bool)) (k : string) : option bool :=
  match env with [] => None | (k', b) :: r => if k =? k' then Some b else env_get r k end.
Definition is_jws (env : list (string * bool)) (s : string) : bool :=
  match env_get env s with Some _ => true | None => false end.

(* isJWTVC + ParseCombinedFormatFor{Presentation,Issuance} *)
Definition dec_cred_str (env : list (string * bool)) (s : string) : option cred :=
  match split_tilde s with
  | [] => None
  | jwt :: rest =>
      match env_get env jwt with
      | None => None                       (* not a JWS: a JSON credential in a string, or garbage: not modelled *)
      | Some sd =>
          match rest with
          | [] => Some (CJwt jwt [] "" sd)
          | _ =>
              if negb sd then None else    (* disclosures without _sd_alg are refused *)
              let lst := last rest "" in
              if (lst =? "") || is_jws env lst then Some (CJwt jwt (removelast rest) lst sd)
              else Some (CJwt jwt rest "" sd)
          end
      end
  end.
Definition dec_cred1 (env : list (string * bool)) (j : json) : option cred :=
  match j with JStr s => dec_cred_str env s | _ => Some (CObj (f64j j)) end.
(* Credential.MarshalJSON of a credential that has a JWT: the combined format with every disclosure when the
   credential is an SD-JWT, the JWT otherwise *)
(* CombinedFormatForPresentation.Serialize *)
Definition ser_pres (jwt : string) (ds : list string) (hb : string) : string :=
  match ds, hb with
  | [], EmptyString => jwt
  | _, _ => join_tilde (jwt :: ds ++ [hb])
  end.
Definition enc_cred (c : cred) : json :=
  match c with
  | CObj j => j
  | CJwt jwt ds hb sd => if sd then JStr (ser_pres jwt ds hb) else JStr jwt
  end.

(* decodeCredentials *)
Definition dec_creds (env : list (string * bool)) (o : option json) : option (list cred) :=
  match o with
  | None | Some JNull => Some []
  | Some (JArr l) => mapM (dec_cred1 env) l
  | Some j => option_map (fun c => [c]) (dec_cred1 env j)
  end.
Definition enc_creds (l : list cred) : option json :=
  match l with [] => None | _ => Some (JArr (map enc_cred l)) end.

Record vp := {
  p_ctx : list string; p_cctx : list json; p_id : string; p_types : list string; p_creds : list cred;
  p_holder : string; p_proofs : list (option obj); p_cf : obj }.

Definition parse_vp (env : list (string * bool)) (j : json) : option vp :=
  match j with
  | JObj m =>
      id <- dec_str (lk m "id") ;;
      holder <- dec_str (lk m "holder") ;;
      _jwt <- dec_str (lk m "jwt") ;;
      types <- dec_types (lk m "type") ;;
      ctx <- dec_context (lk m "@context") ;;
      creds <- dec_creds env (lk m "verifiableCredential") ;;
      proofs <- dec_proofs (lk m "proof") ;;
      Some {| p_ctx := fst ctx; p_cctx := snd ctx; p_id := id; p_types := types; p_creds := creds;
              p_holder := holder; p_proofs := proofs; p_cf := top_cf rawPresentation_fields m |}
  | _ => None
  end.

Definition raw_vp (w : variant) (p : vp) : obj :=
  [("@context", match w with AsIs => enc_context (p_ctx p) [] | Fixed => enc_context (p_ctx p) (p_cctx p) end)] ++
  emit_str "id" (p_id p) true ++
  [("type", enc_types (p_types p))] ++
  opt_member "verifiableCredential" (enc_creds (p_creds p)) ++
  emit_str "holder" (p_holder p) true ++
  opt_member "proof" (enc_list enc_proof1 (p_proofs p)).

Definition marshal_vp (w : variant) (p : vp) : json := f64j (JObj (merge_cf (raw_vp w p) (p_cf p))).
Definition roundtrip_vp (w : variant) (env : list (string * bool)) (j : json) : option json :=
  option_map (marshal_vp w) (parse_vp env j).

(* ---------- JWT claims of a credential ---------- *)
(* dates: the harness gives each date string its Unix time (seconds) and whether it is a whole number of seconds
   in the canonical UTC spelling time.Format(RFC3339) produces; the claims carry seconds only *)
Record jclaims := { j_iss : string; j_sub : string; j_jti : string; j_nbf : option Z; j_iat : option Z; j_exp : option Z;
                    j_vc : obj }.

Definition subject_id (s : subj) : option string :=
  match s with
  | SStr x => Some x
  | SList [x] => Some (id_of x)
  | _ => None
  end.

(* newJWTCredClaims; [secs] maps a date string of the credential to its Unix seconds *)
Definition jwt_claims (secs : string -> Z) (minimize : bool) (v : vc) : option jclaims :=
  match subject_id (v_subject v), v_issued v with
  | Some sub, Some issued =>
      let v' := if minimize then
        {| v_ctx := v_ctx v; v_cctx := v_cctx v; v_id := ""; v_types := v_types v; v_subject := v_subject v;
           v_issuer := {| s_known := known_set (s_known (v_issuer v)) "id" ""; s_cf := s_cf (v_issuer v) |};
           v_issued := None; v_expired := None; v_proofs := v_proofs v; v_status := v_status v;
           v_schemas := v_schemas v; v_evidence := v_evidence v; v_tou := v_tou v; v_refresh := v_refresh v;
           v_sdalg := v_sdalg v; v_cf := v_cf v |} else v in
      Some {| j_iss := id_of (v_issuer v); j_sub := sub; j_jti := v_id v;
              j_nbf := Some (secs issued); j_iat := Some (secs issued);
              j_exp := option_map secs (v_expired v);
              j_vc := match marshal_vc Fixed v' with JObj m => m | _ => [] end |}
  | _, _ => None       (* no single subject id, or no issuance date (the real code dereferences nil) *)
  end.

Fixpoint set_member (m : obj) (k : string) (v : json) : obj :=
  match m with
  | [] => [(k, v)]
  | (k', v') :: r => if k =? k' then (k, v) :: r else (k', v') :: set_member r k v
  end.

(* refineFromJWTClaims; [fmt] renders Unix seconds in UTC RFC3339 *)
Definition refine (fmt : Z -> string) (c : jclaims) : obj :=
  let m := j_vc c in
  let m := if j_iss c =? "" then m else
             match lookup m "issuer" with
             | Some (JObj im) => set_member m "issuer" (JObj (set_member im "id" (JStr (j_iss c))))
             | Some (JStr _) | None => set_member m "issuer" (JStr (j_iss c))
             | _ => m
             end in
  let m := match j_nbf c with Some t => set_member m "issuanceDate" (JStr (fmt t)) | None => m end in
  let m := if j_jti c =? "" then m else set_member m "id" (JStr (j_jti c)) in
  let m := match j_iat c with Some t => set_member m "issuanceDate" (JStr (fmt t)) | None => m end in
  match j_exp c with Some t => set_member m "expirationDate" (JStr (fmt t)) | None => m end.

(* ---------- DID services: custom properties ---------- *)
(* populateServices keeps every member it does not take out as Properties; populateRawServices writes the
   properties back first and the typed members over them.  Typed members are abstracted to what they re-emit to. *)
Definition service_props (m : obj) : obj := f64o (filter (fun kv => negb (mem (fst kv) service_typed_keys)) m).
Definition service_roundtrip (typed : obj) (m : obj) : obj :=
  (* typed: the members the typed part re-emits (id, type, serviceEndpoint always; priority, keys when present) *)
  filter (fun kv => negb (mem (fst kv) (keys typed))) (service_props m) ++ typed.

(* ---------- key fingerprints ---------- *)
Definition byte := N.
(* binary.PutUvarint *)
Fixpoint varint_fuel (fuel : nat) (n : N) : list byte :=
  match fuel with
  | O => []
  | S f => if (n <? 128)%N then [n] else (N.lor (N.land n 127) 128) :: varint_fuel f (N.shiftr n 7)
  end.
Definition varint (n : N) : list byte := varint_fuel 10 n.
(* binary.Uvarint: (value, bytes read) ; 0 bytes read = buffer too small *)
Fixpoint uvarint_go (l : list byte) (shift : N) (acc : N) (i : nat) : N * nat :=
  match l with
  | [] => (0%N, O)
  | b :: r =>
      if (b <? 128)%N then (N.lor acc (N.shiftl b shift), S i)
      else uvarint_go r (shift + 7)%N (N.lor acc (N.shiftl (N.land b 127) shift)) (S i)
  end.
Definition uvarint (l : list byte) : N * nat := uvarint_go l 0%N 0%N O.

(* KeyFingerprint, before base58: the bytes under the multibase 'z' *)
Definition fp_bytes (code : N) (key : list byte) : list byte := varint code ++ key.
(* PubKeyFromFingerprint, after base58 *)
Definition fp_decode (mc : list byte) : option (list byte * N) :=
  let '(code, br) := uvarint mc in
  match br with
  | O => None
  | _ =>
      if Nat.ltb 9 br then None else     (* maxMulticodecBytes *)
      if (code =? g1g2_code)%N then
        let rest := skipn (br + g1_size) mc in
        if Nat.eqb (List.length rest) g2_size then Some (rest, code) else None
      else Some (skipn br mc, code)
  end.
(* PubKeyFromDIDKey *)
Definition didkey_decode (mc : list byte) : option (list byte) :=
  match fp_decode mc with
  | Some (k, code) => if existsb (N.eqb code) didkey_codes then Some k else None
  | None => None
  end.

(* ---------- NIST curve points in did:key: SEC1 compressed form with FIXED-WIDTH X ---------- *)
(* big-endian, exactly n bytes (elliptic.MarshalCompressed: x.FillBytes) *)
Fixpoint be_bytes (n : nat) (z : Z) : list byte :=
  match n with O => [] | S k => be_bytes k (z / 256)%Z ++ [Z.to_N (z mod 256)%Z] end.
Definition be_value (l : list byte) : Z := fold_left (fun a b => (a * 256 + Z.of_N b)%Z) l 0%Z.
Definition ec_compress (size : nat) (x y : Z) : list byte := (2 + Z.to_N (y mod 2)%Z)%N :: be_bytes size x.
(* field size in bytes of the curve a multicodec stands for *)
Definition curve_size (code : N) : option nat :=
  if (code =? 4608)%N then Some 32%nat else if (code =? 4609)%N then Some 48%nat
  else if (code =? 4610)%N then Some 66%nat else None.

(* ---------- DID documents: ids relative to @base / id, verification methods, relationships ---------- *)
Definition str_entry (o : option json) : string := match o with Some (JStr s) => s | _ => "" end.   (* stringEntry *)
Definition hash : ascii := "#"%char.
Definition starts_hash (s : string) : bool := match s with String c _ => Ascii.eqb c hash | EmptyString => false end.
Fixpoint is_prefix (p s : string) : bool :=
  match p, s with
  | EmptyString, _ => true
  | String a p', String b s' => Ascii.eqb a b && is_prefix p' s'
  | _, _ => false
  end.
Fixpoint drop (n : nat) (s : string) : string :=
  match n, s with O, _ => s | S k, String _ r => drop k r | _, EmptyString => EmptyString end.
(* strings.Replace(s, pat, "", 1) *)
Fixpoint replace_first (s pat : string) : string :=
  if is_prefix pat s then drop (String.length pat) s
  else match s with EmptyString => EmptyString | String c r => String c (replace_first r pat) end.
(* strings.Split(s, "#")[0] *)
Fixpoint before_hash (s : string) : string :=
  match s with
  | EmptyString => EmptyString
  | String c r => if Ascii.eqb c hash then EmptyString else String c (before_hash r)
  end.
Definition id_base (did base : string) : string := if base =? "" then did else base.
Definition resolve_rel (did base frag : string) : string := (id_base did base ++ frag)%string.   (* resolveRelativeDIDURL *)
Definition make_rel (did base url : string) : string := replace_first url (id_base did base).     (* makeRelativeDIDURL *)
(* the absolute id a reference or id text denotes *)
Definition abs_id (did base k : string) : string := if starts_hash k then resolve_rel did base k else k.

Record vmeth := { m_id : string; m_type : string; m_ctrl : string; m_rel : bool; m_key : string * json }.

(* a type whose key populateRawVerificationMethod writes as publicKeyMultibase (generated list) *)
Definition mb_type (ty : string) : bool := mem ty vm_multibase_types.
Definition zchar : ascii := "z"%char.

(* the jwk package: go-jose keeps these members of a JWK; for X25519 / secp256k1 / BLS12-381 G2 keys the package
   reads the members of its own struct (generated list); every other member (key_ops, custom ones) is dropped *)
Definition jose_members : list string :=
  ["use"; "kty"; "kid"; "crv"; "alg"; "k"; "x"; "y"; "n"; "e"; "x5c"; "x5u"; "x5t"; "x5t#S256"].
Definition jwk_custom_type (jw : obj) : bool :=
  let crv := str_entry (lookup jw "crv") in
  (crv =? "X25519") || (crv =? "secp256k1") || (crv =? "BLS12381_G2") || (str_entry (lookup jw "alg") =? "ES256K").
Definition jwk_out (jw : obj) : obj :=
  let keep := if jwk_custom_type jw then jwk_custom_members else jose_members in
  f64o (filter (fun kv => mem (fst kv) keep) jw).

(* decodeVM / populateRawVerificationMethod on the key material: the member the key is written back as.
   base58 and multibase(z) texts are canonical encodings of the key bytes (btcutil, sampled); a JWK is re-marshalled.
   AsIs: a key of a multibase type that was not given as multibase was written with the zero encoding (raw bytes after
   NUL, no text form: the model refuses); fix 1b73692 defaults to base58-btc *)
Definition dec_key (w : variant) (ty : string) (m : obj) : option (string * json) :=
  let b58 := str_entry (lookup m "publicKeyBase58") in
  if negb (b58 =? "") then
    (if mb_type ty then match w with AsIs => None | Fixed => Some ("publicKeyMultibase", JStr (String zchar b58)) end
     else Some ("publicKeyBase58", JStr b58))
  else
  match str_entry (lookup m "publicKeyMultibase") with
  | String c rest =>
      if Ascii.eqb c zchar then
        (if mb_type ty then Some ("publicKeyMultibase", JStr (String c rest)) else Some ("publicKeyBase58", JStr rest))
      else None
  | EmptyString =>
      match lookup m "publicKeyJwk" with Some (JObj jw) => Some ("publicKeyJwk", JObj (jwk_out jw)) | _ => None end
  end.

(* populateVerificationMethod (context v1).  AsIs: the controller of a method with a relative id was overwritten
   (fix 3ac0a2b: only an undeclared one is defaulted) *)
Definition dec_vm (w : variant) (did base : string) (m : obj) : option vmeth :=
  let id := str_entry (lookup m "id") in
  let ctrl := str_entry (lookup m "controller") in
  let ty := str_entry (lookup m "type") in
  match dec_key w ty m with
  | None => None
  | Some k =>
      if starts_hash id then
        let id' := resolve_rel did base id in
        Some {| m_id := id'; m_type := ty;
                m_ctrl := match w with AsIs => before_hash id' | Fixed => if ctrl =? "" then before_hash id' else ctrl end;
                m_rel := true; m_key := k |}
      else Some {| m_id := id; m_type := ty; m_ctrl := ctrl; m_rel := false; m_key := k |}
  end.
Definition vm_id_text (did base : string) (v : vmeth) : string :=
  if m_rel v then make_rel did base (m_id v) else m_id v.
(* populateRawVerificationMethod *)
Definition enc_vm (did base : string) (v : vmeth) : json :=
  JObj [("id", JStr (vm_id_text did base v)); ("type", JStr (m_type v)); ("controller", JStr (m_ctrl v)); m_key v].

Inductive verif := VRef (v : vmeth) | VEmb (v : vmeth).
(* getVerificationsByKeyID *)
Fixpoint find_vm (did base : string) (vms : list vmeth) (k : string) : option vmeth :=
  match vms with
  | [] => None
  | v :: r => if (m_id v =? k) || (m_id v =? resolve_rel did base k) then Some v else find_vm did base r k
  end.
(* getVerification *)
Definition dec_rel (w : variant) (did base : string) (vms : list vmeth) (j : json) : option (list verif) :=
  match j with
  | JStr k => if k =? "" then Some [] else option_map (fun v => [VRef v]) (find_vm did base vms k)
  | JObj m => option_map (fun v => [VEmb v]) (dec_vm w did base m)
  | _ => None
  end.
(* populateRawVerification *)
Definition enc_rel (did base : string) (x : verif) : json :=
  match x with VEmb v => enc_vm did base v | VRef v => JStr (vm_id_text did base v) end.

(* parseContext + ContextCleanup, and contextWithBase on the way out *)
Fixpoint remove_key (k : string) (m : obj) : obj :=
  match m with [] => [] | (k', v) :: r => if k =? k' then remove_key k r else (k', v) :: remove_key k r end.
Fixpoint ctx_scan (l : list json) (base : string) : list json * string :=
  match l with
  | [] => ([], base)
  | JStr s :: r => let '(a, b) := ctx_scan r base in (JStr s :: a, b)
  | JObj m :: r =>
      let base' := match lookup m "@base" with Some (JStr b) => b | _ => base end in
      let m' := remove_key "@base" m in
      let '(a, b) := ctx_scan r base' in
      (match m' with [] => a | _ => JObj (f64o m') :: a end, b)
  | _ :: r => ctx_scan r base
  end.
Definition did_context (o : option json) : option json * string :=
  match o with
  | Some (JStr s) => (Some (JStr s), "")
  | Some (JArr l) =>
      let '(a, b) := ctx_scan l "" in
      let items := a in
      if b =? "" then (Some (match items with [] => JStr "" | _ => JArr items end), b)
      else (Some (JArr (items ++ [JObj [("@base", JStr b)]])), b)
  | _ => (Some (JStr ""), "")
  end.

Definition jlist (o : option json) : list json := match o with Some (JArr l) => l | _ => [] end.
Definition opt_list (k : string) (l : list json) : obj := match l with [] => [] | _ => [(k, JArr l)] end.
Definition rel_names : list string :=
  ["authentication"; "assertionMethod"; "capabilityDelegation"; "capabilityInvocation"; "keyAgreement"].

(* ---------- DID services: populateServices / populateRawServices in full ---------- *)
(* stringArray: nil entries dropped, other non-strings read as "" *)
Definition str_array (o : option json) : list string :=
  match o with
  | Some (JArr l) => flat_map (fun j => match j with JNull => [] | JStr s => [s] | _ => [""] end) l
  | _ => []
  end.
(* populateKeys: every reference resolved to its absolute id; the table remembers, per absolute id, whether the
   LAST reference to it was spelled relative *)
Definition key_table (did base : string) (keys : list string) : list (string * bool) :=
  map (fun v => (abs_id did base v, starts_hash v)) keys.
Definition tbl_get (t : list (string * bool)) (k : string) : bool :=
  fold_left (fun acc e => if fst e =? k then snd e else acc) t false.
Definition out_keys (did base : string) (vals : list string) (t : list (string * bool)) : list string :=
  map (fun v => if tbl_get t v then make_rel did base v else v) vals.

Inductive endp := EV1 (uri : string) | EV2 (uri : string) (accept rk : list string) | ECore (m : obj) | ENone.
Definition dec_endpoint (o : option json) : endp :=
  match o with
  | Some (JStr s) => if s =? "" then ENone else EV1 s
  | Some (JArr (JObj e :: _)) =>
      EV2 (str_entry (lookup e "uri")) (str_array (lookup e "accept")) (str_array (lookup e "routingKeys"))
  | Some (JObj m) => match m with [] => ENone | _ => ECore (f64o m) end
  | _ => ENone
  end.
Definition strs (l : list string) : json := JArr (map JStr l).
Definition enc_endpoint (did base : string) (rt : list (string * bool)) (e : endp) : json :=
  match e with
  | EV1 s => JStr s
  | EV2 uri acc rk =>
      JArr [JObj ([("uri", JStr uri)] ++
                  (match acc with [] => [] | _ => [("accept", strs acc)] end) ++
                  (match rk with [] => [] | _ => [("routingKeys", strs (out_keys did base rk rt))] end))]
  | ECore m => JObj m
  | ENone => JNull
  end.

Definition roundtrip_service (did base : string) (m : obj) : obj :=
  let id := str_entry (lookup m "id") in
  let rks := str_array (lookup m "recipientKeys") in
  let oks := str_array (lookup m "routingKeys") in
  let rt := key_table did base rks in
  let ot := key_table did base oks in
  f64o (filter (fun kv => negb (mem (fst kv) service_typed_keys)) m) ++
  [("id", JStr (if starts_hash id then make_rel did base (resolve_rel did base id) else id));
   ("type", match lookup m "type" with Some t => f64j t | None => JNull end);
   ("serviceEndpoint", enc_endpoint did base ot (dec_endpoint (lookup m "serviceEndpoint")))] ++
  (match lookup m "priority" with Some JNull | None => [] | Some p => [("priority", f64j p)] end) ++
  (match rks with [] => [] | _ => [("recipientKeys", strs (out_keys did base (map (abs_id did base) rks) rt))] end) ++
  (match oks with [] => [] | _ => [("routingKeys", strs (out_keys did base (map (abs_id did base) oks) ot))] end).

(* ---------- the whole DID document ---------- *)
(* a parsed service is represented by what populateRawServices writes for it *)
Record ddoc := {
  d_ctx : option json; d_base : string; d_id : string; d_aka : list json; d_vms : list vmeth;
  d_svcs : list obj; d_rels : list (list verif) (* in the order of rel_names *) }.

Fixpoint rels_parse (w : variant) (did base : string) (vms : list vmeth) (m : obj) (names : list string)
  : option (list (list verif)) :=
  match names with
  | [] => Some []
  | n :: r =>
      match mapM (dec_rel w did base vms) (jlist (lookup m n)), rels_parse w did base vms m r with
      | Some ls, Some rest => Some (List.concat ls :: rest)
      | _, _ => None
      end
  end.
Fixpoint rels_obj (did base : string) (names : list string) (rels : list (list verif)) : obj :=
  match names, rels with
  | n :: r, vs :: rs => opt_list n (map (enc_rel did base) vs) ++ rels_obj did base r rs
  | _, _ => []
  end.

(* ParseDocument (context v1; created / updated / proof not modelled) *)
Definition parse_did (w : variant) (j : json) : option ddoc :=
  match j with
  | JObj m =>
      match dec_str (lookup m "id") with
      | Some did =>
          let '(ctx, base) := did_context (lookup m "@context") in
          match mapM (fun x => match x with JObj vm => dec_vm w did base vm | _ => None end) (jlist (lookup m "verificationMethod")),
                mapM (fun x => match x with JObj sv => Some (roundtrip_service did base sv) | _ => None end) (jlist (lookup m "service")) with
          | Some vms, Some svcs =>
              match rels_parse w did base vms m rel_names with
              | Some rels =>
                  Some {| d_ctx := ctx; d_base := base; d_id := did; d_aka := jlist (lookup m "alsoKnownAs");
                          d_vms := vms; d_svcs := svcs; d_rels := rels |}
              | None => None
              end
          | _, _ => None
          end
      | None => None
      end
  | _ => None
  end.
(* JSONBytes *)
Definition marshal_did (d : ddoc) : json :=
  JObj (opt_member "@context" (d_ctx d) ++ emit_str "id" (d_id d) true ++
        opt_list "alsoKnownAs" (d_aka d) ++
        opt_list "verificationMethod" (map (enc_vm (d_id d) (d_base d)) (d_vms d)) ++
        opt_list "service" (map JObj (d_svcs d)) ++
        rels_obj (d_id d) (d_base d) rel_names (d_rels d)).
Definition roundtrip_did (w : variant) (j : json) : option json := option_map marshal_did (parse_did w j).
