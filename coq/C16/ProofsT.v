(* C16 — proofs for part T: RFC 3339 time texts, base64 at character level, proofs of DID documents,
   EC coordinates of JWKs. *)
From Coq Require Import List String Ascii ZArith NArith Bool Lia ZifyN ZifyNat ZifyBool.
Import ListNotations.
From VF Require Import C16.Model C16.ModelT.
From VF Require common.Base64.
Open Scope string_scope.
Open Scope list_scope.

(* finite checks by enumeration *)
Lemma below_all (k : nat) (f : N -> bool) :
  forallb f (map N.of_nat (seq 0 k)) = true -> forall n, (n < N.of_nat k)%N -> f n = true.
Proof.
  intros H n Hn. rewrite forallb_forall in H. apply H. rewrite in_map_iff. exists (N.to_nat n). split.
  - lia.
  - apply in_seq. lia.
Qed.

(* ---------- digits ---------- *)
Lemma dig_dchr : forall n, (n < 10)%N -> dig (dchr n) = Some n.
Proof.
  intros n Hn.
  pose (f := fun n => match dig (dchr n) with Some m => (m =? n)%N | None => false end).
  assert (H : f n = true) by (apply (below_all 10 f); [vm_compute; reflexivity | exact Hn]).
  unfold f in H. destruct (dig (dchr n)); [|discriminate]. apply N.eqb_eq in H. subst; reflexivity.
Qed.

Lemma take2_put2 : forall n r, (n < 100)%N -> take2 (put2 n r) = Some (n, r).
Proof.
  intros n r Hn. unfold take2, put2.
  rewrite (dig_dchr (n / 10)) by (apply N.div_lt_upper_bound; lia).
  rewrite (dig_dchr (n mod 10)) by (apply N.mod_lt; lia).
  f_equal. f_equal. rewrite (N.div_mod n 10) at 3 by lia. lia.
Qed.

Lemma expect_same : forall c r, expect c (String c r) = Some r.
Proof. intros c r. unfold expect. rewrite Ascii.eqb_refl. reflexivity. Qed.

Definition nondigit_start (r : string) : Prop :=
  match r with EmptyString => True | String c _ => dig c = None end.

Lemma take_digits_put : forall ds r, forallb (fun d => (d <? 10)%N) ds = true -> nondigit_start r ->
  take_digits (put_digits ds r) = (ds, r).
Proof.
  induction ds as [|d t IH]; intros r Hd Hr.
  - simpl. destruct r as [|c r']; [reflexivity|]. simpl in Hr. simpl. rewrite Hr. reflexivity.
  - simpl in Hd. apply andb_true_iff in Hd. destruct Hd as [Hd Ht].
    cbn [put_digits take_digits]. rewrite dig_dchr by lia. rewrite (IH r Ht Hr). reflexivity.
Qed.

Lemma digits_eqb_eq : forall a b, digits_eqb a b = true -> a = b.
Proof.
  induction a as [|x a IH]; destruct b as [|y b]; simpl; intros H; try discriminate; [reflexivity|].
  apply andb_true_iff in H. destruct H as [H1 H2]. apply N.eqb_eq in H1. subst. f_equal. auto.
Qed.

Lemma norm_frac_fixed : forall ds, frac_ok ds = true -> norm_frac ds = ds.
Proof.
  intros ds H. unfold frac_ok in H. apply andb_true_iff in H. destruct H as [H H3].
  apply andb_true_iff in H. destruct H as [H1 _]. apply Nat.leb_le in H1.
  unfold norm_frac. rewrite firstn_all2 by exact H1. apply digits_eqb_eq. exact H3.
Qed.

Lemma put_zone_start : forall z, exists c r, put_zone z = String c r /\ dig c = None /\ Ascii.eqb c dot = false.
Proof.
  intros [[[neg h] m]|].
  - destruct neg; simpl; eexists; eexists; (split; [reflexivity|split; reflexivity]).
  - simpl. eexists; eexists; (split; [reflexivity|split; reflexivity]).
Qed.

Lemma take_frac_put : forall ds z, frac_ok ds = true ->
  take_frac (put_frac ds (put_zone z)) = Some (ds, put_zone z).
Proof.
  intros ds z H. destruct (put_zone_start z) as [c [r [Hz [Hd Hdot]]]].
  destruct ds as [|d t].
  - simpl. rewrite Hz. simpl. rewrite Hdot. reflexivity.
  - unfold put_frac, take_frac. rewrite Ascii.eqb_refl.
    unfold frac_ok in H. apply andb_true_iff in H. destruct H as [H _]. apply andb_true_iff in H. destruct H as [_ H2].
    rewrite take_digits_put; [reflexivity | exact H2 | rewrite Hz; exact Hd].
Qed.

Lemma take_zone_put : forall z, zone_ok z = true -> take_zone (put_zone z) = Some z.
Proof.
  intros [[[neg h] m]|] H; [|reflexivity].
  simpl in H. apply andb_true_iff in H. destruct H as [H H3]. apply andb_true_iff in H. destruct H as [H1 H2].
  apply N.ltb_lt in H1. apply N.ltb_lt in H2.
  assert (Hnz : (h * 60 + m =? 0)%N = false).
  { apply negb_true_iff in H3. apply N.eqb_neq. intro E.
    assert (h = 0%N /\ m = 0%N) as [-> ->] by lia. discriminate. }
  assert (Hq : ((h * 60 + m) / 60 = h)%N).
  { symmetry. apply (N.div_unique (h * 60 + m) 60 h m); lia. }
  assert (Hr : ((h * 60 + m) mod 60 = m)%N).
  { symmetry. apply (N.mod_unique (h * 60 + m) 60 h m); lia. }
  assert (Hc : (h <=? 24)%N && (m <=? 60)%N && (h <? 24)%N = true).
  { rewrite !andb_true_iff. repeat split; [apply N.leb_le | apply N.leb_le | apply N.ltb_lt]; lia. }
  destruct neg; unfold put_zone, take_zone;
    (cbn [Ascii.eqb Bool.eqb orb]; rewrite take2_put2 by lia; cbn [bind snd fst]; rewrite expect_same; cbn [bind];
     rewrite take2_put2 by lia; cbn [bind snd fst]; rewrite Hq, Hr, Hnz, Hc; reflexivity).
Qed.

(* ---------- times ---------- *)
Lemma parse_fmt : forall t, tm_ok t = true -> parse_tm (fmt_tm t) = Some t.
Proof.
  intros t H. pose proof H as Hok. unfold tm_ok in H.
  repeat (apply andb_true_iff in H; let X := fresh "C" in destruct H as [H X]).
  repeat match goal with
         | X : (_ <? _)%N = true |- _ => apply N.ltb_lt in X
         | X : (_ <=? _)%N = true |- _ => apply N.leb_le in X
         end.
  assert (Hd : (t_d t <= 31)%N).
  { match goal with X : (t_d t <= days_in _ _)%N |- _ => unfold days_in in X;
      repeat match type of X with context [if ?c then _ else _] => destruct c end; lia end. }
  assert (Hy1 : (t_y t / 100 < 100)%N) by (apply N.div_lt_upper_bound; lia).
  assert (Hy2 : (t_y t mod 100 < 100)%N) by (apply N.mod_lt; lia).
  unfold parse_tm, fmt_tm.
  rewrite take2_put2 by lia. cbn [bind snd fst]. rewrite take2_put2 by lia. cbn [bind snd fst].
  rewrite expect_same. cbn [bind]. rewrite take2_put2 by lia. cbn [bind snd fst].
  rewrite expect_same. cbn [bind]. rewrite take2_put2 by lia. cbn [bind snd fst].
  rewrite expect_same. cbn [bind]. rewrite take2_put2 by lia. cbn [bind snd fst].
  rewrite expect_same. cbn [bind]. rewrite take2_put2 by lia. cbn [bind snd fst].
  rewrite expect_same. cbn [bind]. rewrite take2_put2 by lia. cbn [bind snd fst].
  rewrite take_frac_put by assumption. cbn [bind snd fst].
  rewrite take_zone_put by assumption. cbn [bind].
  rewrite norm_frac_fixed by assumption.
  replace (t_y t / 100 * 100 + t_y t mod 100)%N with (t_y t) by (rewrite (N.div_mod (t_y t) 100) at 1 by lia; lia).
  clear - Hok. destruct t as [a1 a2 a3 a4 a5 a6 a7 a8]. unfold t_y, t_mo, t_d, t_h, t_mi, t_s, t_frac, t_zone. rewrite Hok. reflexivity.
Qed.

Lemma parse_ok : forall s t, parse_tm s = Some t -> tm_ok t = true.
Proof.
  intros s t H. unfold parse_tm, bind in H.
  repeat match type of H with
         | match ?e with Some _ => _ | None => _ end = _ => destruct e; [|discriminate]
         end.
  match type of H with (if ?c then _ else _) = _ => destruct c eqn:E; [|discriminate] end.
  injection H as <-. exact E.
Qed.

Lemma norm_time_idem : forall s u, norm_time s = Some u -> norm_time u = Some u.
Proof.
  intros s u H. unfold norm_time in *. destruct (parse_tm s) as [t|] eqn:E; [|discriminate].
  injection H as <-. rewrite parse_fmt by (eapply parse_ok; exact E). reflexivity.
Qed.

Lemma dec_tm_again : forall o c, dec_tm o = Some c ->
  dec_tm (option_map (fun x => JStr (fmt_tm x)) c) = Some c.
Proof.
  intros o c H. destruct c as [x|]; [|reflexivity]. simpl.
  destruct o as [[| | |s| |]|]; simpl in H; try discriminate.
  destruct (parse_tm s) eqn:E; [|discriminate]. injection H as ->.
  rewrite parse_fmt by (eapply parse_ok; exact E). reflexivity.
Qed.

(* ---------- base64 at character level ---------- *)
Lemma sext_char : forall s, (s < 64)%N -> sext_of_char true (char_of_sext s) = Some s.
Proof.
  intros n Hn.
  pose (f := fun n => match sext_of_char true (char_of_sext n) with Some m => (m =? n)%N | None => false end).
  assert (H : f n = true) by (apply (below_all 64 f); [vm_compute; reflexivity | exact Hn]).
  unfold f in H. destruct (sext_of_char true (char_of_sext n)); [|discriminate]. apply N.eqb_eq in H. subst; reflexivity.
Qed.

Lemma mapM_sext : forall ss, Forall Base64.sext_ok ss -> mapM (sext_of_char true) (map char_of_sext ss) = Some ss.
Proof.
  induction 1 as [|x l Hx _ IH]; [reflexivity|]. cbn [map mapM]. rewrite sext_char by exact Hx. rewrite IH. reflexivity.
Qed.

Theorem b64url_roundtrip : forall bs, Forall Base64.byte_ok bs -> b64_dec true (b64url_enc bs) = Some bs.
Proof.
  intros bs H. unfold b64_dec, b64url_enc. rewrite list_ascii_of_string_of_list_ascii.
  rewrite mapM_sext by (apply Base64.encode_sext; exact H). apply Base64.decode_encode. exact H.
Qed.

Lemma sext_of_char_ok : forall u c s, sext_of_char u c = Some s -> (s < 64)%N.
Proof.
  intros u c s. unfold sext_of_char.
  repeat match goal with |- context [if ?c then _ else _] => destruct c eqn:? end; intros H; inversion H; subst; lia.
Qed.

Lemma mapM_sext_ok : forall u l ss, mapM (sext_of_char u) l = Some ss -> Forall Base64.sext_ok ss.
Proof.
  induction l as [|c l IH]; intros ss H; simpl in H.
  - injection H as <-. constructor.
  - destruct (sext_of_char u c) eqn:E; [|discriminate]. destruct (mapM (sext_of_char u) l); [|discriminate].
    injection H as <-. constructor; [eapply sext_of_char_ok; exact E | apply IH; reflexivity].
Qed.

Local Ltac Zify.zify_post_hook ::= Z.div_mod_to_equations.
Lemma decode_ok_n : forall n ss bs, (List.length ss <= n)%nat -> Forall Base64.sext_ok ss ->
  Base64.decode false ss = Some bs -> Forall Base64.byte_ok bs.
Proof.
  induction n as [|n IH]; intros ss bs Hl Hs H.
  - destruct ss; [|simpl in Hl; lia]. simpl in H. injection H as <-. constructor.
  - destruct ss as [|w [|x [|y [|z r]]]].
    + simpl in H. injection H as <-. constructor.
    + simpl in H. discriminate.
    + simpl in H. injection H as <-. inversion Hs as [|? ? Hw Hs1]; subst. inversion Hs1 as [|? ? Hx _]; subst.
      unfold Base64.sext_ok, Base64.byte_ok in *. constructor; [lia|constructor].
    + simpl in H. injection H as <-. inversion Hs as [|? ? Hw Hs1]; subst. inversion Hs1 as [|? ? Hx Hs2]; subst.
      inversion Hs2 as [|? ? Hy _]; subst.
      unfold Base64.sext_ok, Base64.byte_ok in *. constructor; [lia|constructor; [lia|constructor]].
    + inversion Hs as [|? ? Hw Hs1]; subst. inversion Hs1 as [|? ? Hx Hs2]; subst.
      inversion Hs2 as [|? ? Hy Hs3]; subst. inversion Hs3 as [|? ? Hz Hr]; subst.
      assert (B : Base64.byte_ok (w * 4 + x / 16) /\ Base64.byte_ok (x mod 16 * 16 + y / 4) /\ Base64.byte_ok (y mod 4 * 64 + z)).
      { unfold Base64.sext_ok, Base64.byte_ok in *. repeat split; lia. }
      destruct B as [B1 [B2 B3]].
      cbn [Base64.decode] in H. destruct r as [|a r'].
      * injection H as <-. repeat constructor; assumption.
      * destruct (Base64.decode false (a :: r')) as [t|] eqn:E; [|discriminate].
        injection H as <-. constructor; [exact B1|constructor; [exact B2|constructor; [exact B3|]]].
        apply (IH (a :: r') t); [simpl in *; lia | exact Hr | exact E].
Qed.

Lemma b64_dec_ok : forall u s bs, b64_dec u s = Some bs -> Forall Base64.byte_ok bs.
Proof.
  intros u s bs H. unfold b64_dec in H. destruct (mapM (sext_of_char u) (list_ascii_of_string s)) as [ss|] eqn:E; [|discriminate].
  eapply decode_ok_n; [apply le_n | eapply mapM_sext_ok; exact E | exact H].
Qed.

Lemma b64_any_ok : forall s bs, b64_any s = Some bs -> Forall Base64.byte_ok bs.
Proof.
  intros s bs H. unfold b64_any in H.
  destruct (b64_dec true s) eqn:E1; [injection H as <-; eapply b64_dec_ok; exact E1|].
  destruct (b64_std_padded s) eqn:E2; [|eapply b64_dec_ok; exact H].
  injection H as <-. unfold b64_std_padded in E2.
  destruct (negb _); [discriminate|].
  destruct (mapM (sext_of_char false) _) as [ss|] eqn:E; [|discriminate].
  eapply decode_ok_n; [apply le_n | eapply mapM_sext_ok; exact E | exact E2].
Qed.

Lemma b64_any_enc : forall bs, Forall Base64.byte_ok bs -> b64_any (b64url_enc bs) = Some bs.
Proof. intros bs H. unfold b64_any. rewrite b64url_roundtrip by exact H. reflexivity. Qed.

(* whatever proof value text is accepted: the text written back is read as the same bytes *)
Lemma b64_any_again : forall s bs, b64_any s = Some bs -> b64_any (b64url_enc bs) = Some bs.
Proof. intros s bs H. apply b64_any_enc. eapply b64_any_ok; exact H. Qed.
Lemma b64_dec_again : forall u s bs, b64_dec u s = Some bs -> b64_dec true (b64url_enc bs) = Some bs.
Proof. intros u s bs H. apply b64url_roundtrip. eapply b64_dec_ok; exact H. Qed.

Lemma b64url_enc_empty : forall bs, b64url_enc bs = "" -> bs = [].
Proof.
  intros bs H. destruct bs as [|a [|b [|c r]]]; [reflexivity| | |]; unfold b64url_enc in H; simpl in H; discriminate.
Qed.

(* ---------- EC coordinates of a JWK ---------- *)
Lemma be_bytes_length : forall n z, List.length (be_bytes n z) = n.
Proof. induction n as [|n IH]; intros z; [reflexivity|]. cbn [be_bytes]. rewrite app_length, IH. simpl. lia. Qed.

Lemma be_bytes_ok : forall n z, Forall Base64.byte_ok (be_bytes n z).
Proof.
  induction n as [|n IH]; intros z; [constructor|]. cbn [be_bytes]. apply Forall_app. split; [apply IH|].
  constructor; [|constructor]. unfold Base64.byte_ok.
  assert (0 <= z mod 256 < 256)%Z by (apply Z.mod_pos_bound; lia). lia.
Qed.

Lemma be_value_app : forall l b, be_value (l ++ [b]) = (be_value l * 256 + Z.of_N b)%Z.
Proof. intros l b. unfold be_value. rewrite fold_left_app. reflexivity. Qed.

Lemma be_value_bytes : forall n z, (0 <= z < 256 ^ Z.of_nat n)%Z -> be_value (be_bytes n z) = z.
Proof.
  induction n as [|n IH]; intros z Hz.
  - simpl in *. unfold be_value. simpl. lia.
  - cbn [be_bytes]. rewrite be_value_app. rewrite IH.
    + rewrite Z2N.id by (apply Z.mod_pos_bound; lia). rewrite (Z.div_mod z 256) at 3 by lia. lia.
    + rewrite Nat2Z.inj_succ, Z.pow_succ_r in Hz by lia. split; [apply Z.div_pos; lia|].
      apply Z.div_lt_upper_bound; lia.
Qed.

Theorem jwk_ec_roundtrip_l : forall size x y,
  (0 <= x < 256 ^ Z.of_nat size)%Z -> (0 <= y < 256 ^ Z.of_nat size)%Z ->
  jwk_ec_read size (fst (jwk_ec_members size x y)) (snd (jwk_ec_members size x y)) = Some (x, y).
Proof.
  intros size x y Hx Hy. unfold jwk_ec_read, jwk_ec_members. cbn [fst snd].
  rewrite !b64url_roundtrip by apply be_bytes_ok. rewrite !be_bytes_length, Nat.eqb_refl. cbn [andb].
  rewrite !be_value_bytes by assumption. reflexivity.
Qed.
