(* C16 — executable model, part J (wave 5): which strings are compact JWS, decided by the model itself.  NO proofs here.
     jwt.IsJWS: three dot-separated parts, the first two base64url (raw) texts of JSON objects, the third not empty
     the _sd_alg of a JWT credential: the member of its vc claim that rawCredential.SDJWTHashAlg is decoded from
   The JSON reader below is a recogniser that also returns the tree: strings and member names exactly (ASCII; an
   escaped code point above 127 is read as '?'), integers exactly, every other number as 0 (the recogniser never looks
   at numbers), number syntax is not validated beyond its character set. *)
From Coq Require Import List String Ascii ZArith NArith Bool.
Import ListNotations.
From VF Require Export C16.Model C16.ModelT.
Open Scope string_scope.
Open Scope list_scope.

Definition is_ws (b : N) : bool := (b =? 32)%N || (b =? 9)%N || (b =? 10)%N || (b =? 13)%N.
Fixpoint skip_ws (l : list N) : list N :=
  match l with b :: r => if is_ws b then skip_ws r else l | [] => [] end.

Definition hexv (b : N) : option N :=
  if (48 <=? b)%N && (b <=? 57)%N then Some (b - 48)%N
  else if (97 <=? b)%N && (b <=? 102)%N then Some (b - 87)%N
  else if (65 <=? b)%N && (b <=? 70)%N then Some (b - 55)%N else None.
Definition esc_char (e : N) : option ascii :=
  if (e =? 34)%N then Some """"%char else if (e =? 92)%N then Some "\"%char else if (e =? 47)%N then Some "/"%char
  else if (e =? 98)%N then Some (ascii_of_N 8) else if (e =? 102)%N then Some (ascii_of_N 12)
  else if (e =? 110)%N then Some (ascii_of_N 10) else if (e =? 114)%N then Some (ascii_of_N 13)
  else if (e =? 116)%N then Some (ascii_of_N 9) else None.
Definition cons_to {A} (c : ascii) (o : option (string * A)) : option (string * A) :=
  match o with Some (s, r) => Some (String c s, r) | None => None end.

(* after the opening quote: the text and what follows the closing quote *)
Fixpoint p_str (l : list N) : option (string * list N) :=
  match l with
  | [] => None
  | b :: r =>
      if (b =? 34)%N then Some (EmptyString, r)
      else if (b =? 92)%N then
        match r with
        | e :: r1 =>
            if (e =? 117)%N then
              match r1 with
              | h1 :: h2 :: h3 :: h4 :: r2 =>
                  match hexv h1, hexv h2, hexv h3, hexv h4 with
                  | Some a, Some b', Some c, Some d =>
                      let v := (((a * 16 + b') * 16 + c) * 16 + d)%N in
                      cons_to (if (v <? 128)%N then ascii_of_N v else "?"%char) (p_str r2)
                  | _, _, _, _ => None
                  end
              | _ => None
              end
            else match esc_char e with Some c => cons_to c (p_str r1) | None => None end
        | [] => None
        end
      else if (b <? 32)%N then None
      else cons_to (ascii_of_N b) (p_str r)
  end.

Definition num_char (b : N) : bool :=
  ((48 <=? b)%N && (b <=? 57)%N) || (b =? 45)%N || (b =? 43)%N || (b =? 46)%N || (b =? 101)%N || (b =? 69)%N.
Fixpoint take_num (l : list N) : list N * list N :=
  match l with
  | b :: r => if num_char b then let '(a, t) := take_num r in (b :: a, t) else ([], l)
  | [] => ([], [])
  end.
Definition all_digits (l : list N) : bool :=
  match l with [] => false | _ => forallb (fun b => (48 <=? b)%N && (b <=? 57)%N) l end.
Definition digits_val (l : list N) : Z := fold_left (fun a b => (a * 10 + Z.of_N (b - 48))%Z) l 0%Z.
Definition num_of (l : list N) : option json :=
  match l with
  | [] => None
  | b :: r =>
      if (b =? 45)%N then (match r with [] => None | _ => Some (JNum (if all_digits r then (- digits_val r)%Z else 0%Z)) end)
      else if (48 <=? b)%N && (b <=? 57)%N then Some (JNum (if all_digits l then digits_val l else 0%Z))
      else None
  end.

Fixpoint starts_with (p l : list N) : option (list N) :=
  match p, l with
  | [], _ => Some l
  | a :: p', b :: l' => if (a =? b)%N then starts_with p' l' else None
  | _, [] => None
  end.

Fixpoint p_val (fuel : nat) (l : list N) : option (json * list N) :=
  match fuel with
  | O => None
  | S f =>
      match skip_ws l with
      | [] => None
      | b :: r =>
          if (b =? 34)%N then (match p_str r with Some (s, r') => Some (JStr s, r') | None => None end)
          else if (b =? 123)%N then
            match skip_ws r with
            | [] => None
            | c0 :: r0 =>
                if (c0 =? 125)%N then Some (JObj [], r0) else
                (fix members (n : nat) (l : list N) (acc : list (string * json)) {struct n} : option (json * list N) :=
                   match n with
                   | O => None
                   | S n' =>
                       match skip_ws l with
                       | q :: r1 =>
                           if negb (q =? 34)%N then None else
                           match p_str r1 with
                           | Some (k, r2) =>
                               match skip_ws r2 with
                               | c :: r3 =>
                                   if negb (c =? 58)%N then None else
                                   match p_val f r3 with
                                   | Some (v, r4) =>
                                       match skip_ws r4 with
                                       | d :: r5 =>
                                           if (d =? 44)%N then members n' r5 (acc ++ [(k, v)])
                                           else if (d =? 125)%N then Some (JObj (acc ++ [(k, v)]), r5) else None
                                       | [] => None
                                       end
                                   | None => None
                                   end
                               | [] => None
                               end
                           | None => None
                           end
                       | [] => None
                       end
                   end) f r []
            end
          else if (b =? 91)%N then
            match skip_ws r with
            | [] => None
            | c0 :: r0 =>
                if (c0 =? 93)%N then Some (JArr [], r0) else
                (fix elems (n : nat) (l : list N) (acc : list json) {struct n} : option (json * list N) :=
                   match n with
                   | O => None
                   | S n' =>
                       match p_val f l with
                       | Some (v, r4) =>
                           match skip_ws r4 with
                           | d :: r5 =>
                               if (d =? 44)%N then elems n' r5 (acc ++ [v])
                               else if (d =? 93)%N then Some (JArr (acc ++ [v]), r5) else None
                           | [] => None
                           end
                       | None => None
                       end
                   end) f r []
            end
          else match starts_with [116; 114; 117; 101]%N (b :: r) with
               | Some t => Some (JBool true, t)
               | None =>
               match starts_with [102; 97; 108; 115; 101]%N (b :: r) with
               | Some t => Some (JBool false, t)
               | None =>
               match starts_with [110; 117; 108; 108]%N (b :: r) with
               | Some t => Some (JNull, t)
               | None => let '(a, t) := take_num (b :: r) in
                         match num_of a with Some j => Some (j, t) | None => None end
               end end end
      end
  end.

(* json.Unmarshal(bytes, &map[string]interface{}) succeeds: the bytes are one JSON object *)
Definition parse_json_obj (bs : list N) : option obj :=
  match p_val (S (List.length bs)) bs with
  | Some (JObj m, rest) => match skip_ws rest with [] => Some m | _ => None end
  | _ => None
  end.

Definition dotc : ascii := "."%char.
Fixpoint split_dot (s : string) : list string :=
  match s with
  | EmptyString => [EmptyString]
  | String c r =>
      if Ascii.eqb c dotc then EmptyString :: split_dot r
      else match split_dot r with
           | p :: ps => String c p :: ps
           | [] => [String c EmptyString]
           end
  end.

(* jwt.IsJWS; the payload object when it is one *)
Definition jws_payload (s : string) : option obj :=
  match split_dot s with
  | [h; p; sg] =>
      if sg =? "" then None else
      match b64_dec true h, b64_dec true p with
      | Some hb, Some pb =>
          match parse_json_obj hb, parse_json_obj pb with
          | Some _, Some m => Some m
          | _, _ => None
          end
      | _, _ => None
      end
  | _ => None
  end.
(* the hash algorithm of an SD-JWT credential: _sd_alg of the vc claim (decoded into rawCredential.SDJWTHashAlg) *)
Definition jws_sd (payload : obj) : bool :=
  match lookup payload "vc" with
  | Some (JObj vc) => match dec_str (lk vc "_sd_alg") with Some s => negb (s =? "") | None => false end
  | _ => false
  end.

(* every compact JWS among the ~-separated parts of the strings of a verifiableCredential member *)
Definition jws_of_string (s : string) : list (string * bool) :=
  flat_map (fun p => match jws_payload p with Some m => [(p, jws_sd m)] | None => [] end) (split_tilde s).
Definition jws_env_of (o : option json) : list (string * bool) :=
  match o with
  | Some (JStr s) => jws_of_string s
  | Some (JArr l) => flat_map (fun j => match j with JStr s => jws_of_string s | _ => [] end) l
  | _ => []
  end.
Definition model_env (j : json) : list (string * bool) :=
  match j with JObj m => jws_env_of (lk m "verifiableCredential") | _ => [] end.
(* ParsePresentation -> MarshalJSON with the model recognising the JWS itself *)
Definition roundtrip_vp_self (w : variant) (j : json) : option json := roundtrip_vp w (model_env j) j.
