(* C16 — lemmas: float64 rounding of integers is idempotent *)
From Coq Require Import ZArith Lia Bool.
From VF Require Import C16.Model.
Open Scope Z_scope.

Lemma rne_exact : forall r d, 0 < d -> 0 <= r -> rne (r * d) d = r.
Proof.
  intros r d Hd Hr. unfold rne. rewrite Z.div_mul by lia. rewrite Z.mod_mul by lia.
  destruct (Z.ltb_spec (2 * 0) d); [reflexivity|lia].
Qed.

Lemma rne_range : forall n d, 0 < d -> 0 <= n -> n / d <= rne n d <= n / d + 1.
Proof.
  intros n d Hd Hn. unfold rne.
  destruct (2 * (n mod d) <? d); [lia|]. destruct (d <? 2 * (n mod d)); [lia|]. destruct (Z.even (n / d)); lia.
Qed.

Lemma f64abs_idem : forall a, 0 <= a -> f64abs (f64abs a) = f64abs a.
Proof.
  intros a Ha. unfold f64abs at 2 3. destruct (Z.leb_spec a two53) as [Hs|Hb].
  - unfold f64abs. destruct (Z.leb_spec a two53); [reflexivity|lia].
  - unfold two53 in *.
    assert (HL: 53 <= Z.log2 a) by (apply Z.log2_le_pow2; lia).
    set (e := Z.log2 a - 52). assert (He: 1 <= e) by (unfold e; lia).
    assert (Hd: 0 < 2 ^ e) by (apply Z.pow_pos_nonneg; lia).
    destruct (Z.log2_spec a ltac:(lia)) as [Hlo Hhi].
    replace (Z.log2 a) with (e + 52) in Hlo by (unfold e; lia).
    replace (Z.succ (Z.log2 a)) with (e + 53) in Hhi by (unfold e; lia).
    rewrite Z.pow_add_r in Hlo, Hhi by lia.
    assert (Hq1: 2 ^ 52 <= a / 2 ^ e) by (apply Z.div_le_lower_bound; lia).
    assert (Hq2: a / 2 ^ e < 2 ^ 53) by (apply Z.div_lt_upper_bound; lia).
    pose proof (rne_range a (2 ^ e) Hd Ha) as Hr.
    set (r := rne a (2 ^ e)) in *.
    assert (Hr1: 2 ^ 52 <= r <= 2 ^ 53) by lia.
    unfold f64abs. destruct (Z.leb_spec (r * 2 ^ e) two53) as [|Hbig]; [reflexivity|]. unfold two53 in Hbig.
    assert (Hrpos: 0 < r) by lia.
    destruct (Z.eq_dec r (2 ^ 53)) as [Heq|Hne].
    + rewrite Heq. rewrite <- Z.pow_add_r by lia.
      rewrite Z.log2_pow2 by lia.
      replace (53 + e - 52) with (e + 1) by lia.
      replace (2 ^ (53 + e)) with (2 ^ 52 * 2 ^ (e + 1)) by (rewrite <- Z.pow_add_r by lia; f_equal; lia).
      rewrite rne_exact; [reflexivity| apply Z.pow_pos_nonneg; lia | lia].
    + assert (Hlr: Z.log2 r = 52) by (apply Z.log2_unique; lia).
      rewrite Z.log2_mul_pow2 by lia. rewrite Hlr.
      try replace (52 + e - 52) with e by lia. try replace (e + 52 - 52) with e by lia.
      rewrite rne_exact by lia. reflexivity.
Qed.

Lemma f64abs_nonneg : forall a, 0 <= a -> 0 <= f64abs a.
Proof.
  intros a Ha. unfold f64abs. destruct (Z.leb_spec a two53) as [|Hb]; [lia|]. unfold two53 in Hb.
  assert (HL: 53 <= Z.log2 a) by (apply Z.log2_le_pow2; lia).
  assert (Hd: 0 < 2 ^ (Z.log2 a - 52)) by (apply Z.pow_pos_nonneg; lia).
  pose proof (rne_range a _ Hd Ha) as Hr.
  assert (0 <= a / 2 ^ (Z.log2 a - 52)) by (apply Z.div_pos; lia).
  apply Z.mul_nonneg_nonneg; lia.
Qed.

Lemma f64abs_zero : f64abs 0 = 0.
Proof. reflexivity. Qed.

Lemma f64round_idem : forall z, f64round (f64round z) = f64round z.
Proof.
  intros z. unfold f64round at 2 3. destruct (Z.ltb_spec z 0) as [Hn|Hp].
  - pose proof (f64abs_nonneg (- z) ltac:(lia)) as H0.
    unfold f64round. destruct (Z.ltb_spec (- f64abs (- z)) 0).
    + rewrite Z.opp_involutive. rewrite f64abs_idem by lia. reflexivity.
    + assert (Hz: f64abs (- z) = 0) by lia. rewrite Hz. reflexivity.
  - pose proof (f64abs_nonneg z Hp) as H0.
    unfold f64round. destruct (Z.ltb_spec (f64abs z) 0); [lia|]. apply f64abs_idem. exact Hp.
Qed.
