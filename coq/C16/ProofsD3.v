(* C16 — lemmas: re-parse equality of DID documents *)
From Coq Require Import List String Ascii ZArith NArith Bool Lia.
Import ListNotations.
From VF Require Import C16.Model C16.Proofs C16.ProofsF C16.ProofsB1 C16.ProofsB2 C16.ProofsB3 C16.ProofsB4 C16.ProofsA C16.ProofsS C16.ProofsD1 C16.ProofsD2.
Open Scope string_scope.
Open Scope list_scope.

Definition opt_arr (l : list json) : option json := match l with [] => None | _ => Some (JArr l) end.
Lemma opt_list_member : forall k l, opt_list k l = opt_member k (opt_arr l).
Proof. intros k [|a r]; reflexivity. Qed.
Lemma jlist_opt_arr : forall l, jlist (opt_arr l) = l.
Proof. intros [|a r]; reflexivity. Qed.

(* provenance of the parts of a parsed document *)
Definition vm_prov (did base : string) (v : vmeth) : Prop := exists mm, dec_vm Fixed did base mm = Some v.
Definition rel_prov (did base : string) (vms : list vmeth) (x : verif) : Prop :=
  match x with VEmb v => vm_prov did base v | VRef v => In v vms end.

Lemma mapM_in : forall {A} (dec : json -> option A) l ts, mapM dec l = Some ts -> forall t, In t ts -> exists x, In x l /\ dec x = Some t.
Proof.
  intros A dec. induction l as [|x r IH]; intros ts H t Ht; cbn in H.
  - inversion H; subst. destruct Ht.
  - destruct (dec x) as [y|] eqn:E; [|discriminate]. destruct (mapM dec r) as [tr|] eqn:Em; [|discriminate]. inversion H; subst.
    destruct Ht as [Ht|Ht]; [subst; exists x; split; [left; reflexivity|exact E]|].
    destruct (IH _ eq_refl _ Ht) as [x' [Hi Hd]]. exists x'. split; [right; exact Hi|exact Hd].
Qed.

Lemma dec_rel_prov : forall did base vms j l, dec_rel Fixed did base vms j = Some l -> Forall (rel_prov did base vms) l.
Proof.
  intros did base vms j l H. destruct j; cbn [dec_rel] in H; try discriminate.
  - destruct (s =? ""); [inversion H; constructor|].
    destruct (find_vm did base vms s) as [v|] eqn:E; cbn in H; inversion H; subst.
    constructor; [apply (find_vm_sound _ _ _ _ _ E)|constructor].
  - destruct (dec_vm Fixed did base m) as [v|] eqn:E; cbn in H; inversion H; subst.
    constructor; [exists m; exact E|constructor].
Qed.

Lemma mapM_rel_prov : forall did base vms l ls,
  mapM (dec_rel Fixed did base vms) l = Some ls -> Forall (rel_prov did base vms) (List.concat ls).
Proof.
  induction l as [|x r IH]; intros ls H; cbn in H.
  - inversion H. constructor.
  - destruct (dec_rel Fixed did base vms x) as [y|] eqn:E; [|discriminate].
    destruct (mapM (dec_rel Fixed did base vms) r) as [tr|] eqn:Em; [|discriminate]. inversion H; subst. cbn.
    apply Forall_app. split; [apply (dec_rel_prov _ _ _ _ _ E)|apply IH; reflexivity].
Qed.

(* what the relationship entries re-parse to *)
Definition rel_guard (did base : string) (x : verif) : Prop :=
  match x with VEmb v => key_nonempty v = true | VRef v => m_id v <> "" end.

Lemma vm_text_nonempty : forall did base v, abs_id did base (vm_id_text did base v) = m_id v -> m_id v <> "" -> vm_id_text did base v <> "".
Proof.
  intros did base v Ha Hn He. rewrite He in Ha. cbn in Ha. congruence.
Qed.

Lemma rel_list_reparse : forall did base vms vs,
  ids_ok did base vms -> Forall (rel_prov did base vms) vs -> Forall (rel_guard did base) vs ->
  mapM (dec_rel Fixed did base vms) (map (enc_rel did base) vs) = Some (map (fun x => [x]) vs).
Proof.
  intros did base vms vs Hids Hp Hg. induction vs as [|x r IH]; [reflexivity|].
  inversion Hp as [|? ? Hpx Hpr]; inversion Hg as [|? ? Hgx Hgr]; subst. cbn [map mapM]. rewrite (IH Hpr Hgr).
  destruct x as [v|v]; cbn [rel_prov rel_guard] in *.
  - (* reference *) cbn [enc_rel dec_rel]. destruct Hids as [Hn [Hpp Ha]].
    pose proof (vm_text_nonempty did base v (Ha v Hpx) Hgx) as Ht. apply String.eqb_neq in Ht. rewrite Ht.
    rewrite (find_vm_self did base vms v (conj Hn (conj Hpp Ha)) Hpx). reflexivity.
  - (* embedded *) destruct Hpx as [mm Hd].
    assert (Hr: dec_rel Fixed did base vms (JObj mm) = Some [VEmb v]) by (cbn [dec_rel]; rewrite Hd; reflexivity).
    rewrite (rel_embedded_reparse _ _ _ _ _ Hr Hgx). reflexivity.
Qed.

Lemma concat_singletons : forall {A} (l : list A), List.concat (map (fun x => [x]) l) = l.
Proof. induction l as [|a r IH]; cbn; [reflexivity|]. rewrite IH. reflexivity. Qed.

(* ---------- the document as entries ---------- *)
Definition rel_entry (did base : string) (vs : list verif) : option json := opt_arr (map (enc_rel did base) vs).
Definition did_entries (d : ddoc) : list (string * option json) :=
  [("@context", d_ctx d); ("id", opt_str (d_id d)); ("alsoKnownAs", opt_arr (d_aka d));
   ("verificationMethod", opt_arr (map (enc_vm (d_id d) (d_base d)) (d_vms d)));
   ("service", opt_arr (map JObj (d_svcs d)));
   ("authentication", rel_entry (d_id d) (d_base d) (nth 0 (d_rels d) []));
   ("assertionMethod", rel_entry (d_id d) (d_base d) (nth 1 (d_rels d) []));
   ("capabilityDelegation", rel_entry (d_id d) (d_base d) (nth 2 (d_rels d) []));
   ("capabilityInvocation", rel_entry (d_id d) (d_base d) (nth 3 (d_rels d) []));
   ("keyAgreement", rel_entry (d_id d) (d_base d) (nth 4 (d_rels d) []))].

Lemma marshal_did_entries : forall d, List.length (d_rels d) = 5%nat ->
  marshal_did d = JObj (entries_obj (did_entries d)).
Proof.
  intros d Hl. unfold marshal_did, did_entries, entries_obj, piece, rel_entry, opt_str, emit_str.
  destruct (d_rels d) as [|r1 [|r2 [|r3 [|r4 [|r5 [|r6 rr]]]]]]; try discriminate.
  cbn [flat_map fst snd nth rels_obj rel_names andb]. rewrite !opt_list_member.
  destruct (d_id d =? ""); cbn [app]; rewrite ?app_nil_r; reflexivity.
Qed.

Lemma did_names_nodup : forall d, NoDup (map fst (did_entries d)).
Proof. intros. cbn. repeat (constructor; [cbn; intuition discriminate|]). constructor. Qed.

(* ---------- the guard and the theorem ---------- *)
Definition did_guard (j : json) (d : ddoc) : Prop :=
  NoDup (map m_id (d_vms d)) /\
  (forall x y, In x (d_vms d) -> In y (d_vms d) -> m_id x = (id_base (d_id d) (d_base d) ++ m_id y)%string -> x = y) /\
  Forall (fun v => key_nonempty v = true /\ m_id v <> "") (d_vms d) /\
  Forall (Forall (rel_guard (d_id d) (d_base d))) (d_rels d) /\
  match j with
  | JObj m => Forall (fun x => match x with JObj sv => svc_in_ok (d_id d) (d_base d) sv | _ => True end) (jlist (lookup m "service"))
  | _ => True
  end.

Lemma vms_reparse : forall did base l vms,
  mapM (fun x => match x with JObj vm => dec_vm Fixed did base vm | _ => None end) l = Some vms ->
  Forall (fun v => key_nonempty v = true /\ m_id v <> "") vms ->
  mapM (fun x => match x with JObj vm => dec_vm Fixed did base vm | _ => None end) (map (enc_vm did base) vms) = Some vms /\
  (forall x, In x vms -> abs_id did base (vm_id_text did base x) = m_id x).
Proof.
  induction l as [|x r IH]; intros vms H Hg; cbn in H.
  - inversion H; subst. split; [reflexivity|intros ? []].
  - destruct x; try discriminate. destruct (dec_vm Fixed did base m) as [v|] eqn:E; [|discriminate].
    destruct (mapM _ r) as [tr|] eqn:Em; [|discriminate]. inversion H; subst. inversion Hg as [|? ? [Hk _] Hr]; subst.
    destruct (IH _ eq_refl Hr) as [I1 I2]. split.
    + cbn [map mapM]. pose proof (vm_reparse _ _ _ _ E Hk) as R. unfold enc_vm in *. rewrite R, I1. reflexivity.
    + intros y [Hy|Hy]; [subst; apply (abs_id_text _ _ _ _ _ E)|apply I2; exact Hy].
Qed.

Lemma svcs_reparse : forall did base l svcs,
  mapM (fun x => match x with JObj sv => Some (roundtrip_service did base sv) | _ => None end) l = Some svcs ->
  Forall (fun x => match x with JObj sv => svc_in_ok did base sv | _ => True end) l ->
  mapM (fun x => match x with JObj sv => Some (roundtrip_service did base sv) | _ => None end) (map JObj svcs) = Some svcs.
Proof.
  induction l as [|x r IH]; intros svcs H Hg; cbn in H.
  - inversion H. reflexivity.
  - destruct x; try discriminate. destruct (mapM _ r) as [tr|] eqn:Em; [|discriminate]. inversion H; subst.
    inversion Hg as [|? ? Hx Hr]; subst. cbn [map mapM]. rewrite (service_stable _ _ _ Hx), (IH _ eq_refl Hr). reflexivity.
Qed.

Theorem did_reparse : forall j d,
  parse_did Fixed j = Some d -> did_guard j d -> parse_did Fixed (marshal_did d) = Some d.
Proof.
  intros j d H G. destruct j as [| | | | |m]; try discriminate. cbn [parse_did] in H.
  destruct (dec_str (lookup m "id")) as [did|] eqn:Eid; [|discriminate].
  destruct (did_context (lookup m "@context")) as [ctx base] eqn:Ectx.
  destruct (mapM (fun x => match x with JObj vm => dec_vm Fixed did base vm | _ => None end) (jlist (lookup m "verificationMethod"))) as [vms|] eqn:Evm; [|discriminate].
  destruct (mapM (fun x => match x with JObj sv => Some (roundtrip_service did base sv) | _ => None end) (jlist (lookup m "service"))) as [svcs|] eqn:Esv; [|discriminate].
  cbn [rels_parse rel_names] in H.
  destruct (mapM (dec_rel Fixed did base vms) (jlist (lookup m "authentication"))) as [l1|] eqn:E1; [|discriminate].
  destruct (mapM (dec_rel Fixed did base vms) (jlist (lookup m "assertionMethod"))) as [l2|] eqn:E2; [|discriminate].
  destruct (mapM (dec_rel Fixed did base vms) (jlist (lookup m "capabilityDelegation"))) as [l3|] eqn:E3; [|discriminate].
  destruct (mapM (dec_rel Fixed did base vms) (jlist (lookup m "capabilityInvocation"))) as [l4|] eqn:E4; [|discriminate].
  destruct (mapM (dec_rel Fixed did base vms) (jlist (lookup m "keyAgreement"))) as [l5|] eqn:E5; [|discriminate].
  injection H as H. subst d. unfold did_guard in G. cbn [d_vms d_id d_base d_rels] in G.
  destruct G as [Gn [Gp [Gk [Gr Gs]]]].
  set (D := {| d_ctx := ctx; d_base := base; d_id := did; d_aka := jlist (lookup m "alsoKnownAs"); d_vms := vms; d_svcs := svcs;
               d_rels := [List.concat l1; List.concat l2; List.concat l3; List.concat l4; List.concat l5] |}).
  rewrite (marshal_did_entries D eq_refl).
  pose proof (did_names_nodup D) as Hnd.
  cbn [parse_did].
  rewrite !(lookup_entries _ _ Hnd).
  change (assoc_e (did_entries D) "id") with (opt_str did).
  change (assoc_e (did_entries D) "@context") with ctx.
  change (assoc_e (did_entries D) "verificationMethod") with (opt_arr (map (enc_vm did base) vms)).
  change (assoc_e (did_entries D) "service") with (opt_arr (map JObj svcs)).
  change (assoc_e (did_entries D) "alsoKnownAs") with (opt_arr (jlist (lookup m "alsoKnownAs"))).
  assert (Hid: dec_str (opt_str did) = Some did).
  { unfold opt_str. destruct (did =? "") eqn:E; [apply String.eqb_eq in E; subst|]; reflexivity. }
  rewrite Hid, (ctx_reparse _ _ _ Ectx), !jlist_opt_arr.
  destruct (vms_reparse _ _ _ _ Evm Gk) as [Rvm Habs]. rewrite Rvm, (svcs_reparse _ _ _ _ Esv Gs).
  assert (Hids: ids_ok did base vms) by (repeat split; assumption).
  assert (Gm: Forall (fun v => m_id v <> "") vms) by (eapply Forall_impl; [|exact Gk]; intros a [_ Ha]; exact Ha).
  cbn [rels_parse rel_names]. rewrite !(lookup_entries _ _ Hnd).
  change (assoc_e (did_entries D) "authentication") with (rel_entry did base (List.concat l1)).
  change (assoc_e (did_entries D) "assertionMethod") with (rel_entry did base (List.concat l2)).
  change (assoc_e (did_entries D) "capabilityDelegation") with (rel_entry did base (List.concat l3)).
  change (assoc_e (did_entries D) "capabilityInvocation") with (rel_entry did base (List.concat l4)).
  change (assoc_e (did_entries D) "keyAgreement") with (rel_entry did base (List.concat l5)).
  unfold rel_entry. rewrite !jlist_opt_arr.
  inversion Gr as [|? ? G1 Gr1]; subst. inversion Gr1 as [|? ? G2 Gr2]; subst. inversion Gr2 as [|? ? G3 Gr3]; subst.
  inversion Gr3 as [|? ? G4 Gr4]; subst. inversion Gr4 as [|? ? G5 Gr5]; subst.
  rewrite (rel_list_reparse _ _ _ _ Hids (mapM_rel_prov _ _ _ _ _ E1) G1).
  rewrite (rel_list_reparse _ _ _ _ Hids (mapM_rel_prov _ _ _ _ _ E2) G2).
  rewrite (rel_list_reparse _ _ _ _ Hids (mapM_rel_prov _ _ _ _ _ E3) G3).
  rewrite (rel_list_reparse _ _ _ _ Hids (mapM_rel_prov _ _ _ _ _ E4) G4).
  rewrite (rel_list_reparse _ _ _ _ Hids (mapM_rel_prov _ _ _ _ _ E5) G5).
  rewrite !concat_singletons. reflexivity.
Qed.
