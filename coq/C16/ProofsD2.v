(* C16 — lemmas: a DID service is written so that it parses to the same service *)
From Coq Require Import List String Ascii ZArith NArith Bool Lia.
Import ListNotations.
From VF Require Import C16.Model C16.Proofs C16.ProofsF C16.ProofsB1 C16.ProofsB2 C16.ProofsB3 C16.ProofsB4 C16.ProofsA C16.ProofsS.
Open Scope string_scope.
Open Scope list_scope.

(* ---------- a service is written so that it parses to the same service ---------- *)
Definition svc_props (m : obj) : obj := f64o (filter (fun kv => negb (mem (fst kv) service_typed_keys)) m).
Definition svc_rks (m : obj) := str_array (lookup m "recipientKeys").
Definition svc_oks (m : obj) := str_array (lookup m "routingKeys").
Definition svc_erk (m : obj) : list string :=
  match dec_endpoint (lookup m "serviceEndpoint") with EV2 _ _ rk => rk | _ => [] end.

(* key lists spell every key one way; routing keys inside a DIDComm V2 entry are not re-spelled by the service-level table *)
Definition svc_in_ok (did base : string) (m : obj) : Prop :=
  consistent did base (svc_rks m) /\ consistent did base (svc_oks m) /\
  (forall v, In v (svc_erk m) -> tbl_get (key_table did base (svc_oks m)) v = false).

Definition opt_strs (l : list string) : option json := match l with [] => None | _ => Some (strs l) end.
Definition svc_entries (did base : string) (m : obj) : list (string * option json) :=
  [("id", Some (JStr (str_entry (lookup m "id"))));
   ("type", Some (match lookup m "type" with Some t => f64j t | None => JNull end));
   ("serviceEndpoint", Some (enc_endpoint did base (key_table did base (svc_oks m)) (dec_endpoint (lookup m "serviceEndpoint"))));
   ("priority", match lookup m "priority" with Some JNull | None => None | Some p => Some (f64j p) end);
   ("recipientKeys", opt_strs (svc_rks m));
   ("routingKeys", opt_strs (svc_oks m))].

Lemma rs_entries : forall did base m, svc_in_ok did base m ->
  roundtrip_service did base m = svc_props m ++ entries_obj (svc_entries did base m).
Proof.
  intros did base m [H1 [H2 H3]]. unfold roundtrip_service, svc_entries, entries_obj, piece. cbn [flat_map fst snd opt_member].
  fold (svc_props m). fold (svc_rks m). fold (svc_oks m).
  rewrite (key_refs_roundtrip _ _ _ H1), (key_refs_roundtrip _ _ _ H2).
  f_equal.
  assert (Hid: (if starts_hash (str_entry (lookup m "id")) then make_rel did base (resolve_rel did base (str_entry (lookup m "id"))) else str_entry (lookup m "id")) = str_entry (lookup m "id")).
  { destruct (starts_hash _); [apply make_rel_resolve|reflexivity]. }
  rewrite Hid. cbn [app].
  destruct (lookup m "priority") as [[]|]; destruct (svc_rks m); destruct (svc_oks m); cbn [app opt_strs opt_member]; reflexivity.
Qed.

Lemma str_array_strs : forall l, str_array (Some (strs l)) = l.
Proof. unfold strs. induction l as [|a r IH]; cbn in *; [reflexivity|]. rewrite IH. reflexivity. Qed.

Lemma str_array_opt : forall l, str_array (opt_strs l) = l.
Proof. intros [|a r]; [reflexivity|]. apply (str_array_strs (a :: r)). Qed.

Lemma out_keys_unflagged : forall did base l t, (forall v, In v l -> tbl_get t v = false) -> out_keys did base l t = l.
Proof.
  intros did base l t H. unfold out_keys. rewrite <- (map_id l) at 2. apply map_ext_in. intros v Hv. rewrite (H v Hv). reflexivity.
Qed.

Lemma endpoint_reparse : forall did base t o,
  (forall v, In v (match dec_endpoint o with EV2 _ _ rk => rk | _ => [] end) -> tbl_get t v = false) ->
  dec_endpoint (Some (enc_endpoint did base t (dec_endpoint o))) = dec_endpoint o.
Proof.
  intros did base t o H. destruct o as [j|]; [|reflexivity].
  destruct j as [| b | z | s | l | m]; try reflexivity.
  - (* string *) cbn [dec_endpoint]. destruct (s =? "") eqn:E; [reflexivity|]. cbn [enc_endpoint dec_endpoint]. rewrite E. reflexivity.
  - (* array *) destruct l as [|x r]; [reflexivity|]. destruct x; try reflexivity.
    cbn [dec_endpoint] in *. cbn [enc_endpoint]. rewrite (out_keys_unflagged _ _ _ _ H).
    set (acc := str_array (lookup m "accept")). set (rk := str_array (lookup m "routingKeys")).
    destruct acc as [|a0 ar] eqn:Ea; destruct rk as [|r0 rr] eqn:Er; cbn [app dec_endpoint lookup String.eqb Ascii.eqb Bool.eqb str_entry];
      cbn -[str_array strs]; rewrite ?str_array_strs; reflexivity.
  - (* object *) cbn [dec_endpoint]. destruct m as [|kv r]; [reflexivity|]. cbn [enc_endpoint dec_endpoint].
    destruct (f64o (kv :: r)) eqn:Ef; [destruct kv; discriminate|]. rewrite <- Ef, f64o_idem. reflexivity.
Qed.

Lemma lookup_props_typed : forall m k, In k service_typed_keys -> lookup (svc_props m) k = None.
Proof.
  intros m k H. unfold svc_props. rewrite lookup_f64o, (lookup_filter (fun x => negb (mem x service_typed_keys))).
  assert (mem k service_typed_keys = true) by (apply mem_in; exact H). rewrite H0. reflexivity.
Qed.

Lemma svc_names_nodup : forall did base m, NoDup (map fst (svc_entries did base m)).
Proof. intros. cbn. repeat (constructor; [cbn; intuition discriminate|]). constructor. Qed.

Lemma lookup_rs : forall did base m k, In k service_typed_keys ->
  lookup (svc_props m ++ entries_obj (svc_entries did base m)) k = assoc_e (svc_entries did base m) k.
Proof.
  intros. rewrite lookup_app, (lookup_props_typed _ _ H). apply lookup_entries. apply svc_names_nodup.
Qed.

Lemma filter_props_entries : forall did base m,
  filter (fun kv : string * json => negb (mem (fst kv) service_typed_keys)) (svc_props m ++ entries_obj (svc_entries did base m)) = svc_props m.
Proof.
  intros. rewrite filter_app.
  assert (H1: filter (fun kv : string * json => negb (mem (fst kv) service_typed_keys)) (svc_props m) = svc_props m).
  { unfold svc_props. rewrite <- (f64o_filter (fun x => negb (mem x service_typed_keys))). rewrite filter_idem. reflexivity. }
  assert (H2: filter (fun kv : string * json => negb (mem (fst kv) service_typed_keys)) (entries_obj (svc_entries did base m)) = []).
  { unfold svc_entries, entries_obj, piece. cbn [flat_map fst snd opt_member].
    destruct (match lookup m "priority" with Some JNull | None => None | Some p => Some (f64j p) end);
      destruct (opt_strs (svc_rks m)); destruct (opt_strs (svc_oks m)); reflexivity. }
  rewrite H1, H2. apply app_nil_r.
Qed.

Lemma service_stable : forall did base m, svc_in_ok did base m ->
  roundtrip_service did base (roundtrip_service did base m) = roundtrip_service did base m.
Proof.
  intros did base m Hok. rewrite (rs_entries _ _ _ Hok). set (s := svc_props m ++ entries_obj (svc_entries did base m)).
  assert (L: forall k, In k service_typed_keys -> lookup s k = assoc_e (svc_entries did base m) k) by (intros; apply lookup_rs; assumption).
  assert (Lid: lookup s "id" = Some (JStr (str_entry (lookup m "id")))) by (rewrite L by (cbn; tauto); reflexivity).
  assert (Lty: lookup s "type" = Some (match lookup m "type" with Some t => f64j t | None => JNull end)) by (rewrite L by (cbn; tauto); reflexivity).
  assert (Lep: lookup s "serviceEndpoint" = Some (enc_endpoint did base (key_table did base (svc_oks m)) (dec_endpoint (lookup m "serviceEndpoint")))) by (rewrite L by (cbn; tauto); reflexivity).
  assert (Lpr: lookup s "priority" = match lookup m "priority" with Some JNull | None => None | Some p => Some (f64j p) end) by (rewrite L by (cbn; tauto); reflexivity).
  assert (Lrk: lookup s "recipientKeys" = opt_strs (svc_rks m)) by (rewrite L by (cbn; tauto); reflexivity).
  assert (Lok: lookup s "routingKeys" = opt_strs (svc_oks m)) by (rewrite L by (cbn; tauto); reflexivity).
  destruct Hok as [H1 [H2 H3]].
  assert (Hok': svc_in_ok did base s).
  { unfold svc_in_ok, svc_rks, svc_oks, svc_erk. rewrite Lrk, Lok, Lep, !str_array_opt.
    rewrite (endpoint_reparse did base _ _ H3). repeat split; assumption. }
  rewrite (rs_entries _ _ _ Hok').
  assert (P: svc_props s = svc_props m).
  { unfold svc_props at 1. unfold s. rewrite filter_props_entries. unfold svc_props. apply f64o_idem. }
  assert (E: svc_entries did base s = svc_entries did base m).
  { unfold svc_entries at 1. unfold svc_rks, svc_oks. rewrite Lid, Lty, Lep, Lpr, Lrk, Lok, !str_array_opt.
    rewrite (endpoint_reparse did base _ _ H3). unfold svc_entries, svc_rks, svc_oks. cbn [str_entry].
    assert (T: f64j (match lookup m "type" with Some t => f64j t | None => JNull end) = match lookup m "type" with Some t => f64j t | None => JNull end)
      by (destruct (lookup m "type"); [apply f64j_idem|reflexivity]).
    rewrite T.
    assert (Pr: match match lookup m "priority" with Some JNull | None => None | Some p => Some (f64j p) end with
                | Some JNull | None => None | Some p => Some (f64j p) end
                = match lookup m "priority" with Some JNull | None => None | Some p => Some (f64j p) end).
    { destruct (lookup m "priority") as [[]|]; try reflexivity; cbn; rewrite ?f64round_idem; try reflexivity.
      - pose proof (f64j_idem (JArr l)) as X. cbn in X. rewrite X. reflexivity.
      - pose proof (f64j_idem (JObj m0)) as X. cbn in X. rewrite X. reflexivity. }
    rewrite Pr. reflexivity. }
  rewrite P, E. reflexivity.
Qed.
