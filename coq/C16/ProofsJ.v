(* C16 — proofs for part J: what the compact-JWS recogniser accepts, and what the environment computed from a
   document contains. *)
From Coq Require Import List String Ascii ZArith NArith Bool.
Import ListNotations.
From VF Require Import C16.Model C16.ModelT C16.ModelJ.
Open Scope string_scope.
Open Scope list_scope.

Lemma jws_shape : forall s m, jws_payload s = Some m ->
  exists h p sg hb pb hm, split_dot s = [h; p; sg] /\ sg <> "" /\
    b64_dec true h = Some hb /\ b64_dec true p = Some pb /\ parse_json_obj hb = Some hm /\ parse_json_obj pb = Some m.
Proof.
  intros s m H. unfold jws_payload in H.
  destruct (split_dot s) as [|h [|p [|sg [|x r]]]]; try discriminate.
  destruct (sg =? "") eqn:E; [discriminate|].
  destruct (b64_dec true h) as [hb|] eqn:E1; [|discriminate].
  destruct (b64_dec true p) as [pb|] eqn:E2; [|discriminate].
  destruct (parse_json_obj hb) as [hm|] eqn:E3; [|discriminate].
  destruct (parse_json_obj pb) as [pm|] eqn:E4; [|discriminate].
  injection H as <-. exists h, p, sg, hb, pb, hm. repeat split; try assumption; try reflexivity.
  intros C. subst. discriminate.
Qed.

Lemma jws_env_sound : forall s p b, In (p, b) (jws_of_string s) ->
  In p (split_tilde s) /\ exists m, jws_payload p = Some m /\ b = jws_sd m.
Proof.
  intros s p b H. unfold jws_of_string in H. apply in_flat_map in H. destruct H as [q [Hq H]].
  destruct (jws_payload q) as [m|] eqn:E; [|contradiction]. destruct H as [H|[]]. injection H as <- <-.
  split; [exact Hq|]. exists m. split; [exact E|reflexivity].
Qed.

Lemma jws_env_complete : forall s p m, In p (split_tilde s) -> jws_payload p = Some m -> In (p, jws_sd m) (jws_of_string s).
Proof.
  intros s p m Hp E. unfold jws_of_string. apply in_flat_map. exists p. split; [exact Hp|]. rewrite E. left. reflexivity.
Qed.

(* the flag the environment gives a part is a function of the part *)
Lemma env_get_in : forall env p b, env_get env p = Some b -> In (p, b) env.
Proof.
  induction env as [|[k v] r IH]; intros p b H; [discriminate|]. simpl in H.
  destruct (p =? k) eqn:E; [apply String.eqb_eq in E; subst; injection H as <-; left; reflexivity|right; auto].
Qed.
Lemma jws_env_functional : forall s p b, env_get (jws_of_string s) p = Some b ->
  exists m, jws_payload p = Some m /\ b = jws_sd m.
Proof. intros s p b H. apply env_get_in in H. apply jws_env_sound in H. tauto. Qed.
