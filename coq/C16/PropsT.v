(* C16 — property theorems, part T (wave 5): time texts, base64 texts, proofs and created / updated of DID documents,
   EC coordinates of JWKs.  Every proof is `exact <lemma>` or a closed computation. *)
From Coq Require Import List String ZArith NArith Bool.
Import ListNotations.
From VF Require Import C16.Model C16.ModelT C16.ModelJ C16.ProofsD3 C16.ProofsT C16.ProofsT2 C16.ProofsJ.
From VF Require common.Base64.
Local Open Scope string_scope.
Local Open Scope list_scope.

(* ---- RFC 3339 time texts through a time.Time (created / updated of a DID document, created of a proof) ----
   The model reads the characters.  What is written for an accepted text is read back as the same time, so a second
   round changes nothing — for every text, fraction and offset. *)
Theorem time_reparse_stable : forall s u, norm_time s = Some u -> norm_time u = Some u.
Proof. exact norm_time_idem. Qed.
Print Assumptions time_reparse_stable.

Theorem time_format_parse_roundtrip : forall t, tm_ok t = true -> parse_tm (fmt_tm t) = Some t.
Proof. exact parse_fmt. Qed.
Print Assumptions time_format_parse_roundtrip.

Theorem time_parsed_is_valid : forall s t, parse_tm s = Some t -> tm_ok t = true.
Proof. exact parse_ok. Qed.
Print Assumptions time_parsed_is_valid.

Example time_zero_offset_and_trailing_zeros : norm_time "2020-02-29T23:59:59.120000000+00:00" = Some "2020-02-29T23:59:59.12Z".
Proof. vm_compute. reflexivity. Qed.
Example time_offset_kept : norm_time "2021-03-01T01:02:03.000-05:30" = Some "2021-03-01T01:02:03-05:30".
Proof. vm_compute. reflexivity. Qed.
Example time_calendar_checked : norm_time "2021-02-29T10:00:00Z" = None /\ norm_time "1900-02-29T00:00:00Z" = None.
Proof. split; vm_compute; reflexivity. Qed.

(* ---- base64 texts (nonce, proofValue, JWK coordinates) at character level ---- *)
Theorem base64url_roundtrip : forall bs, Forall Base64.byte_ok bs -> b64_dec true (b64url_enc bs) = Some bs.
Proof. exact b64url_roundtrip. Qed.
Print Assumptions base64url_roundtrip.

(* whichever of the three alphabets / paddings a proof value came in: the text written back is read as the same bytes *)
Theorem proof_value_reparse : forall s bs, b64_any s = Some bs -> b64_any (b64url_enc bs) = Some bs.
Proof. exact b64_any_again. Qed.
Print Assumptions proof_value_reparse.

Example proof_value_three_spellings :
  b64_any "AQL__g" = Some [1%N; 2%N; 255%N; 254%N] /\ b64_any "AQL//g==" = Some [1%N; 2%N; 255%N; 254%N] /\
  b64_any "AQL//g" = Some [1%N; 2%N; 255%N; 254%N] /\ b64url_enc [1%N; 2%N; 255%N; 254%N] = "AQL__g".
Proof. repeat split; vm_compute; reflexivity. Qed.

(* ---- proofs of a DID document: populateProofs / populateRawProofs ---- *)
Theorem did_proof_reparse : forall did base j p,
  dec_dproof did base j = Some p -> dec_dproof did base (enc_dproof Fixed did base p) = Some p.
Proof. exact dproof_reparse. Qed.
Print Assumptions did_proof_reparse.

(* nothing invented: the optional members are written only with a value (fix 5e7cd95) ... *)
Theorem did_proof_invents_nothing : forall did base p o k,
  enc_dproof Fixed did base p = JObj o -> In k ["domain"; "nonce"; "proofPurpose"] -> lookup o k <> Some (JStr "").
Proof. exact proof_invents_nothing. Qed.
Print Assumptions did_proof_invents_nothing.

(* ... which the code as found did not respect *)
Theorem did_proof_invents_nothing_asis_refuted : invents AsIs = true /\ invents Fixed = false.
Proof. exact asis_invents. Qed.
Print Assumptions did_proof_invents_nothing_asis_refuted.

(* ---- the whole DID document, now with created / updated / proof: RE-PARSE EQUALITY ----
   same guard as did_reparse_equal (it only speaks of methods and services) *)
Theorem did_reparse_equal_full : forall j d,
  parse_did2 Fixed j = Some d -> did_guard j (dd d) -> parse_did2 Fixed (marshal_did2 Fixed d) = Some d.
Proof. exact did2_reparse. Qed.
Print Assumptions did_reparse_equal_full.

Definition did_example : json :=
  JObj [("@context", JArr [JStr "https://www.w3.org/ns/did/v1"]); ("id", JStr "did:ex:123");
        ("created", JStr "2020-02-29T07:22:03.120+00:00"); ("updated", JStr "2021-03-01T01:02:03-05:30");
        ("proof", JArr [JObj [("type", JStr "Ed25519Signature2018"); ("created", JStr "2021-03-01T10:00:00.5+01:60");
                              ("creator", JStr "#k1"); ("proofValue", JStr "AQL//g=="); ("nonce", JStr "AQI")]])].
Example did_example_accepted :
  roundtrip_did2 Fixed did_example =
  Some (JObj [("@context", JArr [JStr "https://www.w3.org/ns/did/v1"]); ("id", JStr "did:ex:123");
              ("created", JStr "2020-02-29T07:22:03.12Z"); ("updated", JStr "2021-03-01T01:02:03-05:30");
              ("proof", JArr [JObj [("type", JStr "Ed25519Signature2018"); ("created", JStr "2021-03-01T10:00:00.5+02:00");
                                    ("creator", JStr "#k1"); ("proofValue", JStr "AQL__g"); ("nonce", JStr "AQI")]])]).
Proof. vm_compute. reflexivity. Qed.

(* ---- EC public keys as JWK: fixed-width coordinates ---- *)
Theorem jwk_ec_coordinates_roundtrip : forall size x y,
  (0 <= x < 256 ^ Z.of_nat size)%Z -> (0 <= y < 256 ^ Z.of_nat size)%Z ->
  jwk_ec_read size (fst (jwk_ec_members size x y)) (snd (jwk_ec_members size x y)) = Some (x, y).
Proof. exact jwk_ec_roundtrip_l. Qed.
Print Assumptions jwk_ec_coordinates_roundtrip.

Example jwk_ec_leading_zero_kept : jwk_ec_members 4 5%Z 258%Z = ("AAAABQ", "AAABAg") /\ jwk_ec_read 4 "AAAABQ" "AAABAg" = Some (5%Z, 258%Z)
  /\ jwk_ec_read 4 "BQ" "AAABAg" = None.
Proof. repeat split; vm_compute; reflexivity. Qed.

(* ---- which strings are compact JWS: decided by the model (jwt.IsJWS at character level) ---- *)
Theorem jws_recognised_exactly : forall s m, jws_payload s = Some m ->
  exists h p sg hb pb hm, split_dot s = [h; p; sg] /\ sg <> "" /\
    b64_dec true h = Some hb /\ b64_dec true p = Some pb /\ parse_json_obj hb = Some hm /\ parse_json_obj pb = Some m.
Proof. exact jws_shape. Qed.
Print Assumptions jws_recognised_exactly.

(* the environment the model computes from a string holds exactly the compact JWS among its ~-separated parts, each
   with the _sd_alg flag of its own payload *)
Theorem jws_env_sound : forall s p b, In (p, b) (jws_of_string s) ->
  In p (split_tilde s) /\ exists m, jws_payload p = Some m /\ b = jws_sd m.
Proof. exact ProofsJ.jws_env_sound. Qed.
Print Assumptions jws_env_sound.

Theorem jws_env_complete : forall s p m, In p (split_tilde s) -> jws_payload p = Some m -> In (p, jws_sd m) (jws_of_string s).
Proof. exact ProofsJ.jws_env_complete. Qed.
Print Assumptions jws_env_complete.

Example jws_examples :
  option_map jws_sd (jws_payload "eyJhbGciOiJFZERTQSIsImtpZCI6ImRpZDpleDppc3N1ZXIja2V5LTEifQ.eyJpc3MiOiJkaWQ6ZXg6aXNzdWVyIiwibmJmIjoxNTc3ODM2ODAwLjAsInZjIjp7Il9zZF9hbGciOiJzaGEtMjU2IiwidHlwZSI6WyJWZXJpZmlhYmxlQ3JlZGVudGlhbCJdLCJjcmVkZW50aWFsU3ViamVjdCI6eyJpZCI6ImRpZDpleDpzMSIsIl9zZCI6WyJhVmZDIl19fX0.c2ln") = Some true /\
  option_map jws_sd (jws_payload "eyJhbGciOiJFZERTQSIsImtpZCI6ImRpZDpleDppc3N1ZXIja2V5LTEifQ.eyJpc3MiOiJkaWQ6ZXg6aXNzdWVyIiwidmMiOnsidHlwZSI6IlZlcmlmaWFibGVDcmVkZW50aWFsIiwiYSI6WzEsLTIsdHJ1ZSxudWxsLHsieCI6InlcXFwieiJ9XX19.c2ln") = Some false /\
  jws_payload "eyJhbGciOiJFZERTQSIsImtpZCI6ImRpZDpleDppc3N1ZXIja2V5LTEifQ.eyJpc3MiOiJkaWQ6ZXg6aXNzdWVyIiwibmJmIjoxNTc3ODM2ODAwLjAsInZjIjp7Il9zZF9hbGciOiJzaGEtMjU2IiwidHlwZSI6WyJWZXJpZmlhYmxlQ3JlZGVudGlhbCJdLCJjcmVkZW50aWFsU3ViamVjdCI6eyJpZCI6ImRpZDpleDpzMSIsIl9zZCI6WyJhVmZDIl19fX0." = None /\ jws_payload "eyJhbGciOiJFZERTQSIsImtpZCI6ImRpZDpleDppc3N1ZXIja2V5LTEifQ.eyJpc3MiOiJkaWQ6ZXg6aXNzdWVyIiwibmJmIjoxNTc3ODM2ODAwLjAsInZjIjp7Il9zZF9hbGciOiJzaGEtMjU2IiwidHlwZSI6WyJWZXJpZmlhYmxlQ3JlZGVudGlhbCJdLCJjcmVkZW50aWFsU3ViamVjdCI6eyJpZCI6ImRpZDpleDpzMSIsIl9zZCI6WyJhVmZDIl19fX0" = None /\ jws_payload "WyJzYWx0IiwiY2xhaW0wIiwidiJd" = None /\
  jws_payload "eyJhbGciOiJFZERTQSIsImtpZCI6ImRpZDpleDppc3N1ZXIja2V5LTEifQ.WyJzYWx0Il0.c2ln" = None.
Proof. repeat split; vm_compute; reflexivity. Qed.

(* ---- generated tables (translator c16gen, regenerated from /repo on every run) ---- *)
Definition proof_full : dproof :=
  {| dp_type := "T"; dp_created := {| t_y := 2020; t_mo := 1; t_d := 1; t_h := 0; t_mi := 0; t_s := 0; t_frac := []; t_zone := None |};
     dp_creator := "c"; dp_rel := false; dp_value := PVb64 [1%N]; dp_domain := "d"; dp_nonce := [1%N]; dp_purpose := "p" |}.
Definition proof_bare : dproof :=
  {| dp_type := "T"; dp_created := dp_created proof_full; dp_creator := ""; dp_rel := false; dp_value := PVb64 [];
     dp_domain := ""; dp_nonce := []; dp_purpose := "" |}.
Definition keys_of (j : json) : list string := match j with JObj o => map fst o | _ => [] end.
(* the members the model writes for a proof are the members populateRawProofs writes, in its order; the members it
   leaves out when they are not set are exactly the ones the code writes inside an if statement; the members read
   by populateProofs are the members written *)
Theorem did_proof_members_are_generated :
  keys_of (enc_dproof Fixed "" "" proof_full) = map fst did_proof_written_keys /\
  keys_of (enc_dproof Fixed "" "" proof_bare) = map fst (filter (fun e => negb (snd e)) did_proof_written_keys) /\
  forallb (fun k => mem k (map fst did_proof_written_keys)) did_proof_read_keys = true /\
  forallb (fun k => mem k did_proof_read_keys) (map fst did_proof_written_keys) = true.
Proof. vm_compute. repeat split. Qed.
Print Assumptions did_proof_members_are_generated.

(* every member of rawDoc except the legacy publicKey (context v0.11) is read by the model of the DID document, and
   the model reads no other; the members populateServices takes out of a service are members of the Service struct *)
Theorem did_model_names_are_generated :
  map (fun f => fst (fst f)) rawDoc_fields =
    ["@context"; "id"; "alsoKnownAs"; "verificationMethod"; "publicKey"; "service"; "authentication"; "assertionMethod";
     "capabilityDelegation"; "capabilityInvocation"; "keyAgreement"; "created"; "updated"; "proof"] /\
  forallb (fun k => mem k (did_names ++ ["created"; "updated"; "proof"; "publicKey"])) (map (fun f => fst (fst f)) rawDoc_fields) = true /\
  forallb (fun k => mem k (map (fun f => fst (fst f)) rawDoc_fields)) (did_names ++ ["created"; "updated"; "proof"]) = true /\
  forallb (fun k => mem k (map (fun f => fst (fst f)) service_fields)) service_typed_keys = true.
Proof. vm_compute. repeat split. Qed.
Print Assumptions did_model_names_are_generated.
