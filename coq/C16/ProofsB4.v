(* C16 — lemmas: the JWT claims of a credential agree with its JSON-LD form *)
From Coq Require Import List String Ascii ZArith NArith Bool Lia.
Import ListNotations.
From VF Require Import C16.Model C16.Proofs C16.ProofsF C16.ProofsB1 C16.ProofsB2 C16.ProofsB3.
Open Scope string_scope.
Open Scope list_scope.

(* ---------- maps ---------- *)
Lemma lookup_set_member : forall m k v k', lookup (set_member m k v) k' = if k' =? k then Some v else lookup m k'.
Proof.
  induction m as [|[a b] r IH]; intros k v k'; cbn.
  - destruct (k' =? k); reflexivity.
  - destruct (k =? a) eqn:E; cbn.
    + apply String.eqb_eq in E. subst a. destruct (k' =? k); reflexivity.
    + rewrite IH. destruct (k' =? a) eqn:E2; [|reflexivity].
      apply String.eqb_eq in E2. subst a. destruct (k' =? k) eqn:E3; [|reflexivity].
      apply String.eqb_eq in E3. subst. rewrite String.eqb_refl in E. discriminate.
Qed.

Lemma set_member_same : forall m k v, lookup m k = Some v -> set_member m k v = m.
Proof.
  induction m as [|[a b] r IH]; intros k v H; cbn in *; [discriminate|].
  destruct (k =? a) eqn:E; [apply String.eqb_eq in E; subst; inversion H; reflexivity|]. rewrite (IH _ _ H). reflexivity.
Qed.

Lemma lookup_entries : forall es k, NoDup (map fst es) -> lookup (entries_obj es) k = assoc_e es k.
Proof.
  induction es as [|[k' o] r IH]; intros k Hn; [reflexivity|].
  cbn [map fst] in Hn. inversion Hn; subst. rewrite entries_cons, lookup_app. cbn [assoc_e].
  destruct (String.eqb k k') eqn:E.
  - apply String.eqb_eq in E. subst k'. destruct o as [y|]; cbn; [rewrite String.eqb_refl; reflexivity|].
    rewrite (IH _ H2). apply assoc_e_none_notin. exact H1.
  - destruct o as [y|]; cbn; [rewrite E|]; apply (IH _ H2).
Qed.

(* the serialised credential, as a map *)
Definition mobj (v : vc) : obj := f64o (merge_cf (raw_vc Fixed v) (v_cf v)).
Lemma marshal_mobj : forall v, marshal_vc Fixed v = JObj (mobj v).
Proof. reflexivity. Qed.

Lemma lookup_mobj : forall v k,
  lookup (mobj v) k = option_map f64j (match assoc_e (raw_entries v) k with Some y => Some y | None => lookup (v_cf v) k end).
Proof.
  intros v k. destruct (names14_facts v) as [_ Hn]. unfold mobj, merge_cf. rewrite lookup_f64o, lookup_app, raw_vc_entries.
  rewrite (lookup_entries _ _ Hn). f_equal. destruct (assoc_e (raw_entries v) k) eqn:E; [reflexivity|].
  rewrite (lookup_filter (fun x => negb (mem x (keys (entries_obj (raw_entries v)))))).
  rewrite (keys_entries_mem _ _ Hn), E. reflexivity.
Qed.

(* ---------- JWT claims ---------- *)
(* the registered claims are the members they stand for *)
Lemma jwt_registered : forall secs minimize v c,
  jwt_claims secs minimize v = Some c ->
  j_iss c = id_of (v_issuer v) /\ j_jti c = v_id v /\ subject_id (v_subject v) = Some (j_sub c) /\
  j_nbf c = option_map secs (v_issued v) /\ j_iat c = option_map secs (v_issued v) /\ j_exp c = option_map secs (v_expired v).
Proof.
  intros secs minimize v c H. unfold jwt_claims in H.
  destruct (subject_id (v_subject v)) as [sub|]; [|discriminate]. destruct (v_issued v) as [d|]; [|discriminate].
  inversion H; subst; cbn. repeat split; reflexivity.
Qed.

(* dates in the canonical spelling of refineFromJWTClaims (UTC, whole seconds) survive the conversion *)
Definition canonical_dates (secs : string -> Z) (fmt : Z -> string) (v : vc) : Prop :=
  (forall d, v_issued v = Some d -> fmt (secs d) = d) /\ (forall d, v_expired v = Some d -> fmt (secs d) = d).

Definition issuer_wf (v : vc) : Prop := s_known (v_issuer v) = [("id", id_of (v_issuer v), true)].

Lemma issuer_lookup : forall v, issuer_wf v -> id_of (v_issuer v) <> "" ->
  lookup (mobj v) "issuer" = Some (JStr (id_of (v_issuer v))) \/
  exists im, lookup (mobj v) "issuer" = Some (JObj im) /\ lookup im "id" = Some (JStr (id_of (v_issuer v))).
Proof.
  intros v Hw Hid. rewrite lookup_mobj, A_issuer. unfold issuer_out, issuer_member, enc_issuer.
  apply String.eqb_neq in Hid. destruct (s_cf (v_issuer v)) as [|c0 cr] eqn:Ec.
  - rewrite Hid. left. reflexivity.
  - right. unfold enc_sstruct. rewrite Hw. unfold emit_known, emit_str. cbn [flat_map fst snd andb app]. rewrite Hid.
    cbn [option_map f64j]. eexists. split; [reflexivity|]. unfold merge_cf. cbn. reflexivity.
Qed.

(* NON-MINIMISED form: the vc claim is the serialised credential, and applying the registered claims to it
   (refineFromJWTClaims) changes nothing *)
Lemma jwt_full_agree : forall secs fmt v c,
  canonical_dates secs fmt v -> issuer_wf v ->
  jwt_claims secs false v = Some c ->
  JObj (j_vc c) = marshal_vc Fixed v /\ refine fmt c = j_vc c.
Proof.
  intros secs fmt v c [Hd1 Hd2] Hw H. unfold jwt_claims in H.
  destruct (subject_id (v_subject v)) as [sub|]; [|discriminate]. destruct (v_issued v) as [d|] eqn:Ei; [|discriminate].
  change (marshal_vc Fixed v) with (JObj (mobj v)) in H. injection H as H; subst c.
  unfold refine, j_vc, j_iss, j_nbf, j_jti, j_iat, j_exp. cbv beta iota. split; [reflexivity|].
  set (M := mobj v) in *.
  match goal with |- context [if id_of (v_issuer v) =? "" then M else ?X] =>
    assert (S1: (if id_of (v_issuer v) =? "" then M else X) = M) end.
  { destruct (id_of (v_issuer v) =? "") eqn:E; [reflexivity|]. apply String.eqb_neq in E.
    destruct (issuer_lookup v Hw E) as [Hl|[im [Hl Hi]]]; fold M in Hl; rewrite Hl.
    - apply set_member_same. exact Hl.
    - rewrite (set_member_same _ _ _ Hi). apply set_member_same. exact Hl. }
  rewrite S1.
  (* issuanceDate, twice *)
  assert (Ld: lookup M "issuanceDate" = Some (JStr d)) by (unfold M; rewrite lookup_mobj, A_issued, Ei; reflexivity).
  rewrite (Hd1 d eq_refl). rewrite (set_member_same _ _ _ Ld).
  (* id *)
  assert (S3: (if v_id v =? "" then M else set_member M "id" (JStr (v_id v))) = M).
  { destruct (v_id v =? "") eqn:E; [reflexivity|]. apply set_member_same. unfold M. rewrite lookup_mobj, A_id. unfold opt_str. rewrite E. reflexivity. }
  rewrite S3. rewrite (set_member_same _ _ _ Ld).
  (* expirationDate *)
  destruct (v_expired v) as [e|] eqn:Ee; cbn [option_map]; [|reflexivity].
  rewrite (Hd2 e eq_refl). apply set_member_same. unfold M. rewrite lookup_mobj, A_expired, Ee. reflexivity.
Qed.

(* ---------- MINIMISED form ---------- *)
Definition minimised (v : vc) : vc :=
  {| v_ctx := v_ctx v; v_cctx := v_cctx v; v_id := ""; v_types := v_types v; v_subject := v_subject v;
     v_issuer := {| s_known := known_set (s_known (v_issuer v)) "id" ""; s_cf := s_cf (v_issuer v) |};
     v_issued := None; v_expired := None; v_proofs := v_proofs v; v_status := v_status v;
     v_schemas := v_schemas v; v_evidence := v_evidence v; v_tou := v_tou v; v_refresh := v_refresh v;
     v_sdalg := v_sdalg v; v_cf := v_cf v |}.

Definition issuer_step (m : obj) (iss : string) : obj :=
  if iss =? "" then m else
  match lookup m "issuer" with
  | Some (JObj im) => set_member m "issuer" (JObj (set_member im "id" (JStr iss)))
  | Some (JStr _) | None => set_member m "issuer" (JStr iss)
  | _ => m
  end.

Lemma issuer_step_other : forall m iss k, k <> "issuer" -> lookup (issuer_step m iss) k = lookup m k.
Proof.
  intros m iss k Hk. unfold issuer_step. apply String.eqb_neq in Hk.
  destruct (iss =? ""); [reflexivity|]. destruct (lookup m "issuer") as [[]|]; try reflexivity; rewrite lookup_set_member, Hk; reflexivity.
Qed.

Lemma assoc_min_other : forall v k,
  k <> "id" -> k <> "issuanceDate" -> k <> "expirationDate" -> k <> "issuer" ->
  assoc_e (raw_entries (minimised v)) k = assoc_e (raw_entries v) k.
Proof.
  intros v k H1 H2 H3 H4. apply String.eqb_neq in H1, H2, H3, H4.
  unfold raw_entries, minimised. cbn [assoc_e v_ctx v_cctx v_id v_types v_subject v_issuer v_issued v_expired v_proofs v_status v_schemas v_evidence v_tou v_refresh v_sdalg].
  rewrite H1, H2, H3, H4. reflexivity.
Qed.

Lemma jwt_min_agree : forall secs fmt v c,
  canonical_dates secs fmt v ->
  jwt_claims secs true v = Some c ->
  forall k, k <> "issuer" -> lookup (refine fmt c) k = lookup (mobj v) k.
Proof.
  intros secs fmt v c [Hd1 Hd2] H k Hk. unfold jwt_claims in H.
  destruct (subject_id (v_subject v)) as [sub|]; [|discriminate]. destruct (v_issued v) as [d|] eqn:Ei; [|discriminate].
  change (marshal_vc Fixed _) with (JObj (mobj (minimised v))) in H. injection H as H; subst c.
  unfold refine, j_vc, j_iss, j_nbf, j_jti, j_iat, j_exp. cbv beta iota.
  fold (issuer_step (mobj (minimised v)) (id_of (v_issuer v))).
  set (M1 := issuer_step (mobj (minimised v)) (id_of (v_issuer v))).
  assert (HM1: forall k', k' <> "issuer" -> lookup M1 k' = lookup (mobj (minimised v)) k') by (intros; apply issuer_step_other; assumption).
  rewrite (Hd1 d eq_refl).
  assert (Hcfm: v_cf (minimised v) = v_cf v) by reflexivity.
  (* the final lookup, by cases on the member name *)
  destruct (String.eqb k "expirationDate") eqn:Kexp.
  { apply String.eqb_eq in Kexp. subst k.
    destruct (v_expired v) as [e|] eqn:Ee; cbn [option_map].
    - rewrite lookup_set_member, String.eqb_refl, (Hd2 e eq_refl). rewrite lookup_mobj, A_expired, Ee. reflexivity.
    - rewrite lookup_set_member. cbn [String.eqb Ascii.eqb Bool.eqb].
      destruct (v_id v =? "") eqn:Eid.
      + rewrite lookup_set_member. cbn [String.eqb Ascii.eqb Bool.eqb]. rewrite (HM1 _ Hk).
        rewrite !lookup_mobj, !A_expired, Ee, Hcfm. reflexivity.
      + rewrite lookup_set_member. cbn [String.eqb Ascii.eqb Bool.eqb]. rewrite lookup_set_member. cbn [String.eqb Ascii.eqb Bool.eqb].
        rewrite (HM1 _ Hk). rewrite !lookup_mobj, !A_expired, Ee, Hcfm. reflexivity. }
  assert (Hstep5: forall X, lookup (match option_map secs (v_expired v) with Some t => set_member X "expirationDate" (JStr (fmt t)) | None => X end) k = lookup X k).
  { intros X. destruct (option_map secs (v_expired v)); [rewrite lookup_set_member, Kexp|]; reflexivity. }
  rewrite Hstep5. clear Hstep5.
  rewrite lookup_set_member.
  destruct (String.eqb k "issuanceDate") eqn:Kiss.
  { apply String.eqb_eq in Kiss. subst k. rewrite lookup_mobj, A_issued, Ei. reflexivity. }
  destruct (String.eqb k "id") eqn:Kid.
  { apply String.eqb_eq in Kid. subst k.
    destruct (v_id v =? "") eqn:Eid.
    - rewrite lookup_set_member. cbn [String.eqb Ascii.eqb Bool.eqb]. rewrite (HM1 _ Hk).
      rewrite !lookup_mobj, !A_id, Hcfm. unfold opt_str. cbn [v_id minimised]. rewrite Eid. reflexivity.
    - rewrite lookup_set_member, String.eqb_refl. rewrite lookup_mobj, A_id. unfold opt_str. rewrite Eid. reflexivity. }
  assert (Hrest: lookup (mobj (minimised v)) k = lookup (mobj v) k).
  { rewrite !lookup_mobj, Hcfm. rewrite assoc_min_other; [reflexivity| | | |exact Hk];
      intro; subst k; cbn in *; discriminate. }
  destruct (v_id v =? "").
  - rewrite lookup_set_member, Kiss. rewrite (HM1 _ Hk). exact Hrest.
  - rewrite lookup_set_member, Kid, lookup_set_member, Kiss. rewrite (HM1 _ Hk). exact Hrest.
Qed.

Lemma filter_all_true : forall (m : obj), filter (fun kv : string * json => negb (mem (fst kv) (keys ([] : obj)))) m = m.
Proof. intros m. apply filter_true. intros. reflexivity. Qed.

(* the issuer member of the minimised form: equal, or (issuer objects) equal as maps *)
Lemma jwt_min_issuer : forall secs fmt v c,
  issuer_wf v -> lookup (v_cf v) "issuer" = None ->
  jwt_claims secs true v = Some c ->
  match lookup (refine fmt c) "issuer", lookup (mobj v) "issuer" with
  | Some (JObj a), Some (JObj b) => forall k', lookup a k' = lookup b k'
  | x, y => x = y
  end.
Proof.
  intros secs fmt v c Hw Hcf H. unfold jwt_claims in H.
  destruct (subject_id (v_subject v)) as [sub|]; [|discriminate]. destruct (v_issued v) as [d|] eqn:Ei; [|discriminate].
  change (marshal_vc Fixed _) with (JObj (mobj (minimised v))) in H. injection H as H; subst c.
  unfold refine, j_vc, j_iss, j_nbf, j_jti, j_iat, j_exp. cbv beta iota.
  fold (issuer_step (mobj (minimised v)) (id_of (v_issuer v))).
  set (M1 := issuer_step (mobj (minimised v)) (id_of (v_issuer v))).
  match goal with |- match lookup ?X "issuer" with _ => _ end => assert (HL: lookup X "issuer" = lookup M1 "issuer") end.
  { destruct (option_map secs (v_expired v)); destruct (v_id v =? ""); repeat (rewrite lookup_set_member; cbn [String.eqb Ascii.eqb Bool.eqb]); reflexivity. }
  rewrite HL. clear HL.
  (* the issuer of the minimised vc claim *)
  assert (Hmin: lookup (mobj (minimised v)) "issuer" =
                match s_cf (v_issuer v) with [] => None | _ => Some (JObj (f64o (s_cf (v_issuer v)))) end).
  { rewrite lookup_mobj, A_issuer. cbn [v_issuer minimised v_cf]. unfold issuer_out, issuer_member, enc_issuer. cbn [s_cf].
    rewrite Hw. cbn [known_set String.eqb Ascii.eqb Bool.eqb]. unfold id_of at 1. cbn [s_known known_get String.eqb Ascii.eqb Bool.eqb].
    destruct (s_cf (v_issuer v)) eqn:Ec; [cbn; rewrite Hcf; reflexivity|].
    unfold enc_sstruct. cbn [s_known s_cf]. unfold emit_known, emit_str, merge_cf. cbn [flat_map fst snd andb String.eqb app].
    rewrite filter_all_true. reflexivity. }
  assert (Hfull: lookup (mobj v) "issuer" =
                 match s_cf (v_issuer v) with
                 | [] => if id_of (v_issuer v) =? "" then None else Some (JStr (id_of (v_issuer v)))
                 | _ => Some (JObj (f64o (merge_cf (emit_str "id" (id_of (v_issuer v)) true) (s_cf (v_issuer v)))))
                 end).
  { rewrite lookup_mobj, A_issuer. unfold issuer_out, issuer_member, enc_issuer.
    destruct (s_cf (v_issuer v)) eqn:Ec.
    - destruct (id_of (v_issuer v) =? ""); cbn; [rewrite Hcf|]; reflexivity.
    - unfold enc_sstruct. rewrite Hw, Ec. unfold emit_known. cbn [flat_map fst snd]. rewrite app_nil_r. reflexivity. }
  rewrite Hfull. unfold M1, issuer_step. rewrite Hmin.
  destruct (s_cf (v_issuer v)) as [|c0 cr] eqn:Ec.
  - destruct (id_of (v_issuer v) =? "") eqn:E; [rewrite Hmin; reflexivity|]. rewrite lookup_set_member. reflexivity.
  - destruct (id_of (v_issuer v) =? "") eqn:E.
    + rewrite Hmin. unfold emit_str. rewrite E. cbn [andb]. unfold merge_cf. cbn [app]. intros k'. rewrite filter_all_true. reflexivity.
    + rewrite lookup_set_member. cbn [String.eqb Ascii.eqb Bool.eqb]. intros k'. rewrite lookup_set_member.
      unfold emit_str. rewrite E. cbn [andb]. unfold merge_cf. cbn [app f64o map fst snd f64j lookup].
      destruct (String.eqb k' "id") eqn:K; [reflexivity|].
      change (map (fun kv : string * json => (fst kv, f64j (snd kv)))) with f64o. rewrite !lookup_f64o.
      rewrite (lookup_filter (fun x => negb (mem x (keys [("id", JStr (id_of (v_issuer v)))])))).
      cbn [keys map fst mem existsb]. rewrite K. destruct c0 as [a0 b0]. cbn. destruct (k' =? a0); reflexivity.
Qed.
