(* C16 — lemmas: parsing what MarshalJSON wrote yields the same credential *)
From Coq Require Import List String Ascii ZArith NArith Bool Lia.
Import ListNotations.
From VF Require Import C16.Model C16.Proofs C16.ProofsF C16.ProofsB1 C16.ProofsB2.
Open Scope string_scope.
Open Scope list_scope.

(* ---------- objects built from optional members with fixed names ---------- *)
Definition piece (e : string * option json) : obj := opt_member (fst e) (snd e).
Definition entries_obj (es : list (string * option json)) : obj := flat_map piece es.
Fixpoint assoc_e (es : list (string * option json)) (k : string) : option json :=
  match es with [] => None | (k', o) :: r => if k =? k' then o else assoc_e r k end.
(* names pairwise different even ignoring case *)
Fixpoint lower_nodup (l : list string) : bool :=
  match l with [] => true | k :: r => negb (existsb (fun x => lower x =? lower k) r) && lower_nodup r end.

Lemma entries_cons : forall k o r, entries_obj ((k, o) :: r) = opt_member k o ++ entries_obj r.
Proof. reflexivity. Qed.

Lemma lk_entries_none : forall es k,
  existsb (fun x => lower x =? lower k) (map fst es) = false -> lk (entries_obj es) k = None.
Proof.
  induction es as [|[k' o] r IH]; intros k H; [reflexivity|].
  cbn in H. apply orb_false_iff in H. destruct H as [H1 H2].
  rewrite entries_cons, lk_app. rewrite (IH _ H2). destruct o; cbn; [rewrite H1|]; reflexivity.
Qed.

Lemma lk_entries : forall es k,
  lower_nodup (map fst es) = true -> In k (map fst es) -> lk (entries_obj es) k = assoc_e es k.
Proof.
  induction es as [|[k' o] r IH]; intros k Hn Hin; [destruct Hin|].
  cbn in Hn. apply andb_prop in Hn. destruct Hn as [Hh Hr]. apply negb_true_iff in Hh.
  rewrite entries_cons, lk_app. cbn [assoc_e map fst] in *.
  destruct (String.eqb k k') eqn:E.
  - apply String.eqb_eq in E. subst k'. rewrite (lk_entries_none r k Hh).
    destruct o; cbn; [rewrite String.eqb_refl|]; reflexivity.
  - destruct Hin as [Hin|Hin]; [cbn in Hin; subst; rewrite String.eqb_refl in E; discriminate|].
    rewrite (IH _ Hr Hin).
    destruct (assoc_e r k) eqn:Ea; [reflexivity|].
    destruct o as [y|]; cbn; [|reflexivity].
    (* k' differs from k even in lower case, since k is among the later names *)
    assert (Hl: (lower k' =? lower k) = false).
    { destruct (lower k' =? lower k) eqn:El; [|reflexivity]. exfalso.
      assert (existsb (fun x => lower x =? lower k') (map fst r) = true).
      { apply existsb_exists. exists k. split; [exact Hin|]. rewrite String.eqb_sym. exact El. }
      congruence. }
    rewrite Hl. reflexivity.
Qed.

Lemma keys_entries_mem : forall es k,
  NoDup (map fst es) -> mem k (keys (entries_obj es)) = match assoc_e es k with Some _ => true | None => false end.
Proof.
  induction es as [|[k' o] r IH]; intros k Hn; [reflexivity|].
  cbn [map fst] in Hn. inversion Hn; subst. rewrite entries_cons, keys_app. cbn [assoc_e].
  assert (Hm: forall a b, mem k (a ++ b) = mem k a || mem k b) by (intros; unfold mem; apply existsb_app).
  rewrite Hm, (IH _ H2). destruct (String.eqb k k') eqn:E.
  - apply String.eqb_eq in E. subst k'.
    assert (assoc_e r k = None).
    { clear -H1. induction r as [|[a b] r IH]; cbn; [reflexivity|]. destruct (String.eqb k a) eqn:E.
      - apply String.eqb_eq in E. subst. exfalso. apply H1. cbn. auto.
      - apply IH. intro Hi. apply H1. cbn. auto. }
    rewrite H. destruct o; cbn; [rewrite String.eqb_refl|]; reflexivity.
  - destruct o; cbn; [rewrite E|]; reflexivity.
Qed.

Lemma keys_entries_in : forall es k, In k (keys (entries_obj es)) -> In k (map fst es).
Proof.
  induction es as [|[k' o] r IH]; intros k H; [exact H|].
  rewrite entries_cons, keys_app in H. cbn [map fst]. apply in_app_or in H.
  destruct H as [H|H]; [destruct o; cbn in H; [destruct H as [H|[]]; left; exact H|destruct H]|right; apply IH; exact H].
Qed.

(* ---------- the raw credential as entries ---------- *)
Definition opt_str (s : string) : option json := if s =? "" then None else Some (JStr s).
Definition raw_entries (v : vc) : list (string * option json) :=
  [("@context", Some (enc_context (v_ctx v) (v_cctx v)));
   ("id", opt_str (v_id v));
   ("type", Some (enc_types (v_types v)));
   ("credentialSubject", enc_subject (v_subject v));
   ("issuanceDate", option_map JStr (v_issued v));
   ("expirationDate", option_map JStr (v_expired v));
   ("proof", enc_list enc_proof1 (v_proofs v));
   ("credentialStatus", option_map enc_sstruct (v_status v));
   ("issuer", issuer_out (v_issuer v));
   ("credentialSchema", enc_schemas (v_schemas v));
   ("evidence", v_evidence v);
   ("termsOfUse", enc_list enc_sstruct (v_tou v));
   ("refreshService", enc_list enc_sstruct (v_refresh v));
   ("_sd_alg", opt_str (v_sdalg v))].

Lemma raw_vc_entries : forall v, raw_vc Fixed v = entries_obj (raw_entries v).
Proof.
  intros v. unfold raw_vc, entries_obj, raw_entries, piece, opt_str, emit_str, issuer_out, issuer_member.
  cbn [flat_map fst snd andb]. 
  destruct (v_id v =? ""); destruct (v_sdalg v =? ""); destruct (s_cf (v_issuer v)); try destruct (id_of (v_issuer v) =? "");
    cbn [opt_member app]; rewrite ?app_nil_r; reflexivity.
Qed.

(* ---------- what the second parse finds at a known name ---------- *)
Definition vfields := rawCredential_fields.
Definition vnames : list string := map (fun f => fst (fst f)) vfields.
Definition names14 (v : vc) : list string := map fst (raw_entries v).

Definition emitted_val (kind : fkind) (v : json) : bool :=
  match kind with
  | KStr => match v with JStr s => negb (s =? "") | _ => false end
  | KRaw => true
  | _ => negb (is_null v)
  end.

Lemma eop : forall m k kind,
  emitted_on_parse m (k, kind, true) = match lk m k with None => false | Some v => emitted_val kind v end.
Proof. intros. unfold emitted_on_parse, emitted_val. destruct (lk m k); reflexivity. Qed.

Lemma mem_map_filter : forall (p : string * fkind * bool -> bool) fs k,
  mem k (map (fun f => fst (fst f)) (filter p fs)) = existsb (fun f => (k =? fst (fst f)) && p f) fs.
Proof.
  unfold mem. induction fs as [|f r IH]; intros k; cbn; [reflexivity|].
  destruct (p f) eqn:E; cbn; rewrite IH; [rewrite andb_true_r|rewrite andb_false_r]; reflexivity.
Qed.

Lemma lookup_C : forall m k kind, In (k, kind, true) vfields ->
  lookup (top_cf vfields m) k = if emitted_on_parse m (k, kind, true) then None else option_map f64j (lookup m k).
Proof.
  intros m k kind Hin. unfold top_cf, split_cf. rewrite lookup_f64o.
  rewrite (lookup_filter (fun x => negb (mem x (map (fun f => fst (fst f)) (filter (emitted_on_parse m) vfields))))).
  rewrite mem_map_filter. generalize (emitted_on_parse m) as p. intros p.
  unfold vfields, rawCredential_fields in *. cbn [In] in Hin.
  repeat (destruct Hin as [Hin|Hin]; [inversion Hin; subst; cbn; rewrite ?orb_false_r; destruct (p _); reflexivity|]).
  destruct Hin.
Qed.

Lemma clean_f64o : forall names m, clean names (f64o m) = clean names m.
Proof.
  intros. unfold clean. rewrite keys_f64o. f_equal.
  unfold ci_clean, f64o. induction m as [|[k v] r IH]; cbn; [reflexivity|]. rewrite IH. reflexivity.
Qed.

Lemma clean_top_cf : forall m, clean vnames m = true -> clean vnames (top_cf vfields m) = true.
Proof.
  intros m H. unfold top_cf, split_cf. rewrite clean_f64o.
  apply (clean_filter vnames (fun x => negb (mem x (map (fun f => fst (fst f)) (filter (emitted_on_parse m) vfields))))). exact H.
Qed.

Definition outv (x : option json) (e : option json) (kind : fkind) : option json :=
  option_map f64j
    (match e with
     | Some y => Some y
     | None => match x with
               | None => None
               | Some xv => if emitted_val kind xv then None else Some (f64j xv)
               end
     end).

Lemma names14_facts : forall v, lower_nodup (names14 v) = true /\ NoDup (names14 v).
Proof.
  intros v. split; [vm_compute; reflexivity|].
  unfold names14, raw_entries. cbn [map fst].
  repeat (constructor; [cbn; intuition discriminate|]). constructor.
Qed.

Lemma lkM : forall m v k kind,
  clean vnames m = true -> In (k, kind, true) vfields -> In k (names14 v) ->
  lk (f64o (merge_cf (raw_vc Fixed v) (top_cf vfields m))) k = outv (lookup m k) (assoc_e (raw_entries v) k) kind.
Proof.
  intros m v k kind Hc Hf Hk. destruct (names14_facts v) as [Hl Hn].
  assert (Hkn: In k vnames).
  { unfold vnames. apply in_map_iff. exists (k, kind, true). split; [reflexivity|exact Hf]. }
  rewrite lk_f64o. unfold merge_cf. rewrite lk_app. rewrite raw_vc_entries.
  rewrite (lk_entries _ _ Hl Hk).
  rewrite (lk_clean vnames) by
    (try exact Hkn; apply (clean_filter vnames (fun x => negb (mem x (keys (entries_obj (raw_entries v)))))); apply clean_top_cf; exact Hc).
  rewrite (lookup_filter (fun x => negb (mem x (keys (entries_obj (raw_entries v)))))).
  rewrite (keys_entries_mem _ _ Hn). unfold outv. f_equal.
  destruct (assoc_e (raw_entries v) k) as [y|]; cbn [negb]; [reflexivity|].
  rewrite (lookup_C _ _ _ Hf), eop, (lk_clean vnames _ _ Hc Hkn).
  destruct (lookup m k) as [xv|]; [|reflexivity]. destruct (emitted_val kind xv); reflexivity.
Qed.

(* jwt is never written by Credential.raw *)
Lemma lkM_jwt : forall m v,
  clean vnames m = true ->
  lk (f64o (merge_cf (raw_vc Fixed v) (top_cf vfields m))) "jwt" = outv (lookup m "jwt") None KStr.
Proof.
  intros m v Hc. destruct (names14_facts v) as [Hl Hn].
  assert (Hkn: In "jwt" vnames) by (vm_compute; tauto).
  rewrite lk_f64o. unfold merge_cf. rewrite lk_app. rewrite raw_vc_entries.
  rewrite (lk_entries_none (raw_entries v) "jwt") by (vm_compute; reflexivity).
  rewrite (lk_clean vnames) by
    (try exact Hkn; apply (clean_filter vnames (fun x => negb (mem x (keys (entries_obj (raw_entries v)))))); apply clean_top_cf; exact Hc).
  rewrite (lookup_filter (fun x => negb (mem x (keys (entries_obj (raw_entries v)))))).
  assert (Hm: mem "jwt" (keys (entries_obj (raw_entries v))) = false).
  { destruct (mem "jwt" (keys (entries_obj (raw_entries v)))) eqn:E; [|reflexivity].
    apply mem_in, keys_entries_in in E. exfalso. cbn in E. intuition discriminate. }
  rewrite Hm. cbn [negb]. unfold outv. f_equal.
  rewrite (lookup_C m "jwt" KStr) by (vm_compute; tauto). rewrite eop, (lk_clean vnames _ _ Hc Hkn).
  destruct (lookup m "jwt") as [xv|]; [|reflexivity]. destruct (emitted_val KStr xv); reflexivity.
Qed.

(* ---------- serialised values are float64-fixed ---------- *)
Definition sfixed (s : sstruct) : Prop := f64o (s_cf s) = s_cf s.

Lemma dec_sstruct_fixed : forall fs m s, dec_sstruct fs m = Some s -> sfixed s.
Proof.
  intros fs m s H. unfold dec_sstruct in H. destruct (dec_known fs m); [|discriminate]. inversion H; subst.
  unfold sfixed, split_cf. cbn. apply f64o_idem.
Qed.

Lemma with_id_fixed : forall fs i, sfixed (with_id fs i).
Proof. intros. reflexivity. Qed.

Lemma f64o_emit_known : forall kn, f64o (emit_known kn) = emit_known kn.
Proof.
  induction kn as [|[[k s] om] r IH]; [reflexivity|]. unfold emit_known in *. cbn [flat_map fst snd].
  rewrite f64o_app, IH. unfold emit_str. destruct (om && (s =? "")); reflexivity.
Qed.

Lemma enc_sstruct_fixed : forall s, sfixed s -> f64j (enc_sstruct s) = enc_sstruct s.
Proof.
  intros s H. unfold enc_sstruct, merge_cf. cbn [f64j]. f_equal. change (map (fun kv => (fst kv, f64j (snd kv)))) with f64o.
  rewrite f64o_app, f64o_emit_known. f_equal.
  rewrite (f64o_filter (fun x => negb (mem x (keys (emit_known (s_known s)))))). rewrite H. reflexivity.
Qed.

Lemma map_fixed : forall {A} (enc : A -> json) (P : A -> Prop) l,
  (forall a, P a -> f64j (enc a) = enc a) -> Forall P l -> map f64j (map enc l) = map enc l.
Proof.
  intros A enc P l He Hl. induction Hl as [|a r Ha Hr IH]; cbn; [reflexivity|]. rewrite (He _ Ha), IH. reflexivity.
Qed.

Lemma enc_list_fixed : forall {A} (enc : A -> json) (P : A -> Prop) l,
  (forall a, P a -> f64j (enc a) = enc a) -> Forall P l -> option_map f64j (enc_list enc l) = enc_list enc l.
Proof.
  intros A enc P l He Hl. destruct l as [|a [|b r]]; cbn [enc_list option_map]; [reflexivity| |].
  - inversion Hl; subst. rewrite (He _ H1). reflexivity.
  - cbn [f64j]. rewrite (map_fixed enc P _ He Hl). reflexivity.
Qed.

Lemma mapM_forall : forall {A} (dec : json -> option A) (P : A -> Prop) l ts,
  (forall x t, dec x = Some t -> P t) -> mapM dec l = Some ts -> Forall P ts.
Proof.
  intros A dec P. induction l as [|x r IH]; intros ts Hp H; cbn in H.
  - inversion H. constructor.
  - destruct (dec x) as [t|] eqn:Hd; [|discriminate]. destruct (mapM dec r) as [tr|] eqn:Hm; [|discriminate].
    inversion H; subst. constructor; [apply (Hp _ _ Hd)|apply IH; auto].
Qed.

Lemma dec_typedid_fixed : forall x t, dec_typedid x = Some t -> sfixed t.
Proof.
  intros x t H. destruct x; cbn [dec_typedid] in H; try discriminate.
  - inversion H. apply with_id_fixed.
  - apply (dec_sstruct_fixed _ _ _ H).
Qed.

Lemma dec_typedids_fixed : forall o l, dec_typedids o = Some l -> Forall sfixed l.
Proof.
  intros o l H. destruct o as [j|]; cbn [dec_typedids] in H; [|inversion H; constructor].
  destruct j; cbn [dec_typedids dec_typedid option_map] in H; try discriminate.
  - inversion H. repeat constructor.
  - apply (mapM_forall dec_typedid sfixed l0 l dec_typedid_fixed H).
  - destruct (dec_sstruct typedID_fields m) eqn:E; cbn in H; inversion H. constructor; [apply (dec_sstruct_fixed _ _ _ E)|constructor].
Qed.

Lemma dec_schemas_fixed : forall o l, dec_schemas o = Some l -> Forall sfixed l.
Proof.
  intros o l H. destruct o as [j|]; cbn [dec_schemas] in H; [|inversion H; constructor].
  destruct j; cbn [dec_schemas dec_typedid option_map] in H; try discriminate.
  - inversion H. constructor.
  - apply (mapM_forall dec_typedid sfixed l0 l dec_typedid_fixed H).
  - destruct (dec_sstruct typedID_fields m) eqn:E; cbn in H; inversion H. constructor; [apply (dec_sstruct_fixed _ _ _ E)|constructor].
Qed.

Definition pfixed (p : option obj) : Prop := match p with Some m => f64o m = m | None => True end.
Lemma dec_proofs_fixed : forall o l, dec_proofs o = Some l -> Forall pfixed l.
Proof.
  assert (H1: forall x p, dec_proof1 x = Some p -> pfixed p).
  { intros x p H. destruct x; cbn in H; inversion H; cbn; [exact I|apply f64o_idem]. }
  intros o l H. destruct o as [j|]; cbn [dec_proofs] in H; [|inversion H; constructor].
  destruct j; cbn [dec_proofs dec_proof1 option_map] in H; try discriminate.
  - inversion H. repeat constructor.
  - apply (mapM_forall dec_proof1 pfixed l0 l H1 H).
  - inversion H. constructor; [apply f64o_idem|constructor].
Qed.
Lemma enc_proof1_fixed : forall p, pfixed p -> f64j (enc_proof1 p) = enc_proof1 p.
Proof. intros [m|] H; cbn in *; [change (map (fun kv => (fst kv, f64j (snd kv))) m) with (f64o m); rewrite H|]; reflexivity. Qed.

Definition subj_fixed (s : subj) : Prop := match s with SList l => Forall sfixed l | _ => True end.
Lemma dec_subject_fixed : forall o s, dec_subject Fixed o = Some s -> subj_fixed s.
Proof.
  assert (H1: forall x t, dec_subject1 x = Some t -> sfixed t).
  { intros x t H. destruct x; cbn [dec_subject1] in H; try discriminate; try (inversion H; apply with_id_fixed).
    apply (dec_sstruct_fixed _ _ _ H). }
  intros o s H. destruct o as [j|]; cbn [dec_subject] in H; [|inversion H; exact I].
  destruct j; cbn [dec_subject option_map] in H; try discriminate; try (inversion H; exact I).
  - destruct (mapM dec_subject1 l) eqn:E; cbn in H; inversion H. cbn. apply (mapM_forall dec_subject1 sfixed l l0 H1 E).
  - destruct (dec_sstruct subject_fields m) eqn:E; cbn in H; inversion H. cbn. constructor; [apply (dec_sstruct_fixed _ _ _ E)|constructor].
Qed.
Lemma enc_subject_fixed : forall s, subj_fixed s -> option_map f64j (enc_subject s) = enc_subject s.
Proof.
  intros [| x | l] H; cbn [enc_subject option_map]; try reflexivity.
  destruct l as [|a [|b r]]; cbn [option_map]; [reflexivity| |].
  - inversion H; subst. rewrite (enc_sstruct_fixed _ H2). reflexivity.
  - cbn [f64j]. rewrite (map_fixed enc_sstruct sfixed _ enc_sstruct_fixed H). reflexivity.
Qed.

Lemma dec_issuer_fixed : forall o s, dec_issuer o = Some s -> sfixed s.
Proof.
  intros o s H. destruct o as [j|]; cbn [dec_issuer] in H; [|inversion H; apply with_id_fixed].
  destruct j; cbn [dec_issuer] in H; try discriminate; try (inversion H; apply with_id_fixed).
  destruct (dec_sstruct issuer_fields m) eqn:E; [|discriminate]. destruct (id_of s0 =? ""); [discriminate|]. inversion H; subst.
  apply (dec_sstruct_fixed _ _ _ E).
Qed.
Lemma issuer_out_fixed : forall s, sfixed s -> option_map f64j (issuer_out s) = issuer_out s.
Proof.
  intros s H. unfold issuer_out, issuer_member, enc_issuer. destruct (s_cf s) eqn:E.
  - destruct (id_of s =? ""); reflexivity.
  - cbn [option_map]. rewrite (enc_sstruct_fixed _ H). reflexivity.
Qed.

(* ---------- each member decodes to the same value the second time ---------- *)
Lemma outv_raw : forall x e, outv x e KRaw = option_map f64j e.
Proof. intros x [y|]; [reflexivity|]. unfold outv. destruct x; reflexivity. Qed.

Lemma M_str : forall x s, dec_str x = Some s -> dec_str (outv x (opt_str s) KStr) = Some s.
Proof.
  intros x s H. unfold outv, opt_str. destruct (dec_str_cases _ _ H) as [[-> ->]|[[-> ->]| ->]]; try reflexivity.
  unfold emitted_val. destruct (s =? "") eqn:E; reflexivity.
Qed.

Lemma M_jwt : forall x s, dec_str x = Some s -> exists s', dec_str (outv x None KStr) = Some s'.
Proof.
  intros x s H. unfold outv. destruct (dec_str_cases _ _ H) as [[-> ->]|[[-> ->]| ->]]; try (eexists; reflexivity).
  unfold emitted_val. destruct (s =? ""); eexists; reflexivity.
Qed.

Lemma M_time : forall x t, dec_time x = Some t -> dec_time (outv x (option_map JStr t) KTime) = Some t.
Proof. intros [[]|] t H; cbn in H; inversion H; subst; reflexivity. Qed.

Lemma span_str_head : forall l a b, span_str l = (a, b) -> match b with JStr _ :: _ => False | _ => True end.
Proof.
  induction l as [|x r IH]; intros a b H; cbn in H; [inversion H; exact I|].
  destruct x; try (inversion H; subst; exact I).
  destruct (span_str r) as [a' b'] eqn:E. inversion H; subst. apply (IH _ _ eq_refl).
Qed.

Lemma map_f64j_idem : forall l, map f64j (map f64j l) = map f64j l.
Proof. intros. rewrite map_map. apply map_ext. intros. apply f64j_idem. Qed.

Lemma head_f64 : forall b, match b with JStr _ :: _ => False | _ => True end ->
  match map f64j b with JStr _ :: _ => False | _ => True end.
Proof. intros [|[] r] H; cbn; auto. Qed.

Lemma M_ctx : forall x c, dec_context x = Some c -> dec_context (outv x (Some (enc_context (fst c) (snd c))) KIface) = Some c.
Proof.
  intros x c H. unfold outv. cbn [option_map].
  assert (Hc: match snd c with JStr _ :: _ => False | _ => True end /\ map f64j (snd c) = snd c).
  { destruct x as [[]|]; cbn in H; try discriminate.
    - inversion H; subst. cbn. split; [exact I|reflexivity].
    - destruct (span_str l) as [a b] eqn:E. inversion H; subst. cbn [snd]. split; [apply head_f64, (span_str_head _ _ _ E)|apply map_f64j_idem]. }
  destruct Hc as [Hh Hf]. unfold enc_context. cbn [f64j]. rewrite map_app, Hf.
  replace (map f64j (map JStr (fst c))) with (map JStr (fst c)) by (rewrite map_map; reflexivity).
  pose proof (context_roundtrip (fst c) (snd c) Hh) as R. unfold enc_context in R. rewrite R, Hf. destruct c; reflexivity.
Qed.

Lemma M_types : forall x l, dec_types x = Some l -> dec_types (outv x (Some (enc_types l)) KIface) = Some l.
Proof.
  intros x l _. unfold outv. cbn [option_map].
  replace (f64j (enc_types l)) with (enc_types l); [apply types_roundtrip|].
  destruct l as [|a [|b r]]; cbn; try reflexivity. f_equal. f_equal. f_equal. rewrite map_map. reflexivity.
Qed.

Lemma M_evidence : forall x, dec_iface (outv x (dec_iface x) KIface) = dec_iface x.
Proof.
  intros x. unfold outv. destruct x as [j|]; [|reflexivity].
  destruct j; cbn; rewrite ?f64round_idem; try reflexivity.
  - pose proof (f64j_idem (JArr l)) as H. cbn in H. injection H as H. rewrite H, H. reflexivity.
  - pose proof (f64j_idem (JObj m)) as H. cbn in H. injection H as H. rewrite H, H. reflexivity.
Qed.

Lemma M_status : forall x t, objs_ok tid_names x = true -> dec_status x = Some t ->
  dec_status (outv x (option_map enc_sstruct t) KTypedPtr) = Some t.
Proof.
  intros x t Hok H. pose proof (status_reparse _ _ Hok H) as R.
  destruct t as [s|].
  - unfold outv. cbn [option_map] in *. 
    assert (sfixed s).
    { destruct x as [[]|]; cbn [dec_status] in H; try discriminate.
      destruct (dec_sstruct typedID_fields m) eqn:E; cbn in H; inversion H; subst. apply (dec_sstruct_fixed _ _ _ E). }
    rewrite (enc_sstruct_fixed _ H0). exact R.
  - unfold outv. cbn [option_map]. destruct x as [[]|]; cbn in H |- *; try discriminate; try reflexivity.
Qed.

Lemma M_schemas : forall x l, objs_ok tid_names x = true -> dec_schemas x = Some l ->
  dec_schemas (outv x (enc_schemas l) KIface) = Some l.
Proof.
  intros x l Hok H. pose proof (schemas_reparse _ _ Hok H) as R. pose proof (dec_schemas_fixed _ _ H) as F.
  destruct l as [|a r].
  - unfold outv. cbn [enc_schemas]. destruct x as [j|]; [|reflexivity]. destruct (emitted_val KIface j) eqn:E; [reflexivity|].
    destruct j; cbn in E; try discriminate. reflexivity.
  - unfold outv. cbn [enc_schemas option_map f64j] in *. rewrite (map_fixed enc_sstruct sfixed _ enc_sstruct_fixed F). exact R.
Qed.

(* ---------- the custom members of the second parse ---------- *)
Definition mem_ok (m : obj) (v : vc) : Prop :=
  forall k kind y, In (k, kind, true) vfields -> assoc_e (raw_entries v) k = Some y ->
    (exists xv, lookup m k = Some xv /\ emitted_val kind xv = true) /\ emitted_val kind (f64j y) = true.

Lemma emitted_val_f64 : forall kind x, emitted_val kind (f64j x) = emitted_val kind x.
Proof. intros kind x. destruct kind; destruct x; reflexivity. Qed.

Lemma assoc_e_in : forall es k y, assoc_e es k = Some y -> In k (map fst es).
Proof.
  induction es as [|[k' o] r IH]; intros k y H; cbn in *; [discriminate|].
  destruct (String.eqb k k') eqn:E; [apply String.eqb_eq in E; auto|right; apply (IH _ _ H)].
Qed.

Lemma assoc_e_none_notin : forall es k, ~ In k (map fst es) -> assoc_e es k = None.
Proof.
  induction es as [|[k' o] r IH]; intros k H; cbn; [reflexivity|].
  destruct (String.eqb k k') eqn:E; [apply String.eqb_eq in E; subst; exfalso; apply H; cbn; auto|apply IH; intro; apply H; cbn; auto].
Qed.

(* every field is omitempty, names are distinct *)
Lemma vfields_facts : NoDup vnames /\ forall f, In f vfields -> snd f = true.
Proof.
  split.
  - unfold vnames, vfields, rawCredential_fields. cbn [map fst].
    repeat (constructor; [cbn; intuition discriminate|]). constructor.
  - intros f H. unfold vfields, rawCredential_fields in H. cbn in H.
    repeat (destruct H as [H|H]; [subst; reflexivity|]). destruct H.
Qed.

Lemma existsb_field : forall (p : string * fkind * bool -> bool) fs kk,
  NoDup (map (fun f => fst (fst f)) fs) ->
  existsb (fun f => (kk =? fst (fst f)) && p f) fs = true ->
  exists f, In f fs /\ fst (fst f) = kk /\ p f = true.
Proof.
  intros p fs kk _ H. apply existsb_exists in H. destruct H as [f [Hi Hp]]. apply andb_prop in Hp. destruct Hp as [H1 H2].
  apply String.eqb_eq in H1. exists f. auto.
Qed.

Lemma in_names14_field : forall v k, In k (names14 v) -> exists kind, In (k, kind, true) vfields.
Proof.
  intros v k H. unfold names14, raw_entries in H. cbn in H. unfold vfields, rawCredential_fields.
  repeat (destruct H as [H|H]; [subst; eexists; cbn; tauto|]). destruct H.
Qed.

Lemma field_in_names14 : forall v k kind, In (k, kind, true) vfields -> k = "jwt" \/ In k (names14 v).
Proof.
  intros v k kind H. unfold vfields, rawCredential_fields in H. cbn in H. unfold names14, raw_entries. cbn [map fst].
  repeat (destruct H as [H|H]; [inversion H; subst; cbn; tauto|]). destruct H.
Qed.

Lemma filter_true : forall {A} (p : A -> bool) l, (forall a, In a l -> p a = true) -> filter p l = l.
Proof. induction l as [|a r IH]; intros H; cbn; [reflexivity|]. rewrite (H a) by (cbn; auto). f_equal. apply IH. intros. apply H. cbn. auto. Qed.

Lemma lookup_in_keys : forall (m : obj) k, In k (keys m) -> exists z, lookup m k = Some z.
Proof.
  induction m as [|[a b] r IH]; intros k H; cbn in *; [destruct H|]. destruct (String.eqb k a) eqn:E; [eexists; reflexivity|].
  destruct H as [H|H]; [subst; rewrite String.eqb_refl in E; discriminate|apply IH; exact H].
Qed.

Lemma cf_again : forall m v,
  clean vnames m = true -> mem_ok m v -> v_cf v = top_cf vfields m ->
  top_cf vfields (f64o (merge_cf (raw_vc Fixed v) (v_cf v))) = v_cf v.
Proof.
  intros m v Hc Hok Hcf. rewrite Hcf. set (C := top_cf vfields m). set (R := raw_vc Fixed v).
  set (M := f64o (merge_cf R C)).
  destruct (names14_facts v) as [Hl Hn]. destruct vfields_facts as [Hnd Hom].
  (* no member of C has a name Credential.raw writes *)
  assert (HCR: forall kv, In kv C -> mem (fst kv) (keys R) = false).
  { intros [kk xv] Hin. cbn [fst]. destruct (mem kk (keys R)) eqn:E; [|reflexivity]. exfalso.
    unfold R in E. rewrite raw_vc_entries, (keys_entries_mem _ _ Hn) in E.
    destruct (assoc_e (raw_entries v) kk) as [y|] eqn:Ea; [|discriminate].
    pose proof (assoc_e_in _ _ _ Ea) as Hk. destruct (in_names14_field v kk Hk) as [kind Hf].
    destruct (Hok _ _ _ Hf Ea) as [[xv' [Hx He]] _].
    assert (HlC: lookup C kk = None).
    { unfold C. rewrite (lookup_C _ _ _ Hf), eop.
      rewrite (lk_clean vnames _ _ Hc) by (unfold vnames; apply in_map_iff; exists (kk, kind, true); auto).
      rewrite Hx, He. reflexivity. }
    assert (Hs: exists z, lookup C kk = Some z) by (apply lookup_in_keys; unfold keys; apply in_map_iff; exists (kk, xv); auto).
    destruct Hs as [z Hz]. congruence. }
  assert (HC': filter (fun kv => negb (mem (fst kv) (keys R))) C = C).
  { apply filter_true. intros kv Hi. rewrite (HCR kv Hi). reflexivity. }
  assert (HM: M = f64o R ++ C).
  { unfold M, merge_cf. rewrite HC', f64o_app. f_equal. unfold C, top_cf, split_cf. apply f64o_idem. }
  (* which names are emitted on the second parse: exactly those Credential.raw wrote *)
  assert (HE: forall kv, In kv M ->
            mem (fst kv) (map (fun f => fst (fst f)) (filter (emitted_on_parse M) vfields)) = mem (fst kv) (keys R)).
  { intros [kk xv] Hin. cbn [fst]. rewrite mem_map_filter.
    destruct (mem kk (keys R)) eqn:ER.
    - (* written by raw: emitted *)
      unfold R in ER. rewrite raw_vc_entries, (keys_entries_mem _ _ Hn) in ER.
      destruct (assoc_e (raw_entries v) kk) as [y|] eqn:Ea; [|discriminate].
      pose proof (assoc_e_in _ _ _ Ea) as Hk. destruct (in_names14_field v kk Hk) as [kind Hf].
      destruct (Hok _ _ _ Hf Ea) as [_ He2].
      apply existsb_exists. exists (kk, kind, true). split; [exact Hf|]. cbn [fst]. rewrite String.eqb_refl. cbn [andb].
      rewrite eop. unfold M, C, R. rewrite (lkM m v kk kind Hc Hf Hk). rewrite Ea. unfold outv. cbn [option_map]. exact He2.
    - (* not written by raw: not emitted *)
      destruct (existsb (fun f => (kk =? fst (fst f)) && emitted_on_parse M f) vfields) eqn:EX; [|reflexivity]. exfalso.
      destruct (existsb_field _ _ _ Hnd EX) as [[[k0 kind] om] [Hf [Hk0 Hp]]]. cbn [fst] in Hk0. subst k0.
      pose proof (Hom _ Hf) as Ho. cbn in Ho. subst om.
      rewrite eop in Hp.
      assert (Hout: lk M kk = outv (lookup m kk) None kind).
      { destruct (field_in_names14 v _ _ Hf) as [Hj|Hk].
        - subst kk. unfold vfields, rawCredential_fields in Hf. cbn in Hf.
          assert (kind = KStr) by (repeat (destruct Hf as [Hf|Hf]; [inversion Hf; try reflexivity|]); destruct Hf). subst kind.
          unfold M, C, R. apply lkM_jwt. exact Hc.
        - unfold M, C, R. rewrite (lkM m v kk kind Hc Hf Hk).
          unfold R in ER. rewrite raw_vc_entries, (keys_entries_mem _ _ Hn) in ER.
          destruct (assoc_e (raw_entries v) kk); [discriminate|reflexivity]. }
      rewrite Hout in Hp. unfold outv in Hp. destruct (lookup m kk) as [x0|]; [|discriminate].
      destruct (emitted_val kind x0) eqn:E0; [discriminate|]. cbn [option_map] in Hp.
      rewrite !emitted_val_f64, E0 in Hp. discriminate. }
  unfold top_cf at 1. unfold split_cf. fold M.
  rewrite (filter_ext_in _ (fun kv => negb (mem (fst kv) (keys R))) M) by (intros kv Hi; rewrite (HE kv Hi); reflexivity).
  rewrite HM, filter_app.
  assert (H1: filter (fun kv => negb (mem (fst kv) (keys R))) (f64o R) = []).
  { rewrite <- (f64o_filter (fun x => negb (mem x (keys R)))). rewrite filter_own_keys. reflexivity. }
  rewrite H1, HC'. cbn [app]. unfold C, top_cf, split_cf. apply f64o_idem.
Qed.

(* ---------- re-parse equality ---------- *)
Definition vc_guard (m : obj) : bool :=
  clean vnames m &&
  objs_ok id_names (lookup m "credentialSubject") && objs_ok id_names (lookup m "issuer") &&
  objs_ok tid_names (lookup m "credentialStatus") && objs_ok tid_names (lookup m "credentialSchema") &&
  objs_ok tid_names (lookup m "termsOfUse") && objs_ok tid_names (lookup m "refreshService").

Lemma A_ctx : forall v, assoc_e (raw_entries v) "@context" = Some (enc_context (v_ctx v) (v_cctx v)). Proof. reflexivity. Qed.
Lemma A_id : forall v, assoc_e (raw_entries v) "id" = opt_str (v_id v). Proof. reflexivity. Qed.
Lemma A_type : forall v, assoc_e (raw_entries v) "type" = Some (enc_types (v_types v)). Proof. reflexivity. Qed.
Lemma A_subj : forall v, assoc_e (raw_entries v) "credentialSubject" = enc_subject (v_subject v). Proof. reflexivity. Qed.
Lemma A_issued : forall v, assoc_e (raw_entries v) "issuanceDate" = option_map JStr (v_issued v). Proof. reflexivity. Qed.
Lemma A_expired : forall v, assoc_e (raw_entries v) "expirationDate" = option_map JStr (v_expired v). Proof. reflexivity. Qed.
Lemma A_proof : forall v, assoc_e (raw_entries v) "proof" = enc_list enc_proof1 (v_proofs v). Proof. reflexivity. Qed.
Lemma A_status : forall v, assoc_e (raw_entries v) "credentialStatus" = option_map enc_sstruct (v_status v). Proof. reflexivity. Qed.
Lemma A_issuer : forall v, assoc_e (raw_entries v) "issuer" = issuer_out (v_issuer v). Proof. reflexivity. Qed.
Lemma A_schema : forall v, assoc_e (raw_entries v) "credentialSchema" = enc_schemas (v_schemas v). Proof. reflexivity. Qed.
Lemma A_evidence : forall v, assoc_e (raw_entries v) "evidence" = v_evidence v. Proof. reflexivity. Qed.
Lemma A_tou : forall v, assoc_e (raw_entries v) "termsOfUse" = enc_list enc_sstruct (v_tou v). Proof. reflexivity. Qed.
Lemma A_refresh : forall v, assoc_e (raw_entries v) "refreshService" = enc_list enc_sstruct (v_refresh v). Proof. reflexivity. Qed.
Lemma A_alg : forall v, assoc_e (raw_entries v) "_sd_alg" = opt_str (v_sdalg v). Proof. reflexivity. Qed.

Lemma enc_list_some_nonempty : forall {A} (enc : A -> json) l y, enc_list enc l = Some y -> l <> [].
Proof. intros A enc [|a r] y H; [discriminate|discriminate]. Qed.

Ltac fin := cbn; tauto.

Theorem vc_reparse : forall m v,
  vc_guard m = true -> parse_vc Fixed (JObj m) = Some v -> parse_vc Fixed (marshal_vc Fixed v) = Some v.
Proof.
  intros m v G H. unfold vc_guard in G.
  apply andb_prop in G; destruct G as [G Gref]. apply andb_prop in G; destruct G as [G Gtou].
  apply andb_prop in G; destruct G as [G Gsch]. apply andb_prop in G; destruct G as [G Gst].
  apply andb_prop in G; destruct G as [G Giss]. apply andb_prop in G; destruct G as [Hc Gsub].
  cbn [parse_vc] in H.
  rewrite !(lk_clean vnames _ _ Hc) in H by (vm_compute; tauto).
  unfold bind in H.
  destruct (dec_str (lookup m "id")) as [id|] eqn:Eid; [|discriminate].
  destruct (dec_str (lookup m "jwt")) as [jw|] eqn:Ejwt; [|discriminate].
  destruct (dec_str (lookup m "_sd_alg")) as [alg|] eqn:Ealg; [|discriminate].
  destruct (dec_time (lookup m "issuanceDate")) as [issued|] eqn:Eissued; [|discriminate].
  destruct (dec_time (lookup m "expirationDate")) as [expired|] eqn:Eexpired; [|discriminate].
  destruct (dec_status (lookup m "credentialStatus")) as [status|] eqn:Estatus; [|discriminate].
  destruct (dec_schemas (lookup m "credentialSchema")) as [schemas|] eqn:Eschemas; [|discriminate].
  destruct (dec_types (lookup m "type")) as [types|] eqn:Etypes; [|discriminate].
  destruct (dec_issuer (lookup m "issuer")) as [issuer|] eqn:Eissuer; [|discriminate].
  destruct (dec_context (lookup m "@context")) as [ctx|] eqn:Ectx; [|discriminate].
  destruct (dec_typedids (lookup m "termsOfUse")) as [tou|] eqn:Etou; [|discriminate].
  destruct (dec_typedids (lookup m "refreshService")) as [refresh|] eqn:Erefresh; [|discriminate].
  destruct (dec_proofs (lookup m "proof")) as [proofs|] eqn:Eproofs; [|discriminate].
  destruct (dec_subject Fixed (lookup m "credentialSubject")) as [subject|] eqn:Esubject; [|discriminate].
  inversion H as [Hv]. clear H.
  set (V := {| v_ctx := fst ctx; v_cctx := snd ctx; v_id := id; v_types := types; v_subject := subject;
               v_issuer := issuer; v_issued := issued; v_expired := expired; v_proofs := proofs;
               v_status := status; v_schemas := schemas; v_evidence := dec_iface (lookup m "evidence");
               v_tou := tou; v_refresh := refresh; v_sdalg := alg; v_cf := top_cf rawCredential_fields m |}).
  (* the second parse, member by member *)
  unfold marshal_vc. cbn [f64j]. change (map (fun kv : string * json => (fst kv, f64j (snd kv)))) with f64o.
  change (v_cf V) with (top_cf vfields m).
  cbn [parse_vc]. 
  rewrite (lkM_jwt m V Hc).
  rewrite (lkM m V "id" KStr Hc) by fin.
  rewrite (lkM m V "_sd_alg" KStr Hc) by fin.
  rewrite (lkM m V "issuanceDate" KTime Hc) by fin.
  rewrite (lkM m V "expirationDate" KTime Hc) by fin.
  rewrite (lkM m V "credentialStatus" KTypedPtr Hc) by fin.
  rewrite (lkM m V "credentialSchema" KIface Hc) by fin.
  rewrite (lkM m V "type" KIface Hc) by fin.
  rewrite (lkM m V "issuer" KRaw Hc) by fin.
  rewrite (lkM m V "@context" KIface Hc) by fin.
  rewrite (lkM m V "termsOfUse" KRaw Hc) by fin.
  rewrite (lkM m V "refreshService" KRaw Hc) by fin.
  rewrite (lkM m V "proof" KRaw Hc) by fin.
  rewrite (lkM m V "credentialSubject" KRaw Hc) by fin.
  rewrite (lkM m V "evidence" KIface Hc) by fin.
  rewrite A_id, A_alg, A_issued, A_expired, A_status, A_schema, A_type, A_issuer, A_ctx, A_tou, A_refresh, A_proof, A_subj, A_evidence.
  unfold V at 1 2 3 4 5 6 7 8 9 10 11 12 13 14 15. cbn [v_ctx v_cctx v_id v_types v_subject v_issuer v_issued v_expired v_proofs v_status v_schemas v_evidence v_tou v_refresh v_sdalg].
  rewrite !outv_raw.
  destruct (M_jwt _ _ Ejwt) as [jw' Ejw']. rewrite Ejw'.
  rewrite (M_str _ _ Eid), (M_str _ _ Ealg), (M_time _ _ Eissued), (M_time _ _ Eexpired).
  rewrite (M_status _ _ Gst Estatus), (M_schemas _ _ Gsch Eschemas), (M_types _ _ Etypes).
  rewrite (issuer_out_fixed _ (dec_issuer_fixed _ _ Eissuer)), (issuer_reparse _ _ Giss Eissuer).
  rewrite (M_ctx _ _ Ectx).
  rewrite (enc_list_fixed enc_sstruct sfixed _ enc_sstruct_fixed (dec_typedids_fixed _ _ Etou)), (typedids_reparse _ _ Gtou Etou).
  rewrite (enc_list_fixed enc_sstruct sfixed _ enc_sstruct_fixed (dec_typedids_fixed _ _ Erefresh)), (typedids_reparse _ _ Gref Erefresh).
  rewrite (enc_list_fixed enc_proof1 pfixed _ enc_proof1_fixed (dec_proofs_fixed _ _ Eproofs)), (proofs_reparse _ _ Eproofs).
  rewrite (enc_subject_fixed _ (dec_subject_fixed _ _ Esubject)), (subject_reparse _ _ Gsub Esubject).
  unfold bind. rewrite M_evidence.
  (* the custom members *)
  assert (Hcf: top_cf rawCredential_fields (f64o (merge_cf (raw_vc Fixed V) (top_cf vfields m))) = top_cf rawCredential_fields m).
  { change (top_cf vfields m) with (v_cf V) at 1. apply (cf_again m V Hc); [|reflexivity].
    (* every member Credential.raw writes was emitted by the first parse and is emitted by the second *)
    intros k kind y Hf Ha. unfold vfields, rawCredential_fields in Hf. cbn [In] in Hf.
    assert (Hnn: forall j, is_null (f64j j) = is_null j) by (intros []; reflexivity).
    repeat (destruct Hf as [Hf|Hf]; [inversion Hf; subst k kind; clear Hf|]); try destruct Hf.
    - (* @context *) rewrite A_ctx in Ha. inversion Ha; subst y. split; [|reflexivity].
      destruct (lookup m "@context") as [[]|]; cbn in Ectx; try discriminate; eexists; split; reflexivity.
    - (* id *) rewrite A_id in Ha. unfold V in Ha. cbn [v_id] in Ha. unfold opt_str in Ha. destruct (id =? "") eqn:E; [discriminate|].
      inversion Ha; subst y. cbn. rewrite E. split; [|reflexivity].
      destruct (dec_str_cases _ _ Eid) as [[_ ->]|[[_ ->]| ->]]; try discriminate. eexists; split; [reflexivity|cbn; rewrite E; reflexivity].
    - (* type *) rewrite A_type in Ha. inversion Ha; subst y. split; [|destruct types as [|a [|b r]]; reflexivity].
      destruct (lookup m "type") as [[]|]; cbn in Etypes; try discriminate; eexists; split; reflexivity.
    - (* credentialSubject *) rewrite A_subj in Ha. unfold V in Ha. cbn [v_subject] in Ha. split; [|reflexivity].
      destruct (lookup m "credentialSubject") as [xv|]; [exists xv; split; reflexivity|]. cbn in Esubject. inversion Esubject; subst. discriminate.
    - (* issuanceDate *) rewrite A_issued in Ha. unfold V in Ha. cbn [v_issued] in Ha. destruct issued as [t|]; [|discriminate]. inversion Ha; subst y.
      split; [|reflexivity]. destruct (lookup m "issuanceDate") as [[]|]; cbn in Eissued; try discriminate; eexists; split; reflexivity.
    - (* expirationDate *) rewrite A_expired in Ha. unfold V in Ha. cbn [v_expired] in Ha. destruct expired as [t|]; [|discriminate]. inversion Ha; subst y.
      split; [|reflexivity]. destruct (lookup m "expirationDate") as [[]|]; cbn in Eexpired; try discriminate; eexists; split; reflexivity.
    - (* proof *) rewrite A_proof in Ha. unfold V in Ha. cbn [v_proofs] in Ha. split; [|reflexivity].
      destruct (lookup m "proof") as [xv|]; [exists xv; split; reflexivity|]. cbn in Eproofs. inversion Eproofs; subst. discriminate.
    - (* credentialStatus *) rewrite A_status in Ha. unfold V in Ha. cbn [v_status] in Ha. destruct status as [t|]; [|discriminate]. inversion Ha; subst y.
      split; [|reflexivity]. destruct (lookup m "credentialStatus") as [[]|]; cbn in Estatus; try discriminate; eexists; split; reflexivity.
    - (* issuer *) rewrite A_issuer in Ha. unfold V in Ha. cbn [v_issuer] in Ha. split; [|reflexivity].
      destruct (lookup m "issuer") as [xv|]; [exists xv; split; reflexivity|]. cbn in Eissuer. inversion Eissuer; subst. discriminate.
    - (* credentialSchema *) rewrite A_schema in Ha. unfold V in Ha. cbn [v_schemas] in Ha. destruct schemas as [|a r]; [discriminate|]. inversion Ha; subst y.
      split; [|reflexivity]. destruct (lookup m "credentialSchema") as [[]|]; cbn in Eschemas; try discriminate; eexists; split; reflexivity.
    - (* evidence *) rewrite A_evidence in Ha. unfold V in Ha. cbn [v_evidence] in Ha.
      destruct (lookup m "evidence") as [xv|]; [|discriminate]. destruct (is_null xv) eqn:En; [destruct xv; discriminate|].
      assert (y = f64j xv) by (destruct xv; cbn in Ha; try discriminate; inversion Ha; reflexivity). subst y.
      split; [exists xv; split; [reflexivity|cbn; rewrite En; reflexivity]|cbn; rewrite !Hnn, En; reflexivity].
    - (* termsOfUse *) rewrite A_tou in Ha. unfold V in Ha. cbn [v_tou] in Ha. split; [|reflexivity].
      destruct (lookup m "termsOfUse") as [xv|]; [exists xv; split; reflexivity|]. cbn in Etou. inversion Etou; subst. discriminate.
    - (* refreshService *) rewrite A_refresh in Ha. unfold V in Ha. cbn [v_refresh] in Ha. split; [|reflexivity].
      destruct (lookup m "refreshService") as [xv|]; [exists xv; split; reflexivity|]. cbn in Erefresh. inversion Erefresh; subst. discriminate.
    - (* jwt *) discriminate.
    - (* _sd_alg *) rewrite A_alg in Ha. unfold V in Ha. cbn [v_sdalg] in Ha. unfold opt_str in Ha. destruct (alg =? "") eqn:E; [discriminate|].
      inversion Ha; subst y. cbn. rewrite E. split; [|reflexivity].
      destruct (dec_str_cases _ _ Ealg) as [[_ ->]|[[_ ->]| ->]]; try discriminate. eexists; split; [reflexivity|cbn; rewrite E; reflexivity]. }
  rewrite Hcf. unfold V. reflexivity.
Qed.
