(* C16 — correspondence: the harness records what the real codecs did on generated documents / keys. *)
From Coq Require Import List String Ascii ZArith NArith Bool.
Import ListNotations.
From VF Require Export C16.Model C16.ModelT C16.ModelJ.

(* model output against observed output: Go prints a float64 with the shortest digits that read back to it,
   so an observed number stands for its float64 value *)
Definition ojeq (a b : option json) : bool :=
  match a, b with Some x, Some y => jeq x (f64j y) | None, None => true | _, _ => false end.

Fixpoint bytes_eqb (a b : list N) : bool :=
  match a, b with [] , [] => true | x :: r, y :: t => N.eqb x y && bytes_eqb r t | _, _ => false end.

Fixpoint assoc_z (l : list (string * Z)) (k : string) : Z :=
  match l with [] => 0%Z | (k', z) :: r => if String.eqb k k' then z else assoc_z r k end.
Fixpoint assoc_s (l : list (Z * string)) (k : Z) : string :=
  match l with [] => EmptyString | (k', s) :: r => if Z.eqb k k' then s else assoc_s r k end.

Definition ozeq (a b : option Z) : bool :=
  match a, b with Some x, Some y => Z.eqb x y | None, None => true | _, _ => false end.

(* disclosures of every SD-JWT string among the enclosed credentials in sorted order *)
Fixpoint str_leb (a b : string) : bool :=
  match a, b with
  | EmptyString, _ => true
  | String _ _, EmptyString => false
  | String x a', String y b' =>
      let nx := nat_of_ascii x in let ny := nat_of_ascii y in
      if Nat.ltb nx ny then true else if Nat.ltb ny nx then false else str_leb a' b'
  end.
Fixpoint insert_str (x : string) (l : list string) : list string :=
  match l with [] => [x] | y :: r => if str_leb x y then x :: l else y :: insert_str x r end.
Definition sort_str (l : list string) : list string := fold_right insert_str [] l.
Definition norm_cred_str (j : json) : json :=
  match j with
  | JStr s => match split_tilde s with
              | jwt :: rest => JStr (join_tilde (jwt :: sort_str (filter (fun x => negb (String.eqb x EmptyString)) rest)))
              | [] => j
              end
  | _ => j
  end.
Definition norm_vp (j : json) : json :=
  match j with
  | JObj m => JObj (map (fun kv => if String.eqb (fst kv) "verifiableCredential"
                                   then (fst kv, match snd kv with JArr l => JArr (map norm_cred_str l) | x => x end)
                                   else kv) m)
  | _ => j
  end.

Inductive case :=
(* ParseCredential (validation as chosen by the harness) -> MarshalJSON; None = the parser refused *)
| CVC (inp : json) (out : option json)
(* ParsePresentation -> MarshalJSON *)
| CVP (inp : json) (out : option json)
(* the same for a presentation enclosing JWT / SD-JWT credentials; env: the compact JWS among its strings and whether
   their payload has _sd_alg.  The order of the disclosures in a re-serialised SD-JWT is not determined (Go map): compared sorted *)
| CVPE (env : list (string * bool)) (inp : json) (out : option json)
(* JWTClaims(minimize) of the parsed credential; the credential re-parsed from the unsecured JWT of those claims
   (decodeCredJWT: refineFromJWTClaims, then the ordinary parser) and serialised again;
   secs/fmt: the time conversions of the dates that occur (done by Go's time package) *)
| CJWT (inp : json) (minimize : bool) (secs : list (string * Z)) (fmt : list (Z * string))
       (iss sub jti : string) (nbf iat exp : option Z) (vcclaim : json) (rebuilt : json)
(* populateServices -> populateRawServices of one service: typed members as re-emitted, input, output *)
| CSVC (typed : obj) (inp : obj) (out : obj)
(* KeyFingerprint(code,key): bytes under the base58 layer; PubKeyFromFingerprint result; PubKeyFromDIDKey result *)
| CFP (code : N) (key : list N) (mc : list N) (dec : option (list N * N)) (dk : option (list N))
(* jwk.JWK.UnmarshalJSON -> MarshalJSON of one JWK *)
| CJWK (inp : obj) (out : obj)
(* one service of a DID document (id, @base of the document): populateServices -> populateRawServices *)
| CSVC2 (did base : string) (inp : obj) (out : obj)
(* did.ParseDocument -> JSONBytes, the whole document with its services *)
| CDID (inp : json) (out : json)
(* CreateDIDKeyByJwk of the NIST-curve public key (x, y): the bytes under the base58 layer of the did:key *)
| CEC (code : N) (size : nat) (x y : Z) (mc : list N)
(* did.ParseDocument refused the document because of a time text or a proof *)
| CDIDR (inp : json)
(* jwk.JWK.MarshalJSON of the NIST-curve public key (x, y): the texts of the members x and y; UnmarshalJSON gave (x, y) back *)
| CECJ (size : nat) (x y : Z) (xs ys : string)
(* jwk.JWK.MarshalJSON of an EC private key: the text of the member d (fixed width, as the coordinates) *)
| CECD (size : nat) (d : Z) (ds : string)
(* a time text through a pointer-to-time.Time member (encoding/json) and back; None = refused *)
| CTM (inp : string) (out : option string).

Definition check_case (c : case) : bool :=
  match c with
  | CVC inp out => ojeq (roundtrip_vc Fixed inp) out
  | CVP inp out => ojeq (roundtrip_vp Fixed [] inp) out
  | CVPE env inp out =>
      (* the model finds the compact JWS among the strings itself (jws_payload: dots, base64url, JSON objects) and reads
         _sd_alg from the vc claim; what the jose code decided (env, from the harness) must agree with it *)
      let env' := model_env inp in
      forallb (fun e => match env_get env' (fst e) with Some b => Bool.eqb b (snd e) | None => false end) env &&
      ojeq (option_map norm_vp (roundtrip_vp_self Fixed inp)) (option_map norm_vp out)
  | CJWT inp minimize secs fmt iss sub jti nbf iat exp vcclaim rebuilt =>
      match parse_vc Fixed inp with
      | Some v =>
          match jwt_claims (assoc_z secs) minimize v with
          | Some c =>
              String.eqb (j_iss c) iss && String.eqb (j_sub c) sub && String.eqb (j_jti c) jti &&
              ozeq (j_nbf c) nbf && ozeq (j_iat c) iat && ozeq (j_exp c) exp &&
              jeq (JObj (j_vc c)) (f64j vcclaim) && ojeq (roundtrip_vc Fixed (JObj (refine (assoc_s fmt) c))) (Some rebuilt)
          | None => false
          end
      | None => false
      end
  | CSVC typed inp out => jeq (JObj (service_roundtrip (f64o typed) inp)) (f64j (JObj out))
  | CJWK inp out => jeq (JObj (jwk_out inp)) (f64j (JObj out))
  | CSVC2 did base inp out => jeq (JObj (roundtrip_service did base inp)) (f64j (JObj out))
  | CDID inp out =>
      match out with
      | JObj o => ojeq (roundtrip_did2 Fixed inp) (Some out)
      | _ => false
      end
  | CDIDR inp => match roundtrip_did2 Fixed inp with None => true | Some _ => false end
  | CECJ size x y xs ys =>
      let '(mx, my) := jwk_ec_members size x y in
      String.eqb mx xs && String.eqb my ys &&
      match jwk_ec_read size xs ys with Some (x', y') => Z.eqb x' x && Z.eqb y' y | None => false end
  | CECD size d ds =>
      String.eqb (b64url_enc (be_bytes size d)) ds &&
      match b64_dec true ds with Some b => Nat.eqb (List.length b) size && Z.eqb (be_value b) d | None => false end
  | CTM inp out =>
      match norm_time inp, out with
      | Some a, Some b => String.eqb a b
      | None, None => true
      | _, _ => false
      end
  | CEC code size x y mc =>
      match curve_size code with
      | Some n => Nat.eqb n size && bytes_eqb (fp_bytes code (ec_compress n x y)) mc &&
                  match didkey_decode mc with
                  | Some k => bytes_eqb k (ec_compress n x y) && Z.eqb (be_value (tl k)) x
                  | None => false
                  end
      | None => false
      end
  | CFP code key mc dec dk =>
      bytes_eqb (fp_bytes code key) mc &&
      match fp_decode mc, dec with
      | Some (k, c'), Some (k', c'') => bytes_eqb k k' && N.eqb c' c''
      | None, None => true
      | _, _ => false
      end &&
      match didkey_decode mc, dk with
      | Some k, Some k' => bytes_eqb k k'
      | None, None => true
      | _, _ => false
      end
  end.

Fixpoint mismatches_from (i : nat) (cs : list case) : list nat :=
  match cs with
  | [] => []
  | c :: r => if check_case c then mismatches_from (S i) r else i :: mismatches_from (S i) r
  end.
Definition mismatches := mismatches_from 0.
