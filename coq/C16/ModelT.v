(* C16 — executable model, part T (wave 5): what the first model left out of DID documents and keys.  NO proofs here.
     did   rawDoc.Created / Updated (pointer to time.Time through encoding/json: RFC 3339 in, RFC3339Nano out)    -> parse_tm / fmt_tm
           populateProofs / populateRawProofs (type, created, creator relative to @base / id, proofValue,
           domain, nonce, proofPurpose)                                                                  -> dec_dproof / enc_dproof
           ParseDocument / JSONBytes with these members                                                  -> parse_did2 / marshal_did2
     base64 (RawURLEncoding, StdEncoding, RawStdEncoding of Go, non-strict) at CHARACTER level over common/Base64.v
     jwk   EC public keys: x / y are the fixed-width big-endian coordinates in base64url                   -> jwk_ec_members / jwk_ec_read
   Times are handled as text: the model reads the characters itself (no table from the harness).  The process runs
   with time.Local = UTC (the harness sets it): a zero offset is then written as Z. *)
From Coq Require Import List String Ascii ZArith NArith Bool.
Import ListNotations.
From VF Require Export C16.Model.
From VF Require common.Base64.
Open Scope string_scope.
Open Scope list_scope.

(* ---------- base64 at character level ---------- *)
Definition sext_of_char (url : bool) (c : ascii) : option N :=
  let n := N_of_ascii c in
  if (65 <=? n)%N && (n <=? 90)%N then Some (n - 65)%N
  else if (97 <=? n)%N && (n <=? 122)%N then Some (n - 71)%N
  else if (48 <=? n)%N && (n <=? 57)%N then Some (n + 4)%N
  else if url then (if (n =? 45)%N then Some 62%N else if (n =? 95)%N then Some 63%N else None)
  else (if (n =? 43)%N then Some 62%N else if (n =? 47)%N then Some 63%N else None).
(* the URL alphabet *)
Definition char_of_sext (s : N) : ascii :=
  ascii_of_N (if (s <? 26)%N then (s + 65)%N else if (s <? 52)%N then (s + 71)%N else if (s <? 62)%N then (s - 4)%N
              else if (s =? 62)%N then 45%N else 95%N).

(* base64.RawURLEncoding / RawStdEncoding .DecodeString (not strict: unused low bits of the tail are ignored) *)
Definition b64_dec (url : bool) (s : string) : option (list N) :=
  match mapM (sext_of_char url) (list_ascii_of_string s) with
  | Some ss => Base64.decode false ss
  | None => None
  end.
(* base64.RawURLEncoding.EncodeToString *)
Definition b64url_enc (bs : list N) : string := string_of_list_ascii (map char_of_sext (Base64.encode bs)).

(* base64.StdEncoding.DecodeString: padded to a multiple of four with one or two '=' *)
Definition eqchar : ascii := "="%char.
Definition strip_pad (l : list ascii) : list ascii :=
  match rev l with
  | a :: b :: r => if Ascii.eqb a eqchar then (if Ascii.eqb b eqchar then rev r else rev (b :: r)) else l
  | _ => l
  end.
Definition b64_std_padded (s : string) : option (list N) :=
  let l := list_ascii_of_string s in
  if negb (Nat.eqb (Nat.modulo (List.length l) 4) 0) then None else
  match mapM (sext_of_char false) (strip_pad l) with
  | Some ss => Base64.decode false ss
  | None => None
  end.
(* ld/proof decodeBase64: the first of RawURLEncoding, StdEncoding, RawStdEncoding that accepts the text *)
Definition b64_any (s : string) : option (list N) :=
  match b64_dec true s with
  | Some b => Some b
  | None => match b64_std_padded s with Some b => Some b | None => b64_dec false s end
  end.

(* ---------- RFC 3339 times as text ---------- *)
Definition dig (c : ascii) : option N :=
  let n := N_of_ascii c in if (48 <=? n)%N && (n <=? 57)%N then Some (n - 48)%N else None.
Definition dchr (n : N) : ascii := ascii_of_N (n + 48).
Definition take2 (s : string) : option (N * string) :=
  match s with
  | String a (String b r) => match dig a, dig b with Some x, Some y => Some ((x * 10 + y)%N, r) | _, _ => None end
  | _ => None
  end.
Definition put2 (n : N) (r : string) : string := String (dchr (n / 10)) (String (dchr (n mod 10)) r).
Definition expect (c : ascii) (s : string) : option string :=
  match s with String a r => if Ascii.eqb a c then Some r else None | EmptyString => None end.
Fixpoint take_digits (s : string) : list N * string :=
  match s with
  | String a r => match dig a with Some d => let '(ds, t) := take_digits r in (d :: ds, t) | None => ([], s) end
  | EmptyString => ([], s)
  end.
Fixpoint put_digits (ds : list N) (r : string) : string :=
  match ds with [] => r | d :: t => String (dchr d) (put_digits t r) end.
(* the fraction: nanoseconds (nine digits, further ones are cut), written without trailing zeros *)
Fixpoint strip0 (ds : list N) : list N :=
  match ds with
  | [] => []
  | d :: r => match strip0 r with [] => if (d =? 0)%N then [] else [d] | t => d :: t end
  end.
Definition norm_frac (ds : list N) : list N := strip0 (firstn 9 ds).
Fixpoint digits_eqb (a b : list N) : bool :=
  match a, b with [], [] => true | x :: r, y :: t => (x =? y)%N && digits_eqb r t | _, _ => false end.
Definition frac_ok (ds : list N) : bool :=
  Nat.leb (List.length ds) 9 && forallb (fun d => (d <? 10)%N) ds && digits_eqb (strip0 ds) ds.

Definition dot : ascii := "."%char.
Definition take_frac (s : string) : option (list N * string) :=
  match s with
  | String c r =>
      if Ascii.eqb c dot then match take_digits r with ([], _) => None | (ds, t) => Some (ds, t) end
      else Some ([], s)
  | EmptyString => Some ([], s)
  end.
Definition put_frac (ds : list N) (r : string) : string :=
  match ds with [] => r | _ => String dot (put_digits ds r) end.

(* the zone: None = UTC (Z, or a zero offset under time.Local = UTC); Some (negative, hours, minutes) *)
Definition zone := option (bool * N * N).
Definition colon : ascii := ":"%char.
Definition take_zone (s : string) : option zone :=
  match s with
  | String c r =>
      if Ascii.eqb c "Z"%char then (match r with EmptyString => Some None | _ => None end)
      else if Ascii.eqb c "+"%char || Ascii.eqb c "-"%char then
        p <- take2 r ;; r2 <- expect colon (snd p) ;; q <- take2 r2 ;;
        match snd q with
        | EmptyString =>
            (* Go reads hours up to 24 and minutes up to 60 and adds them up: +01:60 is +02:00; a sum of 24 hours or
               more cannot be written back (Time.MarshalJSON refuses it): the model refuses such a text altogether *)
            let tot := (fst p * 60 + fst q)%N in
            let h := (tot / 60)%N in let m := (tot mod 60)%N in
            if (fst p <=? 24)%N && (fst q <=? 60)%N && (h <? 24)%N
            then Some (if (tot =? 0)%N then None else Some (Ascii.eqb c "-"%char, h, m))
            else None
        | _ => None
        end
      else None
  | EmptyString => None
  end.
Definition put_zone (z : zone) : string :=
  match z with
  | None => "Z"
  | Some (neg, h, m) => String (if neg then "-"%char else "+"%char) (put2 h (String colon (put2 m EmptyString)))
  end.
Definition zone_ok (z : zone) : bool :=
  match z with None => true | Some (_, h, m) => (h <? 24)%N && (m <? 60)%N && negb ((h =? 0)%N && (m =? 0)%N) end.

Record tm := { t_y : N; t_mo : N; t_d : N; t_h : N; t_mi : N; t_s : N; t_frac : list N; t_zone : zone }.
Definition leap (y : N) : bool := ((y mod 4 =? 0)%N && negb (y mod 100 =? 0)%N) || (y mod 400 =? 0)%N.
Definition days_in (y m : N) : N :=
  if (m =? 2)%N then (if leap y then 29%N else 28%N)
  else if (m =? 4)%N || (m =? 6)%N || (m =? 9)%N || (m =? 11)%N then 30%N else 31%N.
Definition tm_ok (t : tm) : bool :=
  (t_y t <? 10000)%N && (1 <=? t_mo t)%N && (t_mo t <=? 12)%N && (1 <=? t_d t)%N && (t_d t <=? days_in (t_y t) (t_mo t))%N &&
  (t_h t <? 24)%N && (t_mi t <? 60)%N && (t_s t <? 60)%N && frac_ok (t_frac t) && zone_ok (t_zone t).

Definition dash : ascii := "-"%char.
Definition tee : ascii := "T"%char.
(* time.Time.UnmarshalJSON / time.Parse(time.RFC3339, …) on the strict RFC 3339 spelling *)
Definition parse_tm (s : string) : option tm :=
  a <- take2 s ;; b <- take2 (snd a) ;; r <- expect dash (snd b) ;;
  mo <- take2 r ;; r <- expect dash (snd mo) ;;
  d <- take2 r ;; r <- expect tee (snd d) ;;
  h <- take2 r ;; r <- expect colon (snd h) ;;
  mi <- take2 r ;; r <- expect colon (snd mi) ;;
  se <- take2 r ;;
  f <- take_frac (snd se) ;;
  z <- take_zone (snd f) ;;
  let t := {| t_y := (fst a * 100 + fst b)%N; t_mo := fst mo; t_d := fst d; t_h := fst h; t_mi := fst mi; t_s := fst se;
              t_frac := norm_frac (fst f); t_zone := z |} in
  if tm_ok t then Some t else None.
(* time.Time.MarshalJSON: RFC3339Nano *)
Definition fmt_tm (t : tm) : string :=
  put2 (t_y t / 100) (put2 (t_y t mod 100) (String dash (put2 (t_mo t) (String dash (put2 (t_d t) (String tee
  (put2 (t_h t) (String colon (put2 (t_mi t) (String colon (put2 (t_s t) (put_frac (t_frac t) (put_zone (t_zone t)))))))))))))).
(* what a time text is written back as *)
Definition norm_time (s : string) : option string := option_map fmt_tm (parse_tm s).

(* a pointer-to-time.Time member of a raw struct *)
Definition dec_tm (o : option json) : option (option tm) :=
  match o with
  | None | Some JNull => Some None
  | Some (JStr s) => option_map Some (parse_tm s)
  | _ => None
  end.

(* ---------- proofs of a DID document ---------- *)
Inductive pvalue := PVb64 (bs : list N) | PVmb (text : string).
Record dproof := { dp_type : string; dp_created : tm; dp_creator : string; dp_rel : bool; dp_value : pvalue;
                   dp_domain : string; dp_nonce : list N; dp_purpose : string }.
Definition sig2020 : string := "Ed25519Signature2020".
(* DecodeProofValue: multibase for Ed25519Signature2020 (the text z… is kept: canonical base58, as for keys),
   decodeBase64 for every other type *)
Definition dec_pvalue (ty s : string) : option pvalue :=
  if ty =? sig2020 then
    match s with String c r => if Ascii.eqb c zchar then Some (PVmb s) else None | EmptyString => None end
  else option_map PVb64 (b64_any s).
Definition enc_pvalue (v : pvalue) : string := match v with PVb64 bs => b64url_enc bs | PVmb s => s end.

(* the JSON schema of a DID document: type, creator, created, proofValue are required strings; domain and nonce are
   strings when present *)
Definition is_str (o : option json) : bool := match o with Some (JStr _) => true | _ => false end.
Definition str_or_absent (o : option json) : bool := match o with None | Some (JStr _) => true | _ => false end.
Definition proof_schema_ok (m : obj) : bool :=
  is_str (lookup m "type") && is_str (lookup m "creator") && is_str (lookup m "created") && is_str (lookup m "proofValue") &&
  str_or_absent (lookup m "domain") && str_or_absent (lookup m "nonce").
(* populateProofs (context v1) *)
Definition dec_dproof (did base : string) (j : json) : option dproof :=
  match j with
  | JObj m =>
      if negb (proof_schema_ok m) then None else
      t <- parse_tm (str_entry (lookup m "created")) ;;
      let ty := str_entry (lookup m "type") in
      pv <- dec_pvalue ty (str_entry (lookup m "proofValue")) ;;
      nonce <- b64_dec true (str_entry (lookup m "nonce")) ;;
      let creator := str_entry (lookup m "creator") in
      Some {| dp_type := ty; dp_created := t;
              dp_creator := if starts_hash creator then resolve_rel did base creator else creator;
              dp_rel := starts_hash creator; dp_value := pv;
              dp_domain := str_entry (lookup m "domain"); dp_nonce := nonce;
              dp_purpose := str_entry (lookup m "proofPurpose") |}
  | _ => None
  end.
(* populateRawProofs.  AsIs: a map with exactly these seven members, so domain / nonce / proofPurpose that the
   document did not have were invented as "" (fixes 5e7cd95, eff1d5c: the optional members are written only when set;
   creator is required by the schema and always written) *)
Definition opt_str (w : variant) (k s : string) : obj :=
  match w with AsIs => [(k, JStr s)] | Fixed => emit_str k s true end.
Definition enc_dproof (w : variant) (did base : string) (p : dproof) : json :=
  JObj ([("type", JStr (dp_type p)); ("created", JStr (fmt_tm (dp_created p)))] ++
        [("creator", JStr (if dp_rel p then make_rel did base (dp_creator p) else dp_creator p));
         ("proofValue", JStr (enc_pvalue (dp_value p)))] ++
        opt_str w "domain" (dp_domain p) ++
        opt_str w "nonce" (b64url_enc (dp_nonce p)) ++
        opt_str w "proofPurpose" (dp_purpose p)).

(* ---------- the DID document with created / updated / proof ---------- *)
Record ddoc2 := { dd : ddoc; d_created : option tm; d_updated : option tm; d_proofs : list dproof }.
Definition proof_list (o : option json) : option (list json) :=
  match o with None | Some JNull => Some [] | Some (JArr l) => Some l | _ => None end.
Definition parse_did2 (w : variant) (j : json) : option ddoc2 :=
  match j with
  | JObj m =>
      d <- parse_did w j ;;
      c <- dec_tm (lookup m "created") ;;
      u <- dec_tm (lookup m "updated") ;;
      pl <- proof_list (lookup m "proof") ;;
      ps <- mapM (dec_dproof (d_id d) (d_base d)) pl ;;
      Some {| dd := d; d_created := c; d_updated := u; d_proofs := ps |}
  | _ => None
  end.
Definition tm_member (k : string) (t : option tm) : obj := opt_member k (option_map (fun x => JStr (fmt_tm x)) t).
Definition did2_extra (w : variant) (d : ddoc2) : obj :=
  tm_member "created" (d_created d) ++ tm_member "updated" (d_updated d) ++
  opt_list "proof" (map (enc_dproof w (d_id (dd d)) (d_base (dd d))) (d_proofs d)).
Definition marshal_did2 (w : variant) (d : ddoc2) : json :=
  match marshal_did (dd d) with JObj o => JObj (o ++ did2_extra w d) | j => j end.
Definition roundtrip_did2 (w : variant) (j : json) : option json := option_map (marshal_did2 w) (parse_did2 w j).

(* ---------- EC public keys as JWK: fixed-width coordinates in base64url ---------- *)
(* jwk.JWK.MarshalJSON of an ecdsa.PublicKey (go-jose newFixedSizeBuffer) *)
Definition jwk_ec_members (size : nat) (x y : Z) : string * string :=
  (b64url_enc (be_bytes size x), b64url_enc (be_bytes size y)).
(* UnmarshalJSON: both coordinates must have exactly the size of the curve *)
Definition jwk_ec_read (size : nat) (xs ys : string) : option (Z * Z) :=
  match b64_dec true xs, b64_dec true ys with
  | Some bx, Some by_ =>
      if Nat.eqb (List.length bx) size && Nat.eqb (List.length by_) size then Some (be_value bx, be_value by_) else None
  | _, _ => None
  end.
