(* C16 — lemmas *)
From Coq Require Import List String ZArith NArith Bool Lia.
Import ListNotations.
From VF Require Import C16.Model.
Open Scope string_scope.
Open Scope list_scope.

Lemma mem_keys_lookup : forall (m : obj) k, mem k (keys m) = match lookup m k with Some _ => true | None => false end.
Proof.
  induction m as [|[k' v] r IH]; intros k; cbn; [reflexivity|].
  destruct (String.eqb k k'); cbn; [reflexivity|apply IH].
Qed.

Lemma lookup_app : forall (a b : obj) k,
  lookup (a ++ b) k = match lookup a k with Some v => Some v | None => lookup b k end.
Proof.
  induction a as [|[k' v] r IH]; intros b k; cbn; [reflexivity|].
  destruct (String.eqb k k'); [reflexivity|apply IH].
Qed.

Lemma lookup_filter : forall (p : string -> bool) (m : obj) k,
  lookup (filter (fun kv => p (fst kv)) m) k = if p k then lookup m k else None.
Proof.
  induction m as [|[k' v] r IH]; intros k; cbn.
  - destruct (p k); reflexivity.
  - destruct (p k') eqn:Hp; cbn.
    + destruct (String.eqb k k') eqn:E.
      * apply String.eqb_eq in E. subst. rewrite Hp. reflexivity.
      * apply IH.
    + destruct (String.eqb k k') eqn:E.
      * apply String.eqb_eq in E. subst. rewrite IH, Hp. reflexivity.
      * apply IH.
Qed.

Lemma lookup_f64o : forall (m : obj) k, lookup (f64o m) k = option_map f64j (lookup m k).
Proof.
  induction m as [|[k' v] r IH]; intros k; cbn; [reflexivity|].
  destruct (String.eqb k k'); [reflexivity|apply IH].
Qed.

Lemma keys_f64o : forall m, keys (f64o m) = keys m.
Proof. induction m as [|[k v] r IH]; cbn; [reflexivity|]. f_equal. exact IH. Qed.

Lemma merge_split_lookup : forall (kf m : obj) (k : string),
  lookup (merge_cf kf (split_cf (keys kf) m)) k =
  match lookup kf k with Some v => Some v | None => option_map f64j (lookup m k) end.
Proof.
  intros kf m k. unfold merge_cf, split_cf. rewrite lookup_app.
  destruct (lookup kf k) eqn:Hk; [reflexivity|].
  rewrite (lookup_filter (fun x => negb (mem x (keys kf)))).
  rewrite mem_keys_lookup, Hk. cbn.
  rewrite lookup_f64o.
  rewrite (lookup_filter (fun x => negb (mem x (keys kf)))).
  rewrite mem_keys_lookup, Hk. reflexivity.
Qed.
