(* C16 — lemmas *)
From Coq Require Import List String ZArith NArith Bool Lia.
Import ListNotations.
From VF Require Import C16.Model.
Open Scope string_scope.
Open Scope list_scope.

Lemma mem_keys_lookup : forall (m : obj) k, mem k (keys m) = match lookup m k with Some _ => true | None => false end.
Proof.
  induction m as [|[k' v] r IH]; intros k; cbn; [reflexivity|].
  destruct (String.eqb k k'); cbn; [reflexivity|apply IH].
Qed.

Lemma lookup_app : forall (a b : obj) k,
  lookup (a ++ b) k = match lookup a k with Some v => Some v | None => lookup b k end.
Proof.
  induction a as [|[k' v] r IH]; intros b k; cbn; [reflexivity|].
  destruct (String.eqb k k'); [reflexivity|apply IH].
Qed.

Lemma lookup_filter : forall (p : string -> bool) (m : obj) k,
  lookup (filter (fun kv => p (fst kv)) m) k = if p k then lookup m k else None.
Proof.
  induction m as [|[k' v] r IH]; intros k; cbn.
  - destruct (p k); reflexivity.
  - destruct (p k') eqn:Hp; cbn.
    + destruct (String.eqb k k') eqn:E.
      * apply String.eqb_eq in E. subst. rewrite Hp. reflexivity.
      * apply IH.
    + destruct (String.eqb k k') eqn:E.
      * apply String.eqb_eq in E. subst. rewrite IH, Hp. reflexivity.
      * apply IH.
Qed.

Lemma lookup_f64o : forall (m : obj) k, lookup (f64o m) k = option_map f64j (lookup m k).
Proof.
  induction m as [|[k' v] r IH]; intros k; cbn; [reflexivity|].
  destruct (String.eqb k k'); [reflexivity|apply IH].
Qed.

Lemma keys_f64o : forall m, keys (f64o m) = keys m.
Proof. induction m as [|[k v] r IH]; cbn; [reflexivity|]. f_equal. exact IH. Qed.

Lemma merge_split_lookup : forall (kf m : obj) (k : string),
  lookup (merge_cf kf (split_cf (keys kf) m)) k =
  match lookup kf k with Some v => Some v | None => option_map f64j (lookup m k) end.
Proof.
  intros kf m k. unfold merge_cf, split_cf. rewrite lookup_app.
  destruct (lookup kf k) eqn:Hk; [reflexivity|].
  rewrite (lookup_filter (fun x => negb (mem x (keys kf)))).
  rewrite mem_keys_lookup, Hk. cbn.
  rewrite lookup_f64o.
  rewrite (lookup_filter (fun x => negb (mem x (keys kf)))).
  rewrite mem_keys_lookup, Hk. reflexivity.
Qed.

(* ---------- custom members of credentials and presentations ---------- *)
Lemma keys_app : forall a b : obj, keys (a ++ b) = keys a ++ keys b.
Proof. intros. unfold keys. apply map_app. Qed.

Lemma keys_opt_member : forall k o x, In x (keys (opt_member k o)) -> x = k.
Proof. intros k [v|] x H; cbn in H; [destruct H as [H|[]]; auto|destruct H]. Qed.

Lemma keys_emit_str : forall k s om x, In x (keys (emit_str k s om)) -> x = k.
Proof. intros k s om x H. unfold emit_str in H. destruct (om && (s =? "")); cbn in H; [destruct H|destruct H as [H|[]]; auto]. Qed.

Definition vc_names : list string :=
  ["@context"; "id"; "type"; "credentialSubject"; "issuanceDate"; "expirationDate"; "proof"; "credentialStatus";
   "issuer"; "credentialSchema"; "evidence"; "termsOfUse"; "refreshService"; "_sd_alg"].

Lemma keys_issuer_member : forall w s x, In x (keys (issuer_member w s)) -> x = "issuer".
Proof.
  intros w s x H. unfold issuer_member in H. destruct w; [cbn in H; destruct H as [H|[]]; auto|].
  destruct (s_cf s); [destruct (id_of s =? ""); cbn in H; [destruct H|destruct H as [H|[]]; auto]|cbn in H; destruct H as [H|[]]; auto].
Qed.

Lemma raw_vc_keys : forall w v x, In x (keys (raw_vc w v)) -> In x vc_names.
Proof.
  intros w v x H. unfold raw_vc in H. repeat rewrite keys_app in H.
  repeat (apply in_app_or in H; destruct H as [H|H]);
    try (apply keys_opt_member in H); try (apply keys_emit_str in H); try (apply keys_issuer_member in H);
    try (cbn in H; destruct H as [H|[]]; symmetry in H);
    subst x; cbn; tauto.
Qed.

Lemma lookup_none_notin : forall (m : obj) k, ~ In k (keys m) -> lookup m k = None.
Proof.
  induction m as [|[k' v] r IH]; intros k H; cbn; [reflexivity|].
  destruct (String.eqb k k') eqn:E.
  - apply String.eqb_eq in E. subst. exfalso. apply H. cbn. auto.
  - apply IH. intro Hi. apply H. cbn. auto.
Qed.

Lemma mem_false_notin : forall k l, ~ In k l -> mem k l = false.
Proof.
  induction l as [|a r IH]; intros H; cbn; [reflexivity|].
  destruct (String.eqb k a) eqn:E.
  - apply String.eqb_eq in E. subst. exfalso. apply H. cbn. auto.
  - cbn. apply IH. intro Hi. apply H. cbn. auto.
Qed.

Lemma lookup_f64j_obj : forall (m : obj) k,
  lookup (map (fun kv => (fst kv, f64j (snd kv))) m) k = option_map f64j (lookup m k).
Proof. exact lookup_f64o. Qed.

Lemma top_cf_lookup : forall fs (m : obj) k,
  ~ In k (map (fun f => fst (fst f)) fs) -> lookup (top_cf fs m) k = option_map f64j (lookup m k).
Proof.
  intros fs m k H. unfold top_cf, split_cf. rewrite lookup_f64o.
  rewrite (lookup_filter (fun x => negb (mem x (map (fun f => fst (fst f)) (filter (emitted_on_parse m) fs))))).
  rewrite mem_false_notin; [reflexivity|].
  intro Hi. apply H. clear H. induction fs as [|f r IH]; cbn in *; [exact Hi|].
  destruct (emitted_on_parse m f); cbn in Hi; [destruct Hi as [Hi|Hi]; auto|auto].
Qed.

Lemma parse_vc_cf : forall w m v, parse_vc w (JObj m) = Some v -> v_cf v = top_cf rawCredential_fields m.
Proof.
  intros w m v H. cbn in H. unfold bind in H.
  repeat match type of H with
         | match ?e with _ => _ end = _ => destruct e; [|discriminate]
         end.
  inversion H. reflexivity.
Qed.

(* a custom member (a name that is not one of the raw struct's members) comes back as its float64 image *)
Lemma vc_custom_member : forall w w' m v k,
  parse_vc w (JObj m) = Some v ->
  ~ In k (map (fun f => fst (fst f)) rawCredential_fields) ->
  match marshal_vc w' v with JObj o => lookup o k | _ => None end = option_map (fun x => f64j (f64j x)) (lookup m k).
Proof.
  intros w w' m v k Hp Hk. unfold marshal_vc. cbn [f64j].
  rewrite lookup_f64j_obj. unfold merge_cf. rewrite lookup_app.
  rewrite (lookup_none_notin (raw_vc w' v)).
  2:{ intro Hi. apply raw_vc_keys in Hi. apply Hk. cbn. cbn in Hi. tauto. }
  rewrite (lookup_filter (fun x => negb (mem x (keys (raw_vc w' v))))).
  rewrite mem_false_notin.
  2:{ intro Hi. apply raw_vc_keys in Hi. apply Hk. cbn. cbn in Hi. tauto. }
  cbn [negb]. rewrite (parse_vc_cf _ _ _ Hp). rewrite top_cf_lookup by exact Hk.
  destruct (lookup m k); reflexivity.
Qed.

(* exact numbers are not touched *)
Lemma f64abs_small : forall a, (0 <= a <= two53)%Z -> f64abs a = a.
Proof. intros a H. unfold f64abs. destruct (Z.leb_spec a two53); [reflexivity|lia]. Qed.

Lemma f64round_small : forall z, (Z.abs z <= two53)%Z -> f64round z = z.
Proof.
  intros z H. unfold f64round. destruct (Z.ltb_spec z 0).
  - rewrite f64abs_small; lia.
  - apply f64abs_small. lia.
Qed.

Lemma f64j_exact : forall j, exact j = true -> f64j j = j.
Proof.
  induction j using json_ind'; cbn; intros He; try reflexivity.
  - rewrite f64round_small; [reflexivity|]. apply Z.leb_le. exact He.
  - f_equal. induction l as [|x r IHr]; cbn in *; [reflexivity|].
    apply andb_prop in He. destruct He as [Hx Hr]. inversion H; subst. f_equal; auto.
  - f_equal. induction m as [|[k x] r IHr]; cbn in *; [reflexivity|].
    apply andb_prop in He. destruct He as [Hx Hr]. inversion H; subst. cbn in *. f_equal; [f_equal; auto|auto].
Qed.

(* ---------- presentations ---------- *)
Definition vp_names : list string := ["@context"; "id"; "type"; "verifiableCredential"; "holder"; "proof"].

Lemma raw_vp_keys : forall w p x, In x (keys (raw_vp w p)) -> In x vp_names.
Proof.
  intros w p x H. unfold raw_vp in H. repeat rewrite keys_app in H.
  repeat (apply in_app_or in H; destruct H as [H|H]);
    try (apply keys_opt_member in H); try (apply keys_emit_str in H);
    try (cbn in H; destruct H as [H|[]]; symmetry in H);
    subst x; cbn; tauto.
Qed.

Lemma parse_vp_cf : forall env m p, parse_vp env (JObj m) = Some p -> p_cf p = top_cf rawPresentation_fields m.
Proof.
  intros env m p H. cbn [parse_vp] in H. unfold bind in H.
  repeat match type of H with
         | match ?e with _ => _ end = _ => destruct e; [|discriminate]
         end.
  inversion H. reflexivity.
Qed.

Lemma vp_custom_member : forall w env m p k,
  parse_vp env (JObj m) = Some p ->
  ~ In k (map (fun f => fst (fst f)) rawPresentation_fields) ->
  match marshal_vp w p with JObj o => lookup o k | _ => None end = option_map (fun x => f64j (f64j x)) (lookup m k).
Proof.
  intros w env m p k Hp Hk. unfold marshal_vp. cbn [f64j].
  rewrite lookup_f64j_obj. unfold merge_cf. rewrite lookup_app.
  rewrite (lookup_none_notin (raw_vp w p)).
  2:{ intro Hi. apply raw_vp_keys in Hi. apply Hk. cbn. cbn in Hi. tauto. }
  rewrite (lookup_filter (fun x => negb (mem x (keys (raw_vp w p))))).
  rewrite mem_false_notin.
  2:{ intro Hi. apply raw_vp_keys in Hi. apply Hk. cbn. cbn in Hi. tauto. }
  cbn [negb]. rewrite (parse_vp_cf _ _ _ Hp). rewrite top_cf_lookup by exact Hk.
  destruct (lookup m k); reflexivity.
Qed.

Lemma vp_context_kept : forall p,
  match marshal_vp Fixed p with JObj o => lookup o "@context" | _ => None end
  = Some (f64j (enc_context (p_ctx p) (p_cctx p))).
Proof. intros p. unfold marshal_vp. cbn [f64j]. rewrite lookup_f64j_obj. reflexivity. Qed.

(* ---------- single/array coders ---------- *)
Lemma mapM_strs : forall l, mapM (fun j => match j with JStr s => Some s | _ => None end) (map JStr l) = Some l.
Proof. induction l as [|s r IH]; cbn; [reflexivity|]. rewrite IH. reflexivity. Qed.

Lemma types_roundtrip : forall l, dec_types (Some (enc_types l)) = Some l.
Proof.
  intros [|s [|t r]]; cbn; try reflexivity.
  change (JStr s :: JStr t :: map JStr r) with (map JStr (s :: t :: r)). rewrite mapM_strs. reflexivity.
Qed.

Lemma span_str_strs : forall ss cs,
  match cs with JStr _ :: _ => False | _ => True end -> span_str (map JStr ss ++ cs) = (ss, cs).
Proof.
  induction ss as [|s r IH]; intros cs H; cbn.
  - destruct cs as [|[] t]; cbn in *; try reflexivity. destruct H.
  - rewrite IH by exact H. reflexivity.
Qed.

Lemma context_roundtrip : forall ss cs,
  match cs with JStr _ :: _ => False | _ => True end ->
  dec_context (Some (enc_context ss cs)) = Some (ss, map f64j cs).
Proof. intros ss cs H. unfold enc_context, dec_context. rewrite span_str_strs by exact H. reflexivity. Qed.

(* ---------- fingerprints ---------- *)
Lemma skipn_app_exact : forall {A} (a b : list A), skipn (List.length a) (a ++ b) = b.
Proof. induction a; cbn; auto. Qed.

Lemma fp_roundtrip_table : forall code key,
  In code (map snd multicodec_table) -> code <> g1g2_code ->
  fp_decode (fp_bytes code key) = Some (key, code).
Proof.
  intros code key Hin Hne. cbn in Hin.
  repeat (destruct Hin as [Hin|Hin]; [subst code; try (exfalso; apply Hne; reflexivity); reflexivity|]).
  destruct Hin.
Qed.

Lemma fp_g1g2 : forall g1 g2,
  List.length g1 = g1_size -> List.length g2 = g2_size ->
  fp_decode (fp_bytes g1g2_code (g1 ++ g2)) = Some (g2, g1g2_code).
Proof.
  intros g1 g2 H1 H2. unfold fp_decode, fp_bytes.
  change (varint g1g2_code) with [238%N; 1%N].
  change (uvarint ([238%N; 1%N] ++ g1 ++ g2)) with (238%N, 2%nat).
  cbn [Nat.ltb Nat.leb N.eqb g1g2_code Pos.eqb].
  change (2 + g1_size)%nat with (S (S g1_size)). cbn [skipn app].
  rewrite <- H1, skipn_app_exact, H2, Nat.eqb_refl. reflexivity.
Qed.

Lemma didkey_roundtrip_table : forall code key,
  In code didkey_codes -> code <> g1g2_code -> didkey_decode (fp_bytes code key) = Some key.
Proof.
  intros code key Hin Hne. cbn in Hin.
  repeat (destruct Hin as [Hin|Hin]; [subst code; try (exfalso; apply Hne; reflexivity); reflexivity|]).
  destruct Hin.
Qed.
