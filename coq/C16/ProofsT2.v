(* C16 — proofs for part T, second file: the proofs of a DID document re-parse to themselves; re-parse equality of the
   whole DID document with created / updated / proof on top of did_reparse. *)
From Coq Require Import List String Ascii ZArith NArith Bool Lia.
Import ListNotations.
From VF Require Import C16.Model C16.ModelT C16.Proofs C16.ProofsB3 C16.ProofsB4 C16.ProofsA C16.ProofsD1 C16.ProofsD2 C16.ProofsD3 C16.ProofsT.
From VF Require common.Base64.
Open Scope string_scope.
Open Scope list_scope.

(* ---------- one proof ---------- *)
Definition proof_entries (did base : string) (p : dproof) : list (string * option json) :=
  [("type", Some (JStr (dp_type p))); ("created", Some (JStr (fmt_tm (dp_created p))));
   ("creator", Some (JStr (if dp_rel p then make_rel did base (dp_creator p) else dp_creator p)));
   ("proofValue", Some (JStr (enc_pvalue (dp_value p))));
   ("domain", opt_str (dp_domain p)); ("nonce", opt_str (b64url_enc (dp_nonce p)));
   ("proofPurpose", opt_str (dp_purpose p))].

Lemma enc_dproof_entries : forall did base p,
  enc_dproof Fixed did base p = JObj (entries_obj (proof_entries did base p)).
Proof.
  intros. unfold enc_dproof, proof_entries, entries_obj, piece, ModelT.opt_str, opt_str, emit_str. cbn [flat_map fst snd andb].
  destruct (dp_domain p =? ""); destruct (b64url_enc (dp_nonce p) =? ""); destruct (dp_purpose p =? "");
    cbn [app opt_member]; reflexivity.
Qed.

Section PE.
Variables (did base : string) (p : dproof).
Lemma PE_type : assoc_e (proof_entries did base p) "type" = Some (JStr (dp_type p)). Proof. reflexivity. Qed.
Lemma PE_created : assoc_e (proof_entries did base p) "created" = Some (JStr (fmt_tm (dp_created p))). Proof. reflexivity. Qed.
Lemma PE_creator : assoc_e (proof_entries did base p) "creator" =
  Some (JStr (if dp_rel p then make_rel did base (dp_creator p) else dp_creator p)). Proof. reflexivity. Qed.
Lemma PE_value : assoc_e (proof_entries did base p) "proofValue" = Some (JStr (enc_pvalue (dp_value p))). Proof. reflexivity. Qed.
Lemma PE_domain : assoc_e (proof_entries did base p) "domain" = opt_str (dp_domain p). Proof. reflexivity. Qed.
Lemma PE_nonce : assoc_e (proof_entries did base p) "nonce" = opt_str (b64url_enc (dp_nonce p)). Proof. reflexivity. Qed.
Lemma PE_purpose : assoc_e (proof_entries did base p) "proofPurpose" = opt_str (dp_purpose p). Proof. reflexivity. Qed.
End PE.

Lemma proof_names_nodup : forall did base p, NoDup (map fst (proof_entries did base p)).
Proof. intros. cbn. repeat (constructor; [cbn; intuition discriminate|]). constructor. Qed.

Lemma str_entry_opt_str : forall s, str_entry (opt_str s) = s.
Proof. intros s. unfold opt_str. destruct (s =? "") eqn:E; [apply String.eqb_eq in E; subst|]; reflexivity. Qed.

Lemma dec_pvalue_again : forall ty s v, dec_pvalue ty s = Some v -> dec_pvalue ty (enc_pvalue v) = Some v.
Proof.
  intros ty s v H. unfold dec_pvalue in *. destruct (ty =? sig2020).
  - destruct s as [|c r]; [discriminate|]. destruct (Ascii.eqb c zchar) eqn:E; [|discriminate].
    injection H as <-. cbn [enc_pvalue]. rewrite E. reflexivity.
  - destruct (b64_any s) as [bs|] eqn:E; [|discriminate]. injection H as <-. cbn [enc_pvalue option_map].
    rewrite (b64_any_again s bs E). reflexivity.
Qed.

(* what populateProofs accepted, it reads again from what populateRawProofs wrote for it *)
Lemma dproof_reparse : forall did base j p,
  dec_dproof did base j = Some p -> dec_dproof did base (enc_dproof Fixed did base p) = Some p.
Proof.
  intros did base j p H. destruct j as [| | | | |m]; try discriminate. cbn [dec_dproof] in H.
  destruct (negb (proof_schema_ok m)); [discriminate|].
  unfold bind in H.
  destruct (parse_tm (str_entry (lookup m "created"))) as [t|] eqn:Et; [|discriminate].
  destruct (dec_pvalue (str_entry (lookup m "type")) (str_entry (lookup m "proofValue"))) as [pv|] eqn:Ev; [|discriminate].
  destruct (b64_dec true (str_entry (lookup m "nonce"))) as [nonce|] eqn:En; [|discriminate].
  injection H as <-.
  rewrite enc_dproof_entries. cbn [dec_dproof]. unfold proof_schema_ok.
  rewrite !(lookup_entries _ _ (proof_names_nodup _ _ _)).
  rewrite PE_type, PE_created, PE_creator, PE_value, PE_domain, PE_nonce, PE_purpose.
  cbn [dp_type dp_created dp_creator dp_rel dp_value dp_domain dp_nonce dp_purpose].
  assert (S1 : forall s, str_or_absent (opt_str s) = true) by (intros s0; unfold opt_str; destruct (s0 =? ""); reflexivity).
  rewrite !S1. cbn [is_str andb negb str_entry]. rewrite !str_entry_opt_str.
  rewrite parse_fmt by (eapply parse_ok; exact Et). cbn [bind].
  rewrite (dec_pvalue_again _ _ _ Ev). cbn [bind].
  rewrite (b64_dec_again _ _ _ En). cbn [bind].
  f_equal.
  destruct (starts_hash (str_entry (lookup m "creator"))) eqn:Eh.
  - rewrite make_rel_resolve. rewrite Eh. reflexivity.
  - rewrite Eh. reflexivity.
Qed.

Lemma mapM_dproof_reparse : forall did base l ps,
  mapM (dec_dproof did base) l = Some ps ->
  mapM (dec_dproof did base) (map (enc_dproof Fixed did base) ps) = Some ps.
Proof.
  induction l as [|j l IH]; intros ps H; simpl in H.
  - injection H as <-. reflexivity.
  - destruct (dec_dproof did base j) as [p|] eqn:E; [|discriminate].
    destruct (mapM (dec_dproof did base) l) as [t|]; [|discriminate]. injection H as <-.
    cbn [map mapM]. rewrite (dproof_reparse _ _ _ _ E). rewrite (IH t eq_refl). reflexivity.
Qed.

(* ---------- the whole document ---------- *)
Definition did2_entries (d : ddoc2) : list (string * option json) :=
  did_entries (dd d) ++
  [("created", option_map (fun x => JStr (fmt_tm x)) (d_created d));
   ("updated", option_map (fun x => JStr (fmt_tm x)) (d_updated d));
   ("proof", opt_arr (map (enc_dproof Fixed (d_id (dd d)) (d_base (dd d))) (d_proofs d)))].

Lemma entries_obj_app : forall a b, entries_obj (a ++ b) = entries_obj a ++ entries_obj b.
Proof. intros. unfold entries_obj. apply flat_map_app. Qed.

Lemma marshal_did2_entries : forall d, List.length (d_rels (dd d)) = 5%nat ->
  marshal_did2 Fixed d = JObj (entries_obj (did2_entries d)).
Proof.
  intros d Hl. unfold marshal_did2. rewrite (marshal_did_entries _ Hl). unfold did2_entries.
  rewrite entries_obj_app. f_equal. f_equal.
  unfold did2_extra, tm_member, entries_obj, piece. cbn [flat_map fst snd]. rewrite opt_list_member, app_nil_r. reflexivity.
Qed.

Lemma did2_names_nodup : forall d, NoDup (map fst (did2_entries d)).
Proof. intros. cbn. repeat (constructor; [cbn; intuition discriminate|]). constructor. Qed.

Definition did_names : list string :=
  ["id"; "@context"; "verificationMethod"; "service"; "alsoKnownAs";
   "authentication"; "assertionMethod"; "capabilityDelegation"; "capabilityInvocation"; "keyAgreement"].

Lemma parse_did_ext : forall w m m', (forall k, In k did_names -> lookup m k = lookup m' k) ->
  parse_did w (JObj m) = parse_did w (JObj m').
Proof.
  intros w m m' H. cbn [parse_did rels_parse rel_names].
  rewrite (H "id"), (H "@context"), (H "verificationMethod"), (H "service"), (H "alsoKnownAs"),
          (H "authentication"), (H "assertionMethod"), (H "capabilityDelegation"), (H "capabilityInvocation"),
          (H "keyAgreement") by (cbn; tauto).
  reflexivity.
Qed.

Lemma parse_did_rels5 : forall w j d, parse_did w j = Some d -> List.length (d_rels d) = 5%nat.
Proof.
  intros w j d H. destruct j as [| | | | |m]; try discriminate. cbn [parse_did] in H.
  destruct (dec_str (lookup m "id")) as [did|]; [|discriminate].
  destruct (did_context (lookup m "@context")) as [ctx base].
  destruct (mapM _ (jlist (lookup m "verificationMethod"))) as [vms|]; [|discriminate].
  destruct (mapM _ (jlist (lookup m "service"))) as [svcs|]; [|discriminate].
  cbn [rels_parse rel_names] in H.
  repeat match type of H with
         | context [match mapM ?f ?l with _ => _ end] => destruct (mapM f l); [|discriminate]
         end.
  injection H as <-. reflexivity.
Qed.

Theorem did2_reparse : forall j d,
  parse_did2 Fixed j = Some d -> did_guard j (dd d) -> parse_did2 Fixed (marshal_did2 Fixed d) = Some d.
Proof.
  intros j d H G. destruct j as [| | | | |m]; try discriminate. cbn [parse_did2] in H. unfold bind in H.
  destruct (parse_did Fixed (JObj m)) as [d0|] eqn:E0; [|discriminate].
  destruct (dec_tm (lookup m "created")) as [c|] eqn:Ec; [|discriminate].
  destruct (dec_tm (lookup m "updated")) as [u|] eqn:Eu; [|discriminate].
  destruct (proof_list (lookup m "proof")) as [pl|] eqn:Epl; [|discriminate].
  destruct (mapM (dec_dproof (d_id d0) (d_base d0)) pl) as [ps|] eqn:Eps; [|discriminate].
  injection H as <-. cbn [dd] in G.
  pose proof (parse_did_rels5 _ _ _ E0) as Hl.
  pose proof (did_reparse _ _ E0 G) as R.
  rewrite marshal_did2_entries by exact Hl.
  rewrite (marshal_did_entries _ Hl) in R.
  set (d2 := {| dd := d0; d_created := c; d_updated := u; d_proofs := ps |}).
  assert (L : forall k, lookup (entries_obj (did2_entries d2)) k = assoc_e (did2_entries d2) k).
  { intros k. apply lookup_entries. apply did2_names_nodup. }
  assert (L0 : forall k, lookup (entries_obj (did_entries d0)) k = assoc_e (did_entries d0) k).
  { intros k. apply lookup_entries. apply did_names_nodup. }
  cbn [parse_did2]. unfold bind.
  rewrite (parse_did_ext Fixed (entries_obj (did2_entries d2)) (entries_obj (did_entries d0))).
  2:{ intros k Hk. rewrite L, L0. unfold did_names in Hk. cbn [In] in Hk.
      repeat (destruct Hk as [<-|Hk]; [reflexivity|]). contradiction. }
  rewrite R. rewrite !L.
  change (assoc_e (did2_entries d2) "created") with (option_map (fun x => JStr (fmt_tm x)) c).
  change (assoc_e (did2_entries d2) "updated") with (option_map (fun x => JStr (fmt_tm x)) u).
  change (assoc_e (did2_entries d2) "proof") with (opt_arr (map (enc_dproof Fixed (d_id d0) (d_base d0)) ps)).
  rewrite (dec_tm_again _ _ Ec), (dec_tm_again _ _ Eu).
  assert (P : proof_list (opt_arr (map (enc_dproof Fixed (d_id d0) (d_base d0)) ps)) = Some (map (enc_dproof Fixed (d_id d0) (d_base d0)) ps)).
  { destruct ps; reflexivity. }
  rewrite P. rewrite (mapM_dproof_reparse _ _ _ _ Eps). reflexivity.
Qed.

(* the as-found serialiser invents members: a proof without domain comes back with "domain": "" *)
Definition proof_witness : json :=
  JObj [("type", JStr "Ed25519Signature2018"); ("created", JStr "2021-03-01T10:00:00Z");
        ("creator", JStr "did:ex:123#k1"); ("proofValue", JStr "diTn")].
Definition invents (w : variant) : bool :=
  match dec_dproof "did:ex:123" "" proof_witness with
  | Some p => match enc_dproof w "did:ex:123" "" p with
              | JObj o => match lookup o "domain" with Some _ => true | None => false end
              | _ => false
              end
  | None => false
  end.
Lemma asis_invents : invents AsIs = true /\ invents Fixed = false.
Proof. split; vm_compute; reflexivity. Qed.

(* the repaired serialiser writes an optional member only with a value *)
Lemma proof_invents_nothing : forall did base p o k,
  enc_dproof Fixed did base p = JObj o -> In k ["domain"; "nonce"; "proofPurpose"] -> lookup o k <> Some (JStr "").
Proof.
  intros did base p o k H Hk.
  assert (Eo : o = entries_obj (proof_entries did base p)).
  { rewrite enc_dproof_entries in H. injection H as H. symmetry. exact H. }
  rewrite Eo. rewrite (lookup_entries _ k (proof_names_nodup did base p)).
  assert (O : forall s, opt_str s <> Some (JStr "")).
  { intros s. unfold opt_str. destruct (s =? "") eqn:E; [discriminate|]. intros C. injection C as ->. discriminate. }
  cbn [In] in Hk. destruct Hk as [<-|[<-|[<-|[]]]].
  - rewrite PE_domain. apply O.
  - rewrite PE_nonce. apply O.
  - rewrite PE_purpose. apply O.
Qed.
