(* C16 — lemmas: enclosed credentials (JSON-LD, JWT, SD-JWT combined format) and re-parse equality of presentations *)
From Coq Require Import List String Ascii ZArith NArith Bool Lia.
Import ListNotations.
From VF Require Import C16.Model C16.Proofs C16.ProofsF C16.ProofsB1 C16.ProofsB2 C16.ProofsB3.
Open Scope string_scope.
Open Scope list_scope.

(* ---------- the combined format: split and join ---------- *)
Fixpoint no_tilde (s : string) : bool :=
  match s with EmptyString => true | String c r => negb (Ascii.eqb c tilde) && no_tilde r end.

Lemma split_tilde_nonempty : forall s, split_tilde s <> [].
Proof. destruct s as [|c r]; cbn; [discriminate|]. destruct (Ascii.eqb c tilde); [discriminate|]. destruct (split_tilde r); discriminate. Qed.

Lemma split_tilde_parts : forall s, forallb no_tilde (split_tilde s) = true.
Proof.
  induction s as [|c r IH]; cbn; [reflexivity|].
  destruct (Ascii.eqb c tilde) eqn:E; cbn; [exact IH|].
  destruct (split_tilde r) as [|p ps] eqn:Es; cbn in *; [rewrite E; reflexivity|].
  rewrite E. cbn. exact IH.
Qed.

Lemma split_no_tilde : forall s, no_tilde s = true -> split_tilde s = [s].
Proof.
  induction s as [|c r IH]; cbn; intros H; [reflexivity|].
  apply andb_prop in H. destruct H as [H1 H2]. apply negb_true_iff in H1. rewrite H1, (IH H2). reflexivity.
Qed.

Lemma split_app_tilde : forall p rest, no_tilde p = true ->
  split_tilde (p ++ String tilde rest)%string = p :: split_tilde rest.
Proof.
  induction p as [|c r IH]; intros rest H; cbn.
  - reflexivity.
  - cbn in H. apply andb_prop in H. destruct H as [H1 H2]. apply negb_true_iff in H1. rewrite H1, (IH _ H2). reflexivity.
Qed.

Lemma split_join : forall parts, parts <> [] -> forallb no_tilde parts = true -> split_tilde (join_tilde parts) = parts.
Proof.
  induction parts as [|p r IH]; intros Hn Hp; [contradiction|].
  cbn in Hp. apply andb_prop in Hp. destruct Hp as [H1 H2].
  destruct r as [|q r']; [cbn; apply split_no_tilde; exact H1|].
  change (join_tilde (p :: q :: r')) with (p ++ String tilde (join_tilde (q :: r')))%string.
  rewrite (split_app_tilde _ _ H1), IH; [reflexivity|discriminate|exact H2].
Qed.

Lemma removelast_app_one : forall {A} (l : list A) x, removelast (l ++ [x]) = l.
Proof. intros. apply removelast_last. Qed.

Lemma last_app_one : forall {A} (l : list A) x d, last (l ++ [x]) d = x.
Proof. intros. apply last_last. Qed.

(* ---------- enclosed credentials: what was parsed is written so that it parses to the same ---------- *)
Definition cred_ok (env : list (string * bool)) (c : cred) : Prop :=
  match c with
  | CObj j => f64j j = j /\ (forall s, j <> JStr s)
  | CJwt jwt ds hb sd =>
      env_get env jwt = Some sd /\ no_tilde jwt = true /\ forallb no_tilde ds = true /\ no_tilde hb = true /\
      ((hb =? "") || is_jws env hb = true) /\ (sd = false -> ds = [] /\ hb = "")
  end.

Lemma forallb_removelast : forall (p : string -> bool) l, forallb p l = true -> forallb p (removelast l) = true.
Proof.
  induction l as [|a r IH]; intros H; [reflexivity|]. cbn in H. apply andb_prop in H. destruct H as [H1 H2].
  destruct r; [reflexivity|]. cbn [removelast]. cbn [forallb]. rewrite H1. cbn. apply IH. exact H2.
Qed.

Lemma forallb_last : forall (p : string -> bool) l d, forallb p l = true -> p d = true -> p (last l d) = true.
Proof.
  induction l as [|a r IH]; intros d H Hd; [exact Hd|]. cbn in H. apply andb_prop in H. destruct H as [H1 H2].
  destruct r; [exact H1|]. apply IH; assumption.
Qed.

Lemma dec_cred1_ok : forall env j c, dec_cred1 env j = Some c -> cred_ok env c.
Proof.
  intros env j c H. destruct j as [| b | z | s | l | m]; cbn [dec_cred1] in H;
    try (inversion H; subst; cbn [cred_ok]; split; [first [apply f64j_idem | reflexivity | (cbn; rewrite f64round_idem; reflexivity) | apply (f64j_idem (JArr l)) | apply (f64j_idem (JObj m))]|intros s0 Hs; cbn in Hs; discriminate]).
  - unfold dec_cred_str in H. pose proof (split_tilde_parts s) as Hp.
    destruct (split_tilde s) as [|jwt rest]; [discriminate|]. cbn in Hp. apply andb_prop in Hp. destruct Hp as [Hj Hr].
    destruct (env_get env jwt) as [sd|] eqn:Ee; [|discriminate].
    destruct rest as [|r0 rr].
    + inversion H; subst. cbn. repeat split; auto.
    + set (rest := r0 :: rr) in *. clearbody rest. destruct sd; cbn [negb] in H; [|discriminate].
      destruct ((last rest "" =? "") || is_jws env (last rest "")) eqn:El; injection H as H; subst c; cbn [cred_ok].
      * repeat split; auto; [apply forallb_removelast; exact Hr|apply forallb_last; [exact Hr|reflexivity]|discriminate|discriminate].
      * repeat split; auto; discriminate.
Qed.

Lemma enc_cred_fixed : forall env c, cred_ok env c -> f64j (enc_cred c) = enc_cred c.
Proof. intros env [j|jwt ds hb sd] H; cbn in *; [tauto|]. destruct sd; reflexivity. Qed.

Lemma cred1_reparse : forall env c, cred_ok env c -> dec_cred1 env (enc_cred c) = Some c.
Proof.
  intros env [j|jwt ds hb sd] H; cbn [cred_ok enc_cred] in *.
  - destruct H as [Hf Hs]. destruct j; cbn [dec_cred1]; try (rewrite Hf; reflexivity). exfalso. apply (Hs s). reflexivity.
  - destruct H as [He [Hj [Hd [Hh [Hb Hsd]]]]].
    destruct sd.
    + unfold ser_pres. destruct ds as [|d0 dr]; [destruct hb as [|h0 hr]|].
      * cbn [dec_cred1]. unfold dec_cred_str. rewrite (split_no_tilde _ Hj), He. reflexivity.
      * cbn [dec_cred1]. unfold dec_cred_str.
        rewrite split_join by (try discriminate; cbn [app forallb]; rewrite Hj, Hh; reflexivity).
        cbn [app]. rewrite He. cbn [negb last removelast]. rewrite Hb. reflexivity.
      * cbn [dec_cred1]. unfold dec_cred_str.
        assert (Hall: forallb no_tilde (jwt :: ((d0 :: dr) ++ [hb])) = true).
        { change (forallb no_tilde (jwt :: ((d0 :: dr) ++ [hb]))) with (no_tilde jwt && forallb no_tilde ((d0 :: dr) ++ [hb])).
          rewrite Hj, forallb_app, Hd. cbn. rewrite Hh. reflexivity. }
        rewrite split_join by (try discriminate; exact Hall).
        rewrite He. cbn [negb].
        change ((d0 :: dr) ++ [hb]) with (d0 :: (dr ++ [hb])).
        change (d0 :: (dr ++ [hb])) with ((d0 :: dr) ++ [hb]).
        destruct ((d0 :: dr) ++ [hb]) as [|x0 xr] eqn:Ex; [destruct dr; discriminate|].
        rewrite <- Ex. rewrite last_app_one, Hb, removelast_app_one. reflexivity.
    + destruct (Hsd eq_refl) as [-> ->]. cbn [dec_cred1]. unfold dec_cred_str. rewrite (split_no_tilde _ Hj), He. reflexivity.
Qed.

Lemma dec_creds_ok : forall env o cs, dec_creds env o = Some cs -> Forall (cred_ok env) cs.
Proof.
  intros env o cs H.
  assert (Hsingle: forall x, option_map (fun c => [c]) (dec_cred1 env x) = Some cs -> Forall (cred_ok env) cs).
  { intros x Hx. destruct (dec_cred1 env x) eqn:E; cbn [option_map] in Hx; inversion Hx; subst.
    constructor; [apply (dec_cred1_ok _ _ _ E)|constructor]. }
  destruct o as [j|]; cbn [dec_creds] in H; [|inversion H; constructor].
  destruct j as [| b | z | s | l | m]; cbn [dec_creds] in H.
  - inversion H. constructor.
  - apply (Hsingle _ H).
  - apply (Hsingle _ H).
  - apply (Hsingle _ H).
  - apply (mapM_forall (dec_cred1 env) (cred_ok env) l cs (dec_cred1_ok env) H).
  - apply (Hsingle _ H).
Qed.

Lemma creds_reparse : forall env o cs, dec_creds env o = Some cs -> dec_creds env (enc_creds cs) = Some cs.
Proof.
  intros env o cs H. pose proof (dec_creds_ok _ _ _ H) as Hok.
  assert (Hm: mapM (dec_cred1 env) (map enc_cred cs) = Some cs).
  { clear H. induction Hok as [|a l Ha Hl IH]; [reflexivity|]. cbn [map mapM]. rewrite (cred1_reparse _ _ Ha), IH. reflexivity. }
  destruct cs as [|c r]; [reflexivity|]. cbn [enc_creds dec_creds]. exact Hm.
Qed.

(* ---------- the presentation as entries; the machinery of ProofsB3 instantiated for rawPresentation ---------- *)
Definition pfields := rawPresentation_fields.
Definition pnames : list string := map (fun f => fst (fst f)) pfields.
Definition vp_entries (p : vp) : list (string * option json) :=
  [("@context", Some (enc_context (p_ctx p) (p_cctx p)));
   ("id", opt_str (p_id p));
   ("type", Some (enc_types (p_types p)));
   ("verifiableCredential", enc_creds (p_creds p));
   ("holder", opt_str (p_holder p));
   ("proof", enc_list enc_proof1 (p_proofs p))].
Definition pnamesE (p : vp) : list string := map fst (vp_entries p).

Lemma raw_vp_entries : forall p, raw_vp Fixed p = entries_obj (vp_entries p).
Proof.
  intros p. unfold raw_vp, entries_obj, vp_entries, piece, opt_str, emit_str. cbn [flat_map fst snd andb].
  destruct (p_id p =? ""); destruct (p_holder p =? ""); cbn [opt_member app]; rewrite ?app_nil_r; reflexivity.
Qed.

Lemma lookup_Cp : forall m k kind, In (k, kind, true) pfields ->
  lookup (top_cf pfields m) k = if emitted_on_parse m (k, kind, true) then None else option_map f64j (lookup m k).
Proof.
  intros m k kind Hin. unfold top_cf, split_cf. rewrite lookup_f64o.
  rewrite (lookup_filter (fun x => negb (mem x (map (fun f => fst (fst f)) (filter (emitted_on_parse m) pfields))))).
  rewrite mem_map_filter. generalize (emitted_on_parse m) as p. intros p.
  unfold pfields, rawPresentation_fields in *. cbn [In] in Hin.
  repeat (destruct Hin as [Hin|Hin]; [inversion Hin; subst; cbn; rewrite ?orb_false_r; destruct (p _); reflexivity|]).
  destruct Hin.
Qed.

Lemma clean_top_cfp : forall m, clean pnames m = true -> clean pnames (top_cf pfields m) = true.
Proof.
  intros m H. unfold top_cf, split_cf. rewrite clean_f64o.
  apply (clean_filter pnames (fun x => negb (mem x (map (fun f => fst (fst f)) (filter (emitted_on_parse m) pfields))))). exact H.
Qed.

Lemma pnamesE_facts : forall v, lower_nodup (pnamesE v) = true /\ NoDup (pnamesE v).
Proof.
  intros v. split; [vm_compute; reflexivity|].
  unfold pnamesE, vp_entries. cbn [map fst].
  repeat (constructor; [cbn; intuition discriminate|]). constructor.
Qed.

Lemma lkMp : forall m (v : vp) k kind,
  clean pnames m = true -> In (k, kind, true) pfields -> In k (pnamesE v) ->
  lk (f64o (merge_cf (raw_vp Fixed v) (top_cf pfields m))) k = outv (lookup m k) (assoc_e (vp_entries v) k) kind.
Proof.
  intros m v k kind Hc Hf Hk. destruct (pnamesE_facts v) as [Hl Hn].
  assert (Hkn: In k pnames).
  { unfold pnames. apply in_map_iff. exists (k, kind, true). split; [reflexivity|exact Hf]. }
  rewrite lk_f64o. unfold merge_cf. rewrite lk_app. rewrite raw_vp_entries.
  rewrite (lk_entries _ _ Hl Hk).
  rewrite (lk_clean pnames) by
    (try exact Hkn; apply (clean_filter pnames (fun x => negb (mem x (keys (entries_obj (vp_entries v)))))); apply clean_top_cfp; exact Hc).
  rewrite (lookup_filter (fun x => negb (mem x (keys (entries_obj (vp_entries v)))))).
  rewrite (keys_entries_mem _ _ Hn). unfold outv. f_equal.
  destruct (assoc_e (vp_entries v) k) as [y|]; cbn [negb]; [reflexivity|].
  rewrite (lookup_Cp _ _ _ Hf), eop, (lk_clean pnames _ _ Hc Hkn).
  destruct (lookup m k) as [xv|]; [|reflexivity]. destruct (emitted_val kind xv); reflexivity.
Qed.

Lemma lkMp_jwt : forall m (v : vp),
  clean pnames m = true ->
  lk (f64o (merge_cf (raw_vp Fixed v) (top_cf pfields m))) "jwt" = outv (lookup m "jwt") None KStr.
Proof.
  intros m v Hc. destruct (pnamesE_facts v) as [Hl Hn].
  assert (Hkn: In "jwt" pnames) by (vm_compute; tauto).
  rewrite lk_f64o. unfold merge_cf. rewrite lk_app. rewrite raw_vp_entries.
  rewrite (lk_entries_none (vp_entries v) "jwt") by (vm_compute; reflexivity).
  rewrite (lk_clean pnames) by
    (try exact Hkn; apply (clean_filter pnames (fun x => negb (mem x (keys (entries_obj (vp_entries v)))))); apply clean_top_cfp; exact Hc).
  rewrite (lookup_filter (fun x => negb (mem x (keys (entries_obj (vp_entries v)))))).
  assert (Hm: mem "jwt" (keys (entries_obj (vp_entries v))) = false).
  { destruct (mem "jwt" (keys (entries_obj (vp_entries v)))) eqn:E; [|reflexivity].
    apply mem_in, keys_entries_in in E. exfalso. cbn in E. intuition discriminate. }
  rewrite Hm. cbn [negb]. unfold outv. f_equal.
  rewrite (lookup_Cp m "jwt" KStr) by (vm_compute; tauto). rewrite eop, (lk_clean pnames _ _ Hc Hkn).
  destruct (lookup m "jwt") as [xv|]; [|reflexivity]. destruct (emitted_val KStr xv); reflexivity.
Qed.

Definition mem_okp (m : obj) (v : vp) : Prop :=
  forall k kind y, In (k, kind, true) pfields -> assoc_e (vp_entries v) k = Some y ->
    (exists xv, lookup m k = Some xv /\ emitted_val kind xv = true) /\ emitted_val kind (f64j y) = true.

Lemma pfields_facts : NoDup pnames /\ forall f, In f pfields -> snd f = true.
Proof.
  split.
  - unfold pnames, pfields, rawPresentation_fields. cbn [map fst].
    repeat (constructor; [cbn; intuition discriminate|]). constructor.
  - intros f H. unfold pfields, rawPresentation_fields in H. cbn in H.
    repeat (destruct H as [H|H]; [subst; reflexivity|]). destruct H.
Qed.

Lemma in_pnamesE_field : forall v k, In k (pnamesE v) -> exists kind, In (k, kind, true) pfields.
Proof.
  intros v k H. unfold pnamesE, vp_entries in H. cbn in H. unfold pfields, rawPresentation_fields.
  repeat (destruct H as [H|H]; [subst; eexists; cbn; tauto|]). destruct H.
Qed.

Lemma field_in_pnamesE : forall v k kind, In (k, kind, true) pfields -> k = "jwt" \/ In k (pnamesE v).
Proof.
  intros v k kind H. unfold pfields, rawPresentation_fields in H. cbn in H. unfold pnamesE, vp_entries. cbn [map fst].
  repeat (destruct H as [H|H]; [inversion H; subst; cbn; tauto|]). destruct H.
Qed.

Lemma cf_againp : forall m (v : vp),
  clean pnames m = true -> mem_okp m v -> p_cf v = top_cf pfields m ->
  top_cf pfields (f64o (merge_cf (raw_vp Fixed v) (p_cf v))) = p_cf v.
Proof.
  intros m v Hc Hok Hcf. rewrite Hcf. set (C := top_cf pfields m). set (R := raw_vp Fixed v).
  set (M := f64o (merge_cf R C)).
  destruct (pnamesE_facts v) as [Hl Hn]. destruct pfields_facts as [Hnd Hom].
  (* no member of C has a name Credential.raw writes *)
  assert (HCR: forall kv, In kv C -> mem (fst kv) (keys R) = false).
  { intros [kk xv] Hin. cbn [fst]. destruct (mem kk (keys R)) eqn:E; [|reflexivity]. exfalso.
    unfold R in E. rewrite raw_vp_entries, (keys_entries_mem _ _ Hn) in E.
    destruct (assoc_e (vp_entries v) kk) as [y|] eqn:Ea; [|discriminate].
    pose proof (assoc_e_in _ _ _ Ea) as Hk. destruct (in_pnamesE_field v kk Hk) as [kind Hf].
    destruct (Hok _ _ _ Hf Ea) as [[xv' [Hx He]] _].
    assert (HlC: lookup C kk = None).
    { unfold C. rewrite (lookup_Cp _ _ _ Hf), eop.
      rewrite (lk_clean pnames _ _ Hc) by (unfold pnames; apply in_map_iff; exists (kk, kind, true); auto).
      rewrite Hx, He. reflexivity. }
    assert (Hs: exists z, lookup C kk = Some z) by (apply lookup_in_keys; unfold keys; apply in_map_iff; exists (kk, xv); auto).
    destruct Hs as [z Hz]. congruence. }
  assert (HC': filter (fun kv => negb (mem (fst kv) (keys R))) C = C).
  { apply filter_true. intros kv Hi. rewrite (HCR kv Hi). reflexivity. }
  assert (HM: M = f64o R ++ C).
  { unfold M, merge_cf. rewrite HC', f64o_app. f_equal. unfold C, top_cf, split_cf. apply f64o_idem. }
  (* which names are emitted on the second parse: exactly those Credential.raw wrote *)
  assert (HE: forall kv, In kv M ->
            mem (fst kv) (map (fun f => fst (fst f)) (filter (emitted_on_parse M) pfields)) = mem (fst kv) (keys R)).
  { intros [kk xv] Hin. cbn [fst]. rewrite mem_map_filter.
    destruct (mem kk (keys R)) eqn:ER.
    - (* written by raw: emitted *)
      unfold R in ER. rewrite raw_vp_entries, (keys_entries_mem _ _ Hn) in ER.
      destruct (assoc_e (vp_entries v) kk) as [y|] eqn:Ea; [|discriminate].
      pose proof (assoc_e_in _ _ _ Ea) as Hk. destruct (in_pnamesE_field v kk Hk) as [kind Hf].
      destruct (Hok _ _ _ Hf Ea) as [_ He2].
      apply existsb_exists. exists (kk, kind, true). split; [exact Hf|]. cbn [fst]. rewrite String.eqb_refl. cbn [andb].
      rewrite eop. unfold M, C, R. rewrite (lkMp m v kk kind Hc Hf Hk). rewrite Ea. unfold outv. cbn [option_map]. exact He2.
    - (* not written by raw: not emitted *)
      destruct (existsb (fun f => (kk =? fst (fst f)) && emitted_on_parse M f) pfields) eqn:EX; [|reflexivity]. exfalso.
      destruct (existsb_field _ _ _ Hnd EX) as [[[k0 kind] om] [Hf [Hk0 Hp]]]. cbn [fst] in Hk0. subst k0.
      pose proof (Hom _ Hf) as Ho. cbn in Ho. subst om.
      rewrite eop in Hp.
      assert (Hout: lk M kk = outv (lookup m kk) None kind).
      { destruct (field_in_pnamesE v _ _ Hf) as [Hj|Hk].
        - subst kk. unfold pfields, rawPresentation_fields in Hf. cbn in Hf.
          assert (kind = KStr) by (repeat (destruct Hf as [Hf|Hf]; [inversion Hf; try reflexivity|]); destruct Hf). subst kind.
          unfold M, C, R. apply lkMp_jwt. exact Hc.
        - unfold M, C, R. rewrite (lkMp m v kk kind Hc Hf Hk).
          unfold R in ER. rewrite raw_vp_entries, (keys_entries_mem _ _ Hn) in ER.
          destruct (assoc_e (vp_entries v) kk); [discriminate|reflexivity]. }
      rewrite Hout in Hp. unfold outv in Hp. destruct (lookup m kk) as [x0|]; [|discriminate].
      destruct (emitted_val kind x0) eqn:E0; [discriminate|]. cbn [option_map] in Hp.
      rewrite !emitted_val_f64, E0 in Hp. discriminate. }
  unfold top_cf at 1. unfold split_cf. fold M.
  rewrite (filter_ext_in _ (fun kv => negb (mem (fst kv) (keys R))) M) by (intros kv Hi; rewrite (HE kv Hi); reflexivity).
  rewrite HM, filter_app.
  assert (H1: filter (fun kv => negb (mem (fst kv) (keys R))) (f64o R) = []).
  { rewrite <- (f64o_filter (fun x => negb (mem x (keys R)))). rewrite filter_own_keys. reflexivity. }
  rewrite H1, HC'. cbn [app]. unfold C, top_cf, split_cf. apply f64o_idem.
Qed.
(* ---------- re-parse equality of presentations ---------- *)
Definition vp_guard (m : obj) : bool := clean pnames m.

Lemma P_ctx : forall p, assoc_e (vp_entries p) "@context" = Some (enc_context (p_ctx p) (p_cctx p)). Proof. reflexivity. Qed.
Lemma P_id : forall p, assoc_e (vp_entries p) "id" = opt_str (p_id p). Proof. reflexivity. Qed.
Lemma P_type : forall p, assoc_e (vp_entries p) "type" = Some (enc_types (p_types p)). Proof. reflexivity. Qed.
Lemma P_creds : forall p, assoc_e (vp_entries p) "verifiableCredential" = enc_creds (p_creds p). Proof. reflexivity. Qed.
Lemma P_holder : forall p, assoc_e (vp_entries p) "holder" = opt_str (p_holder p). Proof. reflexivity. Qed.
Lemma P_proof : forall p, assoc_e (vp_entries p) "proof" = enc_list enc_proof1 (p_proofs p). Proof. reflexivity. Qed.

Lemma enc_creds_fixed : forall env cs, Forall (cred_ok env) cs -> option_map f64j (enc_creds cs) = enc_creds cs.
Proof.
  intros env cs H. destruct cs as [|c r]; [reflexivity|]. cbn [enc_creds option_map f64j].
  rewrite (map_fixed enc_cred (cred_ok env) _ (enc_cred_fixed env) H). reflexivity.
Qed.

Lemma M_creds : forall env x cs, dec_creds env x = Some cs ->
  dec_creds env (outv x (enc_creds cs) KIface) = Some cs.
Proof.
  intros env x cs H. pose proof (creds_reparse _ _ _ H) as R. pose proof (dec_creds_ok _ _ _ H) as F.
  destruct cs as [|c r].
  - unfold outv. cbn [enc_creds]. destruct x as [j|]; [|reflexivity]. destruct (emitted_val KIface j) eqn:E; [reflexivity|].
    destruct j; cbn in E; try discriminate. reflexivity.
  - pose proof (enc_creds_fixed env _ F) as Fx. cbn [enc_creds option_map] in Fx, R |- *.
    unfold outv. cbn [option_map].
    assert (E: forall a b : json, Some a = Some b -> a = b) by (intros a b X; injection X; auto).
    apply E in Fx. rewrite Fx. exact R.
Qed.

Theorem vp_reparse : forall env m p,
  vp_guard m = true -> parse_vp env (JObj m) = Some p -> parse_vp env (marshal_vp Fixed p) = Some p.
Proof.
  intros env m p Hc H. unfold vp_guard in Hc.
  cbn [parse_vp] in H.
  rewrite !(lk_clean pnames _ _ Hc) in H by (vm_compute; tauto).
  unfold bind in H.
  destruct (dec_str (lookup m "id")) as [id|] eqn:Eid; [|discriminate].
  destruct (dec_str (lookup m "holder")) as [holder|] eqn:Eholder; [|discriminate].
  destruct (dec_str (lookup m "jwt")) as [jw|] eqn:Ejwt; [|discriminate].
  destruct (dec_types (lookup m "type")) as [types|] eqn:Etypes; [|discriminate].
  destruct (dec_context (lookup m "@context")) as [ctx|] eqn:Ectx; [|discriminate].
  destruct (dec_creds env (lookup m "verifiableCredential")) as [creds|] eqn:Ecreds; [|discriminate].
  destruct (dec_proofs (lookup m "proof")) as [proofs|] eqn:Eproofs; [|discriminate].
  injection H as Hp. 
  set (V := {| p_ctx := fst ctx; p_cctx := snd ctx; p_id := id; p_types := types; p_creds := creds;
               p_holder := holder; p_proofs := proofs; p_cf := top_cf rawPresentation_fields m |}).
  assert (Hp' : V = p) by exact Hp. subst p. fold V.
  unfold marshal_vp. cbn [f64j]. change (map (fun kv : string * json => (fst kv, f64j (snd kv)))) with f64o.
  change (p_cf V) with (top_cf pfields m).
  cbn [parse_vp].
  rewrite (lkMp_jwt m V Hc).
  rewrite (lkMp m V "id" KStr Hc) by fin.
  rewrite (lkMp m V "holder" KStr Hc) by fin.
  rewrite (lkMp m V "type" KIface Hc) by fin.
  rewrite (lkMp m V "@context" KIface Hc) by fin.
  rewrite (lkMp m V "verifiableCredential" KIface Hc) by fin.
  rewrite (lkMp m V "proof" KRaw Hc) by fin.
  rewrite P_id, P_holder, P_type, P_ctx, P_creds, P_proof.
  unfold V at 1 2 3 4 5 6 7. cbn [p_ctx p_cctx p_id p_types p_creds p_holder p_proofs].
  rewrite !outv_raw.
  destruct (M_jwt _ _ Ejwt) as [jw' Ejw']. rewrite Ejw'.
  rewrite (M_str _ _ Eid), (M_str _ _ Eholder), (M_types _ _ Etypes), (M_ctx _ _ Ectx), (M_creds _ _ _ Ecreds).
  rewrite (enc_list_fixed enc_proof1 pfixed _ enc_proof1_fixed (dec_proofs_fixed _ _ Eproofs)), (proofs_reparse _ _ Eproofs).
  unfold bind.
  assert (Hcf: top_cf rawPresentation_fields (f64o (merge_cf (raw_vp Fixed V) (top_cf pfields m))) = top_cf rawPresentation_fields m).
  { change (top_cf pfields m) with (p_cf V) at 1. apply (cf_againp m V Hc); [|reflexivity].
    intros k kind y Hf Ha. unfold pfields, rawPresentation_fields in Hf. cbn [In] in Hf.
    repeat (destruct Hf as [Hf|Hf]; [inversion Hf; subst k kind; clear Hf|]); try destruct Hf.
    - rewrite P_ctx in Ha. inversion Ha; subst y. split; [|reflexivity].
      destruct (lookup m "@context") as [[]|]; cbn in Ectx; try discriminate; eexists; split; reflexivity.
    - rewrite P_id in Ha. unfold V in Ha. cbn [p_id] in Ha. unfold opt_str in Ha. destruct (id =? "") eqn:E; [discriminate|].
      inversion Ha; subst y. cbn. rewrite E. split; [|reflexivity].
      destruct (dec_str_cases _ _ Eid) as [[_ ->]|[[_ ->]| ->]]; try discriminate. eexists; split; [reflexivity|cbn; rewrite E; reflexivity].
    - rewrite P_type in Ha. inversion Ha; subst y. split; [|destruct types as [|a [|b r]]; reflexivity].
      destruct (lookup m "type") as [[]|]; cbn in Etypes; try discriminate; eexists; split; reflexivity.
    - rewrite P_creds in Ha. unfold V in Ha. cbn [p_creds] in Ha. destruct creds as [|c0 cr]; [discriminate|]. inversion Ha; subst y.
      split; [|reflexivity]. destruct (lookup m "verifiableCredential") as [[]|]; cbn in Ecreds; try discriminate; eexists; split; reflexivity.
    - rewrite P_holder in Ha. unfold V in Ha. cbn [p_holder] in Ha. unfold opt_str in Ha. destruct (holder =? "") eqn:E; [discriminate|].
      inversion Ha; subst y. cbn. rewrite E. split; [|reflexivity].
      destruct (dec_str_cases _ _ Eholder) as [[_ ->]|[[_ ->]| ->]]; try discriminate. eexists; split; [reflexivity|cbn; rewrite E; reflexivity].
    - rewrite P_proof in Ha. unfold V in Ha. cbn [p_proofs] in Ha. split; [|reflexivity].
      destruct (lookup m "proof") as [xv|]; [exists xv; split; reflexivity|]. cbn in Eproofs. inversion Eproofs; subst. discriminate.
    - discriminate. }
  rewrite Hcf. unfold V. reflexivity.
Qed.
