(* C16 — lemmas: relative DID URLs, verification methods, fixed-width curve points *)
From Coq Require Import List String Ascii ZArith NArith Bool Lia.
Import ListNotations.
From VF Require Import C16.Model C16.Proofs C16.ProofsF C16.ProofsB1.
Open Scope string_scope.
Open Scope list_scope.

(* ---------- relative ids ---------- *)
Lemma is_prefix_app : forall b x, is_prefix b (b ++ x)%string = true.
Proof. induction b as [|c b IH]; intros x; cbn; [reflexivity|]. rewrite Ascii.eqb_refl, IH. reflexivity. Qed.

Lemma drop_length_app : forall b x, drop (String.length b) (b ++ x)%string = x.
Proof. induction b as [|c b IH]; intros x; cbn; [destruct x; reflexivity|apply IH]. Qed.

Lemma replace_first_prefix : forall s p, is_prefix p s = true -> replace_first s p = drop (String.length p) s.
Proof. intros s p H. destruct s; cbn; rewrite H; reflexivity. Qed.

Lemma make_rel_resolve : forall did base frag, make_rel did base (resolve_rel did base frag) = frag.
Proof.
  intros. unfold make_rel, resolve_rel. rewrite replace_first_prefix by apply is_prefix_app. apply drop_length_app.
Qed.

Lemma abs_id_text : forall w did base m v,
  dec_vm w did base m = Some v -> abs_id did base (vm_id_text did base v) = m_id v.
Proof.
  intros w did base m v H. unfold dec_vm in H.
  destruct (dec_key _ _ m) as [k|]; [|discriminate].
  destruct (starts_hash (str_entry (lookup m "id"))) eqn:Hh; inversion H; subst; clear H;
    unfold vm_id_text, abs_id; cbn [m_rel m_id].
  - rewrite make_rel_resolve, Hh. reflexivity.
  - rewrite Hh. reflexivity.
Qed.

Lemma find_vm_sound : forall did base vms k v,
  find_vm did base vms k = Some v -> In v vms /\ (m_id v = k \/ m_id v = resolve_rel did base k).
Proof.
  induction vms as [|x r IH]; intros k v H; cbn in H; [discriminate|].
  destruct ((m_id x =? k) || (m_id x =? resolve_rel did base k)) eqn:E.
  - inversion H; subst. split; [left; reflexivity|].
    apply orb_prop in E. destruct E as [E|E]; apply String.eqb_eq in E; auto.
  - destruct (IH _ _ H) as [Hi Ho]. split; [right; exact Hi|exact Ho].
Qed.

(* the key text a method carries is not empty *)
Definition key_nonempty (v : vmeth) : bool :=
  match snd (m_key v) with JStr s => negb (s =? "") | _ => true end.

Lemma filter_filter_same : forall {A} (p : A -> bool) l, filter p (filter p l) = filter p l.
Proof. induction l as [|a r IH]; cbn; [reflexivity|]. destruct (p a) eqn:E; cbn; [rewrite E, IH|]; auto. Qed.

Lemma str_entry_f64 : forall o, str_entry (option_map f64j o) = str_entry o.
Proof. intros [[]|]; reflexivity. Qed.

Lemma lookup_kept : forall keep (jw : obj) k, mem k keep = true ->
  lookup (f64o (filter (fun kv => mem (fst kv) keep) jw)) k = option_map f64j (lookup jw k).
Proof. intros keep jw k H. rewrite lookup_f64o, (lookup_filter (fun x => mem x keep)), H. reflexivity. Qed.

Lemma jwk_custom_type_out : forall jw, jwk_custom_type (jwk_out jw) = jwk_custom_type jw.
Proof.
  intros jw. unfold jwk_out.
  assert (Hc: forall keep, mem "crv" keep = true -> mem "alg" keep = true ->
            jwk_custom_type (f64o (filter (fun kv => mem (fst kv) keep) jw)) = jwk_custom_type jw).
  { intros keep H1 H2. unfold jwk_custom_type. rewrite !(lookup_kept keep) by assumption. rewrite !str_entry_f64. reflexivity. }
  destruct (jwk_custom_type jw); apply Hc; reflexivity.
Qed.

Lemma jwk_out_idem : forall jw, jwk_out (jwk_out jw) = jwk_out jw.
Proof.
  intros jw. unfold jwk_out at 1. rewrite jwk_custom_type_out. unfold jwk_out.
  set (keep := if jwk_custom_type jw then jwk_custom_members else jose_members).
  rewrite <- (f64o_filter (fun x => mem x keep)). rewrite filter_filter_same. apply f64o_idem.
Qed.

Lemma dec_key_again : forall ty m k,
  dec_key Fixed ty m = Some k ->
  match snd k with JStr s => negb (s =? "") | _ => true end = true ->
  forall id ctrl, dec_key Fixed ty [("id", id); ("type", JStr ty); ("controller", ctrl); k] = Some k.
Proof.
  intros ty m k H Hne id ctrl. unfold dec_key in H.
  destruct (negb (str_entry (lookup m "publicKeyBase58") =? "")) eqn:Hb.
  - destruct (mb_type ty) eqn:Ht; inversion H; subst; clear H.
    + unfold dec_key. cbn [lookup String.eqb Ascii.eqb Bool.eqb str_entry fst snd]. cbn -[mb_type]. rewrite Ht. reflexivity.
    + unfold dec_key. cbn [lookup String.eqb Ascii.eqb Bool.eqb str_entry fst snd]. cbn -[mb_type]. rewrite Hb, Ht. reflexivity.
  - destruct (str_entry (lookup m "publicKeyMultibase")) as [|c rest] eqn:Hm.
    + destruct (lookup m "publicKeyJwk") as [[]|] eqn:Hj; try discriminate. inversion H; subst; clear H.
      unfold dec_key. cbn -[mb_type jwk_out]. rewrite jwk_out_idem. reflexivity.
    + destruct (Ascii.eqb c zchar) eqn:Hz; [|discriminate].
      destruct (mb_type ty) eqn:Ht; inversion H; subst; clear H.
      * unfold dec_key. cbn -[mb_type]. rewrite Hz, Ht. reflexivity.
      * cbn in Hne. unfold dec_key. cbn -[mb_type]. rewrite Hne, Ht. reflexivity.
Qed.

Lemma before_hash_idem_ctrl : forall c x, (if (if c =? "" then x else c) =? "" then x else (if c =? "" then x else c)) = (if c =? "" then x else c).
Proof. intros c x. destruct (c =? "") eqn:E; [destruct (x =? ""); reflexivity|rewrite E; reflexivity]. Qed.

Lemma vm_reparse : forall did base m v,
  dec_vm Fixed did base m = Some v -> key_nonempty v = true ->
  match enc_vm did base v with JObj m' => dec_vm Fixed did base m' = Some v | _ => False end.
Proof.
  intros did base m v H Hk. unfold dec_vm in H.
  destruct (dec_key Fixed (str_entry (lookup m "type")) m) as [k|] eqn:Hkey; [|discriminate].
  destruct (starts_hash (str_entry (lookup m "id"))) eqn:Hh; inversion H; subst; clear H;
    unfold enc_vm, vm_id_text; cbn [m_rel m_id m_type m_ctrl m_key]; unfold key_nonempty in Hk; cbn [m_key] in Hk.
  - rewrite make_rel_resolve. unfold dec_vm.
    cbn [lookup String.eqb Ascii.eqb Bool.eqb str_entry]. cbn -[dec_key resolve_rel before_hash].
    rewrite (dec_key_again _ _ _ Hkey Hk). rewrite Hh. rewrite before_hash_idem_ctrl. reflexivity.
  - unfold dec_vm. cbn -[dec_key].
    rewrite (dec_key_again _ _ _ Hkey Hk). rewrite Hh. reflexivity.
Qed.

Lemma rel_embedded_reparse : forall did base vms m v,
  dec_rel Fixed did base vms (JObj m) = Some [VEmb v] -> key_nonempty v = true ->
  dec_rel Fixed did base vms (enc_rel did base (VEmb v)) = Some [VEmb v].
Proof.
  intros did base vms m v H Hk. cbn in H. destruct (dec_vm Fixed did base m) as [v'|] eqn:Hd; [|discriminate].
  inversion H; subst. pose proof (vm_reparse _ _ _ _ Hd Hk) as Hr. cbn [enc_rel].
  unfold enc_vm in *. cbn [dec_rel]. rewrite Hr. reflexivity.
Qed.

(* ---------- fixed-width coordinates ---------- *)
Lemma be_bytes_length : forall n z, List.length (be_bytes n z) = n.
Proof. induction n; intros z; cbn; [reflexivity|]. rewrite app_length, IHn. cbn. lia. Qed.

Lemma fold_be_app : forall l a b, fold_left (fun a b => (a * 256 + Z.of_N b)%Z) (l ++ [b]) a
  = (fold_left (fun a b => (a * 256 + Z.of_N b)%Z) l a * 256 + Z.of_N b)%Z.
Proof. intros. rewrite fold_left_app. reflexivity. Qed.

Lemma be_value_be_bytes : forall n z, (0 <= z < 256 ^ Z.of_nat n)%Z -> be_value (be_bytes n z) = z.
Proof.
  unfold be_value. induction n; intros z Hz.
  - cbn in *. lia.
  - cbn [be_bytes]. rewrite fold_be_app. rewrite IHn.
    + rewrite Z2N.id by (apply Z.mod_pos_bound; lia). pose proof (Z.div_mod z 256 ltac:(lia)). lia.
    + rewrite Nat2Z.inj_succ, Z.pow_succ_r in Hz by lia. split; [apply Z.div_pos; lia|apply Z.div_lt_upper_bound; lia].
Qed.

Lemma ec_compress_length : forall n x y, List.length (ec_compress n x y) = S n.
Proof. intros. cbn. rewrite be_bytes_length. reflexivity. Qed.

Lemma ec_fp_roundtrip : forall code n x y,
  curve_size code = Some n -> (0 <= x < 256 ^ Z.of_nat n)%Z ->
  fp_decode (fp_bytes code (ec_compress n x y)) = Some (ec_compress n x y, code) /\
  didkey_decode (fp_bytes code (ec_compress n x y)) = Some (ec_compress n x y) /\
  List.length (ec_compress n x y) = S n /\
  be_value (tl (ec_compress n x y)) = x /\
  (hd 0%N (ec_compress n x y) = 2 + Z.to_N (y mod 2))%N.
Proof.
  intros code n x y Hc Hx. unfold curve_size in Hc.
  assert (Hin: In code (map snd multicodec_table) /\ In code didkey_codes /\ code <> g1g2_code).
  { destruct (code =? 4608)%N eqn:E1; [apply N.eqb_eq in E1; subst; cbn; repeat split; try tauto; discriminate|].
    destruct (code =? 4609)%N eqn:E2; [apply N.eqb_eq in E2; subst; cbn; repeat split; try tauto; discriminate|].
    destruct (code =? 4610)%N eqn:E3; [apply N.eqb_eq in E3; subst; cbn; repeat split; try tauto; discriminate|discriminate]. }
  destruct Hin as [H1 [H2 H3]].
  repeat split.
  - apply fp_roundtrip_table; assumption.
  - apply didkey_roundtrip_table; assumption.
  - apply ec_compress_length.
  - cbn [ec_compress tl]. apply be_value_be_bytes. exact Hx.
Qed.

(* the members of a JWK after the jwk package has read and written it *)
Lemma jwk_out_lookup : forall jw k,
  lookup (jwk_out jw) k =
  if mem k (if jwk_custom_type jw then jwk_custom_members else jose_members) then option_map f64j (lookup jw k) else None.
Proof.
  intros jw k. unfold jwk_out. set (keep := if jwk_custom_type jw then jwk_custom_members else jose_members).
  rewrite lookup_f64o, (lookup_filter (fun x => mem x keep)). destruct (mem k keep); reflexivity.
Qed.
