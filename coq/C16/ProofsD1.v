(* C16 — lemmas: DID documents: @context with @base, references resolve to their method *)
From Coq Require Import List String Ascii ZArith NArith Bool Lia.
Import ListNotations.
From VF Require Import C16.Model C16.Proofs C16.ProofsF C16.ProofsB1 C16.ProofsB2 C16.ProofsB3 C16.ProofsB4 C16.ProofsA C16.ProofsS.
Open Scope string_scope.
Open Scope list_scope.

(* ---------- @context with @base ---------- *)
Definition ctx_item_ok (x : json) : Prop :=
  match x with
  | JStr _ => True
  | JObj m => m <> [] /\ lookup m "@base" = None /\ f64o m = m
  | _ => False
  end.

Lemma lookup_remove_key : forall k (m : obj), lookup (remove_key k m) k = None.
Proof.
  induction m as [|[a b] r IH]; cbn; [reflexivity|]. destruct (k =? a) eqn:E; [exact IH|]. cbn. rewrite E. exact IH.
Qed.

Lemma remove_key_absent : forall k (m : obj), lookup m k = None -> remove_key k m = m.
Proof.
  induction m as [|[a b] r IH]; cbn; intros H; [reflexivity|]. destruct (k =? a) eqn:E; [discriminate|]. rewrite (IH H). reflexivity.
Qed.

Lemma f64o_nil : forall m : obj, f64o m = [] -> m = [].
Proof. destruct m; cbn; [reflexivity|discriminate]. Qed.

Lemma ctx_scan_ok : forall l b0 a b, ctx_scan l b0 = (a, b) -> Forall ctx_item_ok a.
Proof.
  induction l as [|x r IH]; intros b0 a b H; cbn in H.
  - inversion H. constructor.
  - destruct x; try (apply (IH _ _ _ H)).
    + destruct (ctx_scan r b0) as [a' b'] eqn:E. inversion H; subst. constructor; [exact I|apply (IH _ _ _ E)].
    + destruct (ctx_scan r (match lookup m "@base" with Some (JStr b1) => b1 | _ => b0 end)) as [a' b'] eqn:E.
      inversion H; subst. destruct (remove_key "@base" m) as [|kv rm] eqn:Er; [apply (IH _ _ _ E)|].
      pose proof (lookup_remove_key "@base" m) as HL. rewrite Er in HL.
      constructor; [|apply (IH _ _ _ E)]. unfold ctx_item_ok. split; [|split].
      * destruct kv; discriminate.
      * rewrite lookup_f64o, HL. reflexivity.
      * apply f64o_idem.
Qed.

Lemma ctx_scan_fixed : forall a b0, Forall ctx_item_ok a -> ctx_scan a b0 = (a, b0).
Proof.
  induction a as [|x r IH]; intros b0 H; [reflexivity|]. inversion H as [|? ? Hx Hr]; subst. cbn.
  destruct x; cbn in Hx; try contradiction.
  - rewrite (IH _ Hr). reflexivity.
  - destruct Hx as [Hne [Hb Hf]]. rewrite Hb, (remove_key_absent _ _ Hb), (IH _ Hr).
    destruct m as [|kv rm]; [contradiction|]. rewrite Hf. reflexivity.
Qed.

Lemma ctx_scan_app : forall a r b0,
  ctx_scan (a ++ r) b0 = let '(a1, b1) := ctx_scan a b0 in let '(a2, b2) := ctx_scan r b1 in (a1 ++ a2, b2).
Proof.
  induction a as [|x a' IH]; intros r b0; cbn.
  - destruct (ctx_scan r b0); reflexivity.
  - destruct x; try apply IH.
    + rewrite IH. destruct (ctx_scan a' b0) as [a1 b1]. destruct (ctx_scan r b1); reflexivity.
    + rewrite IH. destruct (ctx_scan a' _) as [a1 b1]. destruct (ctx_scan r b1). destruct (remove_key "@base" m); reflexivity.
Qed.

Lemma ctx_reparse : forall o c b, did_context o = (c, b) -> did_context c = (c, b).
Proof.
  intros o c b H. unfold did_context in H.
  destruct o as [[| | | s | l | m]|]; try (inversion H; subst; reflexivity).
  destruct (ctx_scan l "") as [a b1] eqn:E. pose proof (ctx_scan_ok _ _ _ _ E) as Hok.
  destruct (b1 =? "") eqn:Eb; inversion H; subst; clear H.
  - apply String.eqb_eq in Eb. subst. destruct a as [|x r]; [reflexivity|]. unfold did_context. rewrite (ctx_scan_fixed _ "" Hok). reflexivity.
  - unfold did_context. rewrite ctx_scan_app, (ctx_scan_fixed _ "" Hok). cbn. rewrite app_nil_r, Eb. reflexivity.
Qed.

(* ---------- references resolve to the method they were written for ---------- *)
Definition ids_ok (did base : string) (vms : list vmeth) : Prop :=
  NoDup (map m_id vms) /\
  (forall x y, In x vms -> In y vms -> m_id x = (id_base did base ++ m_id y)%string -> x = y) /\
  (forall x, In x vms -> abs_id did base (vm_id_text did base x) = m_id x).

Lemma nodup_id_eq : forall (vms : list vmeth) x y, NoDup (map m_id vms) -> In x vms -> In y vms -> m_id x = m_id y -> x = y.
Proof.
  induction vms as [|a r IH]; intros x y Hn Hx Hy He; [destruct Hx|]. cbn in Hn. inversion Hn as [|? ? Hna Hnr]; subst.
  destruct Hx as [Hx|Hx]; destruct Hy as [Hy|Hy]; subst.
  - reflexivity.
  - exfalso. apply Hna. rewrite He. apply in_map. exact Hy.
  - exfalso. apply Hna. rewrite <- He. apply in_map. exact Hx.
  - apply IH; assumption.
Qed.

Lemma find_vm_self : forall did base vms v,
  ids_ok did base vms -> In v vms -> find_vm did base vms (vm_id_text did base v) = Some v.
Proof.
  intros did base vms v [Hn [Hp Ha]] Hv. pose proof (Ha v Hv) as Hv'. unfold abs_id, resolve_rel in Hv'.
  set (t := vm_id_text did base v) in *.
  assert (Hgen: forall l, (forall x, In x l -> In x vms) -> In v l -> find_vm did base l t = Some v).
  { induction l as [|x r IH]; intros Hsub Hin; [destruct Hin|]. cbn [find_vm]. unfold resolve_rel.
    destruct ((m_id x =? t) || (m_id x =? id_base did base ++ t)) eqn:E.
    - f_equal. assert (Hx: In x vms) by (apply Hsub; cbn; auto).
      apply orb_prop in E. destruct E as [E|E]; apply String.eqb_eq in E; destruct (starts_hash t).
      + symmetry. apply Hp; auto. rewrite <- Hv', E. reflexivity.
      + apply (nodup_id_eq vms); auto. congruence.
      + apply (nodup_id_eq vms); auto. congruence.
      + apply Hp; auto. rewrite E, Hv'. reflexivity.
    - destruct Hin as [Hin|Hin].
      + subst x. exfalso. destruct (starts_hash t).
        * rewrite <- Hv', String.eqb_refl, orb_true_r in E. discriminate.
        * rewrite <- Hv', String.eqb_refl in E. discriminate.
      + apply IH; [intros y Hy; apply Hsub; cbn; auto|exact Hin]. }
  apply Hgen; auto.
Qed.
