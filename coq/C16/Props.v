(* C16 — property theorems only. *)
From Coq Require Import List String ZArith NArith Bool.
Import ListNotations.
From VF Require Import C16.Model C16.Proofs.

Theorem cf_split_merge_lookup : forall (kf m : obj) (k : string),
  lookup (merge_cf kf (split_cf (keys kf) m)) k =
  match lookup kf k with Some v => Some v | None => option_map f64j (lookup m k) end.
Proof. exact merge_split_lookup. Qed.
Print Assumptions cf_split_merge_lookup.
