(* C16 — property theorems only.  Every proof is `exact <lemma>` or a closed computation (refutation witness,
   finite generated table). *)
From Coq Require Import List String ZArith NArith Bool.
Import ListNotations.
From VF Require Import C16.Model C16.Proofs C16.ProofsF C16.ProofsA C16.ProofsB1 C16.ProofsB2 C16.ProofsB3 C16.ProofsB4 C16.ProofsB5 C16.ProofsS C16.ProofsD1 C16.ProofsD2 C16.ProofsD3.
Local Open Scope string_scope.
Local Open Scope list_scope.

(* ---- the custom-field mechanism (util/json) ----
   UnmarshalWithCustomFields followed by MergeCustomFields, for any typed part that marshals to the members kf and
   any input object m: a member the typed part emits wins; every other member of the input comes back (as the
   float64 image of its value); nothing else appears. *)
Theorem cf_roundtrip : forall (kf m : obj) (k : string),
  lookup (merge_cf kf (split_cf (keys kf) m)) k =
  match lookup kf k with Some v => Some v | None => option_map f64j (lookup m k) end.
Proof. exact merge_split_lookup. Qed.
Print Assumptions cf_roundtrip.

(* float64 decoding does not touch a value whose numbers all have magnitude <= 2^53 *)
Theorem exact_values_untouched : forall j, exact j = true -> f64j j = j.
Proof. exact f64j_exact. Qed.
Print Assumptions exact_values_untouched.

(* ---- credentials: ParseCredential -> MarshalJSON ----
   FULL STATEMENT for custom top-level properties, every accepted credential, every name that is not a member of
   rawCredential (generated list): the output holds the member iff the input does, with the float64 image of its value. *)
Theorem vc_custom_member_roundtrip : forall w w' m v k,
  parse_vc w (JObj m) = Some v ->
  ~ In k (map (fun f => fst (fst f)) rawCredential_fields) ->
  match marshal_vc w' v with JObj o => lookup o k | _ => None end = option_map (fun x => f64j (f64j x)) (lookup m k).
Proof. exact vc_custom_member. Qed.
Print Assumptions vc_custom_member_roundtrip.

(* ... hence exactly preserved when its numbers are within +-2^53 (partial: the guard excludes finding #26) *)
Theorem vc_custom_member_preserved_partial : forall m v k x,
  parse_vc Fixed (JObj m) = Some v ->
  ~ In k (map (fun f => fst (fst f)) rawCredential_fields) ->
  lookup m k = Some x -> exact x = true ->
  match marshal_vc Fixed v with JObj o => lookup o k | _ => None end = Some x.
Proof.
  intros m v k x Hp Hk Hl He. rewrite (vc_custom_member Fixed Fixed m v k Hp Hk), Hl. cbn.
  rewrite (f64j_exact x He), (f64j_exact x He). reflexivity.
Qed.
Print Assumptions vc_custom_member_preserved_partial.

(* the unguarded statement "every member of the input is in the output with the same value" is refuted:
   (1) a number above 2^53, (2) a member named jwt, (3) a member ID after the defined member id *)
Definition vc_skeleton (extra : obj) : json :=
  JObj ([("@context", JArr [JStr "c"]); ("type", JStr "T"); ("id", JStr "urn:a"); ("issuer", JStr "did:i")] ++ extra).
Definition member_of_output_w (w : variant) (j : json) (k : string) : option json :=
  match roundtrip_vc w j with Some (JObj o) => lookup o k | _ => None end.
Definition member_of_output := member_of_output_w Fixed.

Theorem vc_all_members_preserved_refuted :
  member_of_output (vc_skeleton [("n", JNum 9007199254740993%Z)]) "n" = Some (JNum 9007199254740992%Z) /\
  member_of_output (vc_skeleton [("jwt", JStr "abc")]) "jwt" = None /\
  member_of_output (vc_skeleton [("ID", JStr "urn:b")]) "id" = Some (JStr "urn:b") /\
  member_of_output (vc_skeleton [("x", JNum 7%Z)]) "x" = Some (JNum 7%Z).
Proof. vm_compute. repeat split. Qed.
Print Assumptions vc_all_members_preserved_refuted.

(* ---- presentations ---- *)
Theorem vp_custom_member_roundtrip : forall w env m p k,
  parse_vp env (JObj m) = Some p ->
  ~ In k (map (fun f => fst (fst f)) rawPresentation_fields) ->
  match marshal_vp w p with JObj o => lookup o k | _ => None end = option_map (fun x => f64j (f64j x)) (lookup m k).
Proof. exact vp_custom_member. Qed.
Print Assumptions vp_custom_member_roundtrip.

(* repaired code (fix 3bb8b98): the serialised @context holds the string contexts followed by the object contexts *)
Theorem vp_context_kept_fixed : forall p,
  match marshal_vp Fixed p with JObj o => lookup o "@context" | _ => None end
  = Some (f64j (enc_context (p_ctx p) (p_cctx p))).
Proof. exact vp_context_kept. Qed.
Print Assumptions vp_context_kept_fixed.

(* the code as found dropped them *)
Theorem vp_context_asis_refuted :
  let d := JObj [("@context", JArr [JStr "c"; JObj [("k", JStr "v")]]); ("type", JStr "VerifiablePresentation")] in
  match roundtrip_vp AsIs [] d with Some (JObj o) => lookup o "@context" | _ => None end = Some (JArr [JStr "c"]) /\
  match roundtrip_vp Fixed [] d with Some (JObj o) => lookup o "@context" | _ => None end
    = Some (JArr [JStr "c"; JObj [("k", JStr "v")]]).
Proof. vm_compute. split; reflexivity. Qed.
Print Assumptions vp_context_asis_refuted.

(* ---- single-or-array forms ---- *)
Theorem forms_roundtrip_type : forall l, dec_types (Some (enc_types l)) = Some l.
Proof. exact types_roundtrip. Qed.
Print Assumptions forms_roundtrip_type.

Theorem forms_roundtrip_context : forall ss cs,
  match cs with JStr _ :: _ => False | _ => True end ->
  dec_context (Some (enc_context ss cs)) = Some (ss, map f64j cs).
Proof. exact context_roundtrip. Qed.
Print Assumptions forms_roundtrip_context.

(* ---- the coders of the structured members: what is serialised for a parsed value parses back to that value ----
   The guard (elem_ok / objs_ok) on the INPUT member: its objects have no repeated member name and no case variant of
   id / type (the known-finding class); numbers are unrestricted (float64 decoding is idempotent). *)
Theorem forms_roundtrip_typedid : forall m s,
  clean tid_names m = true -> dec_sstruct typedID_fields m = Some s ->
  match enc_sstruct s with JObj m' => dec_sstruct typedID_fields m' = Some s | _ => False end.
Proof. exact typedid_reparse. Qed.
Print Assumptions forms_roundtrip_typedid.

(* termsOfUse, refreshService: absent / single object / array *)
Theorem forms_roundtrip_typedids : forall o l,
  objs_ok tid_names o = true -> dec_typedids o = Some l -> dec_typedids (enc_list enc_sstruct l) = Some l.
Proof. exact typedids_reparse. Qed.
Print Assumptions forms_roundtrip_typedids.

(* credentialSchema: absent / null / single / array, always written as an array *)
Theorem forms_roundtrip_schemas : forall o l,
  objs_ok tid_names o = true -> dec_schemas o = Some l -> dec_schemas (enc_schemas l) = Some l.
Proof. exact schemas_reparse. Qed.
Print Assumptions forms_roundtrip_schemas.

Theorem forms_roundtrip_status : forall o t,
  objs_ok tid_names o = true -> dec_status o = Some t -> dec_status (option_map enc_sstruct t) = Some t.
Proof. exact status_reparse. Qed.
Print Assumptions forms_roundtrip_status.

(* proof: absent / null / single / array *)
Theorem forms_roundtrip_proofs : forall o l, dec_proofs o = Some l -> dec_proofs (enc_list enc_proof1 l) = Some l.
Proof. exact proofs_reparse. Qed.
Print Assumptions forms_roundtrip_proofs.

(* credentialSubject: absent / null / id string / object / array of objects and id strings *)
Theorem forms_roundtrip_subject : forall o s,
  objs_ok id_names o = true -> dec_subject Fixed o = Some s -> dec_subject Fixed (enc_subject s) = Some s.
Proof. exact subject_reparse. Qed.
Print Assumptions forms_roundtrip_subject.

(* issuer: absent / id string / object with custom members *)
Theorem forms_roundtrip_issuer : forall o s,
  objs_ok id_names o = true -> dec_issuer o = Some s -> dec_issuer (issuer_out s) = Some s.
Proof. exact issuer_reparse. Qed.
Print Assumptions forms_roundtrip_issuer.

(* the guard is needed: a case variant of id makes the coder not idempotent *)
Theorem forms_roundtrip_case_variant_refuted :
  let m := [("ID", JStr "b"); ("id", JStr "a")] in
  option_map id_of (dec_sstruct typedID_fields m) = Some "a" /\
  option_map id_of (match option_map enc_sstruct (dec_sstruct typedID_fields m) with
                    | Some (JObj m') => dec_sstruct typedID_fields m' | _ => None end) = Some "b".
Proof. vm_compute. split; reflexivity. Qed.
Print Assumptions forms_roundtrip_case_variant_refuted.

(* ---- RE-PARSE EQUALITY (repaired code) ----
   For every credential document the parser accepts, parsing what MarshalJSON wrote yields the SAME credential
   object (all 16 components, custom members included).  Guard (vc_guard, on the input): no repeated member name and
   no case variant of a known name at top level, in subject and issuer objects (id) and in typed ids (id, type) —
   the known-finding class; numbers are unrestricted (float64 decoding is idempotent), a member named jwt is allowed. *)
Theorem vc_reparse_equal : forall m v,
  vc_guard m = true -> parse_vc Fixed (JObj m) = Some v -> parse_vc Fixed (marshal_vc Fixed v) = Some v.
Proof. exact vc_reparse. Qed.
Print Assumptions vc_reparse_equal.

(* without the guard it fails: the serialised form puts ID before id or after it, and the later one wins *)
Theorem vc_reparse_unguarded_refuted :
  let d := [("@context", JArr [JStr "c"]); ("type", JStr "T"); ("ID", JStr "urn:b"); ("id", JStr "urn:a")] in
  vc_guard d = false /\
  option_map v_id (parse_vc Fixed (JObj d)) = Some "urn:a" /\
  option_map v_id (match option_map (marshal_vc Fixed) (parse_vc Fixed (JObj d)) with Some o => parse_vc Fixed o | None => None end)
    = Some "urn:b".
Proof. vm_compute. repeat split. Qed.
Print Assumptions vc_reparse_unguarded_refuted.

Example vc_reparse_nonvacuous :
  let d := [("@context", JArr [JStr "c"; JObj [("k", JNum 12345678901234567890%Z)]]); ("type", JArr [JStr "T"; JStr "U"]);
            ("credentialSubject", JArr [JObj [("id", JStr "s"); ("deg", JNum 3%Z)]; JStr "s2"]);
            ("issuer", JObj [("id", JStr "i"); ("name", JStr "n")]); ("termsOfUse", JArr [JObj [("id", JStr "t"); ("q", JNull)]]);
            ("credentialSchema", JObj [("id", JStr "sc"); ("type", JStr "")]); ("proof", JObj [("type", JStr "p")]);
            ("id", JStr ""); ("jwt", JStr "abc"); ("evidence", JNull); ("custom", JObj [("a", JArr [JNum 1%Z; JNull])])] in
  vc_guard d = true /\ option_map v_id (parse_vc Fixed (JObj d)) = Some "".
Proof. vm_compute. split; reflexivity. Qed.

(* ---- JWT claims (newJWTCredClaims / refineFromJWTClaims) ----
   secs: Unix seconds of a date string, fmt: the UTC RFC 3339 spelling of Unix seconds (Go's time package; handed
   over by the harness for the dates that occur).  canonical_dates: the credential's dates are spelled the way fmt
   spells them (UTC, whole seconds) — the guard excludes exactly the known finding jwt:subsecond-date-truncated
   (and a mere re-spelling of the offset). *)
Theorem jwt_registered_claims : forall secs minimize v c,
  jwt_claims secs minimize v = Some c ->
  j_iss c = id_of (v_issuer v) /\ j_jti c = v_id v /\ subject_id (v_subject v) = Some (j_sub c) /\
  j_nbf c = option_map secs (v_issued v) /\ j_iat c = option_map secs (v_issued v) /\ j_exp c = option_map secs (v_expired v).
Proof. exact jwt_registered. Qed.
Print Assumptions jwt_registered_claims.

(* non-minimised form: the vc claim IS the serialised credential and decoding changes nothing *)
Theorem jwt_claims_agree : forall secs fmt v c,
  canonical_dates secs fmt v -> issuer_wf v ->
  jwt_claims secs false v = Some c ->
  JObj (j_vc c) = marshal_vc Fixed v /\ refine fmt c = j_vc c.
Proof. exact jwt_full_agree. Qed.
Print Assumptions jwt_claims_agree.

(* minimised form: id, issuer id and dates travel in jti / iss / nbf / exp only; the credential rebuilt from the
   claims has, member by member, the values of the serialised credential *)
Theorem jwt_claims_agree_minimised : forall secs fmt v c,
  canonical_dates secs fmt v ->
  jwt_claims secs true v = Some c ->
  forall k, k <> "issuer" -> lookup (refine fmt c) k = lookup (mobj v) k.
Proof. exact jwt_min_agree. Qed.
Print Assumptions jwt_claims_agree_minimised.

(* ... and the issuer member is equal, or (issuer objects) equal as maps *)
Theorem jwt_claims_agree_minimised_issuer : forall secs fmt v c,
  issuer_wf v -> lookup (v_cf v) "issuer" = None ->
  jwt_claims secs true v = Some c ->
  match lookup (refine fmt c) "issuer", lookup (mobj v) "issuer" with
  | Some (JObj a), Some (JObj b) => forall k', lookup a k' = lookup b k'
  | x, y => x = y
  end.
Proof. exact jwt_min_issuer. Qed.
Print Assumptions jwt_claims_agree_minimised_issuer.

(* without canonical dates the statement fails: a fraction of a second does not survive (known finding) *)
Theorem jwt_claims_agree_subsecond_refuted :
  let secs := fun s : string => 1893456000%Z in
  let fmt := fun z : Z => "2030-01-01T00:00:00Z" in
  let d := JObj [("@context", JArr [JStr "c"]); ("type", JStr "T"); ("credentialSubject", JStr "did:s");
                 ("issuer", JStr "did:i"); ("issuanceDate", JStr "2030-01-01T00:00:00.5Z")] in
  match parse_vc Fixed d with
  | Some v => match jwt_claims secs true v with
              | Some c => lookup (refine fmt c) "issuanceDate" = Some (JStr "2030-01-01T00:00:00Z") /\
                          lookup (mobj v) "issuanceDate" = Some (JStr "2030-01-01T00:00:00.5Z")
              | None => False
              end
  | None => False
  end.
Proof. vm_compute. split; reflexivity. Qed.
Print Assumptions jwt_claims_agree_subsecond_refuted.

Example jwt_claims_nonvacuous :
  let secs := fun s : string => 1577836800%Z in
  let fmt := fun z : Z => "2020-01-01T00:00:00Z" in
  let d := JObj [("@context", JArr [JStr "c"]); ("type", JStr "T"); ("id", JStr "urn:1"); ("credentialSubject", JObj [("id", JStr "did:s"); ("a", JNum 1%Z)]);
                 ("issuer", JObj [("id", JStr "did:i"); ("name", JStr "n")]); ("issuanceDate", JStr "2020-01-01T00:00:00Z")] in
  match parse_vc Fixed d with
  | Some v => match jwt_claims secs true v with
              | Some c => j_iss c = "did:i" /\ j_jti c = "urn:1" /\ j_sub c = "did:s" /\ lookup (j_vc c) "id" = None /\
                          lookup (refine fmt c) "id" = Some (JStr "urn:1")
              | None => False
              end
  | None => False
  end.
Proof. vm_compute. repeat split. Qed.

(* ---- presentations: enclosed credentials in every form, RE-PARSE EQUALITY ----
   env: which strings are compact JWS and whether their payload carries _sd_alg (decided by the jose code, handed over
   by the harness).  An enclosed credential is a JSON-LD object, a JWT, or an SD-JWT in combined format
   jwt~disclosure~...~[holder binding] (issuance or presentation spelling, any number of disclosures). *)
Theorem forms_roundtrip_enclosed_credentials : forall env o cs,
  dec_creds env o = Some cs -> dec_creds env (enc_creds cs) = Some cs.
Proof. exact creds_reparse. Qed.
Print Assumptions forms_roundtrip_enclosed_credentials.

(* the combined format splits back into the parts it was joined from *)
Theorem combined_format_roundtrip : forall parts,
  parts <> [] -> forallb no_tilde parts = true -> split_tilde (join_tilde parts) = parts.
Proof. exact split_join. Qed.
Print Assumptions combined_format_roundtrip.

(* for every presentation the parser accepts, parsing what MarshalJSON wrote yields the same presentation object:
   contexts, id, types, holder, proofs, custom members and every enclosed credential with all its disclosures *)
Theorem vp_reparse_equal : forall env m p,
  vp_guard m = true -> parse_vp env (JObj m) = Some p -> parse_vp env (marshal_vp Fixed p) = Some p.
Proof. exact vp_reparse. Qed.
Print Assumptions vp_reparse_equal.

Example vp_reparse_nonvacuous :
  let env := [("h.p.s", true); ("a.b.c", false)] in
  let d := [("@context", JArr [JStr "c"; JObj [("k", JStr "v")]]); ("type", JStr "VerifiablePresentation"); ("holder", JStr "did:h");
            ("verifiableCredential", JArr [JStr "h.p.s~d1~d2"; JStr "a.b.c"; JObj [("type", JStr "T")]; JStr "h.p.s~d3~"]); ("x", JNum 1%Z)] in
  vp_guard d = true /\
  option_map p_creds (parse_vp env (JObj d)) =
    Some [CJwt "h.p.s" ["d1"; "d2"] "" true; CJwt "a.b.c" [] "" false; CObj (JObj [("type", JStr "T")]); CJwt "h.p.s" ["d3"] "" true] /\
  option_map (fun p => enc_creds (p_creds p)) (parse_vp env (JObj d)) =
    Some (Some (JArr [JStr "h.p.s~d1~d2~"; JStr "a.b.c"; JObj [("type", JStr "T")]; JStr "h.p.s~d3~"])).
Proof. vm_compute. repeat split. Qed.

(* ---- DID services: key references ----
   recipientKeys / routingKeys whose spellings are consistent (references to one key all relative or all absolute) are
   written back exactly as they came, for any @base *)
Theorem service_key_refs_roundtrip : forall did base keys,
  consistent did base keys ->
  out_keys did base (map (abs_id did base) keys) (key_table did base keys) = keys.
Proof. exact key_refs_roundtrip. Qed.
Print Assumptions service_key_refs_roundtrip.

(* every custom property of a service comes back (as its float64 image) *)
Theorem service_custom_member_roundtrip : forall did base m k,
  ~ In k service_typed_keys -> lookup (roundtrip_service did base m) k = option_map f64j (lookup m k).
Proof. exact service_custom_member. Qed.
Print Assumptions service_custom_member_roundtrip.

(* when one list spells a key both ways the last spelling is used for all of them *)
Theorem service_key_refs_mixed_refuted :
  let keys := ["#k1"; "did:a#k1"] in
  out_keys "did:a" "" (map (abs_id "did:a" "") keys) (key_table "did:a" "" keys) = ["did:a#k1"; "did:a#k1"].
Proof. vm_compute. reflexivity. Qed.
Print Assumptions service_key_refs_mixed_refuted.

(* ---- DID documents: RE-PARSE EQUALITY ----
   For every DID document the parser accepts (context v1 with or without @base, id, alsoKnownAs, verification
   methods, services, the five relationships), parsing what JSONBytes wrote yields the same document.
   Guard (did_guard): method ids are pairwise different and no method id is @base (or the id) followed by another
   method's id; keys and method ids are not empty; the key lists of a service spell every key one way and the
   routing keys inside a DIDComm V2 entry are not re-spelled by the service-level table (svc_in_ok). *)
Theorem did_reparse_equal : forall j d,
  parse_did Fixed j = Some d -> did_guard j d -> parse_did Fixed (marshal_did d) = Some d.
Proof. exact did_reparse. Qed.
Print Assumptions did_reparse_equal.

(* its parts: the @context (with @base) re-parses to itself, a reference resolves to the method it was written
   for, a service is stable *)
Theorem did_context_reparse : forall o c b, did_context o = (c, b) -> did_context c = (c, b).
Proof. exact ctx_reparse. Qed.
Print Assumptions did_context_reparse.

Theorem reference_resolves_to_its_method : forall did base vms v,
  ids_ok did base vms -> In v vms -> find_vm did base vms (vm_id_text did base v) = Some v.
Proof. exact find_vm_self. Qed.
Print Assumptions reference_resolves_to_its_method.

Theorem service_reparse_stable : forall did base m, svc_in_ok did base m ->
  roundtrip_service did base (roundtrip_service did base m) = roundtrip_service did base m.
Proof. exact service_stable. Qed.
Print Assumptions service_reparse_stable.

(* the typed members of a service: id as spelled, type (string or array) and priority as given, key lists as spelled *)
Theorem service_typed_members_roundtrip : forall did base m, svc_in_ok did base m ->
  roundtrip_service did base m = svc_props m ++ entries_obj (svc_entries did base m).
Proof. exact rs_entries. Qed.
Print Assumptions service_typed_members_roundtrip.

Example did_reparse_nonvacuous :
  let j := JObj [("@context", JArr [JStr "https://www.w3.org/ns/did/v1"; JObj [("@base", JStr "did:a:long")]]); ("id", JStr "did:a");
                 ("verificationMethod", JArr [JObj [("id", JStr "#k1"); ("type", JStr "T"); ("controller", JStr "did:c"); ("publicKeyBase58", JStr "abc")]]);
                 ("authentication", JArr [JStr "#k1"; JObj [("id", JStr "did:a#k2"); ("type", JStr "T"); ("controller", JStr ""); ("publicKeyMultibase", JStr "zabc")]]);
                 ("service", JArr [JObj [("id", JStr "#s"); ("type", JArr [JStr "A"; JStr "B"]); ("priority", JNum 1%Z); ("accept", JArr [JStr "x"]);
                                         ("routingKeys", JArr [JStr "#k1"]); ("serviceEndpoint", JArr [JObj [("uri", JStr "u"); ("routingKeys", JArr [JStr "did:x#r"])]])]])] in
  match parse_did Fixed j with
  | Some d => option_map marshal_did (parse_did Fixed (marshal_did d)) = Some (marshal_did d) /\ d_base d = "did:a:long" /\
              List.length (d_svcs d) = 1%nat
  | None => False
  end.
Proof. vm_compute. repeat split. Qed.

(* ---- JWKs (publicKeyJwk, jwk.JWK) ----
   what the jwk package writes for a JWK it has read: exactly the members it knows for the key type (generated list
   for X25519 / secp256k1 / BLS12-381 G2 keys, go-jose's for the others) with their values; in particular kty, crv,
   the key material, use, alg and kid of every key type come back; key_ops and unknown members do not (known finding) *)
Theorem jwk_members_roundtrip : forall jw k,
  lookup (jwk_out jw) k =
  if mem k (if jwk_custom_type jw then jwk_custom_members else jose_members) then option_map f64j (lookup jw k) else None.
Proof. exact jwk_out_lookup. Qed.
Print Assumptions jwk_members_roundtrip.

Theorem jwk_reparse_stable : forall jw, jwk_out (jwk_out jw) = jwk_out jw.
Proof. exact jwk_out_idem. Qed.
Print Assumptions jwk_reparse_stable.

(* every member of the key itself and use / alg / kid are among the kept ones for both kinds of key type *)
Theorem jwk_kept_members :
  forallb (fun k => mem k jwk_custom_members && mem k jose_members) ["kty"; "crv"; "x"; "y"; "use"; "alg"; "kid"] = true /\
  mem "key_ops" jose_members = false /\ mem "key_ops" jwk_custom_members = false.
Proof. vm_compute. repeat split. Qed.
Print Assumptions jwk_kept_members.

(* a key of a publicKeyMultibase type (generated list) given as publicKeyBase58: repaired code writes the base58-btc
   multibase text of the same key; the code as found had no text form for it (zero encoding) *)
Theorem vm_multibase_type_base58_asis_refuted :
  let m := [("id", JStr "did:a#k"); ("type", JStr "Ed25519VerificationKey2020"); ("controller", JStr "did:a"); ("publicKeyBase58", JStr "abc")] in
  option_map m_key (dec_vm Fixed "did:a" "" m) = Some ("publicKeyMultibase", JStr "zabc") /\
  dec_vm AsIs "did:a" "" m = None /\
  forallb (fun t => mem t vm_types) vm_multibase_types = true.
Proof. vm_compute. repeat split. Qed.
Print Assumptions vm_multibase_type_base58_asis_refuted.

(* ---- single value <-> array: the collapse and expansion rules, explicitly ----
   termsOfUse / refreshService / proof: an array of one is written as the single value, a single value is read as an
   array of one; two or more stay an array; none is no member *)
Theorem array_of_one_collapses : forall {A} (enc : A -> json) (x : A), enc_list enc [x] = Some (enc x).
Proof. reflexivity. Qed.
Print Assumptions array_of_one_collapses.

Theorem arrays_of_two_or_more_stay : forall {A} (enc : A -> json) (x y : A) r,
  enc_list enc (x :: y :: r) = Some (JArr (map enc (x :: y :: r))) /\ enc_list enc ([] : list A) = None.
Proof. intros. split; reflexivity. Qed.
Print Assumptions arrays_of_two_or_more_stay.

Theorem single_typedid_read_as_array_of_one : forall m s,
  dec_sstruct typedID_fields m = Some s ->
  dec_typedids (Some (JObj m)) = Some [s] /\ dec_typedids (Some (JArr [JObj m])) = Some [s].
Proof. intros m s H. cbn [dec_typedids dec_typedid mapM]. rewrite H. split; reflexivity. Qed.
Print Assumptions single_typedid_read_as_array_of_one.

(* credentialSchema: read like the others, but ALWAYS written as an array (a single schema is expanded);
   an empty array or null is no schema and no member is written *)
Theorem schema_single_expands_to_array : forall m s,
  dec_sstruct typedID_fields m = Some s ->
  dec_schemas (Some (JObj m)) = Some [s] /\ enc_schemas [s] = Some (JArr [enc_sstruct s]) /\
  dec_schemas (Some (JArr [])) = Some [] /\ dec_schemas (Some JNull) = Some [] /\ enc_schemas [] = None.
Proof. intros m s H. cbn [dec_schemas dec_typedid]. rewrite H. repeat split; reflexivity. Qed.
Print Assumptions schema_single_expands_to_array.

(* evidence is kept in the form it came in: an array of one stays an array of one, a single value stays single *)
Theorem evidence_form_kept : forall j, is_null j = false -> dec_iface (Some j) = Some (f64j j).
Proof. intros [] H; try reflexivity. discriminate. Qed.
Print Assumptions evidence_form_kept.

(* type: one type is written as a string, otherwise an array; @context: always an array *)
Theorem type_and_context_forms : forall s ss cs,
  enc_types [s] = JStr s /\ enc_types [] = JArr [] /\ enc_context ss cs = JArr (map JStr ss ++ cs).
Proof. intros. repeat split; reflexivity. Qed.
Print Assumptions type_and_context_forms.

(* credentialSubject: an id string stays a string, an array of one object is written as the object *)
Theorem subject_forms : forall x s,
  enc_subject (SStr x) = Some (JStr x) /\ enc_subject (SList [s]) = Some (enc_sstruct s) /\ enc_subject SNone = None /\
  enc_subject (SList []) = Some (JArr []).
Proof. intros. repeat split; reflexivity. Qed.
Print Assumptions subject_forms.

(* the JWT form is defined for one subject: several subjects (or none) are refused, in both forms *)
Theorem jwt_several_subjects_refused : forall secs minimize v a b r,
  v_subject v = SList (a :: b :: r) \/ v_subject v = SList [] \/ v_subject v = SNone -> jwt_claims secs minimize v = None.
Proof. intros secs minimize v a b r [H|[H|H]]; unfold jwt_claims; rewrite H; reflexivity. Qed.
Print Assumptions jwt_several_subjects_refused.

(* ---- key fingerprints (multibase/base58 layer outside: sampled on btcutil) ----
   for every code of the generated multicodec table except G1G2 and every key byte string:
   PubKeyFromFingerprint (KeyFingerprint code key) = (key, code) *)
Theorem fingerprint_roundtrip : forall code key,
  In code (map snd multicodec_table) -> code <> g1g2_code ->
  fp_decode (fp_bytes code key) = Some (key, code).
Proof. exact fp_roundtrip_table. Qed.
Print Assumptions fingerprint_roundtrip.

(* G1G2: the documented special case returns the G2 key *)
Theorem fingerprint_g1g2_returns_g2 : forall g1 g2,
  List.length g1 = g1_size -> List.length g2 = g2_size ->
  fp_decode (fp_bytes g1g2_code (g1 ++ g2)) = Some (g2, g1g2_code).
Proof. exact fp_g1g2. Qed.
Print Assumptions fingerprint_g1g2_returns_g2.

Theorem didkey_roundtrip : forall code key,
  In code didkey_codes -> code <> g1g2_code -> didkey_decode (fp_bytes code key) = Some key.
Proof. exact didkey_roundtrip_table. Qed.
Print Assumptions didkey_roundtrip.

(* NIST curve points: for P-256/384/521 and every X below 256^size, the did:key bytes of the compressed point
   decode back to it, the point is exactly 1 + size bytes (fixed-width X, leading zero bytes kept), X and the
   parity of Y are recovered *)
Theorem fingerprint_roundtrip_ec_fixed_width : forall code n x y,
  curve_size code = Some n -> (0 <= x < 256 ^ Z.of_nat n)%Z ->
  fp_decode (fp_bytes code (ec_compress n x y)) = Some (ec_compress n x y, code) /\
  didkey_decode (fp_bytes code (ec_compress n x y)) = Some (ec_compress n x y) /\
  List.length (ec_compress n x y) = S n /\
  be_value (tl (ec_compress n x y)) = x /\
  (hd 0%N (ec_compress n x y) = 2 + Z.to_N (y mod 2))%N.
Proof. exact ec_fp_roundtrip. Qed.
Print Assumptions fingerprint_roundtrip_ec_fixed_width.

(* ---- DID documents: ids relative to @base (or the document id) ---- *)
Theorem relative_id_roundtrip : forall did base frag, make_rel did base (resolve_rel did base frag) = frag.
Proof. exact make_rel_resolve. Qed.
Print Assumptions relative_id_roundtrip.

(* forms_roundtrip for verification methods: what populateRawVerificationMethod writes for a parsed method
   (relative or absolute id, any @base, base58 / multibase / JWK key) parses back to the same method *)
Theorem forms_roundtrip_verification_method : forall did base m v,
  dec_vm Fixed did base m = Some v -> key_nonempty v = true ->
  match enc_vm did base v with JObj m' => dec_vm Fixed did base m' = Some v | _ => False end.
Proof. exact vm_reparse. Qed.
Print Assumptions forms_roundtrip_verification_method.

(* ... embedded in a relationship *)
Theorem forms_roundtrip_embedded_relationship : forall did base vms m v,
  dec_rel Fixed did base vms (JObj m) = Some [VEmb v] -> key_nonempty v = true ->
  dec_rel Fixed did base vms (enc_rel did base (VEmb v)) = Some [VEmb v].
Proof. exact rel_embedded_reparse. Qed.
Print Assumptions forms_roundtrip_embedded_relationship.

(* ... referenced: the text written for a reference (and for a method id) denotes the method's absolute id, and a
   reference resolves only to a method with that id *)
Theorem forms_roundtrip_referenced_relationship : forall w did base m v,
  dec_vm w did base m = Some v -> abs_id did base (vm_id_text did base v) = m_id v.
Proof. exact abs_id_text. Qed.
Print Assumptions forms_roundtrip_referenced_relationship.

Theorem reference_resolution_sound : forall did base vms k v,
  find_vm did base vms k = Some v -> In v vms /\ (m_id v = k \/ m_id v = resolve_rel did base k).
Proof. exact find_vm_sound. Qed.
Print Assumptions reference_resolution_sound.

(* the code as found: the declared controller of a method with a relative id was overwritten (fix 3ac0a2b) *)
Theorem vm_controller_asis_refuted :
  let m := [("id", JStr "#k"); ("type", JStr "T"); ("controller", JStr "did:c"); ("publicKeyBase58", JStr "abc")] in
  option_map m_ctrl (dec_vm AsIs "did:a" "" m) = Some "did:a" /\
  option_map m_ctrl (dec_vm Fixed "did:a" "" m) = Some "did:c" /\
  option_map (vm_id_text "did:a" "did:a:long") (dec_vm Fixed "did:a" "did:a:long" m) = Some "#k".
Proof. vm_compute. repeat split. Qed.
Print Assumptions vm_controller_asis_refuted.

(* the code as found invented "issuer": "" and turned a null subject into "" (fixes e7a28b5, a925e19) *)
Theorem vc_issuer_subject_asis_refuted :
  let d := JObj [("@context", JArr [JStr "c"]); ("type", JStr "T"); ("credentialSubject", JNull)] in
  member_of_output_w AsIs d "issuer" = Some (JStr "") /\ member_of_output_w Fixed d "issuer" = None /\
  member_of_output_w AsIs d "credentialSubject" = Some (JStr "") /\ member_of_output_w Fixed d "credentialSubject" = None.
Proof. vm_compute. repeat split. Qed.
Print Assumptions vc_issuer_subject_asis_refuted.

(* float64 decoding is idempotent: a second pass through interface{} changes nothing *)
Theorem f64_idempotent : forall z, f64round (f64round z) = f64round z.
Proof. exact f64round_idem. Qed.
Print Assumptions f64_idempotent.

(* the generated table is the multicodec registry's, every code of it is accepted by PubKeyFromDIDKey, and an
   unknown code is refused *)
Theorem multicodec_table_is_registry :
  map snd multicodec_table = [0xec; 0xed; 0xeb; 0xee; 0x1200; 0x1201; 0x1202]%N /\
  forallb (fun c => existsb (N.eqb c) didkey_codes) (map snd multicodec_table) = true /\
  didkey_decode (fp_bytes 0xe7%N [1%N; 2%N]) = None.
Proof. vm_compute. repeat split. Qed.
Print Assumptions multicodec_table_is_registry.

(* the member names the model serialises are the generated struct members (jwt is the envelope member) *)
Theorem model_names_are_generated :
  map (fun f => fst (fst f)) rawCredential_fields =
    ["@context"; "id"; "type"; "credentialSubject"; "issuanceDate"; "expirationDate"; "proof"; "credentialStatus";
     "issuer"; "credentialSchema"; "evidence"; "termsOfUse"; "refreshService"; "jwt"; "_sd_alg"] /\
  map (fun f => fst (fst f)) rawPresentation_fields =
    ["@context"; "id"; "type"; "verifiableCredential"; "holder"; "proof"; "jwt"] /\
  map (fun f => fst (fst f)) typedID_fields = ["id"; "type"] /\
  map (fun f => fst (fst f)) subject_fields = ["id"] /\ map (fun f => fst (fst f)) issuer_fields = ["id"].
Proof. vm_compute. repeat split. Qed.
Print Assumptions model_names_are_generated.

(* ---- non-vacuity ---- *)
Example vc_roundtrip_nonvacuous :
  let d := JObj [("@context", JStr "c"); ("type", JArr [JStr "T"]); ("credentialSubject", JArr [JObj [("id", JStr "s"); ("deg", JNum 3%Z)]]);
                 ("issuer", JObj [("id", JStr "i"); ("name", JStr "n")]); ("termsOfUse", JArr [JObj [("id", JStr "t"); ("q", JNull)]]);
                 ("id", JStr ""); ("custom", JObj [("a", JArr [JNum 1%Z; JNull])])] in
  option_map (fun o => jeq o
    (JObj [("@context", JArr [JStr "c"]); ("type", JStr "T"); ("credentialSubject", JObj [("id", JStr "s"); ("deg", JNum 3%Z)]);
           ("issuer", JObj [("id", JStr "i"); ("name", JStr "n")]); ("termsOfUse", JObj [("id", JStr "t"); ("q", JNull)]);
           ("id", JStr ""); ("custom", JObj [("a", JArr [JNum 1%Z; JNull])])])) (roundtrip_vc Fixed d) = Some true.
Proof. vm_compute. reflexivity. Qed.

Example fingerprint_nonvacuous :
  fp_bytes 0xed%N [7%N; 8%N] = [237%N; 1%N; 7%N; 8%N] /\ fp_bytes 0x1200%N [9%N] = [128%N; 36%N; 9%N] /\
  fp_decode [128%N; 36%N; 9%N] = Some ([9%N], 0x1200%N).
Proof. vm_compute. repeat split. Qed.
