(* C16 — property theorems only.  Every proof is `exact <lemma>` or a closed computation (refutation witness,
   finite generated table). *)
From Coq Require Import List String ZArith NArith Bool.
Import ListNotations.
From VF Require Import C16.Model C16.Proofs.
Local Open Scope string_scope.
Local Open Scope list_scope.

(* ---- the custom-field mechanism (util/json) ----
   UnmarshalWithCustomFields followed by MergeCustomFields, for any typed part that marshals to the members kf and
   any input object m: a member the typed part emits wins; every other member of the input comes back (as the
   float64 image of its value); nothing else appears. *)
Theorem cf_roundtrip : forall (kf m : obj) (k : string),
  lookup (merge_cf kf (split_cf (keys kf) m)) k =
  match lookup kf k with Some v => Some v | None => option_map f64j (lookup m k) end.
Proof. exact merge_split_lookup. Qed.
Print Assumptions cf_roundtrip.

(* float64 decoding does not touch a value whose numbers all have magnitude <= 2^53 *)
Theorem exact_values_untouched : forall j, exact j = true -> f64j j = j.
Proof. exact f64j_exact. Qed.
Print Assumptions exact_values_untouched.

(* ---- credentials: ParseCredential -> MarshalJSON ----
   FULL STATEMENT for custom top-level properties, every accepted credential, every name that is not a member of
   rawCredential (generated list): the output holds the member iff the input does, with the float64 image of its value. *)
Theorem vc_custom_member_roundtrip : forall m v k,
  parse_vc (JObj m) = Some v ->
  ~ In k (map (fun f => fst (fst f)) rawCredential_fields) ->
  match marshal_vc v with JObj o => lookup o k | _ => None end = option_map (fun x => f64j (f64j x)) (lookup m k).
Proof. exact vc_custom_member. Qed.
Print Assumptions vc_custom_member_roundtrip.

(* ... hence exactly preserved when its numbers are within +-2^53 (partial: the guard excludes finding #26) *)
Theorem vc_custom_member_preserved_partial : forall m v k x,
  parse_vc (JObj m) = Some v ->
  ~ In k (map (fun f => fst (fst f)) rawCredential_fields) ->
  lookup m k = Some x -> exact x = true ->
  match marshal_vc v with JObj o => lookup o k | _ => None end = Some x.
Proof.
  intros m v k x Hp Hk Hl He. rewrite (vc_custom_member m v k Hp Hk), Hl. cbn.
  rewrite (f64j_exact x He), (f64j_exact x He). reflexivity.
Qed.
Print Assumptions vc_custom_member_preserved_partial.

(* the unguarded statement "every member of the input is in the output with the same value" is refuted:
   (1) a number above 2^53, (2) a member named jwt, (3) a member ID after the defined member id *)
Definition vc_skeleton (extra : obj) : json :=
  JObj ([("@context", JArr [JStr "c"]); ("type", JStr "T"); ("id", JStr "urn:a"); ("issuer", JStr "did:i")] ++ extra).
Definition member_of_output (j : json) (k : string) : option json :=
  match roundtrip_vc j with Some (JObj o) => lookup o k | _ => None end.

Theorem vc_all_members_preserved_refuted :
  member_of_output (vc_skeleton [("n", JNum 9007199254740993%Z)]) "n" = Some (JNum 9007199254740992%Z) /\
  member_of_output (vc_skeleton [("jwt", JStr "abc")]) "jwt" = None /\
  member_of_output (vc_skeleton [("ID", JStr "urn:b")]) "id" = Some (JStr "urn:b") /\
  member_of_output (vc_skeleton [("x", JNum 7%Z)]) "x" = Some (JNum 7%Z).
Proof. vm_compute. repeat split. Qed.
Print Assumptions vc_all_members_preserved_refuted.

(* ---- presentations ---- *)
Theorem vp_custom_member_roundtrip : forall w m p k,
  parse_vp (JObj m) = Some p ->
  ~ In k (map (fun f => fst (fst f)) rawPresentation_fields) ->
  match marshal_vp w p with JObj o => lookup o k | _ => None end = option_map (fun x => f64j (f64j x)) (lookup m k).
Proof. exact vp_custom_member. Qed.
Print Assumptions vp_custom_member_roundtrip.

(* repaired code (fix 3bb8b98): the serialised @context holds the string contexts followed by the object contexts *)
Theorem vp_context_kept_fixed : forall p,
  match marshal_vp Fixed p with JObj o => lookup o "@context" | _ => None end
  = Some (f64j (enc_context (p_ctx p) (p_cctx p))).
Proof. exact vp_context_kept. Qed.
Print Assumptions vp_context_kept_fixed.

(* the code as found dropped them *)
Theorem vp_context_asis_refuted :
  let d := JObj [("@context", JArr [JStr "c"; JObj [("k", JStr "v")]]); ("type", JStr "VerifiablePresentation")] in
  match roundtrip_vp AsIs d with Some (JObj o) => lookup o "@context" | _ => None end = Some (JArr [JStr "c"]) /\
  match roundtrip_vp Fixed d with Some (JObj o) => lookup o "@context" | _ => None end
    = Some (JArr [JStr "c"; JObj [("k", JStr "v")]]).
Proof. vm_compute. split; reflexivity. Qed.
Print Assumptions vp_context_asis_refuted.

(* ---- single-or-array forms ---- *)
Theorem forms_roundtrip_type : forall l, dec_types (Some (enc_types l)) = Some l.
Proof. exact types_roundtrip. Qed.
Print Assumptions forms_roundtrip_type.

Theorem forms_roundtrip_context : forall ss cs,
  match cs with JStr _ :: _ => False | _ => True end ->
  dec_context (Some (enc_context ss cs)) = Some (ss, map f64j cs).
Proof. exact context_roundtrip. Qed.
Print Assumptions forms_roundtrip_context.

(* ---- key fingerprints (multibase/base58 layer outside: sampled on btcutil) ----
   for every code of the generated multicodec table except G1G2 and every key byte string:
   PubKeyFromFingerprint (KeyFingerprint code key) = (key, code) *)
Theorem fingerprint_roundtrip : forall code key,
  In code (map snd multicodec_table) -> code <> g1g2_code ->
  fp_decode (fp_bytes code key) = Some (key, code).
Proof. exact fp_roundtrip_table. Qed.
Print Assumptions fingerprint_roundtrip.

(* G1G2: the documented special case returns the G2 key *)
Theorem fingerprint_g1g2_returns_g2 : forall g1 g2,
  List.length g1 = g1_size -> List.length g2 = g2_size ->
  fp_decode (fp_bytes g1g2_code (g1 ++ g2)) = Some (g2, g1g2_code).
Proof. exact fp_g1g2. Qed.
Print Assumptions fingerprint_g1g2_returns_g2.

Theorem didkey_roundtrip : forall code key,
  In code didkey_codes -> code <> g1g2_code -> didkey_decode (fp_bytes code key) = Some key.
Proof. exact didkey_roundtrip_table. Qed.
Print Assumptions didkey_roundtrip.

(* the generated table is the multicodec registry's, every code of it is accepted by PubKeyFromDIDKey, and an
   unknown code is refused *)
Theorem multicodec_table_is_registry :
  map snd multicodec_table = [0xec; 0xed; 0xeb; 0xee; 0x1200; 0x1201; 0x1202]%N /\
  forallb (fun c => existsb (N.eqb c) didkey_codes) (map snd multicodec_table) = true /\
  didkey_decode (fp_bytes 0xe7%N [1%N; 2%N]) = None.
Proof. vm_compute. repeat split. Qed.
Print Assumptions multicodec_table_is_registry.

(* the member names the model serialises are the generated struct members (jwt is the envelope member) *)
Theorem model_names_are_generated :
  map (fun f => fst (fst f)) rawCredential_fields =
    ["@context"; "id"; "type"; "credentialSubject"; "issuanceDate"; "expirationDate"; "proof"; "credentialStatus";
     "issuer"; "credentialSchema"; "evidence"; "termsOfUse"; "refreshService"; "jwt"; "_sd_alg"] /\
  map (fun f => fst (fst f)) rawPresentation_fields =
    ["@context"; "id"; "type"; "verifiableCredential"; "holder"; "proof"; "jwt"] /\
  map (fun f => fst (fst f)) typedID_fields = ["id"; "type"] /\
  map (fun f => fst (fst f)) subject_fields = ["id"] /\ map (fun f => fst (fst f)) issuer_fields = ["id"].
Proof. vm_compute. repeat split. Qed.
Print Assumptions model_names_are_generated.

(* ---- non-vacuity ---- *)
Example vc_roundtrip_nonvacuous :
  let d := JObj [("@context", JStr "c"); ("type", JArr [JStr "T"]); ("credentialSubject", JArr [JObj [("id", JStr "s"); ("deg", JNum 3%Z)]]);
                 ("issuer", JObj [("id", JStr "i"); ("name", JStr "n")]); ("termsOfUse", JArr [JObj [("id", JStr "t"); ("q", JNull)]]);
                 ("id", JStr ""); ("custom", JObj [("a", JArr [JNum 1%Z; JNull])])] in
  option_map (fun o => jeq o
    (JObj [("@context", JArr [JStr "c"]); ("type", JStr "T"); ("credentialSubject", JObj [("id", JStr "s"); ("deg", JNum 3%Z)]);
           ("issuer", JObj [("id", JStr "i"); ("name", JStr "n")]); ("termsOfUse", JObj [("id", JStr "t"); ("q", JNull)]);
           ("id", JStr ""); ("custom", JObj [("a", JArr [JNum 1%Z; JNull])])])) (roundtrip_vc d) = Some true.
Proof. vm_compute. reflexivity. Qed.

Example fingerprint_nonvacuous :
  fp_bytes 0xed%N [7%N; 8%N] = [237%N; 1%N; 7%N; 8%N] /\ fp_bytes 0x1200%N [9%N] = [128%N; 36%N; 9%N] /\
  fp_decode [128%N; 36%N; 9%N] = Some ([9%N], 0x1200%N).
Proof. vm_compute. repeat split. Qed.
