(* C16 — lemmas: the coders of TypedID, Subject, Issuer, proofs, schemas re-parse what they serialise *)
From Coq Require Import List String Ascii ZArith NArith Bool Lia.
Import ListNotations.
From VF Require Import C16.Model C16.Proofs C16.ProofsF C16.ProofsB1.
Open Scope string_scope.
Open Scope list_scope.

Lemma lk_app : forall a b k, lk (a ++ b) k = match lk b k with Some x => Some x | None => lk a k end.
Proof.
  induction a as [|[k' v] r IH]; intros b k; cbn; [destruct (lk b k); reflexivity|].
  rewrite IH. destruct (lk b k); reflexivity.
Qed.

Lemma lk_f64o : forall m k, lk (f64o m) k = option_map f64j (lk m k).
Proof.
  induction m as [|[k' v] r IH]; intros k; cbn; [reflexivity|]. rewrite IH.
  destruct (lk r k); cbn; [reflexivity|]. destruct (lower k' =? lower k); reflexivity.
Qed.

Lemma nodupb_filter : forall (p : string -> bool) (m : obj),
  nodupb (keys m) = true -> nodupb (keys (filter (fun kv => p (fst kv)) m)) = true.
Proof.
  unfold keys. induction m as [|[k v] r IH]; cbn; intros H; [reflexivity|].
  apply andb_prop in H. destruct H as [Hk Hr]. destruct (p k); cbn; [|auto].
  rewrite IH by exact Hr. rewrite andb_true_r. apply negb_true_iff. apply negb_true_iff in Hk.
  destruct (mem k (map fst (filter (fun kv => p (fst kv)) r))) eqn:E; [|reflexivity].
  apply mem_in in E. apply in_map_iff in E. destruct E as [[k2 v2] [E1 E2]]. apply filter_In in E2. destruct E2 as [E2 _].
  cbn in E1. subst k2. assert (Hi: In k (map fst r)) by (apply in_map_iff; exists (k, v2); auto).
  apply mem_in in Hi. congruence.
Qed.

Lemma ci_clean_filter : forall names (p : string -> bool) (m : obj),
  ci_clean names m = true -> ci_clean names (filter (fun kv => p (fst kv)) m) = true.
Proof.
  induction m as [|[k v] r IH]; cbn; intros H; [reflexivity|].
  apply andb_prop in H. destruct H as [Hh Hr]. destruct (p k); cbn; [rewrite Hh; cbn|]; auto.
Qed.

Lemma clean_filter : forall names (p : string -> bool) m,
  clean names m = true -> clean names (filter (fun kv => p (fst kv)) m) = true.
Proof.
  unfold clean. intros names p m H. apply andb_prop in H. destruct H as [H1 H2].
  rewrite nodupb_filter, ci_clean_filter by assumption. reflexivity.
Qed.

Lemma lk_split_cf : forall names E m k, clean names m = true -> In k names ->
  lk (split_cf E m) k = if mem k E then None else option_map f64j (lookup m k).
Proof.
  intros names E m k Hc Hin. unfold split_cf. rewrite lk_f64o.
  rewrite (lk_clean names) by (try apply (clean_filter names (fun x => negb (mem x E))); assumption).
  rewrite (lookup_filter (fun x => negb (mem x E))). destruct (mem k E); reflexivity.
Qed.

Lemma filter_idem : forall {A} (p : A -> bool) l, filter p (filter p l) = filter p l.
Proof. induction l as [|a r IH]; cbn; [reflexivity|]. destruct (p a) eqn:E; cbn; [rewrite E, IH|]; auto. Qed.

Lemma merge_split : forall E m, merge_cf E (split_cf (keys E) m) = E ++ split_cf (keys E) m.
Proof.
  intros. unfold merge_cf, split_cf. f_equal.
  rewrite <- (f64o_filter (fun x => negb (mem x (keys E)))). rewrite filter_idem. reflexivity.
Qed.

Lemma filter_own_keys : forall E : obj, filter (fun kv : string * json => negb (mem (fst kv) (keys E))) E = [].
Proof.
  intros E. assert (H: forall l : obj, (forall kv, In kv l -> In (fst kv) (keys E)) -> filter (fun kv : string * json => negb (mem (fst kv) (keys E))) l = []).
  { induction l as [|a r IH]; intros Hl; cbn; [reflexivity|].
    assert (Ha: mem (fst a) (keys E) = true) by (apply mem_in, Hl; cbn; auto). rewrite Ha. cbn. apply IH. intros kv Hi. apply Hl. cbn. auto. }
  apply H. intros kv Hi. unfold keys. apply in_map. exact Hi.
Qed.

Lemma split_cf_merge : forall E m, split_cf (keys E) (E ++ split_cf (keys E) m) = split_cf (keys E) m.
Proof.
  intros. unfold split_cf at 1. rewrite filter_app, filter_own_keys. cbn [app].
  unfold split_cf. rewrite <- (f64o_filter (fun x => negb (mem x (keys E)))). rewrite filter_idem. apply f64o_idem.
Qed.

(* what a Go string field can have been decoded from *)
Lemma dec_str_cases : forall o s, dec_str o = Some s ->
  (o = None /\ s = "") \/ (o = Some JNull /\ s = "") \/ o = Some (JStr s).
Proof. intros o s H. destruct o as [[| b | z | s' | l | m]|]; cbn in H; inversion H; auto. Qed.

Lemma dec_str_f64 : forall o s, dec_str o = Some s -> dec_str (option_map f64j o) = Some s.
Proof. intros o s H. destruct (dec_str_cases _ _ H) as [[-> ->]|[[-> ->]| ->]]; reflexivity. Qed.

Lemma redecode_str : forall (o : option json) (i : string) (e : option json) (inE : bool),
  dec_str (option_map f64j o) = Some i ->
  inE = negb (i =? "") -> e = (if i =? "" then None else Some (JStr i)) ->
  dec_str (match (if inE then None else option_map f64j o) with Some x => Some x | None => e end) = Some i.
Proof.
  intros o i e inE H -> ->. destruct (i =? "") eqn:E; cbn.
  - destruct (option_map f64j o); [exact H|]. apply String.eqb_eq in E. subst. reflexivity.
  - reflexivity.
Qed.

(* ---------- TypedID ---------- *)
Definition tid_names : list string := ["id"; "type"].
Definition tidE (i t : string) : obj := emit_known [("id", i, true); ("type", t, true)].

Lemma tidE_id : forall i t,
  lk (tidE i t) "id" = (if i =? "" then None else Some (JStr i)) /\ mem "id" (keys (tidE i t)) = negb (i =? "").
Proof. intros i t. unfold tidE, emit_known, emit_str. cbn. destruct (i =? ""); destruct (t =? ""); split; reflexivity. Qed.

Lemma tidE_type : forall i t,
  lk (tidE i t) "type" = (if t =? "" then None else Some (JStr t)) /\ mem "type" (keys (tidE i t)) = negb (t =? "").
Proof. intros i t. unfold tidE, emit_known, emit_str. cbn. destruct (i =? ""); destruct (t =? ""); split; reflexivity. Qed.

Lemma dec_known_tid : forall X,
  dec_known typedID_fields X =
  match dec_str (lk X "id"), dec_str (lk X "type") with
  | Some a, Some b => Some [("id", a, true); ("type", b, true)]
  | _, _ => None
  end.
Proof. intros X. unfold typedID_fields. cbn [dec_known]. destruct (dec_str (lk X "id")); destruct (dec_str (lk X "type")); reflexivity. Qed.

Opaque tidE.
Lemma typedid_reparse : forall m s,
  clean tid_names m = true -> dec_sstruct typedID_fields m = Some s ->
  match enc_sstruct s with JObj m' => dec_sstruct typedID_fields m' = Some s | _ => False end.
Proof.
  intros m s Hc H. unfold dec_sstruct in H. rewrite dec_known_tid in H.
  rewrite !(lk_clean tid_names) in H by (try exact Hc; cbn; tauto).
  destruct (dec_str (lookup m "id")) as [i|] eqn:Hi; [|discriminate].
  destruct (dec_str (lookup m "type")) as [t|] eqn:Ht; [|discriminate].
  inversion H; subst s; clear H. unfold enc_sstruct. cbn [s_known s_cf].
  change (emit_known [("id", i, true); ("type", t, true)]) with (tidE i t).
  change (emit_str "id" i true ++ emit_str "type" t true ++ []) with (tidE i t). rewrite merge_split. unfold dec_sstruct. rewrite dec_known_tid.
  rewrite !lk_app, !(lk_split_cf tid_names) by (try exact Hc; cbn; tauto).
  destruct (tidE_id i t) as [Hl1 Hm1]. destruct (tidE_type i t) as [Hl2 Hm2].
  rewrite (redecode_str _ i _ _ (dec_str_f64 _ _ Hi) Hm1 Hl1).
  rewrite (redecode_str _ t _ _ (dec_str_f64 _ _ Ht) Hm2 Hl2).
  change (emit_known [("id", i, true); ("type", t, true)]) with (tidE i t).
  change (emit_str "id" i true ++ emit_str "type" t true ++ []) with (tidE i t). rewrite split_cf_merge. reflexivity.
Qed.
Transparent tidE.

(* ---------- structs with the single member id: Subject, Issuer ---------- *)
Definition id_names : list string := ["id"].
Definition sidE (i : string) : obj := emit_known [("id", i, true)].

Lemma sidE_id : forall i,
  lk (sidE i) "id" = (if i =? "" then None else Some (JStr i)) /\ mem "id" (keys (sidE i)) = negb (i =? "").
Proof. intros i. unfold sidE, emit_known, emit_str. cbn. destruct (i =? ""); split; reflexivity. Qed.

Definition id_fields : list (string * fkind * bool) := [("id", KStr, true)].

Lemma dec_known_sid : forall X,
  dec_known id_fields X = match dec_str (lk X "id") with Some a => Some [("id", a, true)] | None => None end.
Proof. intros X. unfold id_fields. cbn [dec_known]. destruct (dec_str (lk X "id")); reflexivity. Qed.

Opaque sidE.
Lemma sid_reparse : forall m s,
  clean id_names m = true -> dec_sstruct id_fields m = Some s ->
  match enc_sstruct s with JObj m' => dec_sstruct id_fields m' = Some s | _ => False end.
Proof.
  intros m s Hc H. unfold dec_sstruct in H. rewrite dec_known_sid in H.
  rewrite !(lk_clean id_names) in H by (try exact Hc; cbn; tauto).
  destruct (dec_str (lookup m "id")) as [i|] eqn:Hi; [|discriminate].
  inversion H; subst s; clear H. unfold enc_sstruct. cbn [s_known s_cf].
  change (emit_known [("id", i, true)]) with (sidE i).
  change (emit_str "id" i true ++ []) with (sidE i). rewrite merge_split. unfold dec_sstruct. rewrite dec_known_sid.
  rewrite !lk_app, !(lk_split_cf id_names) by (try exact Hc; cbn; tauto).
  destruct (sidE_id i) as [Hl1 Hm1].
  rewrite (redecode_str _ i _ _ (dec_str_f64 _ _ Hi) Hm1 Hl1).
  change (emit_known [("id", i, true)]) with (sidE i).
  change (emit_str "id" i true ++ []) with (sidE i). rewrite split_cf_merge. reflexivity.
Qed.
Transparent sidE.

Lemma sid_id_of : forall m s, dec_sstruct id_fields m = Some s -> s_known s = [("id", id_of s, true)].
Proof.
  intros m s H. unfold dec_sstruct in H. rewrite dec_known_sid in H.
  destruct (dec_str (lk m "id")) as [i|]; [|discriminate]. inversion H; subst. reflexivity.
Qed.

Lemma with_id_reparse : forall i,
  match enc_sstruct (with_id id_fields i) with
  | JObj m' => dec_sstruct id_fields m' = Some (with_id id_fields i)
  | _ => False
  end.
Proof.
  intros i. destruct i as [|c r]; vm_compute; reflexivity.
Qed.

Lemma with_id_tid_reparse :
  match enc_sstruct (with_id typedID_fields "") with
  | JObj m' => dec_sstruct typedID_fields m' = Some (with_id typedID_fields "")
  | _ => False
  end.
Proof. vm_compute. reflexivity. Qed.

(* ---------- list coders ---------- *)
Definition elem_ok (names : list string) (j : json) : bool :=
  match j with JObj m => clean names m | _ => true end.
Definition objs_ok (names : list string) (o : option json) : bool :=
  match o with
  | Some (JArr l) => forallb (elem_ok names) l
  | Some j => elem_ok names j
  | None => true
  end.

Lemma mapM_reparse : forall {A} (dec : json -> option A) (enc : A -> json) (ok : json -> bool),
  (forall x t, ok x = true -> dec x = Some t -> dec (enc t) = Some t) ->
  forall l ts, forallb ok l = true -> mapM dec l = Some ts -> mapM dec (map enc ts) = Some ts.
Proof.
  intros A dec enc ok Hx. induction l as [|x r IH]; intros ts Hok H; cbn in *.
  - inversion H. reflexivity.
  - apply andb_prop in Hok. destruct Hok as [Ho Hr].
    destruct (dec x) as [t|] eqn:Hd; [|discriminate]. destruct (mapM dec r) as [tr|] eqn:Hm; [|discriminate].
    inversion H; subst. cbn. rewrite (Hx _ _ Ho Hd), (IH _ Hr eq_refl). reflexivity.
Qed.

Lemma typedid_elem_reparse : forall x t,
  elem_ok tid_names x = true -> dec_typedid x = Some t -> dec_typedid (enc_sstruct t) = Some t.
Proof.
  intros x t Hok H. destruct x; cbn in H; try discriminate.
  - inversion H; subst. pose proof with_id_tid_reparse as W. unfold enc_sstruct in *. cbn [dec_typedid]. exact W.
  - pose proof (typedid_reparse _ _ Hok H) as W. unfold enc_sstruct in *. cbn [dec_typedid]. exact W.
Qed.

Lemma enc_sstruct_obj : forall s, exists m, enc_sstruct s = JObj m.
Proof. intros. eexists. reflexivity. Qed.

(* termsOfUse / refreshService *)
Lemma typedids_reparse : forall o l,
  objs_ok tid_names o = true -> dec_typedids o = Some l -> dec_typedids (enc_list enc_sstruct l) = Some l.
Proof.
  intros o l Hok H.
  assert (Hl: exists xs, forallb (elem_ok tid_names) xs = true /\ mapM dec_typedid xs = Some l).
  { destruct o as [j|]; cbn [dec_typedids dec_schemas] in H.
    - destruct j as [| b | z | s0 | l0 | m0]; cbn [dec_typedids dec_typedid dec_schemas option_map objs_ok elem_ok] in H, Hok.
      + inversion H; subst. exists [JNull]. split; reflexivity.
      + discriminate.
      + discriminate.
      + discriminate.
      + exists l0. split; assumption.
      + destruct (dec_sstruct typedID_fields m0) as [t|] eqn:Hd; cbn [option_map] in H; inversion H; subst.
        exists [JObj m0]. split; [cbn [forallb elem_ok]; rewrite Hok; reflexivity|cbn [mapM dec_typedid]; rewrite Hd; reflexivity].
    - inversion H; subst. exists []. split; reflexivity. }
  destruct Hl as [xs [Hxs Hm]].
  pose proof (mapM_reparse dec_typedid enc_sstruct (elem_ok tid_names) typedid_elem_reparse xs l Hxs Hm) as Hr.
  destruct l as [|a [|b r]]; cbn [enc_list].
  - reflexivity.
  - cbn [map mapM] in Hr. destruct (dec_typedid (enc_sstruct a)) eqn:E; [|discriminate]. inversion Hr; subst.
    destruct (enc_sstruct_obj a) as [ma Ha]. rewrite Ha in *. cbn [dec_typedids]. rewrite E. reflexivity.
  - cbn [dec_typedids]. exact Hr.
Qed.

(* credentialSchema *)
Lemma schemas_reparse : forall o l,
  objs_ok tid_names o = true -> dec_schemas o = Some l -> dec_schemas (enc_schemas l) = Some l.
Proof.
  intros o l Hok H.
  assert (Hl: exists xs, forallb (elem_ok tid_names) xs = true /\ mapM dec_typedid xs = Some l).
  { destruct o as [j|]; cbn [dec_typedids dec_schemas] in H.
    - destruct j as [| b | z | s0 | l0 | m0]; cbn [dec_typedids dec_typedid dec_schemas option_map objs_ok elem_ok] in H, Hok.
      + inversion H; subst. exists []. split; reflexivity.
      + discriminate.
      + discriminate.
      + discriminate.
      + exists l0. split; assumption.
      + destruct (dec_sstruct typedID_fields m0) as [t|] eqn:Hd; cbn [option_map] in H; inversion H; subst.
        exists [JObj m0]. split; [cbn [forallb elem_ok]; rewrite Hok; reflexivity|cbn [mapM dec_typedid]; rewrite Hd; reflexivity].
    - inversion H; subst. exists []. split; reflexivity. }
  destruct Hl as [xs [Hxs Hm]].
  pose proof (mapM_reparse dec_typedid enc_sstruct (elem_ok tid_names) typedid_elem_reparse xs l Hxs Hm) as Hr.
  destruct l as [|a r]; [reflexivity|]. cbn [enc_schemas dec_schemas]. exact Hr.
Qed.

(* proof *)
Lemma proof1_reparse : forall x p, dec_proof1 x = Some p -> dec_proof1 (enc_proof1 p) = Some p.
Proof.
  intros x p H. destruct x; cbn in H; inversion H; subst; cbn; [reflexivity|]. rewrite f64o_idem. reflexivity.
Qed.

Lemma proofs_reparse : forall o l, dec_proofs o = Some l -> dec_proofs (enc_list enc_proof1 l) = Some l.
Proof.
  intros o l H.
  assert (Hl: exists xs, mapM dec_proof1 xs = Some l).
  { destruct o as [j|]; cbn [dec_proofs] in H.
    - destruct j; cbn [dec_proofs dec_proof1 option_map] in H; try discriminate.
      + inversion H; subst. exists [JNull]. reflexivity.
      + exists l0. exact H.
      + inversion H; subst. exists [JObj m]. reflexivity.
    - inversion H; subst. exists []. reflexivity. }
  destruct Hl as [xs Hm].
  pose proof (mapM_reparse dec_proof1 enc_proof1 (fun _ => true) (fun x t _ Hd => proof1_reparse x t Hd) xs l
                (proj2 (forallb_forall _ _) (fun _ _ => eq_refl)) Hm) as Hr.
  destruct l as [|a [|b r]]; cbn [enc_list].
  - reflexivity.
  - cbn [map mapM] in Hr. destruct (dec_proof1 (enc_proof1 a)) eqn:E; [|discriminate]. inversion Hr; subst.
    destruct a as [ma|]; cbn [enc_proof1 dec_proofs option_map] in *; rewrite E; reflexivity.
  - cbn [dec_proofs]. exact Hr.
Qed.

(* ---------- credentialSubject ---------- *)
Lemma subject1_reparse : forall x t,
  elem_ok id_names x = true -> dec_subject1 x = Some t -> dec_subject1 (enc_sstruct t) = Some t.
Proof.
  intros x t Hok H. destruct x; cbn [dec_subject1] in H; try discriminate.
  - inversion H; subst. change subject_fields with id_fields.
    pose proof (with_id_reparse "") as W. destruct (enc_sstruct_obj (with_id id_fields "")) as [m' Hm].
    rewrite Hm in *. cbn [dec_subject1]. exact W.
  - inversion H; subst. change subject_fields with id_fields.
    pose proof (with_id_reparse s) as W. destruct (enc_sstruct_obj (with_id id_fields s)) as [m' Hm].
    rewrite Hm in *. cbn [dec_subject1]. exact W.
  - change subject_fields with id_fields in H.
    pose proof (sid_reparse _ _ Hok H) as W. destruct (enc_sstruct_obj t) as [m' Hm]. rewrite Hm in *. cbn [dec_subject1]. exact W.
Qed.

Lemma subject_reparse : forall o s,
  objs_ok id_names o = true -> dec_subject Fixed o = Some s -> dec_subject Fixed (enc_subject s) = Some s.
Proof.
  intros o s Hok H. destruct o as [j|]; cbn [dec_subject] in H.
  - destruct j as [| b | z | s0 | l0 | m0]; cbn [dec_subject objs_ok elem_ok] in H, Hok; try discriminate.
    + inversion H; subst. reflexivity.
    + inversion H; subst. reflexivity.
    + destruct (mapM dec_subject1 l0) as [ts|] eqn:Hm; cbn [option_map] in H; inversion H; subst.
      pose proof (mapM_reparse dec_subject1 enc_sstruct (elem_ok id_names) subject1_reparse l0 ts Hok Hm) as Hr.
      destruct ts as [|a [|b r]]; cbn [enc_subject].
      * reflexivity.
      * cbn [map mapM] in Hr. destruct (dec_subject1 (enc_sstruct a)) eqn:E; [|discriminate]. inversion Hr; subst.
        destruct (enc_sstruct_obj a) as [ma Ha]. rewrite Ha in *. cbn [dec_subject dec_subject1] in *. rewrite E. reflexivity.
      * cbn [dec_subject]. rewrite Hr. reflexivity.
    + destruct (dec_sstruct subject_fields m0) as [x|] eqn:Hd; cbn [option_map] in H; inversion H; subst.
      change subject_fields with id_fields in *.
      pose proof (sid_reparse _ _ Hok Hd) as W. cbn [enc_subject]. destruct (enc_sstruct_obj x) as [mx Hx]. rewrite Hx in *.
      cbn [dec_subject]. change subject_fields with id_fields. rewrite W. reflexivity.
  - inversion H; subst. reflexivity.
Qed.

(* ---------- issuer ---------- *)
Definition issuer_out (s : sstruct) : option json :=
  match issuer_member Fixed s with (_, v) :: _ => Some v | [] => None end.

Lemma sstruct_eta : forall s kn, s_known s = kn -> s_cf s = [] -> s = {| s_known := kn; s_cf := [] |}.
Proof. intros [k c] kn H1 H2. cbn in *. subst. reflexivity. Qed.

Lemma with_id_issuer_out : forall i, dec_issuer (issuer_out (with_id issuer_fields i)) = Some (with_id issuer_fields i).
Proof. intros i. destruct i as [|c r]; vm_compute; reflexivity. Qed.

Lemma issuer_reparse : forall o s,
  objs_ok id_names o = true -> dec_issuer o = Some s -> dec_issuer (issuer_out s) = Some s.
Proof.
  intros o s Hok H. destruct o as [j|]; cbn [dec_issuer] in H.
  - destruct j as [| b | z | s0 | l0 | m0]; cbn [dec_issuer objs_ok elem_ok] in H, Hok; try discriminate;
      try (inversion H; subst; apply with_id_issuer_out).
    change issuer_fields with id_fields in *.
    destruct (dec_sstruct id_fields m0) as [x|] eqn:Hd; [|discriminate].
    destruct (id_of x =? "") eqn:Hid; [discriminate|]. inversion H; subst x; clear H.
    pose proof (sid_reparse _ _ Hok Hd) as W. pose proof (sid_id_of _ _ Hd) as Hk.
    unfold issuer_out, issuer_member, enc_issuer. destruct (s_cf s) as [|c0 cr] eqn:Hcf.
    + rewrite Hid. cbn [dec_issuer]. f_equal. rewrite (sstruct_eta s _ Hk Hcf). reflexivity.
    + destruct (enc_sstruct_obj s) as [ms Hs]. rewrite Hs in *. cbn [dec_issuer]. change issuer_fields with id_fields.
      rewrite W, Hid. reflexivity.
  - inversion H; subst. apply with_id_issuer_out.
Qed.

(* ---------- credentialStatus, dates, evidence ---------- *)
Lemma status_reparse : forall o t,
  objs_ok tid_names o = true -> dec_status o = Some t -> dec_status (option_map enc_sstruct t) = Some t.
Proof.
  intros o t Hok H. destruct o as [j|]; cbn [dec_status] in H.
  - destruct j as [| b | z | s0 | l0 | m0]; cbn [dec_status objs_ok elem_ok] in H, Hok; try discriminate.
    + inversion H; subst. reflexivity.
    + destruct (dec_sstruct typedID_fields m0) as [x|] eqn:Hd; cbn [option_map] in H; inversion H; subst.
      pose proof (typedid_reparse _ _ Hok Hd) as W. cbn [option_map]. destruct (enc_sstruct_obj x) as [mx Hx]. rewrite Hx in *.
      cbn [dec_status]. rewrite W. reflexivity.
  - inversion H; subst. reflexivity.
Qed.

Lemma time_reparse : forall t, dec_time (option_map JStr t) = Some t.
Proof. intros [s|]; reflexivity. Qed.

Lemma iface_reparse : forall o, dec_iface (dec_iface o) = dec_iface o.
Proof.
  intros [j|]; [|reflexivity]. destruct j; cbn; try reflexivity.
  - rewrite f64round_idem. reflexivity.
  - pose proof (f64j_idem (JArr l)) as H. cbn in H. rewrite H. reflexivity.
  - pose proof (f64j_idem (JObj m)) as H. cbn in H. rewrite H. reflexivity.
Qed.
