(* C16 — lemmas: DID service key references and custom properties *)
From Coq Require Import List String Ascii ZArith NArith Bool Lia.
Import ListNotations.
From VF Require Import C16.Model C16.Proofs C16.ProofsA.
Open Scope string_scope.
Open Scope list_scope.

(* the table answers with the flag of the last entry for the key *)
Lemma tbl_get_fold : forall (t : list (string * bool)) (k : string) (acc b : bool),
  (forall e, In e t -> fst e = k -> snd e = b) ->
  (acc = b \/ exists e, In e t /\ fst e = k) ->
  fold_left (fun (acc : bool) (e : string * bool) => if fst e =? k then snd e else acc) t acc = b.
Proof.
  induction t as [|e r IH]; intros k acc b Hall Hex; cbn.
  - destruct Hex as [H|[e [[] _]]]. exact H.
  - apply IH.
    + intros e' Hi. apply Hall. cbn. auto.
    + destruct (fst e =? k) eqn:E.
      * left. apply String.eqb_eq in E. apply Hall; [cbn; auto|exact E].
      * destruct Hex as [H|[e' [[H|H] Hk]]]; [left; exact H| |right; exists e'; auto].
        subst e'. apply String.eqb_neq in E. contradiction.
Qed.

(* spellings are consistent: references to one key are all relative or all absolute *)
Definition consistent (did base : string) (keys : list string) : Prop :=
  forall a b, In a keys -> In b keys -> abs_id did base a = abs_id did base b -> starts_hash a = starts_hash b.

Lemma key_refs_roundtrip : forall did base keys,
  consistent did base keys ->
  out_keys did base (map (abs_id did base) keys) (key_table did base keys) = keys.
Proof.
  intros did base keys Hc. unfold out_keys. rewrite map_map.
  rewrite <- (map_id keys) at 2. apply map_ext_in. intros v Hv.
  assert (Ht: tbl_get (key_table did base keys) (abs_id did base v) = starts_hash v).
  { unfold tbl_get, key_table. apply tbl_get_fold.
    - intros e Hi Hk. apply in_map_iff in Hi. destruct Hi as [w [Hw Hin]]. subst e. cbn in *. apply (Hc w v Hin Hv Hk).
    - right. exists (abs_id did base v, starts_hash v). split; [apply in_map_iff; exists v; auto|reflexivity]. }
  rewrite Ht. unfold abs_id. destruct (starts_hash v) eqn:E; [apply make_rel_resolve|reflexivity].
Qed.

(* custom properties of a service *)
Lemma service_custom_member : forall did base m k,
  ~ In k service_typed_keys -> lookup (roundtrip_service did base m) k = option_map f64j (lookup m k).
Proof.
  intros did base m k Hk. unfold roundtrip_service. rewrite lookup_app, lookup_f64o.
  rewrite (lookup_filter (fun x => negb (mem x service_typed_keys))).
  assert (Hm: mem k service_typed_keys = false).
  { destruct (mem k service_typed_keys) eqn:E; [|reflexivity]. exfalso. apply Hk.
    unfold mem in E. apply existsb_exists in E. destruct E as [x [Hx He]]. apply String.eqb_eq in He. subst. exact Hx. }
  rewrite Hm. cbn [negb]. destruct (lookup m k) eqn:El; cbn [option_map]; [reflexivity|].
  (* not among the typed members written after the properties *)
  assert (Hn: forall s, In s service_typed_keys -> (k =? s) = false).
  { intros s Hs. apply String.eqb_neq. intro; subst. contradiction. }
  cbn [app lookup]. rewrite !Hn by (cbn; tauto).
  destruct (lookup m "priority") as [[]|]; cbn [app lookup]; rewrite ?Hn by (cbn; tauto);
    destruct (str_array (lookup m "recipientKeys")); cbn [app lookup]; rewrite ?Hn by (cbn; tauto);
    destruct (str_array (lookup m "routingKeys")); cbn [app lookup]; rewrite ?Hn by (cbn; tauto); reflexivity.
Qed.

(* the service id keeps its spelling *)
Lemma service_id_kept : forall did base m,
  lookup (filter (fun kv => mem (fst kv) ["id"]) (roundtrip_service did base m)) "id" = Some (JStr (str_entry (lookup m "id"))).
Proof.
  intros did base m. unfold roundtrip_service.
  rewrite filter_app. rewrite lookup_app.
  assert (H0: lookup (filter (fun kv : string * json => mem (fst kv) ["id"]) (f64o (filter (fun kv => negb (mem (fst kv) service_typed_keys)) m))) "id" = None).
  { rewrite (lookup_filter (fun x => mem x ["id"])). cbn [mem existsb String.eqb Ascii.eqb Bool.eqb orb].
    rewrite lookup_f64o, (lookup_filter (fun x => negb (mem x service_typed_keys))). reflexivity. }
  rewrite H0. cbn [app filter fst mem existsb String.eqb Ascii.eqb Bool.eqb orb lookup].
  destruct (starts_hash (str_entry (lookup m "id"))); [rewrite make_rel_resolve|]; reflexivity.
Qed.
