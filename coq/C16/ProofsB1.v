(* C16 — lemmas: f64j idempotent, case-insensitive member lookup on clean objects *)
From Coq Require Import List String Ascii ZArith NArith Bool Lia.
Import ListNotations.
From VF Require Import C16.Model C16.Proofs C16.ProofsF.
Open Scope string_scope.
Open Scope list_scope.

(* ---------- f64j idempotent ---------- *)
Lemma f64j_idem : forall j, f64j (f64j j) = f64j j.
Proof.
  induction j using json_ind'; cbn; try reflexivity.
  - rewrite f64round_idem. reflexivity.
  - f_equal. rewrite map_map. apply map_ext_in. intros x Hx. rewrite Forall_forall in H. apply H. exact Hx.
  - f_equal. rewrite map_map. apply map_ext_in. intros [k x] Hx. cbn. f_equal.
    rewrite Forall_forall in H. apply (H (k, x)). exact Hx.
Qed.

Lemma f64o_idem : forall m, f64o (f64o m) = f64o m.
Proof. intros m. unfold f64o. rewrite map_map. apply map_ext. intros [k v]. cbn. rewrite f64j_idem. reflexivity. Qed.

Lemma f64o_app : forall a b, f64o (a ++ b) = f64o a ++ f64o b.
Proof. intros. unfold f64o. apply map_app. Qed.

Lemma f64o_filter : forall (p : string -> bool) m,
  f64o (filter (fun kv => p (fst kv)) m) = filter (fun kv => p (fst kv)) (f64o m).
Proof.
  unfold f64o. induction m as [|[k v] r IH]; cbn; [reflexivity|]. destruct (p k); cbn; rewrite IH; reflexivity.
Qed.

Lemma f64_null : forall j, is_null (f64j j) = is_null j.
Proof. destruct j; reflexivity. Qed.

(* ---------- case-insensitive lookup on clean objects ---------- *)
Definition clean (names : list string) (m : obj) : bool := nodupb (keys m) && ci_clean names m.

Lemma mem_in : forall k l, mem k l = true <-> In k l.
Proof.
  induction l as [|a r IH]; cbn; [split; [discriminate|tauto]|].
  destruct (String.eqb k a) eqn:E; cbn.
  - apply String.eqb_eq in E. subst. split; auto.
  - rewrite IH. apply String.eqb_neq in E. split; [auto|intros [H|H]; [congruence|auto]].
Qed.

Lemma lk_none : forall names m k, ci_clean names m = true -> In k names -> ~ In k (keys m) -> lk m k = None.
Proof.
  induction m as [|[k' v] r IH]; intros k Hc Hin Hn; cbn; [reflexivity|].
  cbn in Hc. apply andb_prop in Hc. destruct Hc as [Hh Hr].
  rewrite IH; [|exact Hr|exact Hin|intro Hi; apply Hn; cbn; auto].
  rewrite forallb_forall in Hh. specialize (Hh k Hin). cbn in Hh.
  destruct (String.eqb k' k) eqn:E.
  - apply String.eqb_eq in E. subst. exfalso. apply Hn. cbn. auto.
  - cbn in Hh. apply negb_true_iff in Hh. rewrite Hh. reflexivity.
Qed.

Lemma lk_clean : forall names m k, clean names m = true -> In k names -> lk m k = lookup m k.
Proof.
  unfold clean. induction m as [|[k' v] r IH]; intros k Hc Hin; cbn; [reflexivity|].
  apply andb_prop in Hc. destruct Hc as [Hnd Hc]. cbn in Hnd, Hc.
  apply andb_prop in Hnd. destruct Hnd as [Hk' Hnd]. apply andb_prop in Hc. destruct Hc as [Hh Hr].
  destruct (String.eqb k k') eqn:E.
  - apply String.eqb_eq in E. subst k'.
    rewrite (lk_none names r k Hr Hin).
    + rewrite String.eqb_refl. reflexivity.
    + intro Hi. apply mem_in in Hi. unfold keys in Hi. rewrite Hi in Hk'. discriminate.
  - rewrite IH by (try (apply andb_true_intro; split); assumption).
    destruct (lookup r k); [reflexivity|].
    rewrite forallb_forall in Hh. specialize (Hh k Hin). cbn in Hh.
    rewrite String.eqb_sym in E. rewrite E in Hh. cbn in Hh. apply negb_true_iff in Hh. rewrite Hh. reflexivity.
Qed.
