(* C12 — property theorems for the EDV REST configuration.  The model ([rstep]/[rlog], coq/C12/Rest.v) is
   edv.RESTProvider (restprovider.go + restclient.go: standard endpoints, WithFullDocumentsReturnedFromQueries,
   WithBatchEndpointExtension, deterministic and random document ids) together with the vault server it talks to; the
   log holds every request the server receives (document bodies, ids in URLs, query filters, batch operations).  The same
   [rstep] is what the correspondence (Corr.check_case, RestCase) runs against the requests recorded by the in-process
   vault server of the harness. *)
From Coq Require Import List NArith Bool.
Import ListNotations.
From VF Require Import C11.Model C12.Model C12.Proofs C12.Rest C12.RestProofs.
Local Open Scope N_scope.

(* FULL STATEMENT (secrecy against the vault server).  For every formatter configuration and every combination of the
   provider's options, every history of Put / Get / GetTags / GetBulk / Query (any disjunction of conjunctions of name and
   name:value criteria, any options) / Delete / Batch (batch endpoint or standard endpoints) / Flush / Close+Open /
   SetStoreConfig / GetStoreConfig of any length, and a server that sees EVERY request (URL ids, bodies, filters) and owns
   any MAC keys and private keys other than the configured ones: no application key, value, tag name or tag value — nor a
   fragment of one split at ':' — is derivable. *)
Theorem rest_no_plaintext_leak : forall (rc : rcfg) (ops : list rop) (others : list term) (cl : cls) (n : N),
  foreign_keys (r_f rc) others -> ~ derivable (others ++ rlog_terms (rlog rc ops)) (App cl n).
Proof. intros rc ops others cl n Hk HD. apply (rsecrecy rc ops others _ Hk) in HD. discriminate. Qed.
Print Assumptions rest_no_plaintext_leak.

Theorem rest_no_key_leak : forall (rc : rcfg) (ops : list rop) (others : list term),
  foreign_keys (r_f rc) others ->
  ~ derivable (others ++ rlog_terms (rlog rc ops)) (MacKey (f_mac (r_f rc))) /\
  ~ derivable (others ++ rlog_terms (rlog rc ops)) (Priv (f_rcp (r_f rc))) /\
  forall n, ~ derivable (others ++ rlog_terms (rlog rc ops)) (Cek n).
Proof.
  intros rc ops others Hk. split; [|split; [|intro n]]; intro HD; apply (rsecrecy rc ops others _ Hk) in HD;
    cbn in HD; rewrite ?N.eqb_refl in HD; discriminate.
Qed.
Print Assumptions rest_no_key_leak.

(* the same from ANY vault content that earlier histories (under the same keys) may have left on the server *)
Theorem rest_no_plaintext_leak_from_any_state :
  forall (rc : rcfg) (s : rst) (ops : list rop) (others : list term) (cl : cls) (n : N),
  rinv (r_f rc) s -> foreign_keys (r_f rc) others ->
  ~ derivable (others ++ rlog_terms (flat_map snd (snd (rrun rc s ops)))) (App cl n).
Proof. intros rc s ops others cl n Hi Hk HD. apply (rsecrecy_from rc s ops others _ Hi Hk) in HD. discriminate. Qed.
Print Assumptions rest_no_plaintext_leak_from_any_state.

(* structural form: every term of every request is an output of the formatter *)
Theorem rest_all_requests_formatted : forall (rc : rcfg) (ops : list rop) (t : term),
  In t (rlog_terms (rlog rc ops)) -> ok (r_f rc) t = true.
Proof. exact rlog_ok. Qed.
Print Assumptions rest_all_requests_formatted.

(* OBSERVATION on the code as it is (not a secrecy matter).  With random document ids and the batch endpoint a Batch
   that creates a NEW document formats it with key "" (restprovider.go createVaultUpsertOperationUsingNewDocumentID:
   format(r.name, "", ...)): the stored document does not embed the caller's key, so a later Query iterates it with
   Key() = "" and hands the internal key tag to the application.  The model follows the code; confirmed by the
   correspondence on every run (corpus/C12/rest-batch-new-document-empty-key.json). *)
Definition rc_rand_batch : rcfg := {| r_f := {| f_det := false; f_mac := 0; f_rcp := 0 |}; r_full := true; r_batch := true |}.
Theorem rest_batch_embeds_callers_key_refuted :
  let ops := [RS (Batch [(1, 1, [(1, 1)])]); RS (Query [(1, 1)])] in
  map fst (snd (rrun rc_rand_batch rst0 ops)) = [ODone; OQuery [(0, (1, [(1, 1); (0, 1)]))]] /\
  map fst (snd (rrun rc_rand_batch rst0 [RS (Put 1 1 [(1, 1)]); RS (Query [(1, 1)])])) = [ODone; OQuery [(1, (1, [(1, 1)]))]].
Proof. vm_compute. split; reflexivity. Qed.
Print Assumptions rest_batch_embeds_callers_key_refuted.

(* ---------- non-vacuity ---------- *)
Definition rdemo : list rop :=
  [RSetCfg [1; 2]; RS (Put 1 1 [(1, 1)]); RS (Put 1 1 [(1, 1)]); RQuery [[(1, 1)]; [(2, 0); (1, 2)]] [QPage 3];
   RS (Batch [(1, 0, []); (1, 2, [(2, 0)]); (2, 1, [(9, 1)])]); RS (Delete 2); RGetCfg; RS (GetBulk [1; 2]); RQuery [[(9, 0)]] []].
Definition rc_of (det full batch : bool) : rcfg := {| r_f := {| f_det := det; f_mac := 0; f_rcp := 0 |}; r_full := full; r_batch := batch |}.

Example rdemo_reaches_server :
  map (fun rc => length (rlog rc rdemo))
      [rc_of true false false; rc_of true true true; rc_of false false false; rc_of false true true]
  = [18; 8; 19; 13]%nat.
Proof. vm_compute. reflexivity. Qed.

(* the server reads the index of what it stores, and the recipient key opens the value *)
Example rest_server_reads_index :
  derivable (rlog_terms (rlog (rc_of true false false) rdemo)) (Mac (MacKey 0) (pre (App CName 1))).
Proof.
  apply (d_dec _ 1). eapply d_fst. eapply d_fst. eapply d_fst. eapply d_snd.
  apply (d_known _ (rdoc (r_f (rc_of true false false)) 0 (rdet_id (r_f (rc_of true false false)) (tkey 1)) (tkey 1) (tval 1) [app_tag (1, 1)])).
  vm_compute. tauto.
Qed.

(* a request carrying the key tag with the key itself would be caught: the invariant is falsifiable *)
Example rest_plain_key_tag_not_formatted :
  rcall_ok (r_f rc_rand_batch) (HQuery [[(mac64 (r_f rc_rand_batch) (pre lit_empty), Enc 1 (tkey 1))]] None false) = false.
Proof. reflexivity. Qed.
